import SciVerif.Lemmas.C10
import SciVerif.Lemmas.C10c
import SciVerif.Lemmas.C10g
import SciVerif.Lemmas.C10i
import SciVerif.Lemmas.C10j
import SciVerif.Lemmas.C10k
import SciVerif.Lemmas.C10n
import SciVerif.Lemmas.C10p
import SciVerif.Lemmas.C10q
import SciVerif.Lemmas.C10r
import SciVerif.Facts.C10Table

/-!
# C10 — A molecular formula is decomposed into exactly its atoms

Property theorems only (helpers: `Lemmas/C10*.lean`; whole-table facts: `Facts/C10Table.lean`).

What is proved, and at which level:

* counts — for **every** formula AST (any nesting, any counts) the `Composite` operations
  `add/_add/_multiply`, applied as the solver applies them (`' + '`/juxtaposition ↦ `_add`,
  count / `' * n'` ↦ `_multiply`, parentheses ↦ the inner value), yield exactly the expansion of
  the formula, as an ordered dict (`C10_counts_partial`).  The remaining link of the full
  statement `C10_counts_statement` — that `preprocess` + tokenizer + the three solver steps turn
  the *text* `render f` into that evaluation — is the executable model `substanceOf`; it is
  validated against the real regexes/solver by correspondence on every run; inside the model it is
  PROVED for the explicit notation, for parenthesis-free formulas and for sequences of
  parenthesis-free units and (non-nested) parenthesised groups with counts
  (`C10_counts_text_…_partial`), not for nested groups in the short notation.
* species data — for every isotope of every element of the regenerated table and every charge
  number, `get_isotope` returns `N = A − Z`, `e = Z + q`, `mass = M + q·mₑ`; natural = abundance
  weighted mean; most abundant = first maximum.  Generic in the table (any well-formed table),
  instantiated with the live table whose well-formedness is checked by `decide +kernel`.
* totals, `+`, `*`.
-/
namespace SciVerif.C10

/-! ## Counts -/

/-- Full statement of the counting part of C10 (NOT proved as a whole, see the header): for
    every well-formed formula whose species the element parser accepts, the substance parsed
    from the rendered text has exactly the expanded counts. -/
def C10_counts_statement : Prop :=
  ∀ (valid : Str → Bool) (f : F), f.wf = true →
    (∀ k ∈ speciesOf f, valid k = true ∧ isSpeciesText k = true) →
    substanceOf valid (render f) = some ((expand f).map fun kn => (kn.1, (kn.2 : Rat)))

/-- Proved part: evaluating the formula with the `Composite` operations gives exactly its
    expansion — same species, in order of first occurrence, each with the expanded count.
    Holds over every semiring of proportions (the driver uses `Rat`). -/
theorem C10_counts_partial {α : Type} [Semiring α] (f : F) :
    (evalF f : Comps α) = (expand f).map fun kn => (kn.1, (kn.2 : α)) := by
  rw [eq_of_keys_cget (evalF f) (nodup_evalF f), keys_evalF, expand, List.map_map]
  apply List.map_congr_left
  intro k _
  simp only [Function.comp]
  rw [cget_eq_total _ _ (nodup_evalF f), total_evalF]

/-- Solver level (proved): the generic expression solver with the operator table
    `{par '(' , mul ' * ', add ' + '}` and the steps par(ARGS), mul(BINARY), add(BINARY) —
    tokenizer, `OperatorPar` argument scan with nested solves, the three passes — applied to the
    *explicit* solver text of any well-formed formula returns the substance whose components
    are exactly the expansion of the formula.  Species texts are arbitrary strings of plain
    characters (no blank, parenthesis, comma; not starting with a digit) that `Element` accepts;
    any sufficient fuel. -/
theorem C10_solver_partial (valid : Str → Bool) (f : F) (hwf : f.wf = true)
    (hs : f.spAll (SpeciesOK valid)) (fuel : Nat) (hfuel : (renderExplicit f).length + 1 ≤ fuel) :
    solveAux valid fuel [] (renderExplicit f) [] =
      some (.sub ((expand f).map fun kn => (kn.1, (kn.2 : Rat)))) := by
  rw [(solve_explicit_aux valid f (wf_factorOK f hwf) hs).2 fuel hfuel, C10_counts_partial]

/-- The remaining link of the text-level statement.  PROVED for parenthesis-free formulas
    (`C10_preprocess_partial`, including the order-independence of the pass-1 fixed point over
    merged capital runs), for sequences of parenthesis-free units and parenthesised
    parenthesis-free groups with optional counts (`C10_preprocess_units_partial`; special cases
    `C10_preprocess_group_partial`, `C10_preprocess_chain_group_partial`) and for explicit text
    (`preprocess_explicit`).  NOT proved: NESTED groups in the short notation — there the rewriting of `X (`, `)n X`, `)n (` by passes
    3 and 4 (their look-behind run `[^*+(\s]*` / look-ahead `[^+*)\s]*` crosses item boundaries)
    and the interplay of passes 1 and 2 with text inside and next to groups — and a trailing
    explicit ` * n` mixed into the short notation.  Evaluated by the driver on every generated
    formula; the scanners are compared with the real regexes on every run. -/
def C10_preprocess_statement : Prop :=
  ∀ (f : F), f.wf = true → (∀ k ∈ speciesOf f, isSpeciesText k = true) →
    preprocess (render f) = renderExplicit f

/-- Text level, conditional on that one link: if `preprocess` turns the rendered formula into its
    explicit text, then `Substance(render f).components` is exactly the expansion. -/
theorem C10_counts_text_partial (valid : Str → Bool) (f : F) (hwf : f.wf = true)
    (hs : f.spAll (SpeciesOK valid)) (hpre : preprocess (render f) = renderExplicit f)
    (hne : render f ≠ []) :
    substanceOf valid (render f) = some ((expand f).map fun kn => (kn.1, (kn.2 : Rat))) := by
  have he : (render f).isEmpty = false := by
    cases h : render f with
    | nil => exact absurd h hne
    | cons a t => rfl
  simp only [substanceOf, he, solveStr, hpre]
  rw [C10_solver_partial valid f hwf hs _ (by omega)]
  simp

/-- TEXT level, unconditional, for the documented *explicit* notation (`Na{23} + Cl`,
    `O{17-1} * 3`, parentheses): for every well-formed formula of any nesting depth whose species
    have the documented shape (one capital with an optional small letter, or `[p] [n] [e]`,
    optional `{…}` suffix) and are accepted by `Element`, the whole pipeline
    `Substance(text)` — the four preprocess scanners, tokenizer, `OperatorPar` scan with nested
    solves, par/mul/add passes, `Composite.add/_add/_multiply` — yields exactly the expansion. -/
theorem C10_counts_explicit_text_partial (valid : Str → Bool) (f : F) (hwf : f.wf = true)
    (hs : f.spAll fun s => SpeciesShape s ∧ valid s = true) :
    substanceOf valid (renderExplicit f) = some ((expand f).map fun kn => (kn.1, (kn.2 : Rat))) := by
  have hst : f.spAll SpeciesText := spAll_mono (fun s h => speciesText_of_shape s h.1) f hs
  have hok : f.spAll (SpeciesOK valid) :=
    spAll_mono (fun s h => speciesOK_of_text valid s (speciesText_of_shape s h.1) h.2) f hs
  have he : (renderExplicit f).isEmpty = false := by
    cases h : renderExplicit f with
    | nil => exact absurd h (renderExplicit_ne_nil f hst)
    | cons a t => rfl
  simp only [substanceOf, he, solveStr, preprocess_explicit f hst]
  rw [C10_solver_partial valid f hwf hok _ (by omega)]
  simp

/-- Proved fragment of `C10_preprocess_statement`: for every PARENTHESIS-FREE formula — species,
    species with counts, juxtaposition with any number of blanks (also none, so that single
    capitals merge into runs such as `CHON`), explicit ` + ` — the four passes of
    `SubstanceSolver.preprocess` rewrite the short notation into the explicit solver text.
    Pass 1 (the fixed point of single substitutions) is shown to resolve exactly one implicit
    addition per substitution whatever position the leftmost match picks (it depends on merged
    capital runs), so its fixed point is independent of the order. -/
theorem C10_preprocess_partial (f : F) (hf : f.flat) (hs : f.spAll SpeciesShape) :
    preprocess (render f) = renderExplicit f :=
  preprocess_flat f hf hs

/-- TEXT level, unconditional, SHORT notation, parenthesis-free formulas (`H2O`, `C2H5OH`,
    `NaCl`, `C{13}O2`, `H2 S O4`, `Na{23} + Cl`, …): `Substance(text)` through the whole modelled
    pipeline has exactly the expanded counts. -/
theorem C10_counts_text_flat_partial (valid : Str → Bool) (f : F) (hf : f.flat)
    (hs : f.spAll fun s => SpeciesShape s ∧ valid s = true) :
    substanceOf valid (render f) = some ((expand f).map fun kn => (kn.1, (kn.2 : Rat))) := by
  have hsh : f.spAll SpeciesShape := spAll_mono (fun s h => h.1) f hs
  have hok : f.spAll (SpeciesOK valid) :=
    spAll_mono (fun s h => speciesOK_of_text valid s (speciesText_of_shape s h.1) h.2) f hs
  have he : (render f).isEmpty = false := by
    cases h : render f with
    | nil => exact absurd h (render_flat_ne_nil f hf hsh)
    | cons a t => rfl
  simp only [substanceOf, he, solveStr, preprocess_flat f hf hsh]
  rw [(solve_explicit_aux valid f (flat_factorOK f hf) hok).2 _ (by omega), C10_counts_partial]
  simp

/-- A parenthesis ends a match of the species pattern of `preprocess` exactly as the end of the
    text does: for ANY text `w` and any continuation `s`, the greedy match at the head of `w(s` /
    `w)s` is the match at the head of `w` with the parenthesis and `s` appended to the remainder.
    (Basis of all results about groups: pass 1 and pass 2 never look across a parenthesis.) -/
theorem C10_species_pattern_stops_at_paren (w s : Str) (e : Char) (he : e = '(' ∨ e = ')') :
    matchP (w ++ e :: s) =
      (matchP w).map fun q => (q.1, q.2.1, q.2.2.1, q.2.2.2.1, q.2.2.2.2 ++ e :: s) :=
  matchP_mark w s e (Mark.endc he)

/-- … hence one substitution of pass 1 (`re.sub(…, count=1)`) on `w` followed by a parenthesis acts
    inside `w` if it can, and otherwise behind the parenthesis — for ANY text `w`. -/
theorem C10_pass1_step_stops_at_paren (w s : Str) (e : Char) (he : e = '(' ∨ e = ')') :
    pass1Step (w ++ e :: s) =
      match pass1Step w with
      | some x => some (x ++ e :: s)
      | none => (pass1Step (e :: s)).map (w ++ ·) :=
  pass1Step_mark w s e he

/-- Further proved fragment of `C10_preprocess_statement`, SHORT notation WITH parentheses: one
    parenthesised group without or with a count — `(OH)2`, `(CH3)3`, `(C2H5 O)12`, `(Na{23} + Cl)` —
    whose inside is any parenthesis-free formula (species, counts, juxtaposition with any number of
    blanks incl. none, explicit ` + `).  All four passes: pass 1 reaches the fixed point of the
    inside without touching the parentheses, pass 2 rewrites the counts inside and leaves the
    group count, pass 3 leaves the leading `(`, pass 4 rewrites `)n` into `) * n`.
    Still missing for the full statement: several items/groups next to each other (`X (`, `)n X`,
    `)n (` in passes 3/4), nested groups, a trailing explicit ` * n`. -/
theorem C10_preprocess_group_partial (f : F) (hf : f.group1) (hs : f.spAll SpeciesShape) :
    preprocess (render f) = renderExplicit f :=
  preprocess_group1 f hf hs

/-- TEXT level, unconditional, SHORT notation, one parenthesised group with an optional count
    (`(OH)2`): `Substance(text)` through the whole modelled pipeline — four preprocess scanners,
    tokenizer, `OperatorPar` scan and nested solve, par/mul/add passes, `Composite` operations — has
    exactly the expanded counts. -/
theorem C10_counts_text_group_partial (valid : Str → Bool) (f : F) (hwf : f.wf = true) (hf : f.group1)
    (hs : f.spAll fun s => SpeciesShape s ∧ valid s = true) :
    substanceOf valid (render f) = some ((expand f).map fun kn => (kn.1, (kn.2 : Rat))) := by
  have hsh : f.spAll SpeciesShape := spAll_mono (fun s h => h.1) f hs
  have hok : f.spAll (SpeciesOK valid) :=
    spAll_mono (fun s h => speciesOK_of_text valid s (speciesText_of_shape s h.1) h.2) f hs
  refine C10_counts_text_partial valid f hwf hok (preprocess_group1 f hf hsh) ?_
  cases f with
  | group g => simp [render]
  | count f' n =>
    cases f' with
    | group g => simp [render]
    | _ => exact absurd hf (by simp [F.group1])
  | _ => exact absurd hf (by simp [F.group1])

/-- Further proved fragment of `C10_preprocess_statement`, the usual way groups occur in chemical
    formulas: a parenthesis-free formula (species, counts, any blanks, merged capital runs,
    explicit ` + `), then ANY number of blanks (also none), then one parenthesised
    parenthesis-free group without or with a count — `Ca(OH)2`, `Al2(SO4)3`, `Mg (NO3)2`,
    `Na{23} Cl (O H)12`.  Pass 1 is followed as a counted sequence of single substitutions: all
    substitutions left of the `(` happen first, then those inside the group, none across the
    parentheses; pass 2 rewrites the counts on both sides; pass 3 turns `X(` / `X  (` into
    `X + (` (its look-behind run starts inside the last species/count); pass 4 turns `)n` into
    `) * n`.  Still missing: text after a group (`)n X`, `)n (`), several groups, nested groups,
    an explicit ` + ` directly before `(`, a trailing explicit ` * n`. -/
theorem C10_preprocess_chain_group_partial (f : F) (hf : f.chainGroup) (hs : f.spAll SpeciesShape) :
    preprocess (render f) = renderExplicit f :=
  preprocess_chainGroup f hf hs

/-- TEXT level, unconditional, SHORT notation: formulas of the form chain + group (`Ca(OH)2`,
    `Al2 (SO4)3`) — `Substance(text)` through the whole modelled pipeline has exactly the
    expanded counts. -/
theorem C10_counts_text_chain_group_partial (valid : Str → Bool) (f : F) (hwf : f.wf = true)
    (hf : f.chainGroup) (hs : f.spAll fun s => SpeciesShape s ∧ valid s = true) :
    substanceOf valid (render f) = some ((expand f).map fun kn => (kn.1, (kn.2 : Rat))) := by
  have hsh : f.spAll SpeciesShape := spAll_mono (fun s h => h.1) f hs
  have hok : f.spAll (SpeciesOK valid) :=
    spAll_mono (fun s h => speciesOK_of_text valid s (speciesText_of_shape s h.1) h.2) f hs
  exact C10_counts_text_partial valid f hwf hok (preprocess_chainGroup f hf hsh)
    (render_chainGroup_ne_nil f hf hsh)

/-- Largest proved fragment of `C10_preprocess_statement` with parentheses: a SEQUENCE of units
    `u₁ ␣* u₂ ␣* … uₙ` (`F.units`, right-nested juxtapositions), each unit a parenthesis-free
    formula (species, counts, any blanks, merged capital runs, explicit ` + `) or a parenthesised
    parenthesis-free group without or with a count, separated by any number of blanks — also none:
    `(OH)2(CH3)3`, `Ca(OH)2 (H2O)6`, `(NH4)2SO4`, `(CH3)3COH`; `K4 (Fe (CN)6)`-like nesting excluded.
    All four passes on the whole text: pass 1 as a counted sequence of single substitutions, unit
    by unit from the left, never across a parenthesis; pass 2 per unit; pass 3 rewrites `X␣*(` and
    `)n␣*(` into `… + (`, and nothing else (its look-ahead from inside a group's last word runs over
    `)n` and the blanks, and for `)nX` the look-behind word spans `)n` and the first species of
    `X`); pass 4 rewrites `)n + (` into `) * n + (` and `)n␣*X` into `) * n + X` (its look-ahead
    run `[^+*)\s]*` ends inside the next unit).
    Units may also be joined by an explicit ` + ` (`(OH)2 + Na`, `Na{23} + (OH)2`).
    Still missing for the full statement: nested groups, a trailing explicit ` * n`
    (other AST shapes of the same texts: `C10_preprocess_units_tree_partial`). -/
theorem C10_preprocess_units_partial (f : F) (hf : f.units) (hs : f.spAll SpeciesShape) :
    preprocess (render f) = renderExplicit f :=
  (preprocess_units f hf hs).1

/-- TEXT level, unconditional, SHORT notation, sequences of parenthesis-free units and
    parenthesised groups with counts: `Substance(text)` through the whole modelled pipeline has
    exactly the expanded counts. -/
theorem C10_counts_text_units_partial (valid : Str → Bool) (f : F) (hwf : f.wf = true)
    (hf : f.units) (hs : f.spAll fun s => SpeciesShape s ∧ valid s = true) :
    substanceOf valid (render f) = some ((expand f).map fun kn => (kn.1, (kn.2 : Rat))) := by
  have hsh : f.spAll SpeciesShape := spAll_mono (fun s h => h.1) f hs
  have hok : f.spAll (SpeciesOK valid) :=
    spAll_mono (fun s h => speciesOK_of_text valid s (speciesText_of_shape s h.1) h.2) f hs
  exact C10_counts_text_partial valid f hwf hok (preprocess_units f hf hsh).1 (preprocess_units f hf hsh).2

/-- The same for ANY shape of the juxtaposition / ` + ` tree (`F.unitsT`: leaves are units, no two
    parenthesis-free units meet at a junction), e.g. the left-nested AST `(Ca (OH)2) (H2O)6` of the
    same text — so within this notation the result does not depend on how the AST is bracketed. -/
theorem C10_preprocess_units_tree_partial (f : F) (hf : f.unitsT) (hs : f.spAll SpeciesShape) :
    preprocess (render f) = renderExplicit f :=
  (preprocess_unitsT f hf hs).1

theorem C10_counts_text_units_tree_partial (valid : Str → Bool) (f : F) (hwf : f.wf = true)
    (hf : f.unitsT) (hs : f.spAll fun s => SpeciesShape s ∧ valid s = true) :
    substanceOf valid (render f) = some ((expand f).map fun kn => (kn.1, (kn.2 : Rat))) := by
  have hsh : f.spAll SpeciesShape := spAll_mono (fun s h => h.1) f hs
  have hok : f.spAll (SpeciesOK valid) :=
    spAll_mono (fun s h => speciesOK_of_text valid s (speciesText_of_shape s h.1) h.2) f hs
  exact C10_counts_text_partial valid f hwf hok (preprocess_unitsT f hf hsh).1 (preprocess_unitsT f hf hsh).2

/-- each species is counted exactly as often as it occurs in the expanded formula, and no
    species is listed twice -/
theorem C10_count_of_species {α : Type} [Semiring α] (f : F) (k : Str) :
    cget (evalF f : Comps α) k = (expandCount k f : α) ∧ (keys (evalF f : Comps α)).Nodup := by
  refine ⟨?_, nodup_evalF f⟩
  rw [cget_eq_total _ _ (nodup_evalF f), total_evalF]

/-- `Substance + Substance`: counts add, the result has no duplicate species, species appear in
    order of first occurrence -/
theorem C10_add {α : Type} [Semiring α] (a b : Comps α) (ha : (keys a).Nodup) (hb : (keys b).Nodup)
    (k : Str) :
    cget (cplus a b) k = cget a k + cget b k ∧ (keys (cplus a b)).Nodup ∧
      keys (cplus a b) = keys a ++ (keys b).filter (fun k => !(keys a).contains k) := by
  have hn : (keys (cplus a b)).Nodup :=
    nodup_foldl_cadd (fun kp => kp.2) _ _ (nodup_foldl_cadd (fun kp => kp.2) _ [] (by simp [keys]))
  refine ⟨?_, hn, keys_cplus a b ha hb⟩
  rw [cget_eq_total _ _ hn, total_cplus, cget_eq_total _ _ ha, cget_eq_total _ _ hb]

/-- `Substance * x`: every count is multiplied, species and their order are kept -/
theorem C10_mul {α : Type} [Semiring α] (a : Comps α) (ha : (keys a).Nodup) (x : α) (k : Str) :
    cget (cmul a x) k = cget a k * x ∧ keys (cmul a x) = keys a := by
  have hk := keys_cmul a x ha
  refine ⟨?_, hk⟩
  rw [cget_eq_total _ _ (by rw [hk]; exact ha), total_cmul, cget_eq_total _ _ ha]

/-! ## Composites as objects: operands are never changed -/

/-- In the object store (component objects in cells, `Composite.add` updating `proportion` in
    place), for a store without shared component objects: `a + b` creates a new composite whose
    dict is `_add`'s value, and **whatever is added to that sum afterwards** (`add()` any number of
    times), the operands `a`, `b` and every other composite read exactly as before, while the sum
    reads as the value semantics says. -/
theorem C10_frame (h : Heap) (hw : h.WF) (i j : Nat) (hi : i < h.nobj) (hj : j < h.nobj)
    (adds : Comps Rat) :
    let h' := (h.plus i j).addAll h.nobj adds
    h'.WF ∧ h'.read h.nobj = caddAll (cplus (h.read i) (h.read j)) adds ∧
      ∀ m, m ≠ h.nobj → h'.read m = h.read m := by
  obtain ⟨w, n, r, f⟩ := plus_spec h hw i j hi hj
  obtain ⟨w2, _, r2, f2⟩ := addAll_spec adds (h.plus i j) w h.nobj (by rw [n]; omega)
  exact ⟨w2, by rw [r2, r], fun m hm => by rw [f2 m hm, f m hm]⟩

/-- `add()` on one composite is `Composite.add` on its dict and changes no other composite;
    the store stays free of shared component objects. -/
theorem C10_store_add (h : Heap) (hw : h.WF) (i : Nat) (hi : i < h.nobj) (k : Str) (p : Rat) :
    (h.add i k p).WF ∧ (h.add i k p).read i = cadd (h.read i) k p ∧
      ∀ m, m ≠ i → (h.add i k p).read m = h.read m :=
  ⟨wf_add h hw i hi k p, read_add_self h hw i k p, fun m hm => read_add_other h hw i m hm k p⟩

/-! ## Per-species data -/

/-- `get_isotope` on any well-formed table: `N = A − Z`, `e = Z + q`, `mass = M + q·mₑ`
    (`isoRow` spells these out), for every element, isotope and charge number. -/
theorem C10_species_data_any_table (tbl : List Elem) (me : Rat) (h : TableWF tbl) (el : Elem)
    (hel : el ∈ tbl) (i : Iso) (hi : i ∈ el.isos) (hA : i.A ≠ 0) (q : Int) :
    getIsotope tbl me el.sym i.A q =
      some { NA := i.NA, mass := i.M + (q : Rat) * me, Z := el.Z,
             N := ((i.A : Int) - (el.Z : Int) : Int), e := ((el.Z : Int) + q : Int),
             iso := i.A, ion := q } :=
  getIsotope_spec tbl me h el hel i hi hA q

/-- … in particular for every tabulated isotope of the regenerated periodic table -/
theorem C10_species_data (el : Elem) (hel : el ∈ liveTable) (i : Iso) (hi : i ∈ el.isos) (q : Int) :
    getIsotope liveTable liveMe el.sym i.A q =
      some { NA := i.NA, mass := i.M + (q : Rat) * liveMe, Z := el.Z,
             N := ((i.A : Int) - (el.Z : Int) : Int), e := ((el.Z : Int) + q : Int),
             iso := i.A, ion := q } :=
  getIsotope_spec liveTable liveMe Facts.table_wellformed el hel i hi
    ((Facts.table_isotopes_found el hel).2 i hi).1 q

/-- The specification the harness judges the real classes against (`Model/C10Spec.lean`, written
    with `find?` directly over the table) and the model of `get_isotope` agree for an explicitly
    given isotope on **every** input — any table, symbol, mass number, charge; also where both fail. -/
theorem C10_spec_iso_eq_model (tbl : List Elem) (me : Rat) (nuc : Char → Option Rat) (natural : Bool)
    (sym : Str) (A : Nat) (hA : A ≠ 0) (q : Int) :
    Spec.speciesData tbl me nuc natural (.iso sym A q) =
      (getIsotope tbl me sym A q).map fun d => ⟨d.mass, d.Z, d.N, d.e⟩ :=
  spec_iso_eq_model tbl me nuc natural sym A hA q

/-- natural composition: every reported value is the abundance-weighted mean over the isotopes
    (whenever the abundances do not sum to zero; otherwise the code raises) -/
theorem C10_natural (el : Elem) (hel : el ∈ liveTable) (q : Int)
    (hw : sumR (el.isos.map (·.NA)) ≠ 0) :
    getNatural liveTable liveMe el.sym q =
      let ws := el.isos.map (·.NA)
      let avg := fun (v : Iso → Rat) => sumR (List.zipWith (· * ·) (el.isos.map v) ws) / sumR ws
      some { NA := sumR ws, mass := avg (fun i => i.M + (q : Rat) * liveMe), Z := avg (fun _ => el.Z),
             N := avg (fun i => (((i.A : Int) - (el.Z : Int) : Int) : Rat)),
             e := avg (fun _ => (((el.Z : Int) + q : Int) : Rat)), iso := avg (fun i => i.A), ion := q } :=
  getNatural_spec liveTable liveMe Facts.table_wellformed el hel
    (fun i hi => ((Facts.table_isotopes_found el hel).2 i hi).1) (Facts.table_isotopes_found el hel).1 q hw

/-- most abundant isotope: the data of the isotope at the *first* maximum of the abundances -/
theorem C10_abundant (el : Elem) (hel : el ∈ liveTable) (q : Int) :
    ∃ idx i, FirstMax (el.isos.map (·.NA)) idx ∧ el.isos[idx]? = some i ∧
      getAbundant liveTable liveMe el.sym q = some (isoRow liveMe el i q) := by
  obtain ⟨hne, hA⟩ := Facts.table_isotopes_found el hel
  obtain ⟨i0, t0, hcons⟩ := List.exists_cons_of_ne_nil hne
  have hsome : ∃ idx, argmax (el.isos.map (·.NA)) = some idx := by
    rw [hcons]; exact ⟨_, rfl⟩
  obtain ⟨idx, hidx⟩ := hsome
  have hfm := argmax_spec _ idx hidx
  obtain ⟨x, hx, _, _⟩ := hfm
  have hlt : idx < el.isos.length := by
    by_contra hc
    rw [List.getElem?_eq_none (by simpa using hc)] at hx
    cases hx
  refine ⟨idx, el.isos[idx], argmax_spec _ idx hidx, List.getElem?_eq_getElem hlt, ?_⟩
  have hmem : el.isos[idx] ∈ el.isos := List.getElem_mem hlt
  simp only [getAbundant, lookupElem_mem liveTable el Facts.table_wellformed.1 hel, hidx,
    List.getElem?_eq_getElem hlt]
  exact getIsotope_spec liveTable liveMe Facts.table_wellformed el hel _ hmem (hA _ hmem).1 q

/-! ## Totals -/

/-- the `sum` row of `data_composite`: total mass, proton, neutron and electron numbers are the
    count-weighted sums of the per-species data -/
theorem C10_totals (p : Rat) (d : EData) (rows : List (Rat × EData)) :
    totals [] = (0, 0, 0, 0) ∧
    totals ((p, d) :: rows) =
      (p * d.mass + (totals rows).1, p * d.Z + (totals rows).2.1,
       p * d.N + (totals rows).2.2.1, p * d.e + (totals rows).2.2.2) := by
  refine ⟨rfl, ?_⟩
  simp only [totals, List.map_cons, sumR_cons]

/-! ## Non-vacuity and instances -/

/-- `(OH)2(CH3)3` -/
def exF : F :=
  .seq 0 (.count (.group (.seq 0 (.sp ['O']) (.sp ['H']))) 2)
         (.count (.group (.seq 0 (.sp ['C']) (.count (.sp ['H']) 3))) 3)

example : exF.wf = true := by decide
example : render exF = "(OH)2(CH3)3".toList := by decide
example : expand exF = [(['O'], 2), (['H'], 11), (['C'], 3)] := by decide
/-- the model pipeline (preprocess scanners, tokenizer, solver steps) on this text -/
example : substanceOf (fun _ => true) (render exF) = some [(['O'], 2), (['H'], 11), (['C'], 3)] := by
  decide +kernel
example : ∃ el ∈ liveTable, el.sym = ['C'] ∧ el.isos.length = 3 := by decide +kernel
/-- the store hypotheses are satisfiable: two composites built from dicts in the empty store -/
example : ((Heap.empty.new [(['H'], 2), (['O'], 1)]).new [(['H'], 1)]).read 0 = [(['H'], 2), (['O'], 1)] := by
  decide +kernel
/-- the hypotheses of the text-level theorems are satisfiable: `(O + H) * 2 + (C + H * 3) * 3` -/
example : exF.spAll (fun s => SpeciesShape s ∧ (fun _ => true) s = true) := by
  have one : ∀ u : Char, isUp u = true → SpeciesShape [u] :=
    fun u hu => ⟨[u], [], by simp, Or.inl rfl, Or.inl ⟨u, hu, rfl⟩⟩
  exact ⟨⟨⟨one 'O' (by decide), rfl⟩, ⟨one 'H' (by decide), rfl⟩⟩,
    ⟨⟨one 'C' (by decide), rfl⟩, ⟨one 'H' (by decide), rfl⟩⟩⟩
example : String.ofList (renderExplicit exF) = "(O + H) * 2 + (C + H * 3) * 3" := by decide +kernel
/-- a parenthesis-free formula with a merged capital run: `C2H5OH` -/
def exFlat : F :=
  .seq 0 (.seq 0 (.seq 0 (.count (.sp ['C']) 2) (.count (.sp ['H']) 5)) (.sp ['O'])) (.sp ['H'])
example : exFlat.flat ∧ String.ofList (render exFlat) = "C2H5OH" ∧
    String.ofList (renderExplicit exFlat) = "C * 2 + H * 5 + O + H" := by
  refine ⟨⟨⟨⟨trivial, trivial⟩, trivial⟩, trivial⟩, by decide +kernel, by decide +kernel⟩

/-- the hypotheses of the group theorems are satisfiable: `(CH3)3`, expansion C3 H9 -/
def exGroup : F := .count (.group (.seq 0 (.sp ['C']) (.count (.sp ['H']) 3))) 3
example : exGroup.wf = true ∧ exGroup.group1 ∧ String.ofList (render exGroup) = "(CH3)3" ∧
    String.ofList (renderExplicit exGroup) = "(C + H * 3) * 3" ∧
    expand exGroup = [(['C'], 3), (['H'], 9)] :=
  ⟨by decide, ⟨trivial, trivial⟩, by decide +kernel, by decide +kernel, by decide +kernel⟩
example : exGroup.spAll (fun s => SpeciesShape s ∧ (fun _ => true) s = true) := by
  have one : ∀ u : Char, isUp u = true → SpeciesShape [u] :=
    fun u hu => ⟨[u], [], by simp, Or.inl rfl, Or.inl ⟨u, hu, rfl⟩⟩
  exact ⟨⟨one 'C' (by decide), rfl⟩, ⟨one 'H' (by decide), rfl⟩⟩
/-- the hypotheses of the chain + group theorems are satisfiable: `Al2 (SO4)3` ↦ Al2 S3 O12 -/
def exChainGroup : F :=
  .seq 1 (.count (.sp ['A', 'l']) 2) (.count (.group (.seq 0 (.sp ['S']) (.count (.sp ['O']) 4))) 3)
example : exChainGroup.wf = true ∧ exChainGroup.chainGroup ∧
    String.ofList (render exChainGroup) = "Al2 (SO4)3" ∧
    String.ofList (renderExplicit exChainGroup) = "Al * 2 + (S + O * 4) * 3" ∧
    expand exChainGroup = [(['A', 'l'], 2), (['S'], 3), (['O'], 12)] :=
  ⟨by decide, ⟨trivial, trivial, trivial⟩, by decide +kernel, by decide +kernel, by decide +kernel⟩
example : exChainGroup.spAll (fun s => SpeciesShape s ∧ (fun _ => true) s = true) := by
  have one : ∀ u : Char, isUp u = true → SpeciesShape [u] :=
    fun u hu => ⟨[u], [], by simp, Or.inl rfl, Or.inl ⟨u, hu, rfl⟩⟩
  exact ⟨⟨⟨['A', 'l'], [], by simp, Or.inl rfl, Or.inr (Or.inl ⟨'A', 'l', by decide, by decide, rfl⟩)⟩, rfl⟩,
    ⟨one 'S' (by decide), rfl⟩, ⟨one 'O' (by decide), rfl⟩⟩
/-- the hypotheses of the units theorems are satisfiable: `exF` = `(OH)2(CH3)3`, and
    `Ca(OH)2 (H2O)6 Cl` ↦ Ca O8 H14 Cl -/
example : exF.units := Or.inr ⟨Or.inr ⟨trivial, trivial⟩, Or.inr ⟨trivial, trivial⟩, by decide⟩
def exUnits : F :=
  .seq 0 (.sp ['C', 'a'])
    (.seq 1 (.count (.group (.seq 0 (.sp ['O']) (.sp ['H']))) 2)
      (.seq 1 (.count (.group (.seq 0 (.count (.sp ['H']) 2) (.sp ['O']))) 6) (.sp ['C', 'l'])))
example : exUnits.wf = true ∧ exUnits.units ∧
    String.ofList (render exUnits) = "Ca(OH)2 (H2O)6 Cl" ∧
    String.ofList (renderExplicit exUnits) = "Ca + (O + H) * 2 + (H * 2 + O) * 6 + Cl" ∧
    expand exUnits = [(['C', 'a'], 1), (['O'], 8), (['H'], 14), (['C', 'l'], 1)] :=
  ⟨by decide,
   Or.inr ⟨Or.inl trivial,
     Or.inr ⟨Or.inr ⟨trivial, trivial⟩,
       Or.inr ⟨Or.inr ⟨trivial, trivial⟩, Or.inl trivial, by decide⟩, by decide⟩,
     by decide⟩,
   by decide +kernel, by decide +kernel, by decide +kernel⟩
/-- `(NH4)2SO4`: a parenthesis-free unit directly after `)n`, capitals merging into the run `SO` -/
def exAmm : F :=
  .seq 0 (.count (.group (.seq 0 (.sp ['N']) (.count (.sp ['H']) 4))) 2)
    (.seq 0 (.sp ['S']) (.count (.sp ['O']) 4))
example : exAmm.wf = true ∧ exAmm.units ∧ String.ofList (render exAmm) = "(NH4)2SO4" ∧
    String.ofList (renderExplicit exAmm) = "(N + H * 4) * 2 + S + O * 4" ∧
    expand exAmm = [(['N'], 2), (['H'], 8), (['S'], 1), (['O'], 4)] :=
  ⟨by decide, Or.inr ⟨Or.inr ⟨trivial, trivial⟩, Or.inl ⟨trivial, trivial⟩, by decide⟩,
   by decide +kernel, by decide +kernel, by decide +kernel⟩
example : substanceOf (fun _ => true) (render exAmm) =
    some [(['N'], 2), (['H'], 8), (['S'], 1), (['O'], 4)] := by decide +kernel
/-- units joined by an explicit ` + `: `Fe + (OH)2 + Na` -/
def exPlus : F :=
  .plus (.sp ['F', 'e']) (.plus (.count (.group (.seq 0 (.sp ['O']) (.sp ['H']))) 2) (.sp ['N', 'a']))
example : exPlus.wf = true ∧ exPlus.units ∧ String.ofList (render exPlus) = "Fe + (OH)2 + Na" ∧
    String.ofList (renderExplicit exPlus) = "Fe + (O + H) * 2 + Na" :=
  ⟨by decide, Or.inr ⟨Or.inl trivial, Or.inr ⟨Or.inr ⟨trivial, trivial⟩, Or.inl trivial, by decide⟩, by decide⟩,
   by decide +kernel, by decide +kernel⟩
/-- a left-nested AST: `(Ca(OH)2) (H2O)6` -/
def exTree : F :=
  .seq 1 (.seq 0 (.sp ['C', 'a']) (.count (.group (.seq 0 (.sp ['O']) (.sp ['H']))) 2))
    (.count (.group (.seq 0 (.count (.sp ['H']) 2) (.sp ['O']))) 6)
example : exTree.wf = true ∧ exTree.unitsT ∧ String.ofList (render exTree) = "Ca(OH)2 (H2O)6" :=
  ⟨by decide, Or.inr ⟨Or.inr ⟨Or.inl trivial, Or.inr ⟨trivial, trivial⟩, by decide⟩,
    Or.inr ⟨trivial, trivial⟩, by decide⟩, by decide +kernel⟩
/-- … and evaluating the model pipeline on that text gives the same as the theorem says -/
example : substanceOf (fun _ => true) (render exUnits) =
    some [(['C', 'a'], 1), (['O'], 8), (['H'], 14), (['C', 'l'], 1)] := by decide +kernel
/-- transparency is not vacuous: the capital run `CH` before `)` is matched as in the closed text -/
example : matchP "CH)3".toList = some (2, ['C', 'H'], [], [], ")3".toList) := by decide +kernel

end SciVerif.C10
