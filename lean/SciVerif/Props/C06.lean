import SciVerif.Lemmas.C06
import SciVerif.Lemmas.C06b

/-!
# C06 — Quantity arithmetic agrees with arithmetic on base-dimension values

Theorems about the model of `quantity.py` / `base_units.py` / `fraction.py` / `unit_types.py`
(`Model/C06.lean`) instantiated at the real numbers, for an arbitrary unit table `env` with
positive factors (`EnvPos`) and arbitrary unit maps whose exponents have non-zero denominators
(`BU.WF`). `Qty.base env q = value · Π factor(u)^exp(u)` is the value in base dimensions.
Only property theorems live here; helpers are in `Lemmas/C06.lean`.
-/
namespace SciVerif.C06
open SciVerif.C08

set_option linter.unusedSectionVars false

variable {ι : Type} [DecidableEq ι]

/-- product: base values multiply (whatever units / prefixes the operands use, cancelling or
    not, folded or not). -/
theorem C06_mul (env : ι → UnitInfo ℝ) (hpos : EnvPos env) (l r : Qty ι ℝ)
    (hl : l.units.WF) (hr : r.units.WF) :
    (l.mul env r).base env = l.base env * r.base env := by
  rw [Qty.mul, new_base, (magnitude_addU env hpos _ _ hl hr).2]
  simp only [Qty.base, Mag.mul, Mag.new_real]
  ring

/-- quotient: base values divide. -/
theorem C06_div (env : ι → UnitInfo ℝ) (hpos : EnvPos env) (l r : Qty ι ℝ)
    (hl : l.units.WF) (hr : r.units.WF) :
    (l.div env r).base env = l.base env / r.base env := by
  rw [Qty.div, new_base, (magnitude_subU env hpos _ _ hl hr).2]
  simp only [Qty.base, Mag.div, Mag.new_real]
  rw [div_mul_div_comm]

/-- negation. -/
theorem C06_neg (env : ι → UnitInfo ℝ) (q : Qty ι ℝ) :
    (q.neg env).base env = -(q.base env) := by
  rw [Qty.neg, new_base]
  simp [Qty.base, Mag.neg]

/-- a plain number on either side goes through `Quantity(number)`, whose base value is the number. -/
theorem C06_reflected (env : ι → UnitInfo ℝ) (hpos : EnvPos env) (x : ℝ) (q : Qty ι ℝ) (hq : q.units.WF) :
    (Qty.ofNumber x : Qty ι ℝ).base env = x ∧
    ((Qty.ofNumber x).mul env q).base env = x * q.base env ∧
    ((Qty.ofNumber x).div env q).base env = x / q.base env ∧
    (q.mul env (Qty.ofNumber x)).base env = q.base env * x ∧
    (q.div env (Qty.ofNumber x)).base env = q.base env / x := by
  have h0 : (Qty.ofNumber x : Qty ι ℝ).base env = x := by
    simp [Qty.ofNumber, Qty.base, BU.magnitude, Mag.exact]
  have hw : (Qty.ofNumber x : Qty ι ℝ).units.WF := by intro p hp; simp [Qty.ofNumber] at hp
  refine ⟨h0, ?_, ?_, ?_, ?_⟩
  · rw [C06_mul env hpos _ _ hw hq, h0]
  · rw [C06_div env hpos _ _ hw hq, h0]
  · rw [C06_mul env hpos _ _ hq hw, h0]
  · rw [C06_div env hpos _ _ hq hw, h0]

/-- sum and difference of quantities of the same dimension (as the code compares dimensions):
    accepted, base values add / subtract, and the result carries the left operand's units
    (if the left operand is dimensionless its units are re-folded as in any constructor call). -/
theorem C06_add_sub (env : ι → UnitInfo ℝ) (hpos : EnvPos env) (l r : Qty ι ℝ)
    (hd : (l.units.dims env).beq (r.units.dims env) = true) :
    (∃ q, l.add env r = .ok q ∧ q.base env = l.base env + r.base env ∧
      q.units = (Qty.new env l.mag l.units).units ∧
      ((l.units.dims env).nodim = false → q.units = l.units)) ∧
    (∃ q, l.sub env r = .ok q ∧ q.base env = l.base env - r.base env ∧
      q.units = (Qty.new env l.mag l.units).units ∧
      ((l.units.dims env).nodim = false → q.units = l.units)) := by
  have hd' : (r.units.dims env).beq (l.units.dims env) = true := by rw [Dims.beq_comm]; exact hd
  have hL : l.units.magnitude env ≠ 0 := (magnitude_pos env hpos _).ne'
  have units_new : ∀ m : Mag ℝ, (Qty.new env m l.units).units = (Qty.new env l.mag l.units).units := by
    intro m; unfold Qty.new; split <;> rfl
  have units_nd : ∀ m : Mag ℝ, (l.units.dims env).nodim = false → (Qty.new env m l.units).units = l.units := by
    intro m h; unfold Qty.new; simp [h]
  constructor
  · refine ⟨_, by simp [Qty.add, Qty.addsub, stdType, convert, hd, hd']; rfl, ?_, units_new _, units_nd _⟩
    rw [new_base]
    simp only [Mag.add, Mag.convertLinear, Mag.new_real, Qty.base]
    field_simp
  · refine ⟨_, by simp [Qty.sub, Qty.addsub, stdType, convert, hd, hd']; rfl, ?_, units_new _, units_nd _⟩
    rw [new_base]
    simp only [Mag.sub, Mag.convertLinear, Mag.new_real, Qty.base]
    field_simp

/-- adding or subtracting quantities of different dimension is refused. -/
theorem C06_add_refuse (env : ι → UnitInfo ℝ) (l r : Qty ι ℝ)
    (hd : (l.units.dims env).beq (r.units.dims env) = false) :
    (∃ msg, l.add env r = .error msg) ∧ (∃ msg, l.sub env r = .error msg) := by
  constructor
  · simp only [Qty.add, Qty.addsub]
    split
    · exact ⟨_, rfl⟩
    · simp [hd]; exact ⟨_, rfl⟩
  · simp only [Qty.sub, Qty.addsub]
    split
    · exact ⟨_, rfl⟩
    · simp [hd]; exact ⟨_, rfl⟩

/-- power with a rational exponent `n/d` — given as pair or as float (the rational the float
    denotes) — of a quantity with a positive value: the base value is raised to `n/d`. -/
theorem C06_pow (env : ι → UnitInfo ℝ) (hpos : EnvPos env) (q : Qty ι ℝ) (p : Frac)
    (hp : p.den ≠ 0) (hv : 0 ≤ q.mag.value) :
    ∃ r, q.pow env p = .ok r ∧ r.base env = (q.base env) ^ ((p.toRat : ℚ) : ℝ) := by
  refine ⟨_, by simp [Qty.pow, hp]; rfl, ?_⟩
  rw [new_base, magnitude_scale env hpos]
  simp only [Qty.base, Mag.pow, Mag.new_real, rpow_real]
  rw [Real.mul_rpow hv (magnitude_pos env hpos _).le]

/-- power with an integer exponent, any sign of the value: `base (q^k) = (base q)^k`. -/
theorem C06_pow_int (env : ι → UnitInfo ℝ) (hpos : EnvPos env) (q : Qty ι ℝ) (k : ℤ) :
    ∃ r, q.pow env ⟨k, 1⟩ = .ok r ∧ r.base env = (q.base env) ^ k := by
  refine ⟨_, by simp [Qty.pow]; rfl, ?_⟩
  rw [new_base, magnitude_scale env hpos]
  have hk : (((⟨k, 1⟩ : Frac).toRat : ℚ) : ℝ) = (k : ℝ) := by simp [Frac.toRat]
  simp only [Qty.base, Mag.pow, Mag.new_real, rpow_real]
  rw [hk, Real.rpow_intCast, Real.rpow_intCast, mul_zpow]

/-- an integer-valued exponent in *any* spelling — pair `(2,1)`, unreduced pair or Fraction
    `(4,2)`, float `2.0` (its Fraction is `⟨2,1⟩`) — and any sign of the value: the result is the
    one of the int spelling, `base (q^p) = (base q)^k` with `k = p.num / p.den`. -/
theorem C06_pow_integral (env : ι → UnitInfo ℝ) (hpos : EnvPos env) (q : Qty ι ℝ) (p : Frac) (k : ℤ)
    (hp : p.den ≠ 0) (hk : p.num = k * p.den) :
    ∃ r, q.pow env p = .ok r ∧ r.base env = (q.base env) ^ k ∧
      (∃ r', q.pow env ⟨k, 1⟩ = .ok r' ∧ r'.base env = r.base env) := by
  obtain ⟨r', hr', hb'⟩ := C06_pow_int env hpos q k
  have h1 : (Qty.new env (q.mag.pow p.toRat) (q.units.scale p)).base env = (q.base env) ^ k := by
    rw [new_base, magnitude_scale env hpos]
    have hq : ((p.toRat : ℚ) : ℝ) = (k : ℝ) := by
      have hd : (p.den : ℝ) ≠ 0 := Int.cast_ne_zero.mpr hp
      rw [toRat_cast, hk]; push_cast; field_simp
    simp only [Qty.base, Mag.pow, Mag.new_real, rpow_real]
    rw [hq, Real.rpow_intCast, Real.rpow_intCast, mul_zpow]
  exact ⟨_, by simp [Qty.pow, hp]; rfl, h1, r', hr', hb'.trans h1.symm⟩

/-- a pair with denominator 0 is refused (`power[0]/power[1]` raises). -/
theorem C06_pow_refuse (env : ι → UnitInfo ℝ) (q : Qty ι ℝ) (n : ℤ) :
    ∃ msg, q.pow env ⟨n, 0⟩ = .error msg := ⟨_, by simp [Qty.pow]; rfl⟩

/-- cancellation: when the dimensions of a result vanish, every unit that has a dimension is
    dropped, only dimensionless units stay, and the dropped factors are folded into the number
    (the base value is unchanged). -/
theorem C06_cancel (env : ι → UnitInfo ℝ) (m : Mag ℝ) (b : BU ι) (h : (b.dims env).nodim = true) :
    (Qty.new env m b).base env = m.value * b.magnitude env ∧
    (∀ p ∈ (Qty.new env m b).units, p ∈ b ∧ (unitDims env p.1 p.2).nodim = true) ∧
    (Qty.new env m b).mag.value = m.value * ((b.filter (fun p => !(unitDims env p.1 p.2).nodim)).map (F env)).prod := by
  refine ⟨new_base env m b, ?_, ?_⟩
  · intro p hp
    unfold Qty.new at hp
    simp only [h, if_true, BU.new] at hp
    have := List.mem_of_mem_filter hp
    exact ⟨List.mem_of_mem_filter this, by simpa using (List.mem_filter.mp this).2⟩
  · unfold Qty.new
    simp only [h, if_true]
    exact fold_value env (fun p => (unitDims env p.1 p.2).nodim) b m

/-- … and when they do not vanish nothing is touched. -/
theorem C06_no_cancel (env : ι → UnitInfo ℝ) (m : Mag ℝ) (b : BU ι) (h : (b.dims env).nodim = false) :
    Qty.new env m b = ⟨m, b⟩ := by
  unfold Qty.new; simp [h]

/-! ### unit exponents (`BU.expOf b u` = exponent of `u`, 0 if absent) -/

/-- a product adds, a quotient subtracts the exponents of every unit (units map before the
    constructor's folding step, which `C06_cancel` describes). -/
theorem C06_exps_mul_div (a b : BU ι) (ha : a.WF) (hb : b.WF) (hna : a.KeysNodup) (hnb : b.KeysNodup) (u : ι) :
    (a.addU b).expOf u = a.expOf u + b.expOf u ∧ (a.subU b).expOf u = a.expOf u - b.expOf u ∧
    (a.addU b).KeysNodup ∧ (a.subU b).KeysNodup := by
  have h1 := expOf_merge (fun x e => e.add x) (fun x => x)
    (fun x e hx he => toRat_add e x he hx)
    (fun x e hx he => by simp [Frac.add]; exact ⟨he, hx⟩) (fun x hx => hx) b a ha hb hna hnb u
  have h2 := expOf_merge (fun x e => e.sub x) (fun x => x.neg)
    (fun x e hx he => toRat_sub e x he hx)
    (fun x e hx he => by simp [Frac.sub]; exact ⟨he, hx⟩) (fun x hx => by simpa [Frac.neg] using hx)
    b a ha hb hna hnb u
  refine ⟨?_, ?_, new_nodup _ h1.1, new_nodup _ h2.1⟩
  · rw [BU.addU, expOf_new _ h1.1, h1.2]
    congr 1
    have := expOf_map (fun x => x) (fun q => q) rfl (fun _ => rfl) b u
    simp at this; simpa using this
  · rw [BU.subU, expOf_new _ h2.1, h2.2, expOf_map Frac.neg (fun q => -q) (by simp) toRat_neg b u]
    ring

/-- a power multiplies every exponent by the exponent `p` — whether `p` came as an int `⟨k,1⟩`,
    a pair `⟨n,d⟩` or a float (the Fraction `from_float` returns; since the fix). -/
theorem C06_exps_pow (a : BU ι) (p : Frac) (hna : a.KeysNodup) (u : ι) :
    (a.scale p).expOf u = a.expOf u * p.toRat := by
  have hn : BU.KeysNodup (a.map (fun q => (q.1, q.2.mul p))) := by
    unfold BU.KeysNodup at *
    simpa [List.map_map, Function.comp_def] using hna
  rw [BU.scale, expOf_new _ hn,
    expOf_map (fun x => x.mul p) (fun q => q * p.toRat) (by simp) (fun x => toRat_mul x p) a u]

/-- a sum / difference keeps the left operand's exponents: see `C06_add_sub` (`q.units = l.units`). -/
theorem C06_exps_zero_absent (b : BU ι) (u : ι) (h : (BU.new b).expOf u ≠ 0) :
    u ∈ (BU.new b).map Prod.fst := by
  by_contra hu
  exact h (expOf_notin _ u hu)

/-! ### non-vacuity: a concrete table (m, km, s) and concrete quantities -/

noncomputable def exEnv : String → UnitInfo ℝ := fun u =>
  if u = "k:m" then ⟨"km", "m", 1000, [⟨1,1⟩,⟨0,1⟩,⟨0,1⟩,⟨0,1⟩,⟨0,1⟩,⟨0,1⟩,⟨0,1⟩,⟨0,1⟩]⟩
  else if u = "m" then ⟨"m", "m", 1, [⟨1,1⟩,⟨0,1⟩,⟨0,1⟩,⟨0,1⟩,⟨0,1⟩,⟨0,1⟩,⟨0,1⟩,⟨0,1⟩]⟩
  else ⟨"s", "s", 1, [⟨0,1⟩,⟨0,1⟩,⟨1,1⟩,⟨0,1⟩,⟨0,1⟩,⟨0,1⟩,⟨0,1⟩,⟨0,1⟩]⟩

example : EnvPos exEnv := by
  intro u; unfold exEnv; split_ifs <;> norm_num

example : BU.WF ([("k:m", ⟨1, 1⟩), ("s", ⟨-2, 1⟩)] : BU String) := by
  intro p hp; simp at hp; rcases hp with rfl | rfl <;> decide

/-- `km` and `m` have the same dimension; `m` and `s` do not; `km·m⁻¹` is dimensionless. -/
example : (⟨4, 2⟩ : Frac).den ≠ 0 ∧ (⟨4, 2⟩ : Frac).num = (2 : ℤ) * (⟨4, 2⟩ : Frac).den := by decide

example : BU.KeysNodup ([("k:m", ⟨1, 1⟩), ("s", ⟨-2, 1⟩)] : BU String) := by
  simp [BU.KeysNodup]

example : (BU.dims exEnv [("k:m", ⟨1, 1⟩)]).beq (BU.dims exEnv [("m", ⟨1, 1⟩)]) = true := by
  simp [BU.dims, unitDims, exEnv, Dims.beq, Dims.add, Dims.scale, Dims.zero, Frac.add, Frac.mul, Frac.beq, Frac.zero]
example : (BU.dims exEnv [("m", ⟨1, 1⟩)]).beq (BU.dims exEnv [("s", ⟨1, 1⟩)]) = false := by
  simp [BU.dims, unitDims, exEnv, Dims.beq, Dims.add, Dims.scale, Dims.zero, Frac.add, Frac.mul, Frac.beq, Frac.zero]
example : (BU.dims exEnv [("k:m", ⟨1, 1⟩), ("m", ⟨-1, 1⟩)]).nodim = true := by
  simp [BU.dims, unitDims, exEnv, Dims.nodim, Dims.add, Dims.scale, Dims.zero, Frac.add, Frac.mul, Frac.zero]

end SciVerif.C06
