import SciVerif.Model.C06
namespace SciVerif.C06
theorem C06_placeholder : True := trivial
end SciVerif.C06
