import SciVerif.Lemmas.C13
import SciVerif.Lemmas.C13c

/-!
# C13 — DIP node paths follow indentation and values are the literals written

Only property theorems live here (helper lemmas: `Lemmas/C13*.lean`, `Lemmas/C14.lean`).
`parseLines` is `DIP.parse` on the queue of logical lines (after `_get_queue`): every line is
lexed by `determine`, the nodes go through the main loop, the result is the final node list.
-/
namespace SciVerif.C13

/-- lexing every queued line, then the main loop and the final validation -/
def parseLines (P : Params) (lines : List Str) : R (List ENode) := do
  let nds ← lines.mapM determine
  parseNodes P nds

/-- `HierarchyList.register`, for *every* sequence of name-bearing lines: after the lines `ls`
    (text order) and one more line `(d, nm)` the parent stack is that line followed by exactly
    the chain "nearest earlier line with a smaller indentation, then the nearest before that
    with a still smaller one, …", so the dotted path the code assigns is the specified path. -/
theorem C13_paths (ls : List (Nat × Str)) (d : Nat) (nm : Str) :
    registerAll [] (ls ++ [(d, nm)]) = (d, nm) :: anc d ls.reverse ∧
    pathOf (registerAll [] (ls ++ [(d, nm)])) = specPath ls.reverse d nm := by
  have h := registerAll_stackAfter [] (ls ++ [(d, nm)])
  simp only [stackAfter, List.append_nil, List.reverse_append, List.reverse_cons, List.reverse_nil,
    List.nil_append, List.singleton_append] at h
  have h0 : registerAll [] (ls ++ [(d, nm)]) = (d, nm) :: anc d ls.reverse := h
  refine ⟨h0, ?_⟩
  rw [h0]
  simp [pathOf, specPath]

/-- the specified chain really is "parent of parent of …": its head is the nearest earlier line
    with a smaller indentation and its tail is the chain of that line; indentation strictly
    decreases along it. -/
theorem C13_chain_is_iterated_parent (m : Nat) (earlier : List (Nat × Str)) :
    parent? m earlier = (anc m earlier).head? ∧
    (anc m earlier =
      match earlier.dropWhile (fun p => !decide (p.1 < m)) with
      | [] => []
      | p :: rest => p :: anc p.1 rest) ∧
    (anc m earlier).Pairwise (fun a b => b.1 < a.1) ∧ ∀ a ∈ anc m earlier, a.1 < m :=
  ⟨parent?_eq_head m earlier, anc_eq_iterate_parent m earlier, anc_sorted m earlier⟩

example : specPath [(2, "b".toList), (5, "x".toList), (0, "a".toList)] 4 "c".toList = "a.b.c".toList := by decide

/-- The main loop on lexed nodes: replacing every indentation `k` by `f k` for a strictly
    monotone `f` gives the same node list (same paths, order, types, units, values), error for
    error.  Tables included (`TableNode.parse` only copies the indentation). -/
theorem C13_indent_invariance_nodes (P : Params) (f : Nat → Nat) (hf : ∀ a b, a < b → f a < f b)
    (hT : TableIndentOnly P f) (nds : List Node) :
    parseNodes P (nds.map (reindent f)) = parseNodes P nds := by
  have h := runNodes_reindent P f (orderEmb_of_strictMono f hf) hT nds {}
  have h0 : mapState f ({} : State) = {} := rfl
  rw [h0] at h
  simp only [parseNodes, h, bind, Except.bind]
  cases runNodes P {} nds with
  | error x => rfl
  | ok s => rfl

/-- the executable parameters used by the driver satisfy the table hypothesis -/
theorem C13_table_copies_indent (tbl : List UnitRow) (f : Nat → Nat) : TableIndentOnly (mkParams tbl) f :=
  expandTable_indentOnly tbl f

/-- Text level: lines written as `k` blanks followed by a body (whose first character is not a
    blank and not `#`) — re-indenting every line from `k` to `f k` blanks, `f` strictly monotone,
    does not change what `parse` returns.  ("The number of blanks per level does not matter.") -/
theorem C13_indent_invariance (P : Params) (f : Nat → Nat) (hf : ∀ a b, a < b → f a < f b)
    (hT : TableIndentOnly P f) (lines : List (Nat × Str))
    (hb : ∀ l ∈ lines, ∃ c r, encode l.2 = c :: r ∧ isWs c = false ∧ c ≠ '#') :
    parseLines P (lines.map (fun l => List.replicate (f l.1) ' ' ++ l.2)) =
      parseLines P (lines.map (fun l => List.replicate l.1 ' ' ++ l.2)) := by
  simp only [parseLines, mapM_determine_reindent f lines hb, bind, Except.bind]
  cases (lines.map (fun l => List.replicate l.1 ' ' ++ l.2)).mapM determine with
  | error x => rfl
  | ok nds => exact C13_indent_invariance_nodes P f hf hT nds

example : ∃ c r, encode "ab".toList = c :: r ∧ isWs c = false ∧ c ≠ '#' :=
  ⟨'a', "b".toList, by simp [encode, replaceAll_head, replaceAll], by decide, by decide⟩
example : ∀ a b : Nat, a < b → 3 * a + 2 < 3 * b + 2 := by intro a b h; omega

/-- a blank line, or a comment line at any indentation, is lexed to an `EmptyNode` … -/
theorem C13_blank_comment_lexed (s : Str) (k : Nat) (c : Str) :
    (isBlank (encode s) = true → determine s = .ok { kind := .empty }) ∧
    determine (List.replicate k ' ' ++ '#' :: c) = .ok { kind := .empty } :=
  ⟨determine_blank s, determine_comment k c⟩

/-- … and inserting such a line anywhere in the queue does not change what `parse` returns. -/
theorem C13_blank_comment_invariance (P : Params) (a b : List Str) (l : Str)
    (hl : isBlank (encode l) = true ∨ ∃ k c, l = List.replicate k ' ' ++ '#' :: c) :
    parseLines P (a ++ l :: b) = parseLines P (a ++ b) := by
  have hd : determine l = .ok { kind := .empty } := by
    rcases hl with h | ⟨k, c, rfl⟩
    · exact determine_blank l h
    · exact determine_comment k c
  simp only [parseLines, List.mapM_append, List.mapM_cons, hd, bind, Except.bind, pure, Except.pure]
  cases a.mapM determine with
  | error x => rfl
  | ok na =>
    simp only
    cases b.mapM determine with
    | error x => rfl
    | ok nb =>
      simp only [parseNodes, bind, Except.bind]
      rw [runNodes_empty P na nb {} { kind := .empty } rfl]

example : isBlank (encode (List.replicate 4 ' ')) = true := by
  have := encode_spaces 4 []
  simp only [List.append_nil] at this
  rw [this]
  simp [encode, replaceAll, isBlank, isWs]

/-- One parameter per distinct path, in order of first appearance: whenever `parse` succeeds the
    paths of the returned nodes are pairwise different, every node has a value object, and the
    nodes created while reading a prefix `a` of the program come first, in the same order
    (later lines only append new paths or modify existing entries in place). -/
theorem C13_one_per_node_in_order (P : Params) (a b : List Node) (ns : List ENode)
    (h : parseNodes P (a ++ b) = .ok ns) :
    (ns.map (·.name)).Nodup ∧ (∀ e ∈ ns, e.value.isSome = true) ∧
    ∃ s1, runNodes P {} a = .ok s1 ∧ (s1.nodes.map (·.name)) <+: (ns.map (·.name)) := by
  simp only [parseNodes, bind, Except.bind] at h
  cases hr : runNodes P {} (a ++ b) with
  | error x => rw [hr] at h; cases h
  | ok s =>
    rw [hr] at h
    obtain ⟨hns, hval⟩ := validate_ok h
    subst hns
    obtain ⟨ext, _, hnd⟩ := runNodes_grows P (a ++ b) {} s hr
    refine ⟨hnd (by simp [names]), hval, ?_⟩
    rw [runNodes_append] at hr
    cases h1 : runNodes P {} a with
    | error x => rw [h1] at hr; cases hr
    | ok s1 =>
      rw [h1] at hr
      obtain ⟨ext2, h2, _⟩ := runNodes_grows P b s1 s hr
      exact ⟨s1, rfl, ⟨ext2, h2.symm⟩⟩

/-- the entry appended for the first occurrence of a path -/
def newEntry (path : Str) (t : Ty) (nd : Node) (v : Option Val) : ENode :=
  { name := path, ty := t, info := nd.info, dims := nd.dims, units := nd.units, value := v, declared := nd.declared }

/-- the path a new entry gets is the one `register` computed for its line (so, by `C13_paths`,
    the specified path), and its type, width/sign, dimension and unit are the ones written -/
theorem C13_new_entry_is_as_written (P : Params) (s s' : State) (nd : Node) (t : Ty) (nm : Str)
    (hk : nd.kind = .typed t) (hn : nd.name = some nm)
    (hnew : ∀ e ∈ s.nodes, e.name ≠ pathOf (push s.stack nd.indent nm))
    (h : stepPlain P s nd = .ok s') :
    ∃ v, initValue P t nd.dims nd.raw = .ok v ∧
      s'.nodes = s.nodes ++ [newEntry (pathOf (push s.stack nd.indent nm)) t nd v] := by
  unfold stepPlain at h
  simp only [hk, hn, bind, Except.bind] at h
  cases hp : preCheck P nd with
  | error x => rw [hp] at h; cases h
  | ok u =>
    rw [hp] at h
    simp only [(updateFirst_none s.nodes).mpr hnew] at h
    cases hi : initValue P t nd.dims nd.raw with
    | error x => rw [hi] at h; cases h
    | ok v =>
      rw [hi] at h
      simp only [Except.ok.injEq] at h
      exact ⟨v, rfl, by rw [← h]; rfl⟩

/-! ### literal round trip (statement only)

`lex (renderLine d) = d` for the definition grammar is **not proved**; it is exercised by the
correspondence on every run (every literal form is rendered to text, lexed by the model and by
the real parser, and compared with the abstract value).  The statement for bare scalar
definitions is kept visible here. -/

def kwText : Ty → Str
  | .bool => "bool".toList | .int => "int".toList | .float => "float".toList | .str => "str".toList

def kwInfo : Ty → TyInfo
  | .int => { precision := some 32, unsigned := some false }
  | .float => { precision := some 64 }
  | _ => {}

/-- `k` blanks, name, type keyword, ` = `, a bare value, optionally a blank and a unit -/
def renderLine (k : Nat) (nm : Str) (ty : Ty) (v : Str) (u : Option Str) : Str :=
  List.replicate k ' ' ++ nm ++ [' '] ++ kwText ty ++ " = ".toList ++ v ++
    (match u with | some x => ' ' :: x | none => [])

def C13_literal_roundtrip_statement : Prop :=
  ∀ (k : Nat) (nm : Str) (ty : Ty) (v : Str) (u : Option Str),
    nm ≠ [] → (∀ c ∈ nm, isNameCh c = true) →
    v ≠ [] → (∀ c ∈ v, c ≠ ' ' ∧ c ≠ '#' ∧ c ≠ '\\' ∧ c ≠ '$' ∧ c ≠ '"' ∧ c ≠ '\'' ∧ isWs c = false) →
    v.head? ≠ some '{' → v.head? ≠ some '(' →
    (∀ x, u = some x → x ≠ [] ∧ (∀ c ∈ x, isUnitCh c = true ∧ c ≠ '\\' ∧ c ≠ '$') ∧
      x.head? ≠ some '/' ∧ x.head? ≠ some '*' ∧ x.head? ≠ some '+' ∧ x.head? ≠ some '-') →
    determine (renderLine k nm ty v u) =
      .ok { kind := .typed ty, indent := k, name := some nm, info := kwInfo ty, raw := some (.text v), units := u }

end SciVerif.C13
