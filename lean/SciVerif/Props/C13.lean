import SciVerif.Lemmas.C13
import SciVerif.Lemmas.C13c
import SciVerif.Lemmas.C13i
import SciVerif.Lemmas.C13j
import SciVerif.Lemmas.C13k
import SciVerif.Lemmas.C13l
import SciVerif.Lemmas.C13m
import SciVerif.Lemmas.C13n
import SciVerif.Lemmas.C13o
import SciVerif.Lemmas.C13p
import SciVerif.Lemmas.C13q

/-!
# C13 — DIP node paths follow indentation and values are the literals written

Only property theorems live here (helper lemmas: `Lemmas/C13*.lean`, `Lemmas/C14.lean`).
`parseLines` is `DIP.parse` on the queue of logical lines (after `_get_queue`): every line is
lexed by `determine`, the nodes go through the main loop, the result is the final node list.
-/
namespace SciVerif.C13

/-- `HierarchyList.register`, for *every* sequence of name-bearing lines: after the lines `ls`
    (text order) and one more line `(d, nm)` the parent stack is that line followed by exactly
    the chain "nearest earlier line with a smaller indentation, then the nearest before that
    with a still smaller one, …", so the dotted path the code assigns is the specified path. -/
theorem C13_paths (ls : List (Nat × Str)) (d : Nat) (nm : Str) :
    registerAll [] (ls ++ [(d, nm)]) = (d, nm) :: anc d ls.reverse ∧
    pathOf (registerAll [] (ls ++ [(d, nm)])) = specPath ls.reverse d nm := by
  have h := registerAll_stackAfter [] (ls ++ [(d, nm)])
  simp only [stackAfter, List.append_nil, List.reverse_append, List.reverse_cons, List.reverse_nil,
    List.nil_append, List.singleton_append] at h
  have h0 : registerAll [] (ls ++ [(d, nm)]) = (d, nm) :: anc d ls.reverse := h
  refine ⟨h0, ?_⟩
  rw [h0]
  simp [pathOf, specPath]

/-- the specified chain really is "parent of parent of …": its head is the nearest earlier line
    with a smaller indentation and its tail is the chain of that line; indentation strictly
    decreases along it. -/
theorem C13_chain_is_iterated_parent (m : Nat) (earlier : List (Nat × Str)) :
    parent? m earlier = (anc m earlier).head? ∧
    (anc m earlier =
      match earlier.dropWhile (fun p => !decide (p.1 < m)) with
      | [] => []
      | p :: rest => p :: anc p.1 rest) ∧
    (anc m earlier).Pairwise (fun a b => b.1 < a.1) ∧ ∀ a ∈ anc m earlier, a.1 < m :=
  ⟨parent?_eq_head m earlier, anc_eq_iterate_parent m earlier, anc_sorted m earlier⟩

example : specPath [(2, "b".toList), (5, "x".toList), (0, "a".toList)] 4 "c".toList = "a.b.c".toList := by decide

/-- The main loop on lexed nodes: replacing every indentation `k` by `f k` for a strictly
    monotone `f` gives the same node list (same paths, order, types, units, values), error for
    error.  Tables included (`TableNode.parse` only copies the indentation). -/
theorem C13_indent_invariance_nodes (P : Params) (f : Nat → Nat) (hf : ∀ a b, a < b → f a < f b)
    (hT : TableIndentOnly P f) (nds : List Node) :
    parseNodes P (nds.map (reindent f)) = parseNodes P nds := by
  have h := runNodes_reindent P f (orderEmb_of_strictMono f hf) hT nds {}
  have h0 : mapState f ({} : State) = {} := rfl
  rw [h0] at h
  simp only [parseNodes, h, bind, Except.bind]
  cases runNodes P {} nds with
  | error x => rfl
  | ok s => rfl

/-- the executable parameters used by the driver satisfy the table hypothesis -/
theorem C13_table_copies_indent (tbl : List UnitRow) (f : Nat → Nat) : TableIndentOnly (mkParams tbl) f :=
  expandTable_indentOnly tbl f

/-- Text level: lines written as `k` blanks followed by a body (whose first character is not a
    blank and not `#`) — re-indenting every line from `k` to `f k` blanks, `f` strictly monotone,
    does not change what `parse` returns.  ("The number of blanks per level does not matter.") -/
theorem C13_indent_invariance (P : Params) (f : Nat → Nat) (hf : ∀ a b, a < b → f a < f b)
    (hT : TableIndentOnly P f) (lines : List (Nat × Str))
    (hb : ∀ l ∈ lines, ∃ c r, encode l.2 = c :: r ∧ isWs c = false ∧ c ≠ '#') :
    parseLines P (lines.map (fun l => List.replicate (f l.1) ' ' ++ l.2)) =
      parseLines P (lines.map (fun l => List.replicate l.1 ' ' ++ l.2)) := by
  simp only [parseLines, mapM_determine_reindent f lines hb, bind, Except.bind]
  cases (lines.map (fun l => List.replicate l.1 ' ' ++ l.2)).mapM determine with
  | error x => rfl
  | ok nds => exact C13_indent_invariance_nodes P f hf hT nds

example : ∃ c r, encode "ab".toList = c :: r ∧ isWs c = false ∧ c ≠ '#' :=
  ⟨'a', "b".toList, by simp [encode, replaceAll_head, replaceAll], by decide, by decide⟩
example : ∀ a b : Nat, a < b → 3 * a + 2 < 3 * b + 2 := by intro a b h; omega

/-- a blank line, or a comment line at any indentation, is lexed to an `EmptyNode` … -/
theorem C13_blank_comment_lexed (s : Str) (k : Nat) (c : Str) :
    (isBlank (encode s) = true → determine s = .ok { kind := .empty }) ∧
    determine (List.replicate k ' ' ++ '#' :: c) = .ok { kind := .empty } :=
  ⟨determine_blank s, determine_comment k c⟩

/-- … and inserting such a line anywhere in the queue does not change what `parse` returns. -/
theorem C13_blank_comment_invariance (P : Params) (a b : List Str) (l : Str)
    (hl : isBlank (encode l) = true ∨ ∃ k c, l = List.replicate k ' ' ++ '#' :: c) :
    parseLines P (a ++ l :: b) = parseLines P (a ++ b) := by
  have hd : determine l = .ok { kind := .empty } := by
    rcases hl with h | ⟨k, c, rfl⟩
    · exact determine_blank l h
    · exact determine_comment k c
  simp only [parseLines, List.mapM_append, List.mapM_cons, hd, bind, Except.bind, pure, Except.pure]
  cases a.mapM determine with
  | error x => rfl
  | ok na =>
    simp only
    cases b.mapM determine with
    | error x => rfl
    | ok nb =>
      simp only [parseNodes, bind, Except.bind]
      rw [runNodes_empty P na nb {} { kind := .empty } rfl]

example : isBlank (encode (List.replicate 4 ' ')) = true := by
  have := encode_spaces 4 []
  simp only [List.append_nil] at this
  rw [this]
  simp [encode, replaceAll, isBlank, isWs]

/-- **From the string given to `add_string`.**  For a text without triple quotes, `DIP.add_string` + `_get_queue`
    + `parse` (split at newlines, strip the blank lines at both ends, queue every line) is `parse` on the list of
    its lines: `parseText` (what the driver runs against the real code) and `parseLines` (what the theorems above
    talk about) agree on `lines` joined by newlines, for every non-empty list of newline-free lines — blank
    lines at the ends included (they are stripped, and by `C13_blank_comment_invariance` do not matter). -/
theorem C13_text_is_lines (P : Params) (lines : List Str) (hne : lines ≠ [])
    (hnl : ∀ l ∈ lines, ∀ c ∈ l, c ≠ '\n') (hq : ∀ l ∈ lines, hasTriple l = false) :
    parseText P (joinWith ['\n'] lines) = parseLines P lines := by
  unfold parseText
  rw [splitOn_join '\n' lines hne hnl]
  obtain ⟨pre, post, hdec, hpre, hpost⟩ := strip_decomp lines
  generalize hS : stripBlankLines lines = S at *
  subst hdec
  have hSq : ∀ l ∈ S, hasTriple l = false := fun l hl => hq l (by simp [hl])
  rw [getQueue_noTriple S hSq]
  have hdropPre : ∀ (pre X : List Str), (∀ l ∈ pre, isBlank l = true ∧ ∀ c ∈ l, c ≠ '\n') →
      parseLines P (pre ++ X) = parseLines P X := by
    intro pre
    induction pre with
    | nil => intro X _; rfl
    | cons l t ih =>
      intro X h
      have hl := h l (by simp)
      have := C13_blank_comment_invariance P [] (t ++ X) l (.inl (isBlank_encode l hl.1 hl.2))
      simp only [List.nil_append] at this
      rw [List.cons_append, this]
      exact ih X (fun x hx => h x (List.mem_cons_of_mem _ hx))
  have hdropPost : ∀ (post X : List Str), (∀ l ∈ post, isBlank l = true ∧ ∀ c ∈ l, c ≠ '\n') →
      parseLines P (X ++ post) = parseLines P X := by
    intro post
    induction post with
    | nil => intro X _; simp
    | cons l t ih =>
      intro X h
      have hl := h l (by simp)
      rw [C13_blank_comment_invariance P X t l (.inl (isBlank_encode l hl.1 hl.2))]
      exact ih X (fun x hx => h x (List.mem_cons_of_mem _ hx))
  rw [hdropPost post (pre ++ S) (fun l hl => ⟨hpost l hl, hnl l (by simp [hl])⟩),
    hdropPre pre S (fun l hl => ⟨hpre l hl, hnl l (by simp [hl])⟩)]
  rfl

example : joinWith ['\n'] ["".toList, "a int = 1".toList, "  b int = 2".toList, " ".toList] =
    "\na int = 1\n  b int = 2\n ".toList := by decide

/-- One parameter per distinct path, in order of first appearance: whenever `parse` succeeds the
    paths of the returned nodes are pairwise different, every node has a value object, and the
    nodes created while reading a prefix `a` of the program come first, in the same order
    (later lines only append new paths or modify existing entries in place). -/
theorem C13_one_per_node_in_order (P : Params) (a b : List Node) (ns : List ENode)
    (h : parseNodes P (a ++ b) = .ok ns) :
    (ns.map (·.name)).Nodup ∧ (∀ e ∈ ns, e.value.isSome = true) ∧
    ∃ s1, runNodes P {} a = .ok s1 ∧ (s1.nodes.map (·.name)) <+: (ns.map (·.name)) := by
  simp only [parseNodes, bind, Except.bind] at h
  cases hr : runNodes P {} (a ++ b) with
  | error x => rw [hr] at h; cases h
  | ok s =>
    rw [hr] at h
    obtain ⟨hns, hval⟩ := validate_ok h
    subst hns
    obtain ⟨ext, _, hnd⟩ := runNodes_grows P (a ++ b) {} s hr
    refine ⟨hnd (by simp [names]), hval, ?_⟩
    rw [runNodes_append] at hr
    cases h1 : runNodes P {} a with
    | error x => rw [h1] at hr; cases hr
    | ok s1 =>
      rw [h1] at hr
      obtain ⟨ext2, h2, _⟩ := runNodes_grows P b s1 s hr
      exact ⟨s1, rfl, ⟨ext2, h2.symm⟩⟩

/-- the entry appended for the first occurrence of a path -/
def newEntry (path : Str) (t : Ty) (nd : Node) (v : Option Val) : ENode :=
  { name := path, ty := t, info := nd.info, dims := nd.dims, units := nd.units, value := v, declared := nd.declared }

/-- the path a new entry gets is the one `register` computed for its line (so, by `C13_paths`,
    the specified path), and its type, width/sign, dimension and unit are the ones written -/
theorem C13_new_entry_is_as_written (P : Params) (s s' : State) (nd : Node) (t : Ty) (nm : Str)
    (hk : nd.kind = .typed t) (hn : nd.name = some nm)
    (hnew : ∀ e ∈ s.nodes, e.name ≠ pathOf (push s.stack nd.indent nm))
    (h : stepPlain P s nd = .ok s') :
    ∃ v, initValue P t nd.dims nd.raw = .ok v ∧
      s'.nodes = s.nodes ++ [newEntry (pathOf (push s.stack nd.indent nm)) t nd v] := by
  unfold stepPlain at h
  simp only [hk, hn, bind, Except.bind] at h
  cases hp : preCheck P nd with
  | error x => rw [hp] at h; cases h
  | ok u =>
    rw [hp] at h
    simp only [(updateFirst_none s.nodes).mpr hnew] at h
    cases hi : initValue P t nd.dims nd.raw with
    | error x => rw [hi] at h; cases h
    | ok v =>
      rw [hi] at h
      simp only [Except.ok.injEq] at h
      exact ⟨v, rfl, by rw [← h]; rfl⟩

/-! ### literal round trip: `lex (render d) = d`

`LineD` (in `Lemmas/C13h.lean`) describes a line as written: a possibly dotted name, then either
nothing (group), `= value` (modification), `type[dims] = value` (definition) or `type[dims]`
(declaration); the type keyword carries its width / sign suffix (`TyD`), dimensions are written
with digit strings (`DimD`), the value is a bare word (booleans, numbers in any notation, `none`,
bare strings, inline arrays without blanks), a double- or single-quoted text, or a triple-quoted
text (`Lit`), followed by an optional unit and an optional `# comment`; every gap has an
arbitrary number of blanks.  The proof goes scanner by scanner (`Lemmas/C13d…h.lean`):
each `part_*` consumes exactly the rendered field and leaves the rest. -/

/-- For every well-formed line description `d`, every indentation `k`: lexing the rendered text
    gives back exactly the node `d` denotes — indentation, name, type with width/sign, dimension
    bounds, the value text between the quotes (or the bare word) with the escape marks undone,
    and the unit.  `NoEsc`: the rendered line contains no backslash and no newline (escaped quotes
    inside quoted strings are therefore not covered by this theorem). -/
theorem C13_literal_roundtrip (k : Nat) (d : LineD) (hd : d.Ok) (hesc : NoEsc d.render) :
    determine (List.replicate k ' ' ++ d.render) = .ok { d.node with indent := k } :=
  determine_render k d hd hesc

example : (LineD.modify "a.b".toList 0 1 { lit := .dq "x # y".toList, cm := some (1, " say \"hi\"".toList) }).Ok ∧
    NoEsc (LineD.modify "a.b".toList 0 1 { lit := .dq "x # y".toList, cm := some (1, " say \"hi\"".toList) }).render :=
  ⟨⟨⟨⟨'a', ".b".toList, by decide⟩, by decide⟩, by show ∀ c ∈ "x # y".toList, c ≠ '"'; decide, by intro n x h; cases h⟩,
   by show ∀ c ∈ _, c ≠ '\\' ∧ c ≠ '\n'; decide⟩

/-- value text without `$` is stored literally (the `$@NN` escape marks are the only rewriting) -/
theorem C13_value_text_literal (s : Str) (h : ∀ c ∈ s, c ≠ '$') : decode s = s := decode_noDollar s h

example : (LineD.define "a.b".toList 1 (.int true (some .w64)) (some [.range "2".toList [], .exact "3".toList]) 0 2
    { lit := .bare "[[1,2,3],[4,5,6]]".toList, unit := some (1, "km/h".toList), cm := some (3, " c".toList) }).render
    = "a.b  uint64[2:,3]=  [[1,2,3],[4,5,6]]  km/h   # c".toList := by decide

/-- `DIP._get_queue`: a line without `"""` is queued unchanged; a line with `"""` swallows the
    following lines up to and including the next one containing `"""` and queues ONE logical line
    (head ++ block lines joined by newlines ++ closing line without its leading blanks);
    a block that is never closed makes parsing fail. -/
theorem C13_block_grouping (hd cl l : Str) (blk rest t : List Str) (hhd : hasTriple hd = true)
    (hblk : ∀ x ∈ blk, hasTriple x = false) (hcl : hasTriple cl = true) (hl : hasTriple l = false) :
    getQueue (l :: t) = (getQueue t).map (fun q => l :: q) ∧
    getQueue (hd :: (blk ++ cl :: rest)) =
      (getQueue rest).map (fun q => (hd ++ joinWith ['\n'] blk ++ lstrip cl) :: q) ∧
    getQueue (hd :: blk) = .error .fail :=
  ⟨getQueue_plain l t hl, getQueue_block hd cl blk rest hhd hblk hcl, getQueue_unterminated hd blk hhd hblk⟩

/-- Block values end to end: the head line `<k blanks>name type[dims] = """`, arbitrary block lines
    (free of `"`, backslash and `$`) and the closing line `<j blanks>""" [unit] [# comment]` are grouped
    into one logical line, and that line is lexed to the definition node whose raw value is exactly
    the block lines joined by newlines (the newline marks `$@02` are put in and taken out again). -/
theorem C13_block_value_roundtrip (k j : Nat) (nm : Str) (a : Nat) (ty : TyD) (dims : Option (List DimD)) (b c : Nat)
    (blk rest : List Str) (unit cm : Option (Nat × Str))
    (hn : NameOk nm) (hd : DimsOk dims) (hu : ∀ n x, unit = some (n, x) → UnitOk x)
    (htail : NoEsc (renderTail unit cm))
    (hblk : ∀ l ∈ blk, ∀ x ∈ l, x ≠ '"' ∧ x ≠ '\\' ∧ x ≠ '$') :
    let logical := List.replicate k ' ' ++ (definePrefix nm a ty dims b c ++
      ('"' :: '"' :: '"' :: (blockText blk ++ '"' :: '"' :: '"' :: renderTail unit cm)))
    getQueue ((List.replicate k ' ' ++ (definePrefix nm a ty dims b c ++ ['"', '"', '"'])) ::
        (blk ++ (List.replicate j ' ' ++ '"' :: '"' :: '"' :: renderTail unit cm) :: rest)) =
      (getQueue rest).map (fun q => logical :: q) ∧
    determine logical = .ok (blockNode k nm ty dims (blockText blk) unit) :=
  block_value_roundtrip k j nm a ty dims b c blk rest unit cm hn hd hu htail hblk

/-- **Table expansion** (`TableNode.parse`).  A table written as header lines `name type[dims] [unit]`,
    an empty line and `k ≥ 1` rows of simple cells (one blank between cells, split as the `_csv` reader
    does, as many cells as header lines) expands to exactly the column definitions: in header order,
    named `table.column`, with the type, width/sign and unit of the header, dimension `[k]`, carrying the
    cells of that column in row order (read as JSON exactly when the header declares an inner dimension). -/
theorem C13_table_expansion (tname : Str) (cols : List ColD) (rows : List (List Str))
    (hcols : cols ≠ []) (hcok : ∀ c ∈ cols, c.Ok) (hrows : rows ≠ [])
    (hr : ∀ r ∈ rows, r.length = cols.length ∧ ∀ c ∈ r, SimpleCell c) :
    expandTable0 (some (.text (renderTable cols rows))) (some tname) = .ok (columnNodes tname cols rows) :=
  expandTable0_render tname cols rows hcols hcok hrows hr

example : renderTable [{ cname := "x".toList, ty := .int false none }, { cname := "y".toList, ty := .float none, unit := some (0, "s".toList) }]
    [["0".toList, "1.5".toList], ["1".toList, "2.5".toList]] = "x int\ny float s\n\n0 1.5\n1 2.5".toList := by decide

/-! ### casts of scalar literals: the value is what the text denotes -/

/-- `none`, `true`, `false`, and any other text for a string parameter -/
theorem C13_cast_keywords (ty : Ty) (dims : Option (List Dim)) (s : Str) (hs : (s == "none".toList) = false) :
    castText ty dims "none".toList = .ok .none ∧
    castText .bool none "true".toList = .ok (.scalar (.bool true)) ∧
    castText .bool none "false".toList = .ok (.scalar (.bool false)) ∧
    castText .str none s = .ok (.scalar (.str s)) := by
  refine ⟨by simp [castText], by rfl, by rfl, ?_⟩
  simp only [castText, hs, Bool.false_eq_true, if_false, castScalar]

/-- an integer literal `[+-]digits` is stored as the integer the digits denote -/
theorem C13_cast_int_literal (sg : Option Bool) (d : Str) (hd : allDigits d = true) :
    castText .int none (signText sg ++ d) =
      .ok (.scalar (.num (((if signNeg sg then -(digitsToNat d : Int) else (digitsToNat d : Int)) : Int) : Rat))) := by
  simp only [castText, ne_none_of_head _ (intLit_head sg d hd), Bool.false_eq_true, if_false, castScalar,
    castInt_lit sg d hd]
  rfl

/-- a float literal in decimal or scientific notation (`23.3`, `.5`, `5.`, `-1.5E-3`, `1e+5`, …) is
    stored as the rational number it denotes: `±(ip + fp / 10^|fp|) · 10^(±exp)` -/
theorem C13_cast_float_literal (f : FloatD) (hf : f.Ok) :
    castText .float none f.render = .ok (.scalar (.num f.value)) := by
  simp only [castText, ne_none_of_head _ (floatD_head f hf), Bool.false_eq_true, if_false, castScalar,
    castFloat_lit f hf]
  rfl

example : (FloatD.mk (some true) "1".toList (some "5".toList) (some (true, some true, "3".toList))).render = "-1.5E-3".toList := by decide

/-! ### inline arrays (value string level; the text-level statements, element casts, string elements and the
    rejection of ragged arrays follow further down) -/

/-- `json.loads` + the shape test of `cast_value` on a flat inline array `[t1,…,tn]` (elements are
    words without blanks, commas, brackets): the elements come back in order with shape `[n]`, and
    the value is the array of the element casts whenever the declared dimension admits `n`.
    Partial: depth 1 only (all depths: `C13_inline_array`; from the text of the line: `C13_inline_array_text`). -/
theorem C13_inline_array_flat_partial (ty : Ty) (ds : List Dim) (toks : List Str) (atoms : List Atom)
    (hne : toks ≠ []) (hok : ∀ t ∈ toks, TokOk t)
    (hel : (toks.map Tok.bare).mapM (tokAtom ty) = .ok atoms) (hd : checkDims ds [toks.length] = true) :
    parseJson (renderFlat toks) = .ok ([toks.length], toks.map Tok.bare) ∧
    castText ty (some ds) (renderFlat toks) = .ok (.array [toks.length] atoms) := by
  have hp := parseJson_flat toks hne hok
  refine ⟨hp, ?_⟩
  have hn : (renderFlat toks == "none".toList) = false := ne_none_of_head _ (by simp [renderFlat])
  simp only [castText, hn, Bool.false_eq_true, if_false, hp, bind, Except.bind, hel, hd, if_true]

example : renderFlat ["1".toList, "-2".toList, "30".toList] = "[1,-2,30]".toList := by decide

/-- **Inline arrays of arbitrary nesting depth.**  `Rendered s sh toks` says that the text `s` is a
    rectangular nested list: a single word, or `[item,…,item]` (n ≥ 1) whose items are rendered with one
    common shape.  For every such text `json.loads` returns the shape `sh` (= the dimensions, outermost
    first) and the leaves `toks` in row-major order, and `cast_value` yields the array of the element
    casts whenever the declared dimension admits the shape.  (Induction on the nesting; the fuel
    `parseJson` supplies, the length of the text, is shown to suffice.) -/
theorem C13_inline_array (ty : Ty) (ds : List Dim) (s : Str) (sh : List Nat) (toks : List Tok) (atoms : List Atom)
    (hr : Rendered s sh toks) (hnone : (s == "none".toList) = false)
    (hel : toks.mapM (tokAtom ty) = .ok atoms) (hd : checkDims ds sh = true) :
    parseJson s = .ok (sh, toks) ∧ castText ty (some ds) s = .ok (.array sh atoms) := by
  have hp := parseJson_rendered hr
  refine ⟨hp, ?_⟩
  simp only [castText, hnone, Bool.false_eq_true, if_false, hp, bind, Except.bind, hel, hd, if_true]

/-- a nested list is rectangular by construction of `Rendered`: all items of one list have one shape;
    the shape of `[[…],[…],…]` is the number of items followed by that common shape -/
theorem C13_inline_array_shape (items : List (Str × List Tok)) (sh : List Nat) (hne : items ≠ [])
    (h : ∀ it ∈ items, Rendered it.1 sh it.2) :
    parseJson ('[' :: (joinWith [','] (items.map Prod.fst) ++ [']'])) =
      .ok (items.length :: sh, items.flatMap Prod.snd) :=
  parseJson_rendered (Rendered.arr items sh hne h)

/-! ### inline arrays at text level: from the line as written to the node `parse` returns -/

/-- **Nested inline arrays, text level.**  The definition line
    `<k blanks>name type[dims] = [[…],[…]] [unit] [# comment]` (any number of blanks in every gap; the array a
    rendered rectangular nested list of ANY depth ≥ 1 without `#`, backslash, `$`) goes through the whole
    front end: (1) the lexer returns the definition node whose raw value is exactly the array text;
    (2) `set_value` = `cast_value` on that node gives the array of the element casts with shape = the nesting
    dimensions, provided the declared dimension admits the shape; (3) `parse` on the one-line program returns
    exactly one parameter: the name, type, width/sign, dimension and unit written, and that array value.
    (`hunit`: a unit is written only on int/float lines and is known; `hel`: the element casts succeed — discharged
    for integer, float and boolean elements by `C13_array_int_elements`, `C13_array_float_elements`,
    `C13_array_bool_elements`; `C13_int_array_text` and `C13_float_array_text` are the instances without any
    hypothesis on the elements.) -/
theorem C13_inline_array_text (tbl : List UnitRow) (k : Nat) (nm : Str) (a : Nat) (ty : TyD) (dims : Option (List DimD))
    (b c : Nat) (s : Str) (sh : List Nat) (toks : List Tok) (atoms : List Atom) (ds : List Dim)
    (unit cm : Option (Nat × Str))
    (hn : NameOk nm) (hd : DimsOk dims) (hu : ∀ n x, unit = some (n, x) → UnitOk x)
    (htail : NoEsc (renderTail unit cm))
    (hunit : ∀ n x, unit = some (n, x) → (ty.ty = .int ∨ ty.ty = .float) ∧ tbl.any (fun r => r.name = x) = true)
    (hr : Rendered s sh toks) (hsh : sh ≠ []) (hplain : ∀ ch ∈ s, ch ≠ '#' ∧ ch ≠ '\\' ∧ ch ≠ '$')
    (hds : dimsValue dims = some ds) (hel : toks.mapM (tokAtom ty.ty) = .ok atoms) (hcd : checkDims ds sh = true) :
    let line := List.replicate k ' ' ++ (definePrefix nm a ty dims b c ++ (s ++ renderTail unit cm))
    determine line = .ok (blockNode k nm ty dims s unit) ∧
    initValue (mkParams tbl) ty.ty (some ds) (some (.text s)) = .ok (some (.array sh atoms)) ∧
    parseLines (mkParams tbl) [line] =
      .ok [{ name := nm, ty := ty.ty, info := ty.info, dims := some ds, units := unit.map Prod.snd,
             value := some (.array sh atoms), declared := false }] := by
  intro line
  obtain ⟨r, hsr⟩ := rendered_head hr hsh
  have hws := rendered_noWs hr
  have hlit : Lit.Ok (.bare s) :=
    ⟨⟨'[', r, hsr, by decide, by decide, by decide, by decide⟩, fun ch hch => ⟨(hplain ch hch).1, hws ch hch⟩⟩
  have hdet : determine line = .ok (blockNode k nm ty dims s unit) :=
    determine_define_bare k nm a ty dims b c s unit cm hn hd hu htail hlit
      (fun ch hch => ⟨(hplain ch hch).2.1, (hplain ch hch).2.2⟩)
  have hnone : (s == "none".toList) = false := ne_none_of_head _ (by rw [hsr]; simp)
  have hcast := (C13_inline_array ty.ty ds s sh toks atoms hr hnone hel hcd).2
  have hinit : initValue (mkParams tbl) ty.ty (some ds) (some (.text s)) = .ok (some (.array sh atoms)) := by
    have he : s.isEmpty = false := by rw [hsr]; rfl
    simp only [initValue, he, Bool.false_and, Bool.false_eq_true, if_false, mkParams, hcast, bind, Except.bind]
  refine ⟨hdet, hinit, ?_⟩
  have h := parseLines_single_define (mkParams tbl) line _ ty.ty nm (.array sh atoms) hdet rfl rfl
    (preCheck_blockNode tbl k nm ty dims s unit hunit) (by simpa only [blockNode, hds] using hinit)
  simpa only [blockNode, hds] using h

example : Rendered "[[1,2],[3,4]]".toList [2, 2] [.bare "1".toList, .bare "2".toList, .bare "3".toList, .bare "4".toList] := by
  have t : ∀ x : Str, x = "1".toList ∨ x = "2".toList ∨ x = "3".toList ∨ x = "4".toList → TokOk x := by
    intro x hx; rcases hx with rfl | rfl | rfl | rfl <;> exact ⟨⟨_, _, rfl, by decide⟩, by decide⟩
  have r1 := Rendered.arr [("1".toList, [.bare "1".toList]), ("2".toList, [.bare "2".toList])] [] (by simp)
    (by intro it h; simp at h; rcases h with rfl | rfl <;> exact Rendered.tok _ (t _ (by simp)))
  have r2 := Rendered.arr [("3".toList, [.bare "3".toList]), ("4".toList, [.bare "4".toList])] [] (by simp)
    (by intro it h; simp at h; rcases h with rfl | rfl <;> exact Rendered.tok _ (t _ (by simp)))
  exact Rendered.arr [("[1,2]".toList, [.bare "1".toList, .bare "2".toList]), ("[3,4]".toList, [.bare "3".toList, .bare "4".toList])]
    [2] (by simp) (by intro it h; simp only [List.mem_cons, List.not_mem_nil, or_false] at h; rcases h with rfl | rfl; exact r1; exact r2)

/-- **Element casts of integer arrays** (`np.array(json value, dtype=int)`).  An element written as JSON writes
    integers (optional `-`, then `0` or digits without a leading zero) inside the 64-bit range is one array word
    and is stored as the integer the digits denote. -/
theorem C13_array_int_elements (its : List IntTok) (h : ∀ i ∈ its, i.Ok) :
    (∀ i ∈ its, TokOk i.render) ∧
    (its.map (fun i => Tok.bare i.render)).mapM (tokAtom .int) =
      .ok (its.map (fun i => Atom.num ((i.value : Int) : Rat))) :=
  ⟨fun i hi => intTok_tokOk i (h i hi),
   mapM_ok_map (tokAtom .int) _ _ its (fun i hi => tokAtom_intTok i (h i hi))⟩

example : (IntTok.mk true "30".toList).Ok ∧ (IntTok.mk true "30".toList).render = "-30".toList ∧
    (IntTok.mk true "30".toList).value = -30 :=
  ⟨⟨by decide, by decide, by decide, by decide⟩, by decide, by decide⟩

/-- the same for boolean arrays: the words `true` / `false` -/
theorem C13_array_bool_elements (bs : List Bool) :
    (∀ b ∈ bs, TokOk (if b then "true".toList else "false".toList)) ∧
    (bs.map (fun b => Tok.bare (if b then "true".toList else "false".toList))).mapM (tokAtom .bool) =
      .ok (bs.map Atom.bool) :=
  ⟨fun b _ => boolTok_tokOk b, mapM_ok_map (tokAtom .bool) _ _ bs (fun b _ => tokAtom_boolTok b)⟩

/-- **Integer arrays of any nesting depth, from the text to the value** (no hypothesis on the element casts,
    none on the characters): the one-line program `name [u]int[NN][dims] = [[i,…],[…]] [unit] [# comment]`, the
    array a rectangular nested list of integer literals in the 64-bit range, parses to exactly one parameter
    whose value is the array of those integers, in row-major order, with shape = the nesting dimensions. -/
theorem C13_int_array_text (tbl : List UnitRow) (k : Nat) (nm : Str) (a : Nat) (uns : Bool) (w : Option IntW)
    (dims : Option (List DimD)) (b c : Nat) (s : Str) (sh : List Nat) (its : List IntTok) (ds : List Dim)
    (unit cm : Option (Nat × Str))
    (hn : NameOk nm) (hd : DimsOk dims) (hu : ∀ n x, unit = some (n, x) → UnitOk x)
    (htail : NoEsc (renderTail unit cm))
    (hunit : ∀ n x, unit = some (n, x) → tbl.any (fun r => r.name = x) = true)
    (hr : Rendered s sh (its.map (fun i => Tok.bare i.render))) (hsh : sh ≠ []) (hok : ∀ i ∈ its, i.Ok)
    (hds : dimsValue dims = some ds) (hcd : checkDims ds sh = true) :
    parseLines (mkParams tbl)
        [List.replicate k ' ' ++ (definePrefix nm a (.int uns w) dims b c ++ (s ++ renderTail unit cm))] =
      .ok [{ name := nm, ty := .int, info := (TyD.int uns w).info, dims := some ds, units := unit.map Prod.snd,
             value := some (.array sh (its.map (fun i => Atom.num ((i.value : Int) : Rat)))), declared := false }] :=
  (C13_inline_array_text tbl k nm a (.int uns w) dims b c s sh _ _ ds unit cm hn hd hu htail
    (fun n x h => ⟨.inl rfl, hunit n x h⟩) hr hsh (rendered_int_plain its hok hr) hds
    (C13_array_int_elements its hok).2 hcd).2.2

/-- **Element casts of float arrays** (`np.array(json value, dtype=float)`).  An element written as a JSON number
    (optional `-`, integer part without leading zero, optional `.digits`, optional exponent `e|E[+-]digits`;
    integer literals included) is one array word and is stored as the rational number the literal denotes. -/
theorem C13_array_float_elements (fs : List FloatD) (h : ∀ f ∈ fs, f.Ok ∧ f.Json) :
    (∀ f ∈ fs, TokOk f.render) ∧
    (fs.map (fun f => Tok.bare f.render)).mapM (tokAtom .float) = .ok (fs.map (fun f => Atom.num f.value)) :=
  ⟨fun f hf => floatD_tokOk f (h f hf).1 (h f hf).2,
   mapM_ok_map (tokAtom .float) _ _ fs (fun f hf => tokAtom_floatD f (h f hf).1 (h f hf).2)⟩

example : (FloatD.mk (some true) "1".toList (some "5".toList) (some (true, some true, "3".toList))).Ok ∧
    (FloatD.mk (some true) "1".toList (some "5".toList) (some (true, some true, "3".toList))).Json :=
  ⟨⟨by decide, by intro x hx; cases hx; decide, .inl (by decide), by intro cap es ed h; cases h; decide⟩,
   ⟨by decide, by decide, by decide, by intro x hx; cases hx; decide⟩⟩

/-- **Float arrays of any nesting depth, from the text to the value**: the one-line program
    `name float[NN][dims] = [[x,…],[…]] [unit] [# comment]`, the array a rectangular nested list of JSON numbers,
    parses to exactly one parameter whose value is the array of the numbers denoted, in row-major order, with
    shape = the nesting dimensions. -/
theorem C13_float_array_text (tbl : List UnitRow) (k : Nat) (nm : Str) (a : Nat) (w : Option FloatW)
    (dims : Option (List DimD)) (b c : Nat) (s : Str) (sh : List Nat) (fs : List FloatD) (ds : List Dim)
    (unit cm : Option (Nat × Str))
    (hn : NameOk nm) (hd : DimsOk dims) (hu : ∀ n x, unit = some (n, x) → UnitOk x)
    (htail : NoEsc (renderTail unit cm))
    (hunit : ∀ n x, unit = some (n, x) → tbl.any (fun r => r.name = x) = true)
    (hr : Rendered s sh (fs.map (fun f => Tok.bare f.render))) (hsh : sh ≠ []) (hok : ∀ f ∈ fs, f.Ok ∧ f.Json)
    (hds : dimsValue dims = some ds) (hcd : checkDims ds sh = true) :
    parseLines (mkParams tbl)
        [List.replicate k ' ' ++ (definePrefix nm a (.float w) dims b c ++ (s ++ renderTail unit cm))] =
      .ok [{ name := nm, ty := .float, info := (TyD.float w).info, dims := some ds, units := unit.map Prod.snd,
             value := some (.array sh (fs.map (fun f => Atom.num f.value))), declared := false }] :=
  (C13_inline_array_text tbl k nm a (.float w) dims b c s sh _ _ ds unit cm hn hd hu htail
    (fun n x h => ⟨.inr rfl, hunit n x h⟩) hr hsh (rendered_float_plain fs (fun f hf => (hok f hf).1) hr) hds
    (C13_array_float_elements fs hok).2 hcd).2.2

/-- **Boolean arrays of any nesting depth, from the text to the value.** -/
theorem C13_bool_array_text (tbl : List UnitRow) (k : Nat) (nm : Str) (a : Nat) (dims : Option (List DimD)) (b c : Nat)
    (s : Str) (sh : List Nat) (bs : List Bool) (ds : List Dim) (cm : Option (Nat × Str))
    (hn : NameOk nm) (hd : DimsOk dims) (htail : NoEsc (renderTail none cm))
    (hr : Rendered s sh (bs.map (fun b => Tok.bare (if b then "true".toList else "false".toList)))) (hsh : sh ≠ [])
    (hds : dimsValue dims = some ds) (hcd : checkDims ds sh = true) :
    parseLines (mkParams tbl)
        [List.replicate k ' ' ++ (definePrefix nm a .bool dims b c ++ (s ++ renderTail none cm))] =
      .ok [{ name := nm, ty := .bool, info := {}, dims := some ds, units := none,
             value := some (.array sh (bs.map Atom.bool)), declared := false }] :=
  (C13_inline_array_text tbl k nm a .bool dims b c s sh _ _ ds none cm hn hd (by intro n x h; cases h) htail
    (by intro n x h; cases h) hr hsh (rendered_bool_plain bs hr) hds (C13_array_bool_elements bs).2 hcd).2.2

/-- **Ragged arrays are rejected.**  In `[item,…,item,BAD…` with `n ≥ 1` items of one common shape followed by an
    item of a different shape (both rendered nested lists of any depth; what follows `BAD` is arbitrary text
    starting with `,` `]` `[` or a blank, or nothing) `json.loads` + `np.array` fail, so `cast_value` fails for every
    type and declared dimension, and the one-line program defining a parameter with that value does not parse. -/
theorem C13_ragged_array_rejected (tbl : List UnitRow) (k : Nat) (nm : Str) (a : Nat) (ty : TyD) (dims : Option (List DimD))
    (b c : Nat) (sh0 sh1 : List Nat) (pre : List (Str × List Tok)) (bad : Str × List Tok) (post : Str) (ds : List Dim)
    (unit cm : Option (Nat × Str))
    (hpre : pre ≠ []) (h0 : ∀ it ∈ pre, Rendered it.1 sh0 it.2) (h1 : Rendered bad.1 sh1 bad.2) (hne : sh1 ≠ sh0)
    (hpost : post = [] ∨ ∃ ch r, post = ch :: r ∧ isDelim ch = true) :
    let s := '[' :: (joinWith [','] (pre.map Prod.fst) ++ ',' :: (bad.1 ++ post))
    parseJson s = .error .fail ∧
    (∀ t : Ty, castText t (some ds) s = .error .fail) ∧
    (NameOk nm → DimsOk dims → (∀ n x, unit = some (n, x) → UnitOk x) → NoEsc (renderTail unit cm) →
      (∀ n x, unit = some (n, x) → (ty.ty = .int ∨ ty.ty = .float) ∧ tbl.any (fun r => r.name = x) = true) →
      (∀ ch ∈ s, ch ≠ '#' ∧ isWs ch = false ∧ ch ≠ '\\' ∧ ch ≠ '$') → dimsValue dims = some ds →
      parseLines (mkParams tbl)
        [List.replicate k ' ' ++ (definePrefix nm a ty dims b c ++ (s ++ renderTail unit cm))] = .error .fail) := by
  intro s
  have hp : parseJson s = .error .fail := parseJson_ragged sh0 sh1 pre bad post hpre h0 h1 hne hpost
  have hnone : (s == "none".toList) = false := ne_none_of_head _ (by simp [s])
  have hc : ∀ t : Ty, castText t (some ds) s = .error .fail := by
    intro t
    simp only [castText, hnone, Bool.false_eq_true, if_false, hp, bind, Except.bind]
  refine ⟨hp, hc, ?_⟩
  intro hn hd hu htail hunit hplain hds
  have hlit : Lit.Ok (.bare s) :=
    ⟨⟨'[', _, rfl, by decide, by decide, by decide, by decide⟩, fun ch hch => ⟨(hplain ch hch).1, (hplain ch hch).2.1⟩⟩
  have hdet := determine_define_bare k nm a ty dims b c s unit cm hn hd hu htail hlit
    (fun ch hch => ⟨(hplain ch hch).2.2.1, (hplain ch hch).2.2.2⟩)
  have hinit : initValue (mkParams tbl) ty.ty (some ds) (some (.text s)) = .error .fail := by
    have he : s.isEmpty = false := rfl
    simp only [initValue, he, Bool.false_and, Bool.false_eq_true, if_false, mkParams, hc, bind, Except.bind]
  exact parseLines_single_define_error (mkParams tbl) _ _ ty.ty nm .fail hdet rfl rfl
    (preCheck_blockNode tbl k nm ty dims s unit hunit) (by simpa only [blockNode, hds] using hinit)

example : "[[1,2],[3]]".toList =
    '[' :: (joinWith [','] ([("[1,2]".toList, [Tok.bare "1".toList, Tok.bare "2".toList])].map Prod.fst) ++
      ',' :: (("[3]".toList, [Tok.bare "3".toList]).1 ++ "]".toList)) := by decide

/-- **Inline arrays with quoted string elements** (`["a","b"]`, any nesting depth).  `RenderedQ` is `Rendered` with
    one more kind of leaf: `"text"` (the text free of quotes, backslashes and control characters).  `json.loads`
    returns the shape and the leaves in row-major order — a quoted leaf as the text between its quotes — and
    `cast_value` the array of the element casts.  Every `Rendered` text is a `RenderedQ` text (`rendered_toQ`), so
    this subsumes `C13_inline_array`. -/
theorem C13_inline_array_strings (ty : Ty) (ds : List Dim) (s : Str) (sh : List Nat) (toks : List Tok) (atoms : List Atom)
    (hr : RenderedQ s sh toks) (hnone : (s == "none".toList) = false)
    (hel : toks.mapM (tokAtom ty) = .ok atoms) (hd : checkDims ds sh = true) :
    parseJson s = .ok (sh, toks) ∧ castText ty (some ds) s = .ok (.array sh atoms) := by
  have hp := parseJson_renderedQ hr
  refine ⟨hp, ?_⟩
  simp only [castText, hnone, Bool.false_eq_true, if_false, hp, bind, Except.bind, hel, hd, if_true]

/-- the element cast of a string array: the text between the quotes, unchanged -/
theorem C13_array_str_elements (xs : List Str) :
    (xs.map Tok.str).mapM (tokAtom .str) = .ok (xs.map Atom.str) :=
  mapM_ok_map (tokAtom .str) _ _ xs (fun _ _ => rfl)

/-- **String arrays of any nesting depth, from the text to the value**: the one-line program
    `name str[dims] = [["a",…],[…]] [# comment]` (the array text without blank, `#`, backslash, `$`) parses to
    exactly one parameter whose value is the array of the texts between the quotes, in row-major order. -/
theorem C13_str_array_text (tbl : List UnitRow) (k : Nat) (nm : Str) (a : Nat) (dims : Option (List DimD)) (b c : Nat)
    (s : Str) (sh : List Nat) (xs : List Str) (ds : List Dim) (cm : Option (Nat × Str))
    (hn : NameOk nm) (hd : DimsOk dims) (htail : NoEsc (renderTail none cm))
    (hr : RenderedQ s sh (xs.map Tok.str)) (hsh : sh ≠ [])
    (hplain : ∀ ch ∈ s, ch ≠ '#' ∧ isWs ch = false ∧ ch ≠ '\\' ∧ ch ≠ '$')
    (hds : dimsValue dims = some ds) (hcd : checkDims ds sh = true) :
    parseLines (mkParams tbl)
        [List.replicate k ' ' ++ (definePrefix nm a .str dims b c ++ (s ++ renderTail none cm))] =
      .ok [{ name := nm, ty := .str, info := {}, dims := some ds, units := none,
             value := some (.array sh (xs.map Atom.str)), declared := false }] := by
  obtain ⟨r, hsr⟩ := renderedQ_head hr hsh
  exact inline_array_text_core tbl k nm a .str dims b c s r sh _ _ ds none cm hn hd (by intro n x h; cases h) htail
    (by intro n x h; cases h) (parseJson_renderedQ hr) hsr hplain hds (C13_array_str_elements xs) hcd

example : RenderedQ "[\"ab\",\"c\"]".toList [2] (["ab".toList, "c".toList].map Tok.str) := by
  have q : ∀ x : Str, x = "ab".toList ∨ x = "c".toList → StrOk x := by
    intro x hx; rcases hx with rfl | rfl <;> (intro ch hch; revert ch; decide)
  exact RenderedQ.arr [("\"ab\"".toList, [.str "ab".toList]), ("\"c\"".toList, [.str "c".toList])] [] (by simp)
    (by intro it h; simp only [List.mem_cons, List.not_mem_nil, or_false] at h
        rcases h with rfl | rfl
        · exact RenderedQ.str _ (q _ (.inl rfl))
        · exact RenderedQ.str _ (q _ (.inr rfl)))

/-! ### scalar definitions at text level: from the line as written to the value `parse` returns -/

/-- **Integer definition, end to end.**  `<k blanks>name [u]int[NN] = [+-]digits [unit] [# comment]` (any number of
    blanks in the gaps; a written unit is known) parses to exactly one parameter: the written name, width/sign and
    unit, and as value the integer the digits denote. -/
theorem C13_int_scalar_text (tbl : List UnitRow) (k : Nat) (nm : Str) (a : Nat) (uns : Bool) (w : Option IntW) (b c : Nat)
    (sg : Option Bool) (d : Str) (unit cm : Option (Nat × Str))
    (hn : NameOk nm) (hu : ∀ n x, unit = some (n, x) → UnitOk x) (htail : NoEsc (renderTail unit cm))
    (hunit : ∀ n x, unit = some (n, x) → tbl.any (fun r => r.name = x) = true) (hd : allDigits d = true) :
    parseLines (mkParams tbl)
        [List.replicate k ' ' ++ (definePrefix nm a (.int uns w) none b c ++ ((signText sg ++ d) ++ renderTail unit cm))] =
      .ok [{ name := nm, ty := .int, info := (TyD.int uns w).info, dims := none, units := unit.map Prod.snd,
             value := some (.scalar (.num (((if signNeg sg then -(digitsToNat d : Int) else (digitsToNat d : Int)) : Int) : Rat))),
             declared := false }] := by
  obtain ⟨hdne, hall⟩ := allDigits_iff hd
  have hne : signText sg ++ d ≠ [] := by simp [hdne]
  obtain ⟨hlit, hesc, hs⟩ := numWord_lit (signText sg ++ d) hne (by
    intro ch hch
    rcases List.mem_append.mp hch with h | h
    · rcases signText_chars sg ch h with rfl | rfl <;> simp
    · exact .inl (hall ch h))
  have hemp : ((signText sg ++ d).isEmpty && (TyD.int uns w).ty != .str) = false := by
    cases hh : signText sg ++ d with
    | nil => exact absurd hh hne
    | cons _ _ => rfl
  exact define_scalar_text_core tbl k nm a (.int uns w) b c (.bare (signText sg ++ d)) unit cm _ hn hu htail
    (fun n x h => ⟨.inl rfl, hunit n x h⟩) hlit hesc hs hemp (C13_cast_int_literal sg d hd)

/-- **Float definition, end to end**: `name float[NN] = literal [unit] [# comment]` with a decimal / scientific
    literal (`23.3`, `.5`, `5.`, `-1.5E-3`, `+1e5`, …) parses to one parameter whose value is the rational denoted. -/
theorem C13_float_scalar_text (tbl : List UnitRow) (k : Nat) (nm : Str) (a : Nat) (w : Option FloatW) (b c : Nat)
    (f : FloatD) (unit cm : Option (Nat × Str))
    (hn : NameOk nm) (hu : ∀ n x, unit = some (n, x) → UnitOk x) (htail : NoEsc (renderTail unit cm))
    (hunit : ∀ n x, unit = some (n, x) → tbl.any (fun r => r.name = x) = true) (hf : f.Ok) :
    parseLines (mkParams tbl)
        [List.replicate k ' ' ++ (definePrefix nm a (.float w) none b c ++ (f.render ++ renderTail unit cm))] =
      .ok [{ name := nm, ty := .float, info := (TyD.float w).info, dims := none, units := unit.map Prod.snd,
             value := some (.scalar (.num f.value)), declared := false }] := by
  have hne := floatD_render_ne f hf
  obtain ⟨hlit, hesc, hs⟩ := numWord_lit f.render hne (floatD_chars f hf)
  have hemp : (f.render.isEmpty && (TyD.float w).ty != .str) = false := by
    cases hh : f.render with
    | nil => exact absurd hh hne
    | cons _ _ => rfl
  exact define_scalar_text_core tbl k nm a (.float w) b c (.bare f.render) unit cm _ hn hu htail
    (fun n x h => ⟨.inr rfl, hunit n x h⟩) hlit hesc hs hemp (C13_cast_float_literal f hf)

/-- **Boolean definition, end to end**: `name bool = true|false [# comment]`. -/
theorem C13_bool_scalar_text (tbl : List UnitRow) (k : Nat) (nm : Str) (a b c : Nat) (bv : Bool) (cm : Option (Nat × Str))
    (hn : NameOk nm) (htail : NoEsc (renderTail none cm)) :
    parseLines (mkParams tbl)
        [List.replicate k ' ' ++ (definePrefix nm a .bool none b c ++
          ((if bv then "true".toList else "false".toList) ++ renderTail none cm))] =
      .ok [{ name := nm, ty := .bool, info := {}, dims := none, units := none,
             value := some (.scalar (.bool bv)), declared := false }] := by
  have ht : "true".toList = ['t', 'r', 'u', 'e'] := by decide
  have hf : "false".toList = ['f', 'a', 'l', 's', 'e'] := by decide
  have hk := C13_cast_keywords .bool none [] (by decide)
  cases bv
  · simp only [Bool.false_eq_true, if_false]
    have hc := hk.2.2.1
    rw [hf] at hc ⊢
    exact define_scalar_text_core tbl k nm a .bool b c (.bare ['f', 'a', 'l', 's', 'e']) none cm _ hn
      (by intro n x h; cases h) htail (by intro n x h; cases h)
      ⟨⟨'f', ['a', 'l', 's', 'e'], rfl, by decide, by decide, by decide, by decide⟩, by decide⟩
      (by show ∀ c ∈ ['f', 'a', 'l', 's', 'e'], c ≠ '\\' ∧ c ≠ '\n'; decide)
      (by show ∀ c ∈ ['f', 'a', 'l', 's', 'e'], c ≠ '$'; decide) rfl hc
  · simp only [if_true]
    have hc := hk.2.1
    rw [ht] at hc ⊢
    exact define_scalar_text_core tbl k nm a .bool b c (.bare ['t', 'r', 'u', 'e']) none cm _ hn
      (by intro n x h; cases h) htail (by intro n x h; cases h)
      ⟨⟨'t', ['r', 'u', 'e'], rfl, by decide, by decide, by decide, by decide⟩, by decide⟩
      (by show ∀ c ∈ ['t', 'r', 'u', 'e'], c ≠ '\\' ∧ c ≠ '\n'; decide)
      (by show ∀ c ∈ ['t', 'r', 'u', 'e'], c ≠ '$'; decide) rfl hc

/-- **String definition, end to end**: `name str = "text" [# comment]` (the text free of `"`, backslash, newline,
    `$`, and not the word `none`) parses to one parameter whose value is exactly the text between the quotes —
    blanks and `#` inside the quotes included. -/
theorem C13_str_quoted_text (tbl : List UnitRow) (k : Nat) (nm : Str) (a b c : Nat) (s : Str) (cm : Option (Nat × Str))
    (hn : NameOk nm) (htail : NoEsc (renderTail none cm))
    (hs : ∀ ch ∈ s, ch ≠ '"' ∧ ch ≠ '\\' ∧ ch ≠ '\n' ∧ ch ≠ '$') (hnone : (s == "none".toList) = false) :
    parseLines (mkParams tbl)
        [List.replicate k ' ' ++ (definePrefix nm a .str none b c ++ (('"' :: (s ++ ['"'])) ++ renderTail none cm))] =
      .ok [{ name := nm, ty := .str, info := {}, dims := none, units := none,
             value := some (.scalar (.str s)), declared := false }] := by
  have hesc : NoEsc (Lit.render (.dq s)) := by
    intro ch hch
    simp only [Lit.render, List.mem_cons, List.mem_append, List.not_mem_nil, or_false] at hch
    rcases hch with rfl | hch | rfl
    · exact ⟨by decide, by decide⟩
    · exact ⟨(hs ch hch).2.1, (hs ch hch).2.2.1⟩
    · exact ⟨by decide, by decide⟩
  exact define_scalar_text_core tbl k nm a .str b c (.dq s) none cm _ hn (by intro n x h; cases h) htail
    (by intro n x h; cases h) (fun ch hch => (hs ch hch).1) hesc (fun ch hch => (hs ch hch).2.2.2)
    (by simp [TyD.ty]) (C13_cast_keywords .str none s hnone).2.2.2

example : (∀ ch ∈ "x # y z".toList, ch ≠ '"' ∧ ch ≠ '\\' ∧ ch ≠ '\n' ∧ ch ≠ '$') ∧ ("x # y z".toList == "none".toList) = false :=
  ⟨by decide, by decide⟩

/-! ### whole programs at text level -/

/-- **The property for whole programs, from the text.**  Take ANY list of lines written in the described grammar
    (`LineD`: group lines, definitions, declarations and modifications with every literal form, any blanks in the
    gaps, optional unit and comment; `k` leading blanks each; no backslash / newline in the line).  Then
    (1) the lexer returns, line by line, exactly the described nodes; (2) `parse` on the text is `parse` on those
    nodes; (3) `parse` on the text and the declarative specification on the abstract lines `(k, name, payload)` the
    text denotes — parent = nearest earlier name-bearing line with fewer leading blanks, path = ancestors' names +
    own name, one parameter per distinct path in order of first appearance, type / unit of the first and value of
    the last occurrence — either both succeed with the same parameters or both fail (`C14_text_refines_spec`
    applied to the lexed program). -/
theorem C13_program_text (P : Params) (prog : List (Nat × LineD)) (h : ∀ p ∈ prog, p.2.Ok ∧ NoEsc p.2.render) :
    let lines := prog.map (fun p => List.replicate p.1 ' ' ++ p.2.render)
    let nds := prog.map (fun p => ({ p.2.node with indent := p.1 } : Node))
    lines.mapM determine = .ok nds ∧ parseLines P lines = parseNodes P nds ∧
    ResEq ((parseLines P lines).map (List.map toS))
      (specRunG (castInterp P) P.conv P.unitKnown (prog.map (fun p => p.2.aline p.1))) := by
  intro lines nds
  have hlex : lines.mapM determine = .ok nds := mapM_determine_program prog h
  refine ⟨hlex, by simp [parseLines, hlex, bind, Except.bind], ?_⟩
  have hnt : ∀ nd ∈ nds, nd.kind ≠ .table := by
    intro nd hnd
    obtain ⟨p, _, rfl⟩ := List.mem_map.mp hnd
    exact lineD_not_table p.1 p.2
  have := C14.C14_text_refines_spec P lines nds hlex hnt
  have he : nds.map toALine = prog.map (fun p => p.2.aline p.1) := by
    simp only [nds, List.map_map]
    exact List.map_congr_left (fun p _ => toALine_lineD p.1 p.2)
  rw [he] at this
  exact this

example : (LineD.group "box".toList none).Ok ∧ NoEsc (LineD.group "box".toList none).render ∧
    (LineD.group "box".toList none).aline 2 = { indent := 2, name := "box".toList, p := .group } :=
  ⟨⟨⟨'b', "ox".toList, by decide⟩, by decide⟩, by show ∀ c ∈ _, c ≠ '\\' ∧ c ≠ '\n'; decide, rfl⟩

/-- **The directive line forms** `!constant` and `$unit …` (the two recognisers of `_determine_node` inside the
    property's grammar that `LineD` does not describe): at any indentation, `!constant` followed by an optional
    comment is lexed to the constant marker (whose effect on the last created parameter is `C14_constant_marks_last`),
    and `$unit`, a blank and any further text is lexed to a unit-definition node (which creates no parameter:
    the main loop of the model skips it; custom units are outside the modelled domain). -/
theorem C13_directive_lines_lexed (k : Nat) (cm : Option (Nat × Str)) (w : Char) (rest : Str)
    (hcm : NoEsc (renderComment cm)) (hw : isWs w = true) (hr : NoEsc (w :: rest)) :
    determine (List.replicate k ' ' ++ (constantWord ++ renderComment cm)) = .ok { kind := .constant, indent := k } ∧
    determine (List.replicate k ' ' ++ (unitWord ++ w :: rest)) = .ok { kind := .unit, indent := k } :=
  ⟨determine_constant k cm hcm, determine_unitdef k w rest hw hr⟩

example : constantWord = "!constant".toList ∧ unitWord = "$unit".toList ∧ isWs ' ' = true ∧
    NoEsc (' ' :: "length = 1 m".toList) := ⟨by decide, by decide, by decide, by show ∀ c ∈ _, c ≠ '\\' ∧ c ≠ '\n'; decide⟩

/-- **…and from the string.**  The same for the single string handed to `add_string`: the described lines joined by
    newlines (no block values: no line contains `"""`).  What the driver runs against the real parser,
    `parseText` on the program text, agrees with the declarative specification on the abstract lines the text denotes
    (both succeed with the same parameters, or both fail). -/
theorem C13_program_string (P : Params) (prog : List (Nat × LineD)) (hne : prog ≠ [])
    (h : ∀ p ∈ prog, p.2.Ok ∧ NoEsc p.2.render) (hq : ∀ p ∈ prog, hasTriple (List.replicate p.1 ' ' ++ p.2.render) = false) :
    ResEq ((parseText P (joinWith ['\n'] (prog.map (fun p => List.replicate p.1 ' ' ++ p.2.render)))).map (List.map toS))
      (specRunG (castInterp P) P.conv P.unitKnown (prog.map (fun p => p.2.aline p.1))) := by
  rw [C13_text_is_lines P _ (by simpa using hne)]
  · exact (C13_program_text P prog h).2.2
  · intro l hl c hc
    obtain ⟨p, hp, rfl⟩ := List.mem_map.mp hl
    rcases List.mem_append.mp hc with h1 | h1
    · rw [List.eq_of_mem_replicate h1]; decide
    · exact ((h p hp).2 c h1).2
  · intro l hl
    obtain ⟨p, hp, rfl⟩ := List.mem_map.mp hl
    exact hq p hp

/-- **Escaped quotes.**  A definition whose double-quoted value is written with `\\"` for every quote
    character of the intended text `s` (`s` itself free of backslash, newline and `$`): the lexer marks
    the escapes (`$@01`), finds the closing quote, and hands back exactly `s` — the backslashes are gone,
    the quote characters are there.  (`escQ` writes the value, `encode`/`decode` are the marks of
    `_determine_node`; the proof shows `decode ∘ encode` is the intended un-escaping and lifts it
    through the round trip.) -/
theorem C13_literal_roundtrip_escaped (k : Nat) (nm : Str) (a : Nat) (ty : TyD) (dims : Option (List DimD)) (b c : Nat)
    (s : Str) (unit cm : Option (Nat × Str))
    (hn : NameOk nm) (hd : DimsOk dims) (hu : ∀ n x, unit = some (n, x) → UnitOk x)
    (htail : NoEsc (renderTail unit cm)) (hs : ∀ ch ∈ s, ch ≠ '\\' ∧ ch ≠ '\n' ∧ ch ≠ '$') :
    determine (List.replicate k ' ' ++ (definePrefix nm a ty dims b c ++
        '"' :: (escQ '"' s ++ '"' :: renderTail unit cm))) = .ok (blockNode k nm ty dims s unit) := by
  let v : ValD := { lit := .dq (encQ '"' enc1 s), unit := unit, cm := cm }
  let d : LineD := .define nm a ty dims b c v
  have e1 : enc1 = ['$', '@', '0', '1'] := by decide
  have hvok : v.Ok := by
    refine ⟨?_, hu⟩
    show ∀ x ∈ encQ '"' enc1 s, x ≠ '"'
    apply encQ_chars '"' enc1 (fun x => x ≠ '"')
    · rw [e1]; decide
    · intro x _ hx; exact hx
  have hdok : d.Ok := ⟨hn, hd, hvok⟩
  have henc : encode (definePrefix nm a ty dims b c ++ '"' :: (escQ '"' s ++ '"' :: renderTail unit cm)) = d.render := by
    rw [encode_escaped_dq _ _ s (NoEsc_definePrefix nm a ty dims b c hn hd) htail
      (fun ch hch => ⟨(hs ch hch).1, (hs ch hch).2.1⟩), define_render_prefix]
    simp [ValD.render, Lit.render, v, List.append_assoc]
  rw [determine_render_enc k _ d hdok henc]
  simp only [d, LineD.node, v, Lit.text, decode_encQ_dq s (fun ch hch => (hs ch hch).2.2), blockNode]

/-- **Escaped apostrophes in single-quoted values**: the definition `name type = '…'` whose value writes every
    apostrophe of the intended text `s` as backslash-apostrophe lexes to the node with raw value exactly `s`
    (marks `$@00` put in by `encode`, closing quote found, marks taken out by `decode`). -/
theorem C13_literal_roundtrip_escaped_sq (k : Nat) (nm : Str) (a : Nat) (ty : TyD) (dims : Option (List DimD)) (b c : Nat)
    (s : Str) (unit cm : Option (Nat × Str))
    (hn : NameOk nm) (hd : DimsOk dims) (hu : ∀ n x, unit = some (n, x) → UnitOk x)
    (htail : NoEsc (renderTail unit cm)) (hs : ∀ ch ∈ s, ch ≠ '\\' ∧ ch ≠ '\n' ∧ ch ≠ '$') :
    determine (List.replicate k ' ' ++ (definePrefix nm a ty dims b c ++
        '\'' :: (escQ '\'' s ++ '\'' :: renderTail unit cm))) = .ok (blockNode k nm ty dims s unit) := by
  let v : ValD := { lit := .sq (encQ '\'' enc0 s), unit := unit, cm := cm }
  let d : LineD := .define nm a ty dims b c v
  have e0 : enc0 = ['$', '@', '0', '0'] := by decide
  have hvok : v.Ok := by
    refine ⟨?_, hu⟩
    show ∀ x ∈ encQ '\'' enc0 s, x ≠ '\''
    apply encQ_chars '\'' enc0 (fun x => x ≠ '\'')
    · rw [e0]; decide
    · intro x _ hx; exact hx
  have hdok : d.Ok := ⟨hn, hd, hvok⟩
  have henc : encode (definePrefix nm a ty dims b c ++ '\'' :: (escQ '\'' s ++ '\'' :: renderTail unit cm)) = d.render := by
    rw [encode_escaped_sq _ _ s (NoEsc_definePrefix nm a ty dims b c hn hd) htail
      (fun ch hch => ⟨(hs ch hch).1, (hs ch hch).2.1⟩), define_render_prefix]
    simp [ValD.render, Lit.render, v, List.append_assoc]
  rw [determine_render_enc k _ d hdok henc]
  simp only [d, LineD.node, v, Lit.text, decode_encQ_sq s (fun ch hch => (hs ch hch).2.2), blockNode]

/-- **Escaped quotes in modification lines**: `name = "…"` / `name = '…'` with every quote character of the
    intended text written as backslash-quote lexes to the modification node with raw value exactly that text. -/
theorem C13_modify_roundtrip_escaped (k : Nat) (nm : Str) (a b : Nat) (s : Str) (unit cm : Option (Nat × Str))
    (hn : NameOk nm) (hu : ∀ n x, unit = some (n, x) → UnitOk x)
    (htail : NoEsc (renderTail unit cm)) (hs : ∀ ch ∈ s, ch ≠ '\\' ∧ ch ≠ '\n' ∧ ch ≠ '$') :
    determine (List.replicate k ' ' ++ (modifyPrefix nm a b ++ '"' :: (escQ '"' s ++ '"' :: renderTail unit cm))) =
      .ok (modNode k nm s unit) ∧
    determine (List.replicate k ' ' ++ (modifyPrefix nm a b ++ '\'' :: (escQ '\'' s ++ '\'' :: renderTail unit cm))) =
      .ok (modNode k nm s unit) := by
  have e0 : enc0 = ['$', '@', '0', '0'] := by decide
  have e1 : enc1 = ['$', '@', '0', '1'] := by decide
  have hsb : ∀ ch ∈ s, ch ≠ '\\' ∧ ch ≠ '\n' := fun ch hch => ⟨(hs ch hch).1, (hs ch hch).2.1⟩
  have hsd : ∀ ch ∈ s, ch ≠ '$' := fun ch hch => (hs ch hch).2.2
  constructor
  · let v : ValD := { lit := .dq (encQ '"' enc1 s), unit := unit, cm := cm }
    let d : LineD := .modify nm a b v
    have hvok : v.Ok := by
      refine ⟨?_, hu⟩
      show ∀ x ∈ encQ '"' enc1 s, x ≠ '"'
      apply encQ_chars '"' enc1 (fun x => x ≠ '"')
      · rw [e1]; decide
      · intro x _ hx; exact hx
    have hdok : d.Ok := ⟨hn, hvok⟩
    have henc : encode (modifyPrefix nm a b ++ '"' :: (escQ '"' s ++ '"' :: renderTail unit cm)) = d.render := by
      rw [encode_escaped_dq _ _ s (NoEsc_modifyPrefix nm a b hn) htail hsb, modify_render_prefix]
      simp [ValD.render, Lit.render, v, List.append_assoc]
    rw [determine_render_enc k _ d hdok henc]
    simp only [d, LineD.node, v, Lit.text, decode_encQ_dq s hsd, modNode]
  · let v : ValD := { lit := .sq (encQ '\'' enc0 s), unit := unit, cm := cm }
    let d : LineD := .modify nm a b v
    have hvok : v.Ok := by
      refine ⟨?_, hu⟩
      show ∀ x ∈ encQ '\'' enc0 s, x ≠ '\''
      apply encQ_chars '\'' enc0 (fun x => x ≠ '\'')
      · rw [e0]; decide
      · intro x _ hx; exact hx
    have hdok : d.Ok := ⟨hn, hvok⟩
    have henc : encode (modifyPrefix nm a b ++ '\'' :: (escQ '\'' s ++ '\'' :: renderTail unit cm)) = d.render := by
      rw [encode_escaped_sq _ _ s (NoEsc_modifyPrefix nm a b hn) htail hsb, modify_render_prefix]
      simp [ValD.render, Lit.render, v, List.append_assoc]
    rw [determine_render_enc k _ d hdok henc]
    simp only [d, LineD.node, v, Lit.text, decode_encQ_sq s hsd, modNode]

example : escQ '\'' "it's".toList = "it\\'s".toList ∧ modifyPrefix "a.b".toList 0 1 = "a.b = ".toList := by decide

/-- the same marks for single quotes: `decode` gives the text with its apostrophes back -/
theorem C13_escape_marks_inverse (s : Str) (h : ∀ c ∈ s, c ≠ '$') :
    decode (encQ '"' enc1 s) = s ∧ decode (encQ '\'' enc0 s) = s :=
  ⟨decode_encQ_dq s h, decode_encQ_sq s h⟩

example : escQ '"' "say \"hi\"".toList = "say \\\"hi\\\"".toList := by decide


/-! ## literal escape marks (the repair e0ecb06 of `DIP._determine_node`)

`_determine_node` protects `\\'`, `\\"` and newlines by the marks `$@00`, `$@01`, `$@02` while the node
parser runs and puts the characters back afterwards.  Before the repair a mark that was *written
literally* in the code was decoded as well (`t str = "a$@01b"` had the value `a"b`); the repaired
code escapes the mark `$@` itself first (`$@03`) and restores it last — `encodeM` / `decodeM` of
`Lemmas/C13q.lean`. -/

/-- the old functions do change a literal mark: the defect, as a closed computation -/
theorem C13_old_marks_counterexample :
    decode (encode "a$@01b".toList) = "a\"b".toList := by decide +kernel

/-- **Literal marks survive**: for EVERY text without backslash and newline — whatever `$`, `@`
    and digits it holds, in particular every text made of the marks themselves — the repaired
    encoding followed by the repaired decoding is the identity. -/
theorem C13_literal_marks_survive (s : Str) (h : NoEsc s) : decodeM (encodeM s) = s := by
  have hne : NoEsc (esc s) := NoEsc_esc s.length s (Nat.le_refl _) h
  have e0 : enc0 = ['$', '@', '0', '0'] := by decide
  have e1 : enc1 = ['$', '@', '0', '1'] := by decide
  have e2 : enc2 = ['$', '@', '0', '2'] := by decide
  simp only [decodeM, encodeM, encode_noEsc (esc s) hne, decode]
  rw [e0, replaceAll_oldmark_esc '0' (by decide) _ s.length s (Nat.le_refl _),
    e1, replaceAll_oldmark_esc '1' (by decide) _ s.length s (Nat.le_refl _),
    e2, replaceAll_oldmark_esc '2' (by decide) _ s.length s (Nat.le_refl _)]
  exact replaceAll_enc3_esc s.length s (Nat.le_refl _)

/-- the repair is conservative: on text without `$` the repaired functions are the old ones, so
    every theorem above that is stated with `encode` / `decode` under a "no `$`" hypothesis speaks
    about the repaired code as well -/
theorem C13_marks_conservative (s x : Str) (hs : ∀ c ∈ s, c ≠ '$') (hx : ∀ c ∈ decode x, c ≠ '$') :
    encodeM s = encode s ∧ decodeM x = decode x :=
  ⟨encodeM_noDollar s hs, decodeM_noDollar x hx⟩

example : NoEsc "a$@01b $@ $$@00 $@03".toList := by
  intro c hc; revert c; decide
example : decodeM (encodeM "a$@01b $@ $$@00 $@03".toList) = "a$@01b $@ $$@00 $@03".toList := by decide +kernel

end SciVerif.C13
