import SciVerif.Lemmas.C17
import SciVerif.Lemmas.C17b
import SciVerif.Lemmas.C17w
import SciVerif.Lemmas.C17x
import SciVerif.Lemmas.C17q
import SciVerif.Lemmas.C17i
import SciVerif.Lemmas.C17j
import SciVerif.Lemmas.C17k
import SciVerif.Lemmas.C17l
import SciVerif.Lemmas.C17m
import SciVerif.Lemmas.C17n
import SciVerif.Generated.C17Units

/-!
# C17 — References deliver the referenced node's current value and unit

Only property theorems (helper lemmas: `Lemmas/C17*.lean`).  All theorems quantify over all
environments / node lists / lines / values / slice lists; none is bounded.
-/
namespace SciVerif.C17

/-- the attributes an import has to leave unchanged: type, dimension, unit, value, constraints -/
def sameAttrs (a b : Node) : Prop :=
  a.kw = b.kw ∧ a.dims = b.dims ∧ a.unitsRaw = b.unitsRaw ∧ a.value = b.value ∧
  a.constant = b.constant ∧ a.condition = b.condition ∧ a.format = b.format ∧
  a.tags = b.tags ∧ a.options = b.options ∧ a.defined = b.defined

/-! ## query = select -/

/-- `NodeList.query` returns exactly the matching nodes, renamed: characterisation of membership. -/
theorem C17_query_select (ns : List Node) (q : Query) (n' : Node) :
    n' ∈ query ns q ↔ ∃ n ∈ ns, qMatches q n = true ∧ n' = qRename q n :=
  mem_query ns q n'

/-- … in the order of the node list (the query is a list homomorphism), never more than there are. -/
theorem C17_query_order (a b : List Node) (q : Query) :
    query (a ++ b) q = query a q ++ query b q ∧ (query a q).length ≤ a.length := by
  refine ⟨query_append a b q, ?_⟩
  simp only [query, List.length_map]
  exact List.length_filter_le _ _

/-- renaming touches nothing but the name -/
theorem C17_query_attrs (q : Query) (n : Node) : sameAttrs (qRename q n) n := by
  cases q <;> simp [qRename, sameAttrs]

/-- `{?*}`: all nodes, names unchanged. -/
theorem C17_import_all (ns : List Node) : query ns (parseQuery ['*']) = ns := by
  have : parseQuery ['*'] = .all := by simp [parseQuery]
  have hf : ns.filter (qMatches .all) = ns := List.filter_eq_self.mpr (fun _ _ => rfl)
  have hm : qRename .all = id := by funext n; rfl
  rw [this]
  simp [query, hf, hm]

/-- `{?path.*}`: the query text `path.*` is read as "children of `path`" … -/
theorem C17_parse_children (p : Str) : parseQuery (p ++ ['.', '*']) = .children (p ++ ['.']) :=
  parseQuery_children p

/-- … and selects exactly the nodes whose name starts with `path.`, the prefix stripped. -/
theorem C17_import_children (ns : List Node) (p : Str) (n' : Node) :
    n' ∈ query ns (parseQuery (p ++ ['.', '*'])) ↔
      ∃ n ∈ ns, (p ++ ['.']).isPrefixOf n.name = true ∧
        n' = { n with name := n.name.drop (p.length + 1) } := by
  rw [parseQuery_children, mem_query]
  simp [qMatches, qRename]

/-- `{?path}` (a query that is neither `*` nor ends in `.*`): exactly the node of that name,
    re-rooted to its last component. -/
theorem C17_import_single (ns : List Node) (q : Str) (n' : Node)
    (h1 : q ≠ ['*']) (h2 : q.drop (q.length - 2) ≠ dotStar) :
    n' ∈ query ns (parseQuery q) ↔ ∃ n ∈ ns, n.name = q ∧ n' = { n with name := lastComp n.name } := by
  have : parseQuery q = .exact q := by simp [parseQuery, h1, h2]
  rw [this, mem_query]
  simp [qMatches, qRename]

example : (['a', '.', 'b'] : Str) ≠ ['*'] ∧
    (['a', '.', 'b'] : Str).drop ((['a', '.', 'b'] : Str).length - 2) ≠ dotStar := by decide

/-- the last component really is what follows the last dot -/
theorem C17_lastComp (p c : Str) (hc : '.' ∉ c) : lastComp (p ++ '.' :: c) = c ∧ lastComp c = c :=
  ⟨lastComp_append p c hc, lastComp_nodot c hc⟩

/-! ## imports -/

/-- `ImportNode.parse`: the nodes handed to the main loop are exactly the requested nodes (at
    least one), each with unchanged type, dimension, unit, value and constraints, its name
    re-rooted by the import line's name, carrying its current value as raw value and no reference. -/
theorem C17_import_nodes (env : Env) (imp : Node) (res : List Node)
    (h : importNodes env imp = .ok res) :
    ∃ r ns, imp.ref = some r ∧ request env r .any = .ok ns ∧ ns ≠ [] ∧ res.length = ns.length ∧
      ∀ i (hi : i < res.length) (hj : i < ns.length),
        sameAttrs res[i] ns[i] ∧ res[i].name = importName imp.name ns[i].name ∧
        res[i].indent = imp.indent ∧ res[i].ref = none ∧ res[i].raw = rawValue ns[i] := by
  unfold importNodes at h
  cases hr : imp.ref with
  | none => simp [hr] at h
  | some r =>
    simp only [hr] at h
    cases hq : request env r .any with
    | error e => simp [hq] at h
    | ok ns =>
      simp only [hq] at h
      cases ns with
      | nil => simp at h
      | cons a t =>
        simp only [Except.ok.injEq] at h
        subst h
        refine ⟨r, a :: t, rfl, hq, by simp, by simp, ?_⟩
        intro i hi hj
        simp only [List.getElem_map, sameAttrs]
        simp

/-- re-rooting, prefixed form `name {request}`: the imported node goes below `name`. -/
theorem C17_import_name_prefixed (p r nodeName : Str) (hp : '{' ∉ p) (hr : '{' ∉ r) :
    importName (p ++ '.' :: '{' :: (r ++ ['}'])) nodeName = p ++ '.' :: nodeName :=
  importName_prefixed p r nodeName hp hr

/-- re-rooting, bare form `{request}`: the name is kept (the hierarchy puts it below the group). -/
theorem C17_import_name_bare (r nodeName : Str) (hr : '{' ∉ r) :
    importName ('{' :: (r ++ ['}'])) nodeName = nodeName :=
  importName_bare r nodeName hr

example : ('{' : Char) ∉ (['h', '.', 'k'] : Str) := by decide

/-- An import that selects nothing is rejected: no entry is added, in particular not the
    import line itself. -/
theorem C17_no_unreadable_entry (tbl : UnitTable) (env : Env) (imp : Node) (r : Str)
    (hk : imp.kw = .imp) (hr : imp.ref = some r) (h0 : request env r .any = .ok []) :
    ∃ e, step tbl env (.node imp) = .error e := by
  simp [step, hk, importNodes, hr, h0]

/-- … and a successful import hands over at least one node. -/
theorem C17_import_nonempty (env : Env) (imp : Node) (res : List Node)
    (h : importNodes env imp = .ok res) : res ≠ [] := by
  obtain ⟨_, ns, _, _, hne, hl, _⟩ := C17_import_nodes env imp res h
  intro e
  rw [e] at hl
  cases ns with
  | nil => exact hne rfl
  | cons a t => simp at hl

/-! ## injection -/

/-- An injection whose request selects no node or several is rejected. -/
theorem C17_count_rejected (env : Env) (n : Node) (r : Str) (ns : List Node)
    (hr : n.ref = some r) (hsel : request env r .any = .ok ns) (hc : ns.length ≠ 1) :
    ∃ e, injectValue env n = .error e := by
  have : ∃ e, request env r .one = .error e := by
    obtain ⟨source, q, ns0, hs, hn, hcc⟩ := request_inv hsel
    simp only [countCheck, Except.ok.injEq] at hcc
    subst hcc
    exact ⟨"request: count", by simp [request, hs, hn, countCheck, hc]⟩
  obtain ⟨e, he⟩ := this
  exact ⟨e, by simp [injectValue, hr, he]⟩

example : ([] : List Node).length ≠ 1 := by decide

/-- The unit rule: the host keeps the unit it states itself and adopts the referenced node's
    unit when it states none.  Nothing else of the host changes but the raw value. -/
theorem C17_unit_rule (env : Env) (n n' src : Node) (r : Str)
    (hr : n.ref = some r) (hreq : request env r .one = .ok [src])
    (h : injectValue env n = .ok n') :
    (∀ u, n.unitsRaw = some u → n'.unitsRaw = some u) ∧
    (n.unitsRaw = none → n'.unitsRaw = src.unitsRaw) ∧
    n'.name = n.name ∧ n'.kw = n.kw ∧ n'.dims = n.dims ∧ n'.slice = n.slice ∧ n'.value = n.value := by
  simp only [injectValue, hr, hreq, Except.ok.injEq] at h
  subst h
  refine ⟨fun u hu => by simp [hu, pickUnit], fun hn => by simp [hn, pickUnit], rfl, rfl, rfl, rfl, rfl⟩

/-- … after which the usual conversion into the target's definition unit applies
    (`modify_value`): same unit → unchanged, unit missing on either side → unchanged, another
    unit of the same dimension → the affine map `x ↦ (a_f·x + b_f − b_t)/a_t` applied to every
    element (temperatures have an offset), another dimension or unknown unit → refused. -/
theorem C17_unit_conversion (tbl : UnitTable) (v : Val) (u w : Str) :
    convertVal tbl v (some u) (some u) = some v ∧
    convertVal tbl v none (some w) = some v ∧ convertVal tbl v (some u) none = some v ∧
    (∀ d af bf at' bt, u ≠ w → lookupUnit tbl u = some (d, af, bf) → lookupUnit tbl w = some (d, at', bt) →
      convertVal tbl v (some u) (some w) = some (affVal (af / at') ((bf - bt) / at') v)) ∧
    (∀ d d' af bf at' bt, u ≠ w → d ≠ d' → lookupUnit tbl u = some (d, af, bf) →
      lookupUnit tbl w = some (d', at', bt) → convertVal tbl v (some u) (some w) = none) := by
  refine ⟨by simp [convertVal], by simp [convertVal], by simp [convertVal], ?_, ?_⟩
  · intro d af bf at' bt hne h1 h2
    simp [convertVal, hne, h1, h2]
  · intro d d' af bf at' bt hne hd h1 h2
    simp [convertVal, hne, h1, h2, hd]

/-- the conversion acts on every element of an array (and on nothing but numbers) -/
theorem C17_convert_elementwise (a b : Rat) (l : List Val) (q : Rat) :
    affVal a b (.arr l) = .arr (l.map (affVal a b)) ∧ affVal a b (.num q) = .num (q * a + b) := by
  refine ⟨?_, rfl⟩
  simp only [affVal]
  congr 1
  induction l with
  | nil => rfl
  | cons x t ih => simp [affList, ih]

/-- The injected value is the referenced node's *current* value (not the raw text of its first
    definition), cut by the host's slice: after injection and `set_value`, the host holds
    `cast_value` of the source's current value, with the host's type, dimension and slice. -/
theorem C17_inject_current (env : Env) (n n' n'' src : Node) (r : Str) (v : Val)
    (hr : n.ref = some r) (hreq : request env r .one = .ok [src])
    (hv : src.value = some v) (hnv : n.value = none) (hk : n.kw ≠ .mod)
    (h : injectValue env n = .ok n') (hs : setValue n' = .ok n'') :
    n''.value = castValue n v ∧ n''.value.isSome ∧ n''.slice = [] := by
  simp only [injectValue, hr, hreq, Except.ok.injEq] at h
  have hraw : n'.raw = some v := by rw [← h]; simp [rawValue, hv]
  have hval : n'.value = none := by rw [← h]; exact hnv
  have hkw : n'.kw = n.kw := by rw [← h]
  have hc : castValue n' v = castValue n v :=
    castValue_fields n' n v hkw (by rw [← h]) (by rw [← h])
  have hk' : n'.kw ≠ .mod := by rw [hkw]; exact hk
  unfold setValue at hs
  simp only [hraw, hk', if_false, hval, hc] at hs
  cases hcv : castValue n v with
  | none => simp [hcv] at hs
  | some w =>
    simp only [hcv, Except.ok.injEq] at hs
    subst hs
    simp

/-- for an array host, `cast_value` is: convert the elements to the host's type, apply
    `slice_value`, test the dimension -/
theorem C17_cast_slice (n : Node) (v : Val) (hs : n.slice ≠ []) (hd : n.dims ≠ []) :
    castValue n v = (castElem (dtypeOf n.kw) v).bind (fun v1 =>
      (sliceValue n.slice v1).bind (fun v2 =>
        if checkDims n.dims (shape v2) then some v2 else none)) := by
  unfold castValue
  cases hsl : n.slice with
  | nil => exact absurd hsl hs
  | cons s ss =>
    cases hdm : n.dims with
    | nil => exact absurd hdm hd
    | cons d ds =>
      simp only [List.isEmpty_cons, Bool.not_false, Bool.or_self, if_true, Bool.false_eq_true, if_false]
      cases castElem (dtypeOf n.kw) v with
      | none => rfl
      | some v1 =>
        simp only [Option.bind]
        cases sliceValue (s :: ss) v1 <;> rfl

/-! ## hosts that are not typed nodes: `$unit name = {ref}`, option lines `= {ref}`, `@case {ref}` -/

/-- Every host that `inject_value` serves with a node other than itself (`$unit` definitions,
    and in the model also option lines) receives the referenced node's CURRENT value and keeps
    the unit it states itself, adopting the referenced node's unit when it states none. -/
theorem C17_host_unit_rule (env : Env) (ref : Str) (unit : Option Str) (src : Node) (v : Val)
    (hreq : request env ref .one = .ok [src]) (hv : src.value = some v) :
    injectHost env ref unit = .ok (v, pickUnit unit src.unitsRaw) ∧
    (∀ u, pickUnit (some u) src.unitsRaw = some u) ∧ pickUnit none src.unitsRaw = src.unitsRaw := by
  refine ⟨by simp [injectHost, hreq, rawValue, hv], fun u => rfl, rfl⟩

/-- `$unit name = {ref} [unit]`: the custom unit that is stored is exactly (name, current value
    of the referenced node, own-or-adopted unit); a request selecting no node or several, a
    non-numeric value, an unknown unit or an existing name are errors. -/
theorem C17_unit_by_reference (tbl : UnitTable) (env env' : Env) (name ref : Str) (unit : Option Str)
    (h : step tbl env (.unitref name ref unit) = .ok env') :
    ∃ src q, request env ref .one = .ok [src] ∧ rawValue src = some (.num q) ∧
      env'.units = env.units ++ [(name, .num q, pickUnit unit src.unitsRaw)] ∧
      env'.nodes = env.nodes ∧ unitKnown tbl (pickUnit unit src.unitsRaw) = true := by
  simp only [step] at h
  cases hr : request env ref .one with
  | error e => simp [injectHost, hr] at h
  | ok ns =>
    have hl := request_one_length hr
    cases ns with
    | nil => simp at hl
    | cons src rest =>
      cases rest with
      | cons a b => simp at hl
      | nil =>
        cases hv : rawValue src with
        | none => simp [injectHost, hr, hv] at h
        | some v =>
          simp only [injectHost, hr, hv] at h
          cases v with
          | num q =>
            simp only [addUnit] at h
            cases h1 : unitKnown tbl (pickUnit unit src.unitsRaw) with
            | false => simp [h1] at h
            | true =>
              cases h2 : env.units.any (fun u => decide (u.1 = name)) with
              | true => simp [h1, h2] at h
              | false =>
                simp only [h1, h2, Bool.not_true, Bool.false_eq_true, if_false, Except.ok.injEq] at h
                rw [← h]
                exact ⟨src, q, rfl, hv, rfl, rfl, h1⟩
          | bool b => simp [addUnit] at h
          | str s => simp [addUnit] at h
          | arr l => simp [addUnit] at h

/-- `@case {ref}`: the condition of a clause is the referenced node's current boolean value; a
    reference that selects no node or several is rejected — in every clause of a flat chain,
    whatever the earlier clauses were. -/
theorem C17_case_condition (env : Env) (ref : Str) :
    (∀ src b, request env ref .one = .ok [src] → src.value = some (.bool b) →
      caseValue env none (some ref) = .ok b) ∧
    (∀ ns, request env ref .any = .ok ns → ns.length ≠ 1 → ∃ e, caseValue env none (some ref) = .error e) := by
  refine ⟨fun src b hreq hv => by simp [caseValue, hreq, rawValue, hv], fun ns hsel hc => ?_⟩
  have : ∃ e, request env ref .one = .error e := by
    obtain ⟨source, q, ns0, hs, hn, hcc⟩ := request_inv hsel
    simp only [countCheck, Except.ok.injEq] at hcc
    subst hcc
    exact ⟨"request: count", by simp [request, hs, hn, countCheck, hc]⟩
  obtain ⟨e, he⟩ := this
  exact ⟨e, by simp [caseValue, he]⟩

/-- a later clause of an open branch is evaluated (its reference injected) whatever the earlier
    clauses were, and is selected exactly when its condition is true and no earlier one was -/
theorem C17_case_chain (tbl : UnitTable) (env : Env) (b : Branch) (raw : Option Val) (ref : Option Str)
    (hb : b.afterElse = false) :
    stepC tbl ⟨env, some b⟩ (.case b.indent (.cond raw ref)) =
      (match caseValue env raw ref with
       | .error e => .error e
       | .ok v => .ok ⟨{ env with parents := popParents b.indent env.parents },
           some ⟨b.indent, b.anyTrue || v, v && !b.anyTrue, false⟩⟩) := by
  simp only [stepC]
  cases caseValue env raw ref with
  | error e => rfl
  | ok v => simp [hb]

/-- without `@case` lines the chain-aware loop (what the driver runs) is the plain main loop of
    the refinement theorem -/
theorem C17_chain_loop_conservative (tbl : UnitTable) (items : List Item) (env : Env)
    (h : ∀ it ∈ items, isCase it = false) :
    items.foldlM (stepC tbl) ⟨env, none⟩ = (match items.foldlM (step tbl) env with
      | .ok e => .ok ⟨e, none⟩
      | .error e => .error e) :=
  foldlM_stepC_none tbl items env h

/-- `$unit {source?*}` (`UnitList.extend`): a custom unit of the remote source whose name exists
    already in the importing environment is refused — it is never skipped, so a host can never adopt
    a unit text that means something else locally. -/
theorem C17_unit_import_clash (tbl : UnitTable) (env : Env) (source : Str)
    (s : Str × List (Str × Val × Option Str)) (u : Str × Val × Option Str)
    (hs : env.srcUnits.find? (fun x => x.1 = source) = some s) (hu : u ∈ s.2)
    (hc : env.units.any (fun x => decide (x.1 = u.1)) = true) :
    ∃ e, step tbl env (.unitimp source none) = .error e := by
  obtain ⟨e, he⟩ := extendUnits_clash env.units s.2 u hu hc
  exact ⟨e, by simp [step, importUnits, hs, he]⟩

/-! ## slices -/

/-- Whenever numpy/Python slicing `v[s1, s2, …]` is defined — index, range (also `n:n`, the
    empty range), mixed forms, any number of entries, arrays of any rank, text at the last
    position — `slice_value` delivers exactly that result. -/
theorem C17_slice_python (ss : List Sl) (v r : Val) (hsp : specSlice ss v = some r) :
    sliceValue ss v = some r :=
  slice_python ss v r hsp

/-- On values without text leaves `slice_value` IS numpy/Python slicing (also in refusing:
    an index or a range applied to a number or boolean, an index out of range). -/
theorem C17_slice_python_eq (ss : List Sl) (v : Val) (ht : noText v = true) :
    sliceValue ss v = specSlice ss v :=
  slice_python_eq ss v ht

example : noText (.arr [.arr [.num 1, .num 2], .arr [.num 3, .num 4]]) = true ∧
    specSlice [Sl.rng none (some 2), Sl.idx 1] (.arr [.arr [.num 1, .num 2], .arr [.num 3, .num 4]]) =
      some (.arr [.num 2, .num 4]) ∧
    specSlice [Sl.rng (some 1) (some 1)] (.arr [.num 1, .num 2]) = some (.arr []) ∧
    specSlice [Sl.rng (some 1) none] (.str ['a', 'b', 'c']) = some (.str ['b', 'c']) := by
  refine ⟨by simp [noText, noTextL], by simp [specSlice, pySlice], by simp [specSlice, pySlice],
    by simp [specSlice, pySlice]⟩

/-- Python slice laws on lists of any length: the full range is the identity … -/
theorem C17_slice_full (α : Type) (l : List α) :
    pySlice l none none = l ∧ pySlice l (some 0) none = l ∧ pySlice l none (some l.length) = l := by
  simp [pySlice]

/-- … and a slice of a slice is a slice: `l[a:b][c:d] = l[a+c : min b (a+d)]`. -/
theorem C17_slice_slice (α : Type) (l : List α) (a b c d : Nat) :
    pySlice (pySlice l (some a) (some b)) (some c) (some d) =
      pySlice l (some (a + c)) (some (min b (a + d))) :=
  pySlice_pySlice l a b c d

/-- a full-range entry leaves an array as it is -/
theorem C17_slice_value_full (l : List Val) : sliceValue [.rng none none] (.arr l) = some (.arr l) := by
  simp [sliceValue, pySlice]

/-! ## base environment, copies -/

/-- `target = self.env.copy()` as a deep copy on the heap: whatever the main loop then does to
    the target (writes through the target's addresses, new objects), every object of the heap
    that existed before — in particular every node of the base environment — is unchanged. -/
theorem C17_base_unchanged (h : Heap Node) (base : List Nat) (ops : List (HOp Node)) :
    let s := ops.foldl hStep (deepCopy h base)
    ∀ a, a < h.length → s.1[a]? = h[a]? :=
  frame h base ops

/-- without the copy (`target = self.env`) a modification writes through to the base -/
theorem C17_base_shared_counterexample :
    ∃ (h : Heap Node) (base : List Nat) (op : HOp Node) (a : Nat),
      a < h.length ∧ ((hStep (h, base) op).1[a]?).map (·.constant) ≠ (h[a]?).map (·.constant) := by
  refine ⟨[⟨[], 0, .int, [], none, none, [], none, none, false, false, none, none, [], [], none, false⟩], [0],
    .write 0 (fun n => { n with constant := true }), 0, by simp, ?_⟩
  simp [hStep, writeAt]

/-- The copy `NodeList.query` hands out is deep for every mutable attribute (value object,
    options list, tags list, dimension list): (i) each attribute object of the copy is a fresh
    object equal to the original's, and (ii) whatever is later done through the copy — in-place
    mutation of any of its attribute objects (`options.append`, `tags +=`, conversion of the
    value object) or creation of new objects — every attribute object that existed before, in
    particular those of the node it was copied from (locally or in a remote source), is unchanged. -/
theorem C17_query_copy_deep (h : Heap AttrObj) (n : ObjNode) (newName : Str)
    (hv : ∀ a ∈ n.attrs, a < h.length) (ops : List (HOp AttrObj)) :
    (∀ i (hi : i < n.attrs.length),
      (queryCopy h n newName).2.attrs[i]? = some (h.length + i) ∧
      (queryCopy h n newName).1[h.length + i]? = h[n.attrs[i]]?) ∧
    (let s := ops.foldl hStep ((queryCopy h n newName).1, (queryCopy h n newName).2.attrs)
     ∀ a, a < h.length → s.1[a]? = h[a]?) :=
  ⟨fun i hi => deepCopy_get h n.attrs hv i hi, frame h n.attrs ops⟩

/-- `copy.copy(node)` instead: an option appended to the copy's list lands on the original -/
theorem C17_query_copy_shallow_counterexample :
    ∃ (h : Heap AttrObj) (n : ObjNode) (op : HOp AttrObj),
      let c := queryCopyShallow h n []
      (hStep (c.1, c.2.attrs) op).1[0]? ≠ h[0]? := by
  refine ⟨[.options []], ⟨[], [0]⟩, .write 0 (fun o => match o with
    | .options l => .options (l ++ [(.str [], none)])
    | x => x), ?_⟩
  simp [queryCopyShallow, hStep, writeAt]

example : ∀ a ∈ (⟨[], [0, 1]⟩ : ObjNode).attrs, a < ([.options [], .tags []] : Heap AttrObj).length := by
  decide

/-- the functional model's own frame property: a parse step never changes the remote sources,
    and custom units are only ever added at the end -/
theorem C17_sources_unchanged (tbl : UnitTable) (env env' : Env) (it : Item)
    (h : step tbl env it = .ok env') :
    env'.sources = env.sources ∧ ∃ us, env'.units = env.units ++ us :=
  step_frame tbl env env' it h

/-! ## refinement of the parse loop to the path-keyed specification

`absEnv` maps a model environment to a specification environment (node name ↦ path by
`split('.')`); `conc` writes a statement as the line record at indent 0 with the full dotted
name (`a.b float[2] = {src?c.d}[1:] cm`, `a.b = …`, `h.k {src?c.*}`, `{?*}`); `Inv` is the
invariant on stored nodes; `InFrag` / `FragRun` are the side conditions of the proved fragment. -/

/-- Full statement: every program of definition / modification / injection / import lines runs
    in the model exactly as in the specification — without side conditions.  Proved parts:
    `C17_refinement_partial` (flat programs), `C17_refinement_nested_partial` (lines nested by
    indentation, group lines, property lines), `C17_refinement_nested_imports_partial` (the same
    with import lines at any indentation, below indented groups), `C17_refinement_rejected`
    (wildcard / missing injections are errors on both sides); `C17_refinement_checked_partial`
    states the flat part with its side conditions as an executable check.  Still missing: declared
    nodes inside the invariant (`Inv` requires every stored node to hold a value), `$unit` / option /
    `@case` hosts by reference as refinement statements, and dropping the side conditions. -/
def C17_refinement_statement : Prop :=
  ∀ (tbl : UnitTable) (stmts : List SStmt) (items : List Item) (env : Env) (s' : SEnv),
    Inv tbl env → stmts.mapM conc = some items → sRun tbl (absEnv env) stmts = .ok s' →
    ∃ env', items.foldlM (step tbl) env = .ok env' ∧ absEnv env' = s'

/-- Proved part: for every program (any length) of definitions and modifications with literal
    or injected values (`{?p}`, `{source?p}`, any slice on definitions) and of imports (`{?*}`,
    `{?p.*}`, `{?p}`, bare or prefixed, local or from a remote source, onto fresh paths or onto
    nodes that exist already), from every environment
    that satisfies the invariant: whenever the specification accepts the program, the model's
    main loop accepts its lines, ends in an environment whose abstraction IS the specification's
    result (names, types, dimensions, units, values, constraints of all nodes; remote sources
    untouched), and the invariant holds again.  Side conditions (`FragRun`, checked along the
    specification's run): well-formed path / request texts, an injected definition takes a node
    of its own type, integer nodes stay dimensionless, modifications carry no slice, an import
    selects at least one node.  An imported node whose destination path already exists is
    assigned to that node like a modification (same type required, current value converted from
    the imported node's unit into the existing node's definition unit, the existing node keeps
    its constraints) — on both sides, in the order of selection. -/
theorem C17_refinement_partial (tbl : UnitTable) (stmts : List SStmt) (items : List Item) (env : Env)
    (s' : SEnv) (hinv : Inv tbl env) (hfrag : FragRun tbl (absEnv env) stmts)
    (hc : stmts.mapM conc = some items) (h : sRun tbl (absEnv env) stmts = .ok s') :
    ∃ env', items.foldlM (step tbl) env = .ok env' ∧ absEnv env' = s' ∧ Inv tbl env' :=
  refine_run tbl stmts items env s' hinv hfrag hc h

/-- The hierarchy stack is the chain of nearest earlier lines with smaller indentation: after
    any sequence of named lines `ls` and one more line `(d, nm)`, `HierarchyList.register` holds
    that line followed by exactly "the nearest earlier line with a smaller indent, then the
    nearest before that with a still smaller one, …", and the dotted path it assigns is that chain
    (outermost first) followed by the line's own name. -/
theorem C17_paths (ls : List (Nat × Str)) (d : Nat) (nm : Str) :
    pushAll [] (ls ++ [(d, nm)]) = (d, nm) :: anc d ls.reverse ∧
    regNameOf (pushAll [] ls) d nm = joinDot (((anc d ls.reverse).reverse.map Prod.snd) ++ [nm]) := by
  have h := pushAll_stackOf (ls ++ [(d, nm)])
  simp only [List.reverse_append, List.reverse_cons, List.reverse_nil, List.nil_append,
    List.singleton_append, stackOf] at h
  refine ⟨h, ?_⟩
  simp only [regNameOf, regStackOf, pushAll_stackOf ls, popParents_stackOf, List.reverse_cons, List.map_append,
    List.map_cons, List.map_nil]

example : anc 4 [(2, ['b']), (5, ['x']), (0, ['a'])] = [(2, ['b']), (0, ['a'])] := by decide

/-- Proved part, nested programs: lines at ANY indentation (group lines, definitions,
    modifications, injections with relative or dotted names; imports written at the root), and
    PROPERTY lines (`!constant`, `!condition`, `!format`, `!tags`, `!description`, literal options)
    placed after the node they are meant for.  Whenever the specification — which addresses nodes
    by path — accepts the statements, the model's main loop — which computes paths with the
    hierarchy stack and attaches property lines to the last node — accepts the lines and ends in
    an environment whose abstraction is the specification's result.  Side conditions (`RunH`,
    checked along the joint run): `InFrag` for every statement, the registered path of a line is
    the path its statement addresses (`PathOK`; by `C17_paths` this is the chain of nearest
    earlier lines with smaller indentation), and for a property line: the last node is the node at
    its path, no earlier node has that name, its type admits the property (`PropOK`). -/
theorem C17_refinement_nested_partial (tbl : UnitTable) (lines : List HLine) (items : List Item)
    (env : Env) (s' : SEnv) (hinv : Inv tbl env) (hrun : RunH tbl env lines)
    (hc : lines.mapM HLine.item = some items)
    (h : sRun tbl (absEnv env) (lines.filterMap HLine.stmt?) = .ok s') :
    ∃ env', items.foldlM (step tbl) env = .ok env' ∧ absEnv env' = s' ∧ Inv tbl env' :=
  refine_runH tbl lines items env s' hinv hrun hc h

/-- Proved part, nested programs WITH IMPORT LINES AT ANY INDENTATION (strictly more programs than
    `C17_refinement_nested_partial`, which keeps import lines at the root): a program is a list of
    `NLine`s — every line of the nested theorem (group lines, definitions / modifications /
    injections at any indent, root imports, property lines) and import lines `pre {source?q}` or
    `{source?q}` written at ANY indent `i` below any chain of groups.  `ImportNode.parse` hands
    each copy over with the indent of the import line and the main loop registers every copy with
    the hierarchy stack (each copy pops its predecessor); the theorem shows that all copies land
    below the same chain of parents, i.e. exactly where the path-keyed specification's
    `.imp dest source q` puts them, for every request form (`*`, `p.*`, `p`), local or remote,
    onto fresh paths or onto existing nodes.  Side conditions (`RunN`, checked along the joint
    run): those of `RunH` for the old lines; for an import line at indent `i`: `InFrag` of
    `.imp dest source q`, no `{` in the written prefix `pre`, and `ImpPathOK`: the chain of
    parents of the line, then `pre`, is `dest` (see `C17_import_path_parents`).  Still missing
    from `C17_refinement_statement`: declared nodes in `Inv`, hosts by reference as refinement
    statements, dropping the side conditions. -/
theorem C17_refinement_nested_imports_partial (tbl : UnitTable) (lines : List NLine) (items : List Item)
    (env : Env) (s' : SEnv) (hinv : Inv tbl env) (hrun : RunN tbl env lines)
    (hc : lines.mapM NLine.item = some items)
    (h : sRun tbl (absEnv env) (lines.filterMap NLine.stmt?) = .ok s') :
    ∃ env', items.foldlM (step tbl) env = .ok env' ∧ absEnv env' = s' ∧ Inv tbl env' :=
  refine_runN tbl lines items env s' hinv hrun hc h

/-- the single import line at indent `i` behind it -/
theorem C17_refinement_import_at_step (tbl : UnitTable) (env : Env) (hinv : Inv tbl env) (i : Nat)
    (pre dest : List Str) (source : Option Str) (q : SQuery) (s' : SEnv)
    (hfrag : InFrag (absEnv env) (.imp dest source q)) (hpre : '{' ∉ joinDot pre)
    (hpath : ImpPathOK env.parents i pre dest)
    (h : sStep tbl (absEnv env) (.imp dest source q) = .ok s') :
    ∃ env', step tbl env (.node (impAt i pre source q)) = .ok env' ∧ absEnv env' = s' ∧ Inv tbl env' :=
  refine_imp_at tbl env hinv i pre dest source q s' hfrag hpre hpath h

/-- the nested-imports theorem contains the nested theorem: a program without indented import
    lines satisfies `RunN` as soon as it satisfies `RunH` -/
theorem C17_nested_imports_conservative (tbl : UnitTable) (lines : List HLine) (env : Env)
    (h : RunH tbl env lines) : RunN tbl env (lines.map NLine.base) :=
  runN_of_runH tbl lines env h

/-- `ImpPathOK` in its natural form: the destination of an import line `pre {…}` written at
    indent `i` is the chain of names left on the hierarchy stack (by `C17_paths`: the nearest
    earlier lines with smaller indentation, outermost first) followed by the written prefix. -/
theorem C17_import_path_parents (ps : List (Nat × Str)) (i : Nat) (pre : List Str) :
    ImpPathOK ps i pre (((popParents i ps).reverse.map Prod.snd) ++ pre) :=
  impPathOK_parents ps i pre

/-- the hypotheses of the indented import step are satisfiable by a non-trivial instance: after
    `a float = 3 m` and the group line `g` (indent 0), the line `{?*}` at indent 2 imports to `g` -/
example : let env : Env := { Env.empty with
      nodes := [{ blank ['a'] .float with value := some (.num 3), unitsRaw := some ['m'] }],
      parents := [(0, ['g'])] }
    Inv unitTable env ∧ InFrag (absEnv env) (.imp [['g']] none .all) ∧ '{' ∉ joinDot ([] : List Str) ∧
    ImpPathOK env.parents 2 [] [['g']] ∧
    (∃ s', sStep unitTable (absEnv env) (.imp [['g']] none .all) = .ok s') := by
  intro env
  refine ⟨⟨?_, by simp [env, Env.empty]⟩, ?_, by simp [joinDot], ?_, ?_⟩
  · intro n hn
    simp only [env, List.mem_singleton] at hn
    subst hn
    refine ⟨rfl, ⟨.num 3, rfl, by simp [blank, conforms, castScalar]⟩, rfl, ?_, by simp [blank]⟩
    simp [blank, unitOk, isNumKw, lookupUnit, unitTable]
  · refine ⟨by simp [WFSource], by simp [WFDest], by simp [joinDot], by simp [renderQ], trivial, ?_⟩
    intro ss hss
    simp only [sLookup, absEnv, env, List.map_cons, List.map_nil, List.isEmpty_cons, Bool.false_eq_true,
      if_false, Option.some.injEq] at hss
    subst hss
    simp [select, sMatches]
  · exact impPathOK_parents [(0, ['g'])] 2 []
  · refine ⟨⟨[⟨[['a']], .float, [], some ['m'], some (.num 3), false, none, none, [], [], none⟩,
        ⟨[['g'], ['a']], .float, [], some ['m'], some (.num 3), false, none, none, [], [], none⟩], [], false, [], []⟩, ?_⟩
    have hf : List.filter (sMatches SQuery.all)
        [(⟨[['a']], .float, [], some ['m'], some (.num 3), false, none, none, [], [], none⟩ : SNode)] =
        [⟨[['a']], .float, [], some ['m'], some (.num 3), false, none, none, [], [], none⟩] := rfl
    simp [sStep, sLookup, absEnv, env, select, hf, sReroot, sImportAll, sImportOne, absN, blank, splitDot,
      Env.empty]

/-- … and with the destination COMPUTED from the hierarchy stack and the written prefix
    (`impDest`: the names left on the stack, then the prefix, joined and split at the dots — a group
    line may itself carry a dotted name) two side conditions of an indented import line hold for
    every stack, indent and prefix: `ImpPathOK` and the `WFDest` conjunct of `InFrag`. -/
theorem C17_import_dest_computed (ps : List (Nat × Str)) (i : Nat) (pre : List Str) :
    ImpPathOK ps i pre (impDest ps i pre) ∧ WFDest (impDest ps i pre) :=
  impDest_ok ps i pre

example : impDest [(2, ['b', '.', 'c']), (0, ['a'])] 4 [['h']] = [['a'], ['b'], ['c'], ['h']] ∧
    impDest [(2, ['b']), (0, ['a'])] 2 [] = [['a']] ∧ impDest [] 0 [] = [] := by decide

/-- The side conditions of the flat refinement theorem are an executable check: `fragRunB` (a
    `Bool`-valued function of the unit table, the initial specification environment and the
    program: it evaluates the decidable form `inFragB` of `InFrag` for each statement in the
    environment the specification's own run reaches) accepts exactly the programs of the proved
    fragment — sound and complete. -/
theorem C17_fragment_decidable (tbl : UnitTable) (senv : SEnv) (stmts : List SStmt) :
    (fragRunB tbl senv stmts = true ↔ FragRun tbl senv stmts) ∧
    (∀ s, inFragB senv s = true ↔ InFrag senv s) :=
  ⟨fragRunB_iff tbl senv stmts, fun s => ⟨inFragB_sound senv s, inFragB_complete senv s⟩⟩

/-- Proved part with the side condition as a computation: for every program that the check
    `fragRunB` accepts (no `Prop`-valued hypothesis about the program is left; by
    `C17_fragment_decidable` these are exactly the programs of `C17_refinement_partial`), from every
    environment satisfying the invariant: whenever the specification accepts the program, the
    model's main loop accepts its lines and ends in the abstraction of the specification's result.
    Still missing from `C17_refinement_statement`: the programs `fragRunB` refuses (declared nodes,
    hosts by reference, sliced modifications, injections across types, integer nodes with units,
    empty imports). -/
theorem C17_refinement_checked_partial (tbl : UnitTable) (stmts : List SStmt) (items : List Item)
    (env : Env) (s' : SEnv) (hinv : Inv tbl env) (hchk : fragRunB tbl (absEnv env) stmts = true)
    (hc : stmts.mapM conc = some items) (h : sRun tbl (absEnv env) stmts = .ok s') :
    ∃ env', items.foldlM (step tbl) env = .ok env' ∧ absEnv env' = s' ∧ Inv tbl env' :=
  refine_run tbl stmts items env s' hinv (fragRunB_sound tbl (absEnv env) stmts hchk) hc h

/-- the check accepts a non-trivial program (definition with unit, injected definition that adopts
    the unit, modification by injection, import of everything below `g`) … and refuses one that
    injects across types -/
example : fragRunB unitTable (absEnv Env.empty)
      [.defn [['a']] .float [] (.lit (.num 3)) (some ['m']),
       .defn [['b']] .float [] (.inj none (.exact [['a']]) []) none,
       .modl [['a']] (.inj none (.exact [['b']]) []) (some ['c', 'm']),
       .imp [['g']] none .all] = true ∧
    fragRunB unitTable (absEnv Env.empty)
      [.defn [['a']] .float [] (.lit (.num 3)) (some ['m']),
       .defn [['b']] .str [] (.inj none (.exact [['a']]) []) none] = false := by
  decide +kernel

/-- Proved part, nested programs, side conditions as a computation: `runNB` (a `Bool`-valued
    function of the unit table, the initial environment and the program) evaluates the decidable
    forms of `InFrag`, `PathOK`, `PropOK` for every line in the environment the MODEL's own run
    reaches, and demands of an import line at indent `i` that its statement addresses the
    destination `impDest` computes from the hierarchy stack.  For every program it accepts — no
    `Prop`-valued hypothesis about the program is left — whenever the specification accepts the
    statements, the main loop accepts the lines and ends in the abstraction of the specification's
    result.  (`runNB` is sound for `RunN`; unlike `fragRunB` it is not claimed complete: `ImpPathOK`
    also holds for other spellings of the same destination.) -/
theorem C17_refinement_nested_checked_partial (tbl : UnitTable) (lines : List NLine) (items : List Item)
    (env : Env) (s' : SEnv) (hinv : Inv tbl env) (hchk : runNB tbl env lines = true)
    (hc : lines.mapM NLine.item = some items)
    (h : sRun tbl (absEnv env) (lines.filterMap NLine.stmt?) = .ok s') :
    ∃ env', items.foldlM (step tbl) env = .ok env' ∧ absEnv env' = s' ∧ Inv tbl env' :=
  refine_runN tbl lines items env s' hinv (runNB_sound tbl env lines hchk) hc h

/-- the nested check accepts `a float = 3 m` / `g` / `  b float = {?a}` / `  {?*}` / `  !constant`
    (the import at indent 2 re-creates `a` and `g.b` below `g`; the property line is for `g.g.b`) -/
example : runNB unitTable Env.empty
    [.base (.stmt 0 ['a'] (.defn [['a']] .float [] (.lit (.num 3)) (some ['m']))),
     .base (.group 0 ['g']),
     .base (.stmt 2 ['b'] (.defn [['g'], ['b']] .float [] (.inj none (.exact [['a']]) []) none)),
     .imp 2 [] [['g']] none .all,
     .base (.prop [['g'], ['g'], ['b']] .constant)] = true := by
  decide +kernel

/-- The invariant of the refinement theorems as a computation: `invB` (a `Bool`-valued function of
    the unit table and the environment: every stored node and every node of every remote source
    is typed, holds a value that its own cast leaves unchanged, has no pending slice, carries a
    unit of the table — none on str/bool/int) is sound AND complete for `Inv`.  Equality of values
    is decided by the structural test `valEqB` (`Val` is a nested inductive).  With it `Inv` of the
    initial environment of a run — the base environment `DIP(base)` starts from, the parsed remote
    sources — is evaluated by the driver for every generated program instead of being assumed. -/
theorem C17_inv_decidable (tbl : UnitTable) (env : Env) : invB tbl env = true ↔ Inv tbl env :=
  invB_iff tbl env

/-- Proved part, nested programs from ANY initial environment, no `Prop`-valued hypothesis left
    about the environment or the program: if the computation `invB` accepts the initial environment
    and the computation `runNB` accepts the program there, then whenever the specification accepts
    the statements, the main loop accepts the lines, ends in the abstraction of the specification's
    result, and `invB` accepts the final environment (so the result can serve as the base of a
    further program).  Still missing from `C17_refinement_statement`: as for
    `C17_refinement_nested_imports_partial` (declared nodes — `invB` refuses an environment that
    holds one —, hosts by reference, imports inside `@case` branches). -/
theorem C17_refinement_env_checked_partial (tbl : UnitTable) (lines : List NLine) (items : List Item)
    (env : Env) (s' : SEnv) (hinv : invB tbl env = true) (hchk : runNB tbl env lines = true)
    (hc : lines.mapM NLine.item = some items)
    (h : sRun tbl (absEnv env) (lines.filterMap NLine.stmt?) = .ok s') :
    ∃ env', items.foldlM (step tbl) env = .ok env' ∧ absEnv env' = s' ∧ invB tbl env' = true := by
  obtain ⟨env', h1, h2, h3⟩ := refine_runN tbl lines items env s' ((invB_iff tbl env).1 hinv)
    (runNB_sound tbl env lines hchk) hc h
  exact ⟨env', h1, h2, (invB_iff tbl env').2 h3⟩

/-- `invB` accepts a non-trivial environment (a float with unit, a 2-element integer array, a
    remote source holding a string) and, there, `runNB` accepts a program that injects from the
    source; `invB` refuses a declared node (no value), a value that does not conform to the
    declared type, and a unit on a string -/
example : let env : Env := { Env.empty with
      nodes := [{ blank ['a'] .float with value := some (.num 3), unitsRaw := some ['m'] },
                { blank ['v'] .int with dims := [(some 2, some 2)], value := some (.arr [.num 1, .num 2]) }],
      sources := [(['s'], [{ blank ['t'] .str with value := some (.str ['x']) }])] }
    invB unitTable env = true ∧
    runNB unitTable env [.base (.stmt 0 ['b'] (.defn [['b']] .str [] (.inj (some ['s']) (.exact [['t']]) []) none))] = true ∧
    invB unitTable { env with nodes := [blank ['d'] .float] } = false ∧
    invB unitTable { env with nodes := [{ blank ['d'] .float with value := some (.str ['x']) }] } = false ∧
    invB unitTable { env with nodes := [{ blank ['d'] .str with value := some (.str ['x']), unitsRaw := some ['m'] }] } = false := by
  decide +kernel

/-- Proved part, a further layer of the code inside the theorem: not the bare main loop
    (`foldlM step`) but the functions the correspondence runs against `DIP.parse` — `parseC` (main
    loop WITH the `@case` branch state, then the final validation loop `validate`) and `parse`.
    For an initial environment accepted by `invB` and a program accepted by `runNB` (both
    computations), whenever the specification accepts the statements: `parseC` and `parse` return
    the same environment, its abstraction is the specification's result, and `invB` accepts it.
    (The lines of `NLine` are never clause lines, so the branch state stays empty; `Inv` of the
    result makes the validation loop pass: no stored node is left without value.)  Still missing
    from `C17_refinement_statement`: as for `C17_refinement_nested_imports_partial`. -/
theorem C17_refinement_parse_partial (tbl : UnitTable) (lines : List NLine) (items : List Item)
    (env : Env) (s' : SEnv) (hinv : invB tbl env = true) (hchk : runNB tbl env lines = true)
    (hc : lines.mapM NLine.item = some items)
    (h : sRun tbl (absEnv env) (lines.filterMap NLine.stmt?) = .ok s') :
    ∃ env', parseC tbl env items = .ok env' ∧ parse tbl env items = .ok env' ∧ absEnv env' = s' ∧
      invB tbl env' = true := by
  obtain ⟨env', h1, h2, h3, h4⟩ := refine_parse tbl lines items env s' ((invB_iff tbl env).1 hinv) hchk hc h
  exact ⟨env', h1, h2, h3, (invB_iff tbl env').2 h4⟩

/-- Proved part, `DIP(base)`: a base text parsed first (`parseC` from `env`, giving `benv`), then
    the main text parsed on top of `benv`.  All hypotheses about environment and programs are
    computations: `invB` on the initial environment, `runNB` on the base text there, and `runNB` on
    the main text in the environment the base parse returns (`afterB`).  Whenever the specification
    accepts the base statements (result `s1`) and then the main statements from `s1` (result `s2`),
    both parses succeed, the base environment abstracts to `s1`, the final one to `s2`, and `invB`
    accepts it.  Missing: as for `C17_refinement_nested_imports_partial`; the frame property (base
    object unchanged) is `C17_base_unchanged`. -/
theorem C17_refinement_on_base_partial (tbl : UnitTable) (base main : List NLine) (bitems mitems : List Item)
    (env : Env) (s1 s2 : SEnv) (hinv : invB tbl env = true)
    (hb : runNB tbl env base = true) (hcb : base.mapM NLine.item = some bitems)
    (h1 : sRun tbl (absEnv env) (base.filterMap NLine.stmt?) = .ok s1)
    (hm : afterB tbl env bitems (fun benv => runNB tbl benv main) = true)
    (hcm : main.mapM NLine.item = some mitems)
    (h2 : sRun tbl s1 (main.filterMap NLine.stmt?) = .ok s2) :
    ∃ benv env', parseC tbl env bitems = .ok benv ∧ absEnv benv = s1 ∧ parseC tbl benv mitems = .ok env' ∧
      absEnv env' = s2 ∧ invB tbl env' = true := by
  obtain ⟨e1, e2, a, b, c, d, e⟩ := refine_two_stage tbl base main bitems mitems env s1 s2 id id
    (fun e he => ⟨he, rfl⟩) ((invB_iff tbl env).1 hinv) hb hcb h1 hm hcm h2
  exact ⟨e1, e2, a, b, c, d, (invB_iff tbl e2).2 e⟩

/-- Proved part, remote files: the text of a remote file is parsed on its own from `env` (the
    sources installed so far), its nodes and custom units are installed as source `name`
    (`withSource`; on the specification side `sWithSource`), then the main text is parsed.  Same
    form as `C17_refinement_on_base_partial`: only computations as hypotheses; both parses succeed
    and the final environment abstracts to the specification's.  `withSource` keeps `Inv` and
    commutes with the abstraction, so the step can be iterated for any number of files. -/
theorem C17_refinement_with_source_partial (tbl : UnitTable) (name : Str) (src main : List NLine)
    (sitems mitems : List Item) (env : Env) (sS s' : SEnv) (hinv : invB tbl env = true)
    (hs : runNB tbl env src = true) (hcs : src.mapM NLine.item = some sitems)
    (h1 : sRun tbl (absEnv env) (src.filterMap NLine.stmt?) = .ok sS)
    (hm : afterB tbl env sitems (fun envS => runNB tbl (withSource env name envS) main) = true)
    (hcm : main.mapM NLine.item = some mitems)
    (h2 : sRun tbl (sWithSource (absEnv env) name sS) (main.filterMap NLine.stmt?) = .ok s') :
    ∃ envS env', parseC tbl env sitems = .ok envS ∧ absEnv envS = sS ∧
      parseC tbl (withSource env name envS) mitems = .ok env' ∧ absEnv env' = s' ∧ invB tbl env' = true := by
  have hi := (invB_iff tbl env).1 hinv
  obtain ⟨e1, e2, a, b, c, d, e⟩ := refine_two_stage tbl src main sitems mitems env sS s'
    (fun e => withSource env name e) (fun s => sWithSource (absEnv env) name s)
    (fun e he => ⟨inv_withSource tbl env e name hi he, abs_withSource env e name⟩) hi hs hcs h1 hm hcm h2
  exact ⟨e1, e2, a, b, c, d, (invB_iff tbl e2).2 e⟩

/-- the assembly of the initial environment keeps the invariant and commutes with the abstraction -/
theorem C17_inv_with_source (tbl : UnitTable) (env envS : Env) (name : Str) (h : Inv tbl env) (hS : Inv tbl envS) :
    Inv tbl (withSource env name envS) ∧
    absEnv (withSource env name envS) = sWithSource (absEnv env) name (absEnv envS) :=
  ⟨inv_withSource tbl env envS name h hS, abs_withSource env envS name⟩

/-- the computational hypotheses of the two staged theorems hold for non-trivial instances: base
    `a float = 3 m` then main `b float = {?a}` / `a = {?b} cm`; remote file `t str = "x"` installed
    as `s`, then main `b str = {s?t}`; the specification accepts both stages -/
example :
    let base : List NLine := [.base (.stmt 0 ['a'] (.defn [['a']] .float [] (.lit (.num 3)) (some ['m'])))]
    let main : List NLine := [.base (.stmt 0 ['b'] (.defn [['b']] .float [] (.inj none (.exact [['a']]) []) none)),
                              .base (.stmt 0 ['a'] (.modl [['a']] (.inj none (.exact [['b']]) []) (some ['c', 'm'])))]
    let src : List NLine := [.base (.stmt 0 ['t'] (.defn [['t']] .str [] (.lit (.str ['x'])) none))]
    let main2 : List NLine := [.base (.stmt 0 ['b'] (.defn [['b']] .str [] (.inj (some ['s']) (.exact [['t']]) []) none))]
    invB unitTable Env.empty = true ∧ runNB unitTable Env.empty base = true ∧
    (∃ bitems, base.mapM NLine.item = some bitems ∧
      afterB unitTable Env.empty bitems (fun benv => runNB unitTable benv main) = true ∧
      (parseC unitTable Env.empty bitems).toOption.isSome = true) ∧
    (match sRun unitTable (absEnv Env.empty) (base.filterMap NLine.stmt?) with
     | .ok s1 => (sRun unitTable s1 (main.filterMap NLine.stmt?)).toOption.isSome
     | .error _ => false) = true ∧
    runNB unitTable Env.empty src = true ∧
    (∃ sitems, src.mapM NLine.item = some sitems ∧
      afterB unitTable Env.empty sitems (fun envS => runNB unitTable (withSource Env.empty ['s'] envS) main2) = true ∧
      (parseC unitTable Env.empty sitems).toOption.isSome = true) ∧
    (match sRun unitTable (absEnv Env.empty) (src.filterMap NLine.stmt?) with
     | .ok sS => (sRun unitTable (sWithSource (absEnv Env.empty) ['s'] sS) (main2.filterMap NLine.stmt?)).toOption.isSome
     | .error _ => false) = true := by
  refine ⟨by decide +kernel, by decide +kernel, ⟨_, rfl, by decide +kernel, by decide +kernel⟩, by decide +kernel,
    by decide +kernel, ⟨_, rfl, by decide +kernel, by decide +kernel⟩, by decide +kernel⟩

/-- DECLARED nodes inside the invariant.  `InvD` weakens `Inv`: a stored node of the main
    environment may hold no value (`a float` without `=`); if it holds one, the value conforms.
    `Inv` implies `InvD`, and `InvD` of an environment whose nodes all hold a value is `Inv`
    (so the result of a declare-then-assign program can serve the other refinement theorems).
    `invDB` is `InvD` as a computation (sound and complete). -/
theorem C17_declared_invariant (tbl : UnitTable) (env : Env) :
    (Inv tbl env → InvD tbl env) ∧
    (InvD tbl env → (∀ n ∈ env.nodes, n.value.isSome = true) → Inv tbl env) ∧
    (invDB tbl env = true ↔ InvD tbl env) :=
  ⟨inv_invD, invD_inv, invDB_iff tbl env⟩

/-- Step refinement for the statements that create and fill declared nodes, from ANY environment
    with the weak invariant `InvD` (declared nodes may be present): a declaration `path kw[dims] unit`
    (line record `declNode`: no raw value, flagged to-be-defined), a definition with a literal
    value, a modification with a literal value — which may address a node that holds no value yet
    (`modify_value` casts the new value by the target's type and dimension and converts it into
    the target's unit; the old value is not looked at).  Whenever the specification accepts the
    statement, the main loop accepts its line, the abstraction of the new environment is the
    specification's, and `InvD` holds again. -/
theorem C17_refinement_declared_step (tbl : UnitTable) (env : Env) (hinv : InvD tbl env) (stmt : SStmt)
    (item : Item) (s' : SEnv) (hfrag : LitFrag stmt) (hc : concD stmt = some item)
    (h : sStep tbl (absEnv env) stmt = .ok s') :
    ∃ env', step tbl env item = .ok env' ∧ absEnv env' = s' ∧ InvD tbl env' :=
  refine_stepD tbl env hinv stmt item s' hfrag hc h

/-- Proved part, programs with declared nodes, through the whole parse.  Hypotheses about
    environment and program are computations (`invDB`, `litFragB`: flat lines — declarations,
    literal definitions, literal modifications —, well-formed paths, typed keywords, integers
    without unit).  Whenever the specification accepts the statements (result `s'`): the main loop
    accepts the lines and ends in `env'` with `absEnv env' = s'` and `invDB`; `parse` and `parseC`
    (main loop with `@case` state + final validation) both equal `validate env'`; and if `s'` leaves
    no node without value, the validation passes and the STRONG invariant `invB` holds for `env'`.
    Missing from `C17_refinement_statement` for declared nodes: nested lines (hierarchy), values by
    reference (an injection from a declared node is outside the specification; an import that
    copies or lands on a declared node is not covered), property lines. -/
theorem C17_refinement_declared_partial (tbl : UnitTable) (stmts : List SStmt) (items : List Item)
    (env : Env) (s' : SEnv) (hinv : invDB tbl env = true) (hchk : stmts.all litFragB = true)
    (hc : stmts.mapM concD = some items) (h : sRun tbl (absEnv env) stmts = .ok s') :
    ∃ env', items.foldlM (step tbl) env = .ok env' ∧ absEnv env' = s' ∧ invDB tbl env' = true ∧
      parse tbl env items = validate env' ∧ parseC tbl env items = validate env' ∧
      ((∀ n ∈ s'.nodes, n.value.isSome = true) → validate env' = .ok env' ∧ invB tbl env' = true) := by
  have hfrag : ∀ s ∈ stmts, LitFrag s := by
    intro s hs
    exact (litFragB_iff s).1 (List.all_eq_true.1 hchk s hs)
  obtain ⟨env', h1, h2, h3, h4, h5, h6⟩ := refine_parseD tbl stmts items env s' ((invDB_iff tbl env).1 hinv) hfrag hc h
  refine ⟨env', h1, h2, (invDB_iff tbl env').2 h3, h4, h5, ?_⟩
  intro hv
  exact ⟨(h6 hv).1, (invB_iff tbl env').2 (h6 hv).2⟩

/-- the final validation loop of the model, exactly: it passes iff no to-be-defined node is left
    without value -/
theorem C17_validate_exact (env : Env) :
    validate env = .ok env ↔ ∀ n ∈ env.nodes, n.defined = true → n.value.isSome = true :=
  validate_ok_iff env

/-- non-vacuity: from an environment that already holds a declared node `d bool` (refused by
    `invB`, accepted by `invDB`), the program `a float m` / `b int = 2` / `a = 300 cm` / `d = true`
    passes the checks, the specification accepts it and leaves every node with a value; after
    `a float m` alone a node without value is left -/
example :
    let env : Env := { Env.empty with nodes := [{ blank ['d'] .bool with defined := true }] }
    let stmts : List SStmt := [.decl [['a']] .float [] (some ['m']), .defn [['b']] .int [] (.lit (.num 2)) none,
      .modl [['a']] (.lit (.num 300)) (some ['c', 'm']), .modl [['d']] (.lit (.bool true)) none]
    invB unitTable env = false ∧ invDB unitTable env = true ∧ stmts.all litFragB = true ∧
    (stmts.mapM concD).isSome = true ∧
    (match sRun unitTable (absEnv env) stmts with
     | .ok s' => s'.nodes.all (fun n => n.value.isSome)
     | .error _ => false) = true ∧
    (match sRun unitTable (absEnv env) (stmts.take 1) with
     | .ok s' => s'.nodes.all (fun n => n.value.isSome)
     | .error _ => true) = false := by
  decide +kernel

/-- The case the import side condition of `InFrag` excludes, as a theorem of its own: when the
    specification's import selects no node — it then records `mayReject`, i.e. allows the program
    to be rejected — the model's import line, at any indent and with any written prefix, IS an
    error (no entry is added).  Together with `C17_refinement_import_at_step` every import whose
    source exists is covered: selection non-empty → same result on both sides; empty → rejected. -/
theorem C17_refinement_import_empty (tbl : UnitTable) (env : Env) (hinv : Inv tbl env) (i : Nat)
    (pre dest : List Str) (source : Option Str) (q : SQuery) (hws : WFSource source) (hq : WFQ q)
    (ss : List SNode) (hl : sLookup (absEnv env) source = some ss) (hsel : select q ss = []) :
    sStep tbl (absEnv env) (.imp dest source q) = .ok { absEnv env with mayReject := true } ∧
    ∃ e, step tbl env (.node (impAt i pre source q)) = .error e := by
  refine ⟨?_, imp_empty_rejected tbl env hinv i pre source q hws hq ss hl hsel⟩
  simp [sStep, hl, hsel]

/-- non-trivial instance: one node `a`, the request `b.*` selects nothing -/
example : let env : Env := { Env.empty with
      nodes := [{ blank ['a'] .float with value := some (.num 3), unitsRaw := some ['m'] }] }
    WFSource none ∧ WFQ (.children [['b']]) ∧
    sLookup (absEnv env) none = some (absEnv env).nodes ∧ select (.children [['b']]) (absEnv env).nodes = [] := by
  intro env
  refine ⟨by simp [WFSource], ⟨⟨by simp, by simp⟩, by simp [joinDot]⟩, by simp [sLookup, absEnv, env], ?_⟩
  simp [select, absEnv, env, absN, blank, splitDot, sMatches, List.filter]

/-- a property line in its documented place: "update the node at the path" (specification) and
    "update the last node" (code) are the same update -/
theorem C17_refinement_property_step (tbl : UnitTable) (env : Env) (hinv : Inv tbl env)
    (path : List Str) (p : PropLine) (s' : SEnv) (hok : PropOK env path p)
    (h : sStep tbl (absEnv env) (propStmt path p) = .ok s') :
    ∃ env', step tbl env (.prop p) = .ok env' ∧ absEnv env' = s' ∧ Inv tbl env' :=
  refine_prop tbl env hinv path p s' hok h

/-- Rejection on both sides: when the specification rejects an injection because its request —
    exact, `p.*` or `*` — selects no node or several, the model's line (definition or
    modification carrying that reference) is an error too. -/
theorem C17_refinement_rejected (tbl : UnitTable) (env : Env) (hinv : Inv tbl env) (source : Option Str)
    (hws : WFSource source) (q : SQuery) (hq : WFQ q) (sl : List Sl) (n : Node) (hk : n.kw ≠ .imp)
    (hr : n.ref = some (source.getD [] ++ '?' :: renderQ q))
    (h : sEval (absEnv env) (.inj source q sl) = .error .rejected) :
    ∃ e, step tbl env (.node n) = .error e := by
  obtain ⟨e, he⟩ := request_rejected tbl env hinv source hws q hq sl h
  exact step_rejected tbl env n _ e hk hr he

/-- the single-step simulation behind it -/
theorem C17_refinement_step (tbl : UnitTable) (env : Env) (hinv : Inv tbl env) (stmt : SStmt)
    (item : Item) (s' : SEnv) (hfrag : InFrag (absEnv env) stmt) (hc : conc stmt = some item)
    (h : sStep tbl (absEnv env) stmt = .ok s') :
    ∃ env', step tbl env item = .ok env' ∧ absEnv env' = s' ∧ Inv tbl env' :=
  refine_step tbl env hinv stmt item s' hfrag hc h

/-- the hypotheses are satisfiable: the empty environment satisfies the invariant, and
    `a float = 3 m` is a statement of the fragment that the specification accepts there -/
example : Inv unitTable Env.empty ∧
    InFrag (absEnv Env.empty) (.defn [['a']] .float [] (.lit (.num 3)) (some ['m'])) ∧
    (∃ s', sStep unitTable (absEnv Env.empty) (.defn [['a']] .float [] (.lit (.num 3)) (some ['m'])) = .ok s') := by
  refine ⟨⟨by simp [Env.empty], by simp [Env.empty]⟩, ?_, ?_⟩
  · refine ⟨⟨by simp, by simp⟩, rfl, ?_, trivial⟩
    intro v u _ hk
    cases hk
  · refine ⟨⟨[⟨[['a']], .float, [], some ['m'], some (.num 3), false, none, none, [], [], none⟩], [], false, [], []⟩, ?_⟩
    simp [sStep, absEnv, Env.empty, sEval, pickUnit, unitOk, isNumKw, lookupUnit, unitTable, conforms, castScalar]

end SciVerif.C17
