import SciVerif.Lemmas.C09
import SciVerif.Lemmas.C09b
import SciVerif.Lemmas.C09c
import SciVerif.Facts.C09

/-!
# C09 — Temporary custom units never outlive their scope

Only property theorems live here (helper lemmas are in `Lemmas/C09*.lean`).
`Globals` = (UNIT_STANDARD as keyed ParameterTable: `_keys` list + dict rows in order,
UNIT_TYPES list, UNIT_PREFIXES keys). Equality of `Globals` is equality of the whole tables:
keys in order AND row contents AND the order of UNIT_TYPES.

Programs `P ::= skip | raise | use sym | seq P P | scope units P | attempt P`. Faults are
syntactic: every point at which the registration code can raise is selected by the data
(`UnitDef.other`, `quantity true`, absent `magnitude`/`dimensions`, a symbol already in the table,
rows that fail `check_unique_symbols`) and every body statement may be `raise`; quantifying over
all programs is quantifying over all fault placements (each program point runs at most once).

`WF g` (hypothesis of every theorem) is the ParameterTable invariant `_keys = list(_data)`,
proved for every table built through the class's API in `C20_table_refines`.
-/
namespace SciVerif.C09
open SciVerif.C20 (Tbl dget dset ddel)

/-- `UnitEnvironment.__init__` is all-or-nothing: if it raises — at whichever unit, at whichever
    statement, or in `check_unique_symbols` after all registrations — the process-wide tables
    are exactly what they were before the call. -/
theorem C09_init_atomic (g : Globals) (w : WF g) (units : List (Sym × UnitDef))
    (h : (init g units).2 = none) : (init g units).1 = g := by
  rcases init_cases g w units with ⟨_, hg⟩ | ⟨e, hs, _⟩
  · exact hg
  · rw [h] at hs; cases hs

/-- A constructed environment followed by `close()` (in particular `with … : pass`) gives the
    tables back, and `close` does not raise. -/
theorem C09_open_close (g : Globals) (w : WF g) (units : List (Sym × UnitDef)) (e : Env)
    (h : (init g units).2 = some e) : close (init g units).1 e = (g, true) := by
  rcases init_cases g w units with ⟨hn, _⟩ | ⟨e', hs, ha, _⟩
  · rw [h] at hn; cases hn
  · rw [h] at hs; cases hs
    exact close_added g _ e w ha

/-- **Restoration.** For every program — any nesting and repetition of scopes, any placement of
    registration faults, any body exceptions, caught or propagating — the process-wide tables
    after the run are identical to the tables before it. -/
theorem C09_restored (p : Prog) (g : Globals) (w : WF g) : (run p g).1 = g :=
  (run_restored p g w).1

/-- `__exit__` never raises (`close` always finds what it has to remove), in every program. -/
theorem C09_exit_never_raises (p : Prog) (g : Globals) (w : WF g) (ok : Bool) (g' : Globals)
    (h : Ev.exited ok g' ∈ (run p g).2.2) : ok = true :=
  (run_restored p g w).2.1 ok g' h

/-- **Usable inside, registration part.** When `__init__` completes, every symbol it was given is a
    key of UNIT_STANDARD, reads exactly the row defined for it (with the documented defaults),
    and every row that was there before is still there unchanged (no field is overwritten). -/
theorem C09_usable (g : Globals) (w : WF g) (units : List (Sym × UnitDef)) (e : Env)
    (h : (init g units).2 = some e) :
    (∀ su ∈ units, ∃ r, rowOf su.1 su.2 = some r ∧ resolves (init g units).1 su.1 = true ∧
      dget (init g units).1.std.data su.1 = some r) ∧
    (∀ k v, dget g.std.data k = some v → dget (init g units).1.std.data k = some v) := by
  rcases init_cases g w units with ⟨hn, _⟩ | ⟨e', hs, ha, hl, _⟩
  · rw [h] at hn; cases hn
  · refine ⟨?_, ha.ext.2⟩
    intro su hsu
    have hr := regLoop_rows units g ⟨[], []⟩ w (by rw [hl]) su hsu
    rw [hl] at hr
    obtain ⟨r, h1, h2, h3⟩ := hr
    exact ⟨r, h1, by simp [resolves, h2, h3], h3⟩

/-- **Usable inside, body part.** A symbol that resolves when a program starts (e.g. the body of a
    scope that registered it) resolves at every `use` during the run, whatever nested scopes
    are opened, fail or raise in between. -/
theorem C09_usable_throughout (p : Prog) (g : Globals) (w : WF g) (s : Sym) (ok : Bool)
    (hr : resolves g s = true) (h : Ev.used s ok ∈ (run p g).2.2) : ok = true :=
  (run_restored p g w).2.2 s ok hr h

/-- **Outside fails.** A symbol that was not in the table before a program is not in it afterwards:
    `Quantity(1, sym)` after the scope raises. -/
theorem C09_outside_fails (p : Prog) (g : Globals) (w : WF g) (s : Sym) (h : s ∉ g.std.keys) :
    resolves (run p g).1 s = false ∧
    (run (.seq (.attempt p) (.use s)) g).2.1 = false := by
  have hres : resolves g s = false := by simp [resolves, h]
  refine ⟨by rw [C09_restored p g w]; exact hres, ?_⟩
  rw [run_seq, run_attempt]
  simp only [if_true]
  rw [C09_restored p g w]
  simp [run, hres]

/-! ### Overlapping lifetimes: the explicit `e = UnitEnvironment(units)` … `e.close()` API, closed in ANY order -/

/-- **The history invariant.** After any sequence of constructions (completing or raising),
    `close()` calls on any of the currently open environments (in any order — first-opened-first,
    LIFO, arbitrary) and uses, the process-wide tables are the initial tables plus exactly what
    the environments that are still open registered, appended in opening order (rows behind the old
    rows, conversion classes in front of UNIT_TYPES); nothing else is added, removed or altered. -/
theorem C09_history_invariant (ops : List HOp) (g : Globals) (w : WF g) :
    Added g (hrun ops ⟨g, []⟩).1.g (merged (hrun ops ⟨g, []⟩).1.opens) :=
  (hrun_inv g w ops ⟨g, []⟩ (Added.refl g)).1

/-- **Restoration for any interleaving.** Whenever every environment that was opened has been
    closed (each once, in whatever order), the tables are identical to the initial ones. -/
theorem C09_restored_any_order (ops : List HOp) (g : Globals) (w : WF g)
    (h : (hrun ops ⟨g, []⟩).1.opens = []) : (hrun ops ⟨g, []⟩).1.g = g := by
  have hi := C09_history_invariant ops g w
  rw [h] at hi
  exact hi.eq_of_nil

/-- `close()` never raises in any history, whatever the order of closing. -/
theorem C09_close_never_raises_any_order (ops : List HOp) (g : Globals) (w : WF g) (ok : Bool)
    (g' : Globals) (h : HEv.closed ok g' ∈ (hrun ops ⟨g, []⟩).2) : ok = true :=
  (hrun_inv g w ops ⟨g, []⟩ (Added.refl g)).2 ok g' h

/-- While an environment is open its symbols resolve, whatever other environments were closed in
    between: every row of the initial table and of every still-open environment is readable. -/
theorem C09_open_units_resolve (ops : List HOp) (g : Globals) (w : WF g) (s : Sym)
    (h : s ∈ (merged (hrun ops ⟨g, []⟩).1.opens).new_units) :
    resolves (hrun ops ⟨g, []⟩).1.g s = true := by
  have hi := C09_history_invariant ops g w
  obtain ⟨rs, hrs, hd⟩ := hi.rows
  have hk : s ∈ (hrun ops ⟨g, []⟩).1.g.std.keys := by rw [hi.keys]; exact List.mem_append_right _ h
  have wf := hi.wf w
  unfold WF at wf
  have hmem : s ∈ (hrun ops ⟨g, []⟩).1.g.std.data.map Prod.fst := by rw [← wf]; exact hk
  simp only [resolves, hk, decide_true, Bool.true_and]
  -- a key of the dict has a value
  have : ∀ (m : List (Sym × Row)), s ∈ m.map Prod.fst → (dget m s).isSome = true := by
    intro m
    induction m with
    | nil => intro hh; simp at hh
    | cons a t ih =>
      intro hh
      obtain ⟨k, v⟩ := a
      by_cases hkk : k = s
      · simp [dget, hkk]
      · simp only [List.map_cons, List.mem_cons] at hh
        rcases hh with hh | hh
        · exact absurd hh.symm hkk
        · simp [dget, hkk, ih hh]
  exact this _ hmem

/-! ### Non-vacuity and sensitivity -/

/-- a small table in the shape of the real one -/
def exG : Globals :=
  ⟨⟨["m", "g"], [("m", ⟨"1.0", "[1, 0]", .none, "meter", .all⟩), ("g", ⟨"1.0", "[0, 1]", .none, "gram", .all⟩)]⟩,
   ["Temperature", "Standard"], ["k", "m"]⟩

example : WF exG := rfl

/-- the recon input: `{'x': {...}, 'm': {...}}` raises at the second unit -/
def exUnits : List (Sym × UnitDef) :=
  [("x", .dict (some "3") (some "[3, 2]") (some (.ty "T")) none none), ("m", .dict (some "3") (some "[3, 2]") none none none)]

example : (init exG exUnits).2 = none := by decide
example : "x" ∉ exG.std.keys := by decide
-- hypotheses `(init g units).2 = some e` are satisfiable:
example : (init exG [("x", .dict (some "3") (some "[3, 2]") (some (.ty "T")) none none)]).2 =
    some ⟨["x"], ["T"]⟩ := by decide
-- the clash with a prefixed symbol is detected only after the registration, and undone
example : (regLoop exG ⟨[], []⟩ [("km", .dict (some "3") (some "[1, 0]") none none none)]).2.2 = true ∧
    (init exG [("km", .dict (some "3") (some "[1, 0]") none none none)]) = (exG, none) := by decide
-- a nested program with a failing inner registration, a body exception and uses
example : (run (.seq (.attempt (.scope [("x", .quantity false "0.02" "[1, -2]")]
      (.seq (.use "x") (.seq (.attempt (.scope exUnits .skip)) (.seq (.use "x") .raise)))))
      (.attempt (.use "x"))) exG).1 = exG := by decide

/-- Sensitivity: `__init__` WITHOUT the undo (the code before the repair) leaves `x` and the
    conversion class `T` behind on the same input, so `C09_init_atomic` is not a triviality. -/
example : (regLoop exG ⟨[], []⟩ exUnits).1 ≠ exG ∧
    (regLoop exG ⟨[], []⟩ exUnits).1.std.keys = ["m", "g", "x"] ∧
    (regLoop exG ⟨[], []⟩ exUnits).1.types = ["T", "Temperature", "Standard"] := by decide

-- overlapping lifetimes: open A, open B, close A (first opened), close B
example : (hrun [.opn [("x", .dict (some "3") (some "[3, 2]") (some (.ty "TA")) none none)],
                 .opn [("y", .dict (some "5") (some "[1, 0]") (some (.ty "TB")) none none)],
                 .cls 0, .use "y", .cls 0] ⟨exG, []⟩).1 = ⟨exG, []⟩ := by decide
example : ((hrun [.opn [("x", .dict (some "3") (some "[3, 2]") (some (.ty "TA")) none none)],
                  .opn [("y", .dict (some "5") (some "[1, 0]") (some (.ty "TB")) none none)],
                  .cls 0] ⟨exG, []⟩).1.g.types) = ["TB", "Temperature", "Standard"] := by decide

end SciVerif.C09
