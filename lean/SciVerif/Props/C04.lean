import SciVerif.Lemmas.C04

/-!
# C04 — Linear unit conversion is exact, reversible and dimension-safe

Property theorems only (helpers in `Lemmas/C04.lean`). `K` is any field (the exact
arithmetic the floats approximate); factors are arbitrary non-zero elements; values are
scalars or arrays (`Mag`). `types` is the list of unit-type classes tried in order:
the general theorems hold for *any* classes `pre` that decline in front of
`StandardUnitType` and any `post` behind it; the `…_real` theorems instantiate them with
the `UNIT_TYPES` list and tables regenerated from the code.
-/
namespace SciVerif.C04
open SciVerif.C05

variable {K : Type} [Field K]

/-- Same dimension: `value(v)` is `x·factor(u)/factor(v)`, element-wise. -/
theorem C04_value (pre post : List (Rule K)) (q : Q K) (b2 : BU K)
    (hpre : ∀ r ∈ pre, r q.bu b2 = .decline) (hd : q.bu.dims.eq b2.dims = true) :
    Q.valueIn (pre ++ standard :: post) q b2
      = .ok (q.val.map (fun x => x * q.bu.magnitude / b2.magnitude)) := by
  simp only [Q.valueIn, pick_of_declines pre _ _ _ hpre, pick, standard_same _ _ hd]

/-- … and this is exactly the specification's value. -/
theorem C04_value_is_spec (f1 f2 x : K) :
    specValue .same f1 f2 x = some (x * f1 / f2) := rfl

/-- Arrays convert element by element, with the function scalars are converted by. -/
theorem C04_array (types : List (Rule K)) (b1 b2 : BU K) (xs : List K) (g : K → K)
    (h : pick types b1 b2 = .ok g) :
    Q.valueIn types ⟨.arr xs, b1⟩ b2 = .ok (.arr (xs.map g)) ∧
    ∀ x, Q.valueIn types ⟨.scalar x, b1⟩ b2 = .ok (.scalar (g x)) := by
  simp [Q.valueIn, h, Mag.map]

/-- `to(v)` and `value(v)` agree: `to` succeeds exactly when `value` does, stores the value
    `value` returns together with the target units, and otherwise leaves the state as it was. -/
theorem C04_to_agrees_value (types : List (Rule K)) (q : Q K) (b2 : BU K) :
    (∀ m, Q.valueIn types q b2 = .ok m → Q.to types q b2 = (⟨m, b2⟩, true)) ∧
    (∀ e, Q.valueIn types q b2 = .error e → Q.to types q b2 = (q, false)) := by
  unfold Q.valueIn Q.to
  cases h : pick types q.bu b2 with
  | ok g => simp
  | error e => simp

/-- Round trip: converting to `v` and back restores value *and* units. -/
theorem C04_roundtrip (pre post : List (Rule K)) (q : Q K) (b2 : BU K)
    (hpre : ∀ r ∈ pre, r q.bu b2 = .decline) (hpre' : ∀ r ∈ pre, r b2 q.bu = .decline)
    (hd : q.bu.dims.eq b2.dims = true) (h1 : q.bu.magnitude ≠ 0) (h2 : b2.magnitude ≠ 0) :
    (Q.to (pre ++ standard :: post) (Q.to (pre ++ standard :: post) q b2).1 q.bu) = (q, true) := by
  have hd' : b2.dims.eq q.bu.dims = true := by rw [Dims.eq_symm]; exact hd
  simp only [Q.to, pick_of_declines pre _ _ _ hpre, pick_of_declines pre _ _ _ hpre', pick,
    standard_same _ _ hd, standard_same _ _ hd', Mag.map_map]
  have : q.val.map (fun x => x * q.bu.magnitude / b2.magnitude * b2.magnitude / q.bu.magnitude) = q.val :=
    Mag.map_id' _ _ (fun x => by field_simp)
  rw [this]

/-- Path independence: through any intermediate unit `w` of the same dimension the result
    is the one of the direct conversion. -/
theorem C04_path_independent (pre post : List (Rule K)) (q : Q K) (bw bv : BU K)
    (huw : ∀ r ∈ pre, r q.bu bw = .decline) (hwv : ∀ r ∈ pre, r bw bv = .decline)
    (huv : ∀ r ∈ pre, r q.bu bv = .decline)
    (duw : q.bu.dims.eq bw.dims = true) (dwv : bw.dims.eq bv.dims = true)
    (duv : q.bu.dims.eq bv.dims = true) (hw : bw.magnitude ≠ 0) :
    Q.to (pre ++ standard :: post) (Q.to (pre ++ standard :: post) q bw).1 bv
      = Q.to (pre ++ standard :: post) q bv := by
  simp only [Q.to, pick_of_declines pre _ _ _ huw, pick_of_declines pre _ _ _ hwv,
    pick_of_declines pre _ _ _ huv, pick, standard_same _ _ duw, standard_same _ _ dwv,
    standard_same _ _ duv, Mag.map_map]
  have : (fun x => x * q.bu.magnitude / bw.magnitude * bw.magnitude / bv.magnitude)
      = (fun x : K => x * q.bu.magnitude / bv.magnitude) := by
    funext x
    field_simp
  rw [this]

/-- Reciprocal dimension: `1/(x·factor(u))/factor(v)`. -/
theorem C04_reciprocal (pre post : List (Rule K)) (q : Q K) (b2 : BU K)
    (hpre : ∀ r ∈ pre, r q.bu b2 = .decline) (hd : q.bu.dims.eq b2.dims = false)
    (hn : q.bu.dims.neg.eq b2.dims = true) :
    Q.valueIn (pre ++ standard :: post) q b2
      = .ok (q.val.map (fun x => 1 / (x * q.bu.magnitude) / b2.magnitude)) := by
  simp only [Q.valueIn, pick_of_declines pre _ _ _ hpre, pick, standard_neg _ _ hd hn]

/-- … and converting back returns every non-zero value (and the units). -/
theorem C04_reciprocal_roundtrip (pre post : List (Rule K)) (q : Q K) (b2 : BU K)
    (hpre : ∀ r ∈ pre, r q.bu b2 = .decline) (hpre' : ∀ r ∈ pre, r b2 q.bu = .decline)
    (hd : q.bu.dims.eq b2.dims = false) (hn : q.bu.dims.neg.eq b2.dims = true)
    (h1 : q.bu.magnitude ≠ 0) (h2 : b2.magnitude ≠ 0) (hx : q.val.All (· ≠ 0)) :
    (Q.to (pre ++ standard :: post) (Q.to (pre ++ standard :: post) q b2).1 q.bu) = (q, true) := by
  have hd' : b2.dims.eq q.bu.dims = false := by rw [Dims.eq_symm]; exact hd
  have hn' : b2.dims.neg.eq q.bu.dims = true := by rw [Dims.neg_eq_symm]; exact hn
  simp only [Q.to, pick_of_declines pre _ _ _ hpre, pick_of_declines pre _ _ _ hpre', pick,
    standard_neg _ _ hd hn, standard_neg _ _ hd' hn', Mag.map_map]
  have : q.val.map (fun x => 1 / (1 / (x * q.bu.magnitude) / b2.magnitude * b2.magnitude) / q.bu.magnitude)
      = q.val.map (fun x => x) :=
    Mag.map_congr _ _ _ _ hx (fun x hx0 => by field_simp)
  rw [this, Mag.map_id' _ _ (fun _ => rfl)]

/-- A bare number converts to radians unchanged (and to prefixed radians by the prefix
    factor only): the quantity has no units, the target is the single unit `rad¹`. -/
theorem C04_number_to_rad (pre post : List (Rule K)) (q : Q K) (b2 : BU K)
    (hpre : ∀ r ∈ pre, r q.bu b2 = .decline) (hd : q.bu.dims.eq b2.dims = false)
    (hn : q.bu.dims.neg.eq b2.dims = false) (hnb : q.bu.nobase = true) (hq : q.bu.magnitude = 1)
    (hu : b2.units = ["rad"]) (hr : radOne b2.dims = true) :
    Q.valueIn (pre ++ standard :: post) q b2 = .ok (q.val.map (fun x => x / b2.magnitude)) ∧
    (b2.magnitude = 1 → Q.valueIn (pre ++ standard :: post) q b2 = .ok q.val) := by
  have hr' : (q.bu.nobase && b2.units == ["rad"] && radOne b2.dims) = true := by simp [hnb, hu, hr]
  have e : Q.valueIn (pre ++ standard :: post) q b2 = .ok (q.val.map (fun x => x / b2.magnitude)) := by
    simp only [Q.valueIn, pick_of_declines pre _ _ _ hpre, pick, standard_rad _ _ hd hn hr', hq, mul_one]
  refine ⟨e, fun h1 => ?_⟩
  rw [e, h1, Mag.map_id' _ _ (fun x => by simp)]

/-- Dimension safety: when the dimensions are neither equal nor negated and it is not the
    number→radian case, no class behind `StandardUnitType` being present, the conversion is
    refused by `value` and `to`, and `to` leaves the quantity exactly as it was. -/
theorem C04_refuse (pre : List (Rule K)) (q : Q K) (b2 : BU K)
    (hpre : ∀ r ∈ pre, r q.bu b2 = .decline) (hd : q.bu.dims.eq b2.dims = false)
    (hn : q.bu.dims.neg.eq b2.dims = false)
    (hr : (q.bu.nobase && b2.units == ["rad"] && radOne b2.dims) = false) :
    Q.valueIn (pre ++ [standard]) q b2 = .error .unsupported ∧
    Q.to (pre ++ [standard]) q b2 = (q, false) := by
  simp only [Q.valueIn, Q.to, pick_of_declines pre _ _ _ hpre, pick, standard_decline _ _ hd hn hr,
    and_self]

/-- Whatever the classes are: a failed `to` never changes the quantity. -/
theorem C04_failed_to_keeps_state (types : List (Rule K)) (q : Q K) (b2 : BU K)
    (h : (Q.to types q b2).2 = false) : (Q.to types q b2).1 = q := by
  unfold Q.to at h ⊢
  cases hp : pick types q.bu b2 with
  | ok g => simp [hp] at h
  | error e => rfl

/-! ## Targets given as a `Quantity` (`Unit().m`, `Unit('m')`, `2*Unit('s')`, `Quantity(2,'s')`) -/

/-- Whatever the classes and the target quantity's magnitude: a refused `to(Quantity)`
    leaves the quantity exactly as it was (the division by the target's magnitude is part of
    the assignment that only happens after a successful conversion). -/
theorem C04_to_quantity_failed_keeps_state (types : List (Rule K)) (q : Q K) (tm : K) (tb : BU K)
    (h : (Q.toQuantity types q tm tb).2 = false) : (Q.toQuantity types q tm tb).1 = q := by
  unfold Q.toQuantity at h ⊢
  cases hp : pick types q.bu tb with
  | ok g => simp [hp] at h
  | error e => rfl

/-- `to(Quantity(tm, v))` succeeds exactly when `to(v)` does and leaves the value of `to(v)`
    divided by `tm`, with `v`'s units; for `tm = 1` (a unit object) it *is* `to(v)`. -/
theorem C04_to_quantity_agrees_to (types : List (Rule K)) (q : Q K) (tm : K) (tb : BU K) :
    (Q.toQuantity types q tm tb).2 = (Q.to types q tb).2 ∧
    (Q.toQuantity types q tm tb).1.bu = (Q.to types q tb).1.bu ∧
    (Q.toQuantity types q tm tb).1.val
      = (if (Q.to types q tb).2 then (Q.to types q tb).1.val.map (fun y => y / tm) else q.val) ∧
    (tm = 1 → Q.toQuantity types q tm tb = Q.to types q tb) := by
  unfold Q.toQuantity Q.to
  cases hp : pick types q.bu tb with
  | ok g =>
    refine ⟨rfl, rfl, by simp [Mag.map_map], fun h1 => ?_⟩
    subst h1
    simp
  | error e => exact ⟨rfl, rfl, by simp, fun _ => rfl⟩

/-- Same dimension, Quantity target: `x·f(u)/f(v)/tm`. -/
theorem C04_to_quantity_value (pre post : List (Rule K)) (q : Q K) (tm : K) (tb : BU K)
    (hpre : ∀ r ∈ pre, r q.bu tb = .decline) (hd : q.bu.dims.eq tb.dims = true) :
    Q.toQuantity (pre ++ standard :: post) q tm tb
      = (⟨q.val.map (fun x => x * q.bu.magnitude / tb.magnitude / tm), tb⟩, true) := by
  simp only [Q.toQuantity, pick_of_declines pre _ _ _ hpre, pick, standard_same _ _ hd]

/-- Reciprocal dimension, Quantity target: the reciprocal is taken of the *unscaled* value,
    `1/(x·f(u))/f(v)/tm` (scaling by `tm` before the reciprocal would be off by `tm²`). -/
theorem C04_to_quantity_reciprocal (pre post : List (Rule K)) (q : Q K) (tm : K) (tb : BU K)
    (hpre : ∀ r ∈ pre, r q.bu tb = .decline) (hd : q.bu.dims.eq tb.dims = false)
    (hn : q.bu.dims.neg.eq tb.dims = true) :
    Q.toQuantity (pre ++ standard :: post) q tm tb
      = (⟨q.val.map (fun x => 1 / (x * q.bu.magnitude) / tb.magnitude / tm), tb⟩, true) := by
  simp only [Q.toQuantity, pick_of_declines pre _ _ _ hpre, pick, standard_neg _ _ hd hn]

/-- Dimension safety with a Quantity target: refused, state kept. -/
theorem C04_to_quantity_refuse (pre : List (Rule K)) (q : Q K) (tm : K) (tb : BU K)
    (hpre : ∀ r ∈ pre, r q.bu tb = .decline) (hd : q.bu.dims.eq tb.dims = false)
    (hn : q.bu.dims.neg.eq tb.dims = false)
    (hr : (q.bu.nobase && tb.units == ["rad"] && radOne tb.dims) = false) :
    Q.toQuantity (pre ++ [standard]) q tm tb = (q, false) := by
  simp only [Q.toQuantity, pick_of_declines pre _ _ _ hpre, pick, standard_decline _ _ hd hn hr]

/-! ## Bare numbers that are results; uncertainties -/

/-- Units that cancel exactly, symbol by symbol (`(6 m)/(2 m)`, `m*m-1`, `q**0`: every dict
    entry has numerator 0) leave exactly the base units of a bare number: no units, `nobase`,
    factor 1, zero dimensions — so `C04_number_to_rad` applies to such results as it does to
    a literal number. -/
theorem C04_cancelled_units_are_bare {A : Type} [Mul A] [One A] [PowFrac A] (tag : Nat) (items : List (Item A))
    (h : ∀ i ∈ items, i.exp.num = 0) :
    (mkBU tag items : BU A) = mkBU tag [] := by
  unfold mkBU
  generalize ({ magnitude := 1, dims := Dims.zero, units := [], nobase := true, items := [], tag := tag } : BU A) = acc
  induction items generalizing acc with
  | nil => rfl
  | cons i is ih =>
    have hi : i.exp.num = 0 := h i (by simp)
    simp only [mkBUAux, hi, beq_self_eq_true, if_true]
    exact ih (fun j hj => h j (by simp [hj])) acc

theorem C04_bare_number_baseunits {A : Type} [Mul A] [One A] [PowFrac A] (tag : Nat) :
    (mkBU tag ([] : List (Item A))).nobase = true ∧ (mkBU tag ([] : List (Item A))).units = [] ∧
    (mkBU tag ([] : List (Item A))).magnitude = 1 ∧ (mkBU tag ([] : List (Item A))).dims = Dims.zero := by
  simp [mkBU, mkBUAux]

/-- The value a conversion returns does not depend on whether an uncertainty is attached,
    nor on how the uncertainty is propagated. -/
theorem C04_value_independent_of_uncertainty (types : List (Rule K)) (q : Q K) (b2 : BU K)
    (err : Option (Mag K)) (errf : (K → K) → Mag K → Mag K) :
    (Q.valueInWithError types q err errf b2).map Prod.fst = Q.valueIn types q b2 := by
  unfold Q.valueInWithError Q.valueIn
  cases pick types q.bu b2 <;> rfl

/-! ## The regenerated `UNIT_TYPES` and process lists -/

section real
variable [LogOps K]

/-- With the `UNIT_TYPES` order and tables regenerated from the code, every conversion
    between base units none of whose symbols is an offset (`Cel`, `degF`) or logarithmic
    unit is decided by `StandardUnitType` alone: same dimension ⇒ value formula,
    negated ⇒ reciprocal, otherwise (not number→rad) ⇒ refused, state kept. -/
theorem C04_real_rule_selection (q : Q K) (b2 : BU K)
    (ht : touches Gen.tempProcess q.bu b2 = false) (hl : touches Gen.logProcess q.bu b2 = false) :
    (q.bu.dims.eq b2.dims = true →
      Q.valueIn (unitTypes Gen.tables) q b2 = .ok (q.val.map (fun x => x * q.bu.magnitude / b2.magnitude))) ∧
    (q.bu.dims.eq b2.dims = false → q.bu.dims.neg.eq b2.dims = true →
      Q.valueIn (unitTypes Gen.tables) q b2 = .ok (q.val.map (fun x => 1 / (x * q.bu.magnitude) / b2.magnitude))) ∧
    (q.bu.dims.eq b2.dims = false → q.bu.dims.neg.eq b2.dims = false →
      (q.bu.nobase && b2.units == ["rad"] && radOne b2.dims) = false →
      Q.valueIn (unitTypes Gen.tables) q b2 = .error .unsupported ∧
      Q.to (unitTypes Gen.tables) q b2 = (q, false)) := by
  have hpre : ∀ r ∈ [temperature Gen.tables, logarithmic Gen.tables], (r : Rule K) q.bu b2 = .decline := by
    intro r hr
    simp only [List.mem_cons, List.not_mem_nil, or_false] at hr
    rcases hr with rfl | rfl
    · exact temperature_declines _ _ _ ht
    · exact logarithmic_declines _ _ _ hl
  have e : (unitTypes Gen.tables : List (Rule K))
      = [temperature Gen.tables, logarithmic Gen.tables] ++ standard :: [] := unitTypes_gen
  rw [e]
  refine ⟨fun hd => C04_value _ _ q b2 hpre hd, fun hd hn => C04_reciprocal _ _ q b2 hpre hd hn,
    fun hd hn hr => C04_refuse _ q b2 hpre hd hn hr⟩

end real

/-- Every factor in the regenerated unit, prefix and system tables is positive, so the
    hypotheses `factor ≠ 0` of the theorems above hold for every table symbol. -/
theorem C04_table_factors_positive : ∀ r ∈ Gen.factors, 0 < r.mag := by
  decide +kernel

/-- Every dimension entry of the regenerated tables has a non-zero denominator, so
    `Fraction.__eq__` (cross-multiplication) on them is equality of rational exponents. -/
theorem C04_table_dims_wellformed : ∀ r ∈ Gen.factors, r.dims.length = 8 ∧ ∀ d ∈ r.dims, d.2 ≠ 0 := by
  decide +kernel

/-- Cross-multiplication is equality of the rational exponents (non-zero denominators). -/
theorem C04_frac_eq_iff (a b : Frac) (ha : a.den ≠ 0) (hb : b.den ≠ 0) :
    a.eq b = true ↔ ratOf a = ratOf b := by
  have ha' : (a.den : Rat) ≠ 0 := by exact_mod_cast ha
  have hb' : (b.den : Rat) ≠ 0 := by exact_mod_cast hb
  simp only [Frac.eq, beq_iff_eq, ratOf]
  rw [div_eq_div_iff ha' hb']
  constructor
  · intro h; exact_mod_cast h
  · intro h; exact_mod_cast h

/-! ## Non-vacuity: concrete instances of the hypotheses (over `ℚ`) -/

section examples
def exDims (m : Int) : Dims := [⟨m,1⟩, ⟨0,1⟩, ⟨0,1⟩, ⟨0,1⟩, ⟨0,1⟩, ⟨0,1⟩, ⟨0,1⟩, ⟨0,1⟩]
def exKm : BU Rat := ⟨1000, exDims 1, ["m"], false, [], 0⟩
def exCm : BU Rat := ⟨mkRat 1 100, exDims 1, ["m"], false, [], 1⟩
def exPerM : BU Rat := ⟨1, exDims (-1), ["m"], false, [], 2⟩
def exS : BU Rat := ⟨1, [⟨0,1⟩, ⟨0,1⟩, ⟨1,1⟩, ⟨0,1⟩, ⟨0,1⟩, ⟨0,1⟩, ⟨0,1⟩, ⟨0,1⟩], ["s"], false, [], 3⟩

-- 2 km = 200000 cm; hypotheses of C04_value / C04_roundtrip hold
example : exKm.dims.eq exCm.dims = true ∧ exKm.magnitude ≠ 0 ∧ exCm.magnitude ≠ 0 ∧
    Q.valueIn [standard] ⟨.scalar (2 : Rat), exKm⟩ exCm = .ok (.scalar 200000) := by decide +kernel
-- reciprocal: 4 km → 1/m gives 1/4000
example : exKm.dims.eq exPerM.dims = false ∧ exKm.dims.neg.eq exPerM.dims = true ∧
    Q.valueIn [standard] ⟨.arr [(4 : Rat)], exKm⟩ exPerM = .ok (.arr [mkRat 1 4000]) := by decide +kernel
-- refusal: km → s
example : exKm.dims.eq exS.dims = false ∧ exKm.dims.neg.eq exS.dims = false ∧
    (exKm.nobase && exS.units == ["rad"] && radOne exS.dims) = false ∧
    Q.to [standard] ⟨.scalar (2 : Rat), exKm⟩ exS = (⟨.scalar 2, exKm⟩, false) := by decide +kernel
-- Quantity target of magnitude 2: 4 km → "2 per metre" is (1/4000)/2; a refused one keeps the state
example : Q.toQuantity [standard] ⟨.scalar (4 : Rat), exKm⟩ 2 exPerM = (⟨.scalar (mkRat 1 8000), exPerM⟩, true) ∧
    Q.toQuantity [standard] ⟨.scalar (6 : Rat), exKm⟩ 2 exS = (⟨.scalar 6, exKm⟩, false) := by decide +kernel
end examples

end SciVerif.C04
