import SciVerif.Lemmas.C02

/-!
# C02 — A solver instance is unaffected by what it solved before

The instance is a state machine over the two token buffers (`Model/C02.lean`); a failing call leaves
its tokens behind (that state is compared with the real instance after every call of every generated
history).  All theorems quantify over the operator table, the step table and the atom algebra, i.e.
over every customised solver.
-/
namespace SciVerif.C02
open SciVerif.C01 SciVerif.C01.Gen

variable {A : Type}

/-- **History independence.** Whatever sequence of calls -- succeeding or failing at any point --
    the instance went through, the next call returns (or raises) exactly what a fresh instance
    does.  For every operator table, step table and atom algebra. -/
theorem C02_history_independence (tbl : Table) (alg : AtomAlg A)
    (steps : List (List String × Otype)) (h : List (List Char)) (s : List Char) :
    (solveI tbl alg steps (runHistory tbl alg steps ⟨[], []⟩ h) s).2 = solve tbl alg steps s := rfl

/-- … even from arbitrary buffer contents: `solve` does not read the state it finds. -/
theorem C02_state_independence (tbl : Table) (alg : AtomAlg A)
    (steps : List (List String × Otype)) (st : Bufs A) (s : List Char) :
    solveI tbl alg steps st s = solveI tbl alg steps ⟨[], []⟩ s := rfl

/-- every outcome of a history equals the outcome of a fresh instance on that expression -/
theorem C02_outcomes_fresh (tbl : Table) (alg : AtomAlg A) (steps : List (List String × Otype))
    (st : Bufs A) (h : List (List Char)) :
    outcomes tbl alg steps st h = h.map (solve tbl alg steps) := by
  induction h generalizing st with
  | nil => rfl
  | cons s h ih => simp only [outcomes, List.map_cons, ih]; rfl

/-- The buffers are drained on the success path: after a successful call they are empty. -/
theorem C02_success_leaves_empty (tbl : Table) (alg : AtomAlg A)
    (steps : List (List String × Otype)) (st b : Bufs A) (s : List Char) (t : Tok A)
    (h : solveI tbl alg steps st s = (b, .ok t)) : b = ⟨[], []⟩ :=
  solveFromF_ok_empty tbl alg steps _ _ b s t h

/-- **Everything a call writes.** With `self.expr` in the state as well (the two buffers and the
    expression object are all that `solve` assigns): whatever the instance went through, the next
    outcome is a fresh instance's. -/
theorem C02_instance_independence (tbl : Table) (alg : AtomAlg A)
    (steps : List (List String × Otype)) (i : Inst A) (h : List (List Char)) (s : List Char) :
    ((Inst.run tbl alg steps i h).solve tbl alg steps s).2 = solve tbl alg steps s := rfl

/-- … also when the world changed in between: each earlier call may have run under a different
    atom algebra (a constructor reading variables that were changed between the calls). -/
theorem C02_history_independence_changing_atoms (tbl : Table) (steps : List (List String × Otype))
    (st : Bufs A) (h : List (AtomAlg A × List Char)) (alg : AtomAlg A) (s : List Char) :
    (solveI tbl alg steps (runHistoryW tbl steps st h) s).2 = solve tbl alg steps s := rfl

/-- **Nested argument solving uses a fresh state.** A call's arguments are solved by ONE nested
    instance, one after the other (as in the code); the values are those that independent fresh
    instances return, whatever state the nested instance starts in -- argument k is unaffected by
    arguments 1..k-1. -/
theorem C02_nested_fresh (tbl : Table) (alg : AtomAlg A) (steps : List (List String × Otype))
    (st0 : Bufs A) (args : List (List Char)) :
    solveArgs (fun st a => solveI tbl alg steps st a) st0 args = freshArgs tbl alg steps args :=
  solveArgs_fresh tbl alg steps args st0

/-- … and so for the nested solver of every nesting depth inside `solve` itself (fuel `n`):
    the buffers the nested instance is left with after one argument do not matter for the next. -/
theorem C02_nested_state_irrelevant (tbl : Table) (alg : AtomAlg A)
    (steps : List (List String × Otype)) (n : Nat) (st0 st1 : Bufs A) (args : List (List Char)) :
    solveArgs (fun st a => solveFromF tbl alg steps n (resetBufs st) a) st0 args
      = solveArgs (fun st a => solveFromF tbl alg steps n (resetBufs st) a) st1 args :=
  solveArgs_reset (fun b a => solveFromF tbl alg steps n b a) args st0 st1

/-- the history of DESIGN §9: `solve("1 + x")` raises, then `solve("2")` -/
def h1x : List Char := ['1', ' ', '+', ' ', 'x']

/-- A failing call does leave tokens behind (the state machine is not trivial): after
    `solve("1 + x")` the buffers hold the atom `1` and the `+` operator. -/
theorem C02_failure_leaves_tokens :
    (solveI dflt termAlg dfltSteps ⟨[], []⟩ h1x).2 = .error "atom" ∧
    ((solveI dflt termAlg dfltSteps ⟨[], []⟩ h1x).1.right.length = 2) := by
  constructor <;> rfl

/-- … and the reset is what makes C02 true: the body of `solve` started on those leftovers
    (the method before commit 8818136) answers `1 + 2` to `solve("2")`. -/
theorem C02_reset_needed :
    (solveFrom dflt termAlg dfltSteps (solveI dflt termAlg dfltSteps ⟨[], []⟩ h1x).1 ['2']).2
      = .ok (.atom (.bin .add (.num ['1']) (.num ['2']))) ∧
    solve dflt termAlg dfltSteps ['2'] = .ok (.atom (.num ['2'])) := by
  constructor <;> rfl

/-! Non-vacuity: a successful call exists (hypothesis of `C02_success_leaves_empty`). -/
example : solveI dflt termAlg dfltSteps ⟨[], []⟩ ['2'] = (⟨[], []⟩, .ok (.atom (.num ['2']))) := rfl

end SciVerif.C02
