import SciVerif.Lemmas.C12

/-!
# C12 — Densities, volume and masses of matter are mutually consistent

Property theorems only (helpers: `Lemmas/C12.lean`, `Lemmas/C11.lean`).  `α` is an arbitrary
linearly ordered field, `cs` any non-empty list of components with positive proportions and
masses (an element is the one-component list with proportion 1, a substance the list of its
elements with their counts, a material the list of its substances), `da > 0` the magnitude of
the Dalton, `h` either construction history (`dictHistory`: `_norm` after every `add`, or
`stringHistory`: one `_norm`).  Quantities given by the user are pairs (value, unit magnitude).

`MASS_FRACTION` materials: `composite_mass` is then a bare number and `Matter._norm` raises for
every attached density (known finding, see `C12_consistent_counterexample`); the theorems carry
the guard `mode ≠ .massFraction`.
-/
set_option linter.unusedSectionVars false
namespace SciVerif.C12
open SciVerif.C11
variable {α : Type} [Field α] [LinearOrder α] [IsStrictOrderedRing α]

/-- the histories the constructors produce -/
def IsHistory (mode : Mode) (cs : List (Comp α)) (h : List (Option α)) : Prop :=
  h = dictHistory mode cs ∨ h = stringHistory mode cs

/-- Full statement: for every mode, attaching a mass density or a number density (and optionally
    a volume) to a composite yields a state in which `rho = n · M`, the attached density is the
    one reported, and `mass = rho · V`. -/
def C12_consistent_statement (α : Type) [Field α] [LinearOrder α] [IsStrictOrderedRing α] : Prop :=
  ∀ (mode : Mode) (cs : List (Comp α)) (da : α) (rho n vol : Option (Q α)) (h : List (Option α)),
    cs ≠ [] → Pos cs → 0 < da → (rho.isSome ∨ n.isSome) → IsHistory mode cs h →
    ∃ s r v, runHistory da h (MState.init rho n vol) = some s ∧ s.rho = some r ∧ s.n = some v ∧
      r = v * (compositeMass mode cs * da) ∧
      (∀ q, rho = some q → r = q.std) ∧ (∀ q, rho = none → n = some q → v = q.std) ∧
      s.mass = vol.map (fun V => r * V.std)

/-- The full statement fails on the code as it is: a `MASS_FRACTION` material with a mass
    density raises (`g/cm3` divided by a bare number cannot be converted to `cm-3`). -/
theorem C12_consistent_counterexample : ¬ C12_consistent_statement Rat := by
  intro hS
  obtain ⟨s, r, v, h, _⟩ := hS .massFraction [⟨1, 18⟩] 1 (some ⟨1, 1⟩) none none
    (stringHistory .massFraction [⟨1, 18⟩]) (by simp)
    (by intro c hc; simp only [List.mem_singleton] at hc; subst hc; constructor <;> norm_num)
    (by norm_num) (Or.inl rfl) (Or.inr rfl)
  revert h
  simp [stringHistory, compositeMassQ, runHistory, normStep, MState.init]

/-- Proved part: the statement under the guard `mode ≠ MASS_FRACTION` — in particular the
    reported densities do not depend on how often `_norm` ran while the composite was built. -/
theorem C12_consistent_partial (mode : Mode) (hm : mode ≠ .massFraction) (cs : List (Comp α))
    (da : α) (rho n vol : Option (Q α)) (h : List (Option α))
    (hne : cs ≠ []) (hp : Pos cs) (hda : 0 < da) (hg : rho.isSome ∨ n.isSome)
    (hh : IsHistory mode cs h) :
    ∃ s r v, runHistory da h (MState.init rho n vol) = some s ∧ s.rho = some r ∧ s.n = some v ∧
      r = v * (compositeMass mode cs * da) ∧
      (∀ q, rho = some q → r = q.std) ∧ (∀ q, rho = none → n = some q → v = q.std) ∧
      s.mass = vol.map (fun V => r * V.std) := by
  have hM := (compositeMass_pos mode cs hne hp).ne'
  have hd := hda.ne'
  have hform : ∃ Ms : List α, h = Ms.map some ++ [some (compositeMass mode cs)] := by
    rcases hh with hh | hh
    · exact ⟨_, hh.trans (dictHistory_eq mode hm cs)⟩
    · exact ⟨_, hh.trans (stringHistory_eq mode hm cs)⟩
  obtain ⟨Ms, rfl⟩ := hform
  cases rho with
  | some qr =>
    refine ⟨_, qr.std, qr.std / compositeMass mode cs / da,
      runHistory_R da qr.std (vol.map Q.std) Ms _ _ (reachR_init qr n vol), rfl, rfl, ?_, ?_, ?_, ?_⟩
    · field_simp
    · intro q hq; cases hq; rfl
    · intro q hq; cases hq
    · cases vol <;> simp [finalR]
  | none =>
    cases n with
    | none => simp at hg
    | some qn =>
      refine ⟨_, qn.std * compositeMass mode cs * da, qn.std,
        runHistory_N da qn.std (vol.map Q.std) Ms _ _ (reachN_init qn vol), rfl, rfl, ?_, ?_, ?_, ?_⟩
      · ring
      · intro q hq; cases hq
      · intro q _ hq; cases hq; rfl
      · cases vol <;> simp [finalN]

/-- The same for **any** earlier history: however many times `_norm` ran before (constructor,
    `add()` of new or of already present components, …) with whatever composite masses, after the
    `_norm` that sees the final components the state is the closed form of the final composite. -/
theorem C12_any_history_partial (mode : Mode) (hm : mode ≠ .massFraction) (cs : List (Comp α))
    (da : α) (rho n vol : Option (Q α)) (Ms : List α)
    (hne : cs ≠ []) (hp : Pos cs) (hda : 0 < da) (hg : rho.isSome ∨ n.isSome) :
    ∃ s r v, runHistory da (Ms.map some ++ [compositeMassQ mode cs]) (MState.init rho n vol) = some s ∧
      s.rho = some r ∧ s.n = some v ∧ r = v * (compositeMass mode cs * da) ∧
      (∀ q, rho = some q → r = q.std) ∧ (∀ q, rho = none → n = some q → v = q.std) ∧
      s.mass = vol.map (fun V => r * V.std) := by
  have hM := (compositeMass_pos mode cs hne hp).ne'
  have hd := hda.ne'
  have hq : compositeMassQ mode cs = some (compositeMass mode cs) := by
    cases mode
    · rfl
    · rfl
    · exact absurd rfl hm
  rw [hq]
  cases rho with
  | some qr =>
    refine ⟨_, qr.std, qr.std / compositeMass mode cs / da,
      runHistory_R da qr.std (vol.map Q.std) Ms _ _ (reachR_init qr n vol), rfl, rfl, ?_, ?_, ?_, ?_⟩
    · field_simp
    · intro q hq; cases hq; rfl
    · intro q hq; cases hq
    · cases vol <;> simp [finalR]
  | none =>
    cases n with
    | none => simp at hg
    | some qn =>
      refine ⟨_, qn.std * compositeMass mode cs * da, qn.std,
        runHistory_N da qn.std (vol.map Q.std) Ms _ _ (reachN_init qn vol), rfl, rfl, ?_, ?_, ?_, ?_⟩
      · ring
      · intro q hq; cases hq
      · intro q _ hq; cases hq; rfl
      · cases vol <;> simp [finalN]

/-- Component rows of `data_matter` (number modes): the component number densities are the
    component amounts times `n`, the particle numbers `n_i · V`, and the `sum` row of the mass
    densities is `n · M` (= `rho` by `C12_consistent_partial`), that of the masses `n · M · V`
    (= `mass`), that of the number densities `n · Σ p_i`. -/
theorem C12_table (mode : Mode) (hm : mode ≠ .massFraction) (cs : List (Comp α)) (da n V : α) :
    nCol cs n = cs.map (fun c => amount mode c * n) ∧
    NCol cs n V = (nCol cs n).map (· * V) ∧
    (nCol cs n).sum = propNorm mode cs * n ∧
    (rhoCol da cs n).sum = n * (compositeMass mode cs * da) ∧
    (NCol cs n V).sum = propNorm mode cs * n * V ∧
    (MCol da cs n V).sum = n * (compositeMass mode cs * da) * V := by
  refine ⟨?_, rfl, ?_, ?_, ?_, ?_⟩
  · cases mode
    · rfl
    · rfl
    · exact absurd rfl hm
  · rw [sum_nCol, propNorm_number mode hm]
  · rw [sum_rhoCol, compositeMass_number mode hm]; ring
  · rw [NCol, sum_map_id_mul_right, sum_nCol, propNorm_number mode hm]
  · rw [MCol, sum_map_id_mul_right, sum_rhoCol, compositeMass_number mode hm]; ring

/-- Tables are read-only views: a selection `components=[…]` lists exactly the selected rows of
    the full table, so its `sum` row is the sum over the selected components and any number of
    selections in any order leave the full table (a function of the state alone) what it is. -/
theorem C12_select_rows (da : α) (cs : List (Comp α)) (s : MState α) (t : Table α)
    (h : dataMatter da cs s = some t) (keep : List Bool) :
    (t.select keep).n = C11.select keep t.n ∧ (t.select keep).rho = C11.select keep t.rho ∧
    (t.select keep).sums.2.1 = (C11.select keep t.rho).sum ∧
    (t.select (List.replicate t.n.length true)).n = t.n := by
  refine ⟨rfl, rfl, rfl, ?_⟩
  simp only [Table.select]
  exact C11.select_all t.n

/-- End to end: whatever density was attached and however the composite was built, the `sum`
    row of `data_matter` reports the mass density of the object in column `rho` and its total
    mass in column `M`. -/
theorem C12_sums_match (mode : Mode) (hm : mode ≠ .massFraction) (cs : List (Comp α))
    (da : α) (rho n vol : Option (Q α)) (h : List (Option α))
    (hne : cs ≠ []) (hp : Pos cs) (hda : 0 < da) (hg : rho.isSome ∨ n.isSome)
    (hh : IsHistory mode cs h) :
    ∃ s t, runHistory da h (MState.init rho n vol) = some s ∧ dataMatter da cs s = some t ∧
      some t.sums.2.1 = s.rho ∧ t.sums.2.2.2 = s.mass := by
  obtain ⟨s, r, v, hrun, hr, hv, hrv, _, _, hmass⟩ :=
    C12_consistent_partial mode hm cs da rho n vol h hne hp hda hg hh
  have hvol : s.vol = vol.map Q.std := by
    have hform : ∃ Ms : List α, h = Ms.map some ++ [some (compositeMass mode cs)] := by
      rcases hh with hh | hh
      · exact ⟨_, hh.trans (dictHistory_eq mode hm cs)⟩
      · exact ⟨_, hh.trans (stringHistory_eq mode hm cs)⟩
    obtain ⟨Ms, rfl⟩ := hform
    cases rho with
    | some qr =>
      rw [runHistory_R da qr.std (vol.map Q.std) Ms _ _ (reachR_init qr n vol)] at hrun
      cases hrun; rfl
    | none =>
      cases n with
      | none => simp at hg
      | some qn =>
        rw [runHistory_N da qn.std (vol.map Q.std) Ms _ _ (reachN_init qn vol)] at hrun
        cases hrun; rfl
  refine ⟨s, ⟨nCol cs v, rhoCol da cs v, s.vol.map (NCol cs v), s.vol.map (MCol da cs v)⟩, hrun,
    by simp [dataMatter, hv], ?_, ?_⟩
  · simp only [Table.sums]
    rw [(C12_table mode hm cs da v 0).2.2.2.1, hr, hrv]
  · simp only [Table.sums, hvol, hmass]
    cases vol with
    | none => rfl
    | some V =>
      simp only [Option.map_some]
      rw [(C12_table mode hm cs da v V.std).2.2.2.2.2, hrv]

/-- The results do not depend on the units of the inputs: two descriptions of the same physical
    quantities (equal values in the standard unit) lead to the same state, hence to the same
    densities, mass and table. -/
theorem C12_unit_independent (rho n vol rho' n' vol' : Option (Q α))
    (hr : rho.map Q.std = rho'.map Q.std) (hn : n.map Q.std = n'.map Q.std)
    (hv : vol.map Q.std = vol'.map Q.std) :
    (MState.init rho n vol : MState α) = MState.init rho' n' vol' := by
  have h1 : rho.isSome = rho'.isSome := by
    cases rho <;> cases rho' <;> simp_all
  have h2 : n.isSome = n'.isSome := by
    cases n <;> cases n' <;> simp_all
  simp only [MState.init, hr, hn, hv, h1, h2]

/-- e.g. the same density written in a unit `u` times larger -/
theorem C12_unit_rescale (v f u : α) (hu : u ≠ 0) : (⟨v / u, f * u⟩ : Q α).std = (⟨v, f⟩ : Q α).std := by
  simp only [Q.std]; field_simp

/-! Non-vacuity: water (H₂, O with rounded masses) with 1 g/cm³ given in kg/m³ and one litre. -/
def exCs : List (Comp Rat) := [⟨2, 1⟩, ⟨1, 16⟩]

example : exCs ≠ [] ∧ Pos exCs ∧ IsHistory .number exCs (dictHistory .number exCs) := by
  refine ⟨by simp [exCs], ?_, Or.inl rfl⟩
  intro c hc
  simp only [exCs, List.mem_cons, List.not_mem_nil, or_false] at hc
  rcases hc with rfl | rfl <;> constructor <;> norm_num

example : runHistory (1/2 : Rat) (dictHistory .number exCs)
    (MState.init (some ⟨1000, 1/1000⟩) none (some ⟨1, 1000⟩)) =
    some ⟨some 1, some (1/9), some 1000, some 1000, false⟩ := by decide +kernel

example : runHistory (1/2 : Rat) (dictHistory .number exCs)
    (MState.init none (some ⟨1/9, 1⟩) (some ⟨1, 1000⟩)) =
    some ⟨some 1, some (1/9), some 1000, some 1000, true⟩ := by decide +kernel

end SciVerif.C12
