import SciVerif.Drive.C10
import SciVerif.Drive.C11
open Lean SciVerif.Drive

namespace SciVerif.C11.Drive

/-- C11 handler + the object-store histories of `Drive/C10` (materials are composites too) -/
def handleAll (j : Json) : Except String Json := do
  let k ← (← field j "k").getStr?
  match k with
  | "ops" => SciVerif.C10.Drive.opsK j
  | _ => handle j

end SciVerif.C11.Drive
