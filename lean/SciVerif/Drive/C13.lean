import SciVerif.Drive.Util
import SciVerif.Model.C13Spec
import SciVerif.Lemmas.C13q
open Lean SciVerif.Drive

/-! JSON line protocol for the DIP core model (used by the C13 and the C14 drivers). -/
namespace SciVerif.C13.Drive

def s2l (s : String) : Str := s.toList
def l2s (l : Str) : String := String.ofList l

def ratJson (q : Rat) : Json := Json.arr #[jstr (toString q.num), jstr (toString q.den)]

def atomJson : Atom → Json
  | .bool b => Json.mkObj [("b", Json.bool b)]
  | .num q => Json.mkObj [("n", ratJson q)]
  | .str s => Json.mkObj [("s", jstr (l2s s))]

def valJson : Val → Json
  | .none => Json.null
  | .scalar a => atomJson a
  | .array sh el => Json.mkObj [("a", Json.arr #[jarr jnat sh, jarr atomJson el])]

def tyStr : Ty → String
  | .bool => "bool" | .int => "int" | .float => "float" | .str => "str"

def nodeJson (name : Str) (ty : Ty) (info : TyInfo) (units : Option Str) (v : Option Val) : Json :=
  Json.arr #[jstr (l2s name), jstr (tyStr ty), jopt jnat info.precision,
    jopt Json.bool info.unsigned, jopt (fun u => jstr (l2s u)) units, jopt valJson v]

def resJson {α : Type} (f : α → Json) : R (List α) → Json
  | .error .fail => jstr "err"
  | .error .unsupported => jstr "unsupported"
  | .ok l => jarr f l

def getStrL (j : Json) : Except String Str := do pure (s2l (← j.getStr?))

def optJ {α : Type} (f : Json → Except String α) (j : Json) : Except String (Option α) :=
  if j.isNull then pure none else do pure (some (← f j))

def getRat (j : Json) : Except String Rat := do
  match ← getList j with
  | [a, b] =>
    match (← a.getStr?).toInt?, (← b.getStr?).toNat? with
    | some n, some d => if d = 0 then throw "zero denominator" else pure ((n : Rat) / (d : Rat))
    | _, _ => throw s!"bad rational {j}"
  | _ => throw s!"bad rational {j}"

def getAtom (j : Json) : Except String Atom := do
  match j.getObjVal? "b" with
  | .ok b => pure (.bool (← b.getBool?))
  | .error _ =>
    match j.getObjVal? "n" with
    | .ok n => pure (.num (← getRat n))
    | .error _ => pure (.str (← getStrL (← field j "s")))

def getVal (j : Json) : Except String Val := do
  if j.isNull then pure .none
  else match j.getObjVal? "a" with
    | .ok a =>
      match ← getList a with
      | [sh, el] => pure (.array (← getNatList sh) (← (← getList el).mapM getAtom))
      | _ => throw "bad array"
    | .error _ => pure (.scalar (← getAtom j))

def getTy (j : Json) : Except String Ty := do
  match ← j.getStr? with
  | "bool" => pure .bool | "int" => pure .int | "float" => pure .float | "str" => pure .str
  | s => throw s!"bad type {s}"

def getDims (j : Json) : Except String (List Dim) := do
  (← getList j).mapM (fun d => do
    match ← getList d with
    | [a, b] => pure (← optJ (·.getNat?) a, ← optJ (·.getNat?) b)
    | _ => throw "bad dim")

def getInfo (p u : Json) : Except String TyInfo := do
  pure { precision := ← optJ (·.getNat?) p, unsigned := ← optJ (·.getBool?) u }

def getPayload (j : Json) : Except String (Payload Val) := do
  match ← getList j with
  | [Json.str "skip"] => pure .skip
  | [Json.str "group"] => pure .group
  | [Json.str "const"] => pure .const
  | [Json.str "typed", ty, p, u, dims, unit, hasv, v] =>
    let hv ← hasv.getBool?
    let val ← getVal v
    pure (.typed (← getTy ty) (← getInfo p u) (← optJ getDims dims) (← optJ getStrL unit)
      (if hv then some val else none))
  | [Json.str "mod", unit, v] => pure (.mod (← optJ getStrL unit) (← getVal v))
  | _ => throw s!"bad payload {j}"

def getALine (j : Json) : Except String (ALine Val) := do
  match ← getList j with
  | [i, n, p] => pure { indent := ← i.getNat?, name := ← getStrL n, p := ← getPayload p }
  | _ => throw "bad line"

def getUnits (j : Json) : Except String (List UnitRow) := do
  (← getList j).mapM (fun r => do
    match ← getList r with
    | [n, a, b, d] => pure { name := ← getStrL n, factor := ← getRat (Json.arr #[a, b]), dim := ← getIntList d }
    | _ => throw "bad unit row")

def kindStr : Kind → String
  | .empty => "empty" | .unit => "unit" | .constant => "constant" | .group => "group"
  | .mod => "mod" | .table => "table" | .typed t => tyStr t

def rawJson : Raw → Json
  | .text s => jstr (l2s s)
  | .cells _ l => jarr (fun c => jstr (l2s c)) l

def lexJson (nd : Node) : Json :=
  Json.arr #[jstr (kindStr nd.kind), jnat nd.indent, jopt (fun n => jstr (l2s n)) nd.name,
    jopt jnat nd.info.precision, jopt Json.bool nd.info.unsigned,
    jopt (jarr (fun (d : Dim) => Json.arr #[jopt jnat d.1, jopt jnat d.2])) nd.dims,
    jopt rawJson nd.raw, jopt (fun u => jstr (l2s u)) nd.units, Json.bool nd.declared]

def handle (j : Json) : Except String Json := do
  let tbl ← match j.getObjVal? "units" with
    | .ok u => getUnits u
    | .error _ => pure []
  let P := mkParams tbl
  let mut out : List (String × Json) := []
  match j.getObjVal? "text" with
  | .ok t =>
    let text ← getStrL t
    let r := parseText P text
    out := out ++ [("model", resJson (fun (e : ENode) => nodeJson e.name e.ty e.info e.units e.value) r)]
  | .error _ => pure ()
  match j.getObjVal? "lex" with
  | .ok t =>
    let text ← getStrL t
    let r : R (List Node) := do
      let q ← getQueue (stripBlankLines (splitOn '\n' text))
      q.mapM determine
    out := out ++ [("lex", resJson lexJson r)]
  | .error _ => pure ()
  match j.getObjVal? "marks" with
  | .ok t =>
    -- the repaired escape marks of `_determine_node` (Lemmas/C13q.lean) on one text
    let text ← getStrL t
    out := out ++ [("marks", jstr (l2s (decodeM (encodeM text)))), ("encoded", jstr (l2s (encodeM text)))]
  | .error _ => pure ()
  match j.getObjVal? "lines" with
  | .ok ls =>
    let lines ← (← getList ls).mapM getALine
    let r := specRun P.conv P.unitKnown lines
    out := out ++ [("spec", resJson (fun (e : SNode) => nodeJson e.name e.ty e.info e.units e.value) r)]
  | .error _ => pure ()
  pure (Json.mkObj out)

end SciVerif.C13.Drive
