import SciVerif.Drive.Util
import SciVerif.Model.C11
open Lean SciVerif.Drive

namespace SciVerif.C11.Drive

/-- exact rationals travel as `[numerator, denominator]` (arbitrary-size integers) -/
def getRat (j : Json) : Except String Rat := do
  match ← getList j with
  | [n, d] =>
    let n ← n.getInt?
    let d ← d.getNat?
    if d = 0 then throw "zero denominator" else pure (mkRat n d)
  | _ => throw s!"bad rational {j}"

def jrat (r : Rat) : Json := Json.arr #[jint r.num, jnat r.den]

def getMode (j : Json) : Except String Mode := do
  match ← j.getStr? with
  | "NUMBER" => pure .number
  | "NUMBER_FRACTION" => pure .numberFraction
  | "MASS_FRACTION" => pure .massFraction
  | s => throw s!"bad mode {s}"

def getComps (j : Json) : Except String (List (Comp Rat)) := do
  (← getList j).mapM fun c => do
    match ← getList c with
    | [p, m] => pure ⟨← getRat p, ← getRat m⟩
    | _ => throw "bad component"

/-- `{"k":"fractions","mode":…,"comps":[[p,m],…]}` → model columns + sum row, specification columns -/
def fractions (j : Json) : Except String Json := do
  let mode ← getMode (← field j "mode")
  let cs ← getComps (← field j "comps")
  if cs.isEmpty || !positive cs then
    return Json.mkObj [("model", jstr "out-of-domain")]
  let s := sumRow mode cs
  -- optional: the `components=` selection and the `avg` row
  let keep : List Bool ← match j.getObjVal? "keep" with
    | .ok k => (← getList k).mapM (fun b => b.getBool?)
    | .error _ => pure (List.replicate cs.length true)
  let weighted : Bool := match j.getObjVal? "weighted" with
    | .ok (Json.bool b) => b
    | _ => false
  let ss := sumRowSel mode cs keep
  let av := avgRow weighted mode cs keep
  let selJ := Json.mkObj [("x", jarr jrat (select keep (xs mode cs))), ("X", jarr jrat (select keep (Xs mode cs))),
    ("sum", Json.arr #[jrat ss.1, jrat ss.2]), ("avg", Json.arr #[jrat av.1, jrat av.2])]
  pure (Json.mkObj [("sel", selJ),
    ("model", Json.mkObj [("x", jarr jrat (xs mode cs)), ("X", jarr jrat (Xs mode cs)),
      ("sum", Json.arr #[jrat s.1, jrat s.2]),
      ("norm", jrat (propNorm mode cs)), ("mass", jrat (compositeMass mode cs))]),
    ("spec", Json.mkObj [("x", jarr jrat (cs.map (specx mode cs))),
      ("X", jarr jrat (cs.map (specX mode cs)))])])

def handle (j : Json) : Except String Json := do
  let k ← (← field j "k").getStr?
  match k with
  | "fractions" => fractions j
  | _ => throw s!"C11: unknown kind {k}"

end SciVerif.C11.Drive
