import SciVerif.Drive.Util
import SciVerif.Model.C09
open Lean SciVerif.Drive

namespace SciVerif.C09.Drive
open SciVerif.C20 (Tbl dget)

/-! JSON encodings
  Defn  : null | {"str": s} | {"ty": t}
  Pref  : false | true | [p, …]
  Row   : [magnitude(repr), dims(repr), defn, name, pref]
  G     : {"keys": […], "data": [[sym, row], …], "types": […], "prefixes": […]}
  UnitDef : {"dict": {field: value, …}} (absent key = key absent) | {"quantity": [broken, mag, dims]} | {"other": kind}
  Prog  : "skip" | "raise" | ["use", s] | ["seq", p, …] | ["scope", [[sym, unitdef], …], body] | ["attempt", p]
-/

def parseDefn (j : Json) : Except String Defn :=
  match j with
  | Json.null => pure .none
  | _ =>
    match j.getObjVal? "str" with
    | .ok (Json.str s) => pure (.str s)
    | _ =>
      match j.getObjVal? "ty" with
      | .ok (Json.str t) => pure (.ty t)
      | _ => throw s!"bad definition {j}"

def parsePref (j : Json) : Except String Pref :=
  match j with
  | Json.bool false => pure .no
  | Json.bool true => pure .all
  | Json.arr a => do
    let l ← a.toList.mapM (fun x => x.getStr?)
    pure (.list l)
  | _ => throw s!"bad prefixes {j}"

def parseRow (j : Json) : Except String Row := do
  match ← getList j with
  | [Json.str m, Json.str d, df, Json.str n, p] =>
    pure ⟨m, d, ← parseDefn df, n, ← parsePref p⟩
  | _ => throw s!"bad row {j}"

def parseG (j : Json) : Except String Globals := do
  let keys ← (← getList (← field j "keys")).mapM (fun x => x.getStr?)
  let data ← (← getList (← field j "data")).mapM (fun kv => do
    match ← getList kv with
    | [Json.str k, r] => pure (k, ← parseRow r)
    | _ => throw "bad data entry")
  let types ← (← getList (← field j "types")).mapM (fun x => x.getStr?)
  let prefixes ← (← getList (← field j "prefixes")).mapM (fun x => x.getStr?)
  pure ⟨⟨keys, data⟩, types, prefixes⟩

def optField {α : Type} (j : Json) (k : String) (f : Json → Except String α) : Except String (Option α) :=
  match j.getObjVal? k with
  | .ok v => do pure (some (← f v))
  | .error _ => pure none

def parseUnitDef (j : Json) : Except String UnitDef :=
  match j.getObjVal? "other" with
  | .ok _ => pure .other
  | .error _ =>
    match j.getObjVal? "quantity" with
    | .ok q => do
      match ← getList q with
      | [Json.bool b, Json.str m, Json.str d] => pure (.quantity b m d)
      | _ => throw s!"bad quantity {j}"
    | .error _ => do
      let d ← field j "dict"
      pure (.dict (← optField d "magnitude" (fun x => x.getStr?))
                  (← optField d "dimensions" (fun x => x.getStr?))
                  (← optField d "definition" parseDefn)
                  (← optField d "name" (fun x => x.getStr?))
                  (← optField d "prefixes" parsePref))

def parseUnits (j : Json) : Except String (List (Sym × UnitDef)) := do
  (← getList j).mapM (fun su => do
    match ← getList su with
    | [Json.str s, u] => pure (s, ← parseUnitDef u)
    | _ => throw "bad unit entry")

partial def parseProg (j : Json) : Except String Prog :=
  match j with
  | Json.str "skip" => pure .skip
  | Json.str "raise" => pure .raise
  | Json.arr a =>
    match a.toList with
    | [Json.str "use", Json.str s] => pure (.use s)
    | Json.str "seq" :: ps => do
      let ps ← ps.mapM parseProg
      pure (ps.foldr (fun p q => Prog.seq p q) Prog.skip)
    | [Json.str "scope", us, body] => do pure (.scope (← parseUnits us) (← parseProg body))
    | [Json.str "attempt", p] => do pure (.attempt (← parseProg p))
    | _ => throw s!"bad program {j}"
  | _ => throw s!"bad program {j}"

def defnJson : Defn → Json
  | .none => Json.null
  | .str s => Json.mkObj [("str", jstr s)]
  | .ty t => Json.mkObj [("ty", jstr t)]

def prefJson : Pref → Json
  | .no => Json.bool false
  | .all => Json.bool true
  | .list l => jarr jstr l

def rowJson (r : Row) : Json :=
  Json.arr #[jstr r.magnitude, jstr r.dimensions, defnJson r.definition, jstr r.name, prefJson r.prefixes]

/-- Summary of the globals relative to the initial globals `g0` (lossless given `g0`):
    the keys beyond the initial ones (or all keys when the initial keys are not a prefix),
    whether the dict key order equals `_keys`, the rows that are not initial rows, the
    initial rows that are gone, UNIT_TYPES and the prefix keys. -/
def gsum (g0 g : Globals) : Json :=
  let n0 := g0.std.keys.length
  let keysPart : List (String × Json) :=
    if g.std.keys.take n0 = g0.std.keys then [("extra", jarr jstr (g.std.keys.drop n0))]
    else [("keys", jarr jstr g.std.keys)]
  let changed := g.std.data.filter (fun kv => dget g0.std.data kv.1 != some kv.2)
  let gone := (g0.std.data.filter (fun kv => (dget g.std.data kv.1).isNone)).map Prod.fst
  Json.mkObj (keysPart ++ [
    ("datakeys", Json.bool (g.std.data.map Prod.fst == g.std.keys)),
    ("changed", jarr (fun (kv : Sym × Row) => Json.arr #[jstr kv.1, rowJson kv.2]) changed),
    ("gone", jarr jstr gone),
    ("types", jarr jstr g.types),
    ("prefixes_same", Json.bool (g.prefixes == g0.prefixes))])

def evJson (g0 : Globals) : Ev → Json
  | .used s ok => Json.arr #[jstr "used", jstr s, Json.bool ok]
  | .entered ok g => Json.arr #[jstr "entered", Json.bool ok, gsum g0 g]
  | .exited ok g => Json.arr #[jstr "exited", Json.bool ok, gsum g0 g]
  | .raised => jstr "raised"
  | .caught => jstr "caught"

def runOne (g0 : Globals) (j : Json) : Except String Json := do
  let p ← parseProg j
  let (g, ok, evs) := run p g0
  pure (Json.mkObj [
    ("ok", Json.bool ok),
    -- the specification: the process-wide tables are exactly what they were
    ("restored", Json.bool (decide (g = g0))),
    ("final", gsum g0 g),
    ("events", jarr (evJson g0) evs)])

def runMany (j : Json) : Except String Json := do
  let g0 ← parseG (← field j "G")
  let progs ← getList (← field j "progs")
  let outs ← progs.mapM (runOne g0)
  pure (Json.arr outs.toArray)

def parseHOp (j : Json) : Except String HOp := do
  match ← getList j with
  | [Json.str "opn", us] => pure (.opn (← parseUnits us))
  | [Json.str "cls", i] => pure (.cls (← i.getNat?))
  | [Json.str "use", Json.str s] => pure (.use s)
  | _ => throw s!"bad history op {j}"

def hevJson (g0 : Globals) : HEv → Json
  | .opened ok g => Json.arr #[jstr "opened", Json.bool ok, gsum g0 g]
  | .closed ok g => Json.arr #[jstr "closed", Json.bool ok, gsum g0 g]
  | .used s ok => Json.arr #[jstr "used", jstr s, Json.bool ok]
  | .noop => jstr "noop"

def histOne (g0 : Globals) (j : Json) : Except String Json := do
  let ops ← (← getList j).mapM parseHOp
  let (st, evs) := hrun ops ⟨g0, []⟩
  pure (Json.mkObj [
    ("open", jnat st.opens.length),
    ("restored", Json.bool (decide (st.g = g0))),
    ("final", gsum g0 st.g),
    ("events", jarr (hevJson g0) evs)])

def histMany (j : Json) : Except String Json := do
  let g0 ← parseG (← field j "G")
  let hs ← getList (← field j "hists")
  let outs ← hs.mapM (histOne g0)
  pure (Json.arr outs.toArray)

/-- `check_unique_symbols()` on a given table. -/
def unique (j : Json) : Except String Json := do
  let g0 ← parseG (← field j "G")
  pure (Json.bool (checkUnique g0))

def handle (j : Json) : Except String Json := do
  let k ← (← field j "k").getStr?
  match k with
  | "run" => runMany j
  | "hist" => histMany j
  | "unique" => unique j
  | _ => throw s!"C09: unknown kind {k}"

end SciVerif.C09.Drive
