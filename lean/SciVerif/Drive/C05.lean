import SciVerif.Drive.C04

/-! C05 uses the same conversion driver as C04 (one model of `Quantity._convert` with all
    three unit-type classes); see `Drive/C04.lean`. -/
namespace SciVerif.C05.Drive
def handle := SciVerif.C04.Drive.handle
end SciVerif.C05.Drive
