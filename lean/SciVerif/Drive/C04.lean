import SciVerif.Drive.Util
import SciVerif.Model.C05
import SciVerif.Generated.C05Tables
open Lean SciVerif.Drive

/-!
Driver for C04 and C05: the conversion model instantiated with `Float` (IEEE double, the
same operations in the same order as the Python code) and the regenerated tables.
Floats travel as their 64-bit patterns.
-/
namespace SciVerif.C04.Drive
open SciVerif.C04 SciVerif.C05

instance : One Float := ⟨1.0⟩

/-- `x ** exp.value(dtype=float)`: `value` returns the int numerator when `num==0 or den==1`. -/
instance : PowFrac Float := ⟨fun x e =>
  if e.num == 0 || e.den == 1 then Float.pow x (Float.ofInt e.num)
  else Float.pow x (Float.ofInt e.num / Float.ofInt e.den)⟩

def ratToFloat (q : Rat) : Float := Float.ofInt q.num / Float.ofNat q.den

instance : LogOps Float where
  ofRat := ratToFloat
  log10 := Float.log10
  ln := Float.log
  exp := Float.exp
  pow10 := fun x => Float.pow 10.0 x

def getFloat (j : Json) : Except String Float := do
  let n ← j.getNat?
  pure (Float.ofBits n.toUInt64)

def jfloat (x : Float) : Json := jnat x.toBits.toNat

def getFrac (j : Json) : Except String Frac := do
  match (← getList j) with
  | [a, b] => pure ⟨← a.getInt?, ← b.getInt?⟩
  | _ => throw "bad fraction"

def getItem (j : Json) : Except String (Item Float) := do
  let p ← field j "p"
  let pm ← match p with
    | Json.null => pure none
    | _ => do pure (some (← getFloat p))
  pure { unitid := ← (← field j "id").getStr?, base := ← (← field j "base").getStr?,
         pmag := pm, umag := ← getFloat (← field j "m"),
         dims := ← (← getList (← field j "d")).mapM getFrac, exp := ← getFrac (← field j "e") }

def getItems (j : Json) (k : String) : Except String (List (Item Float)) := do
  (← getList (← field j k)).mapM getItem

def getMag (j : Json) : Except String (Mag Float) := do
  match j.getObjVal? "s" with
  | .ok s => pure (.scalar (← getFloat s))
  | .error _ => do
    let a ← getList (← field j "a")
    pure (.arr (← a.mapM getFloat))

def jmag : Mag Float → Json
  | .scalar x => Json.mkObj [("s", jfloat x)]
  | .arr xs => Json.mkObj [("a", jarr jfloat xs)]

def jerr : Err → Json
  | .unsupported => jstr "unsupported"
  | .notImplemented => jstr "notImplemented"
  | .onlySimple => jstr "onlySimple"

def kindStr : Kind → String
  | .same => "same" | .reciprocal => "reciprocal" | .numberToRad => "numberToRad" | .refuse => "refuse"

def magMapOpt (f : Float → Option Float) : Mag Float → Option (Mag Float)
  | .scalar x => (f x).map .scalar
  | .arr xs => (xs.mapM f).map .arr

/-- product of *all* table entries of an expression (the property's `factor`) and its
    dimension vector -/
def factorOf (items : List (Item Float)) : Float × Dims :=
  items.foldl (fun (acc : Float × Dims) i =>
    if i.exp.num == 0 then acc else (acc.1 * i.magnitude, acc.2.add (i.dims.mulFrac i.exp))) (1.0, Dims.zero)

def conv (j : Json) : Except String Json := do
  let x ← getMag (← field j "x")
  let iu ← getItems j "u"
  let iv ← getItems j "v"
  let types : List (Rule Float) := unitTypes Gen.tables
  let q := Q.init 0 x iu
  let b2 := mkBU 1 iv
  let mval := match Q.valueIn types q b2 with
    | .ok m => Json.mkObj [("ok", jmag m)]
    | .error e => Json.mkObj [("err", jerr e)]
  let (q', ok) := Q.to types q b2
  let mto := Json.mkObj [("ok", Json.bool ok), ("val", jmag q'.val), ("tag", jnat q'.bu.tag),
                         ("units", jarr jstr q'.bu.units)]
  -- Quantity-valued target `Quantity(tm, v)` (optional field "tm"); its constructor may fold
  -- dimensionless compounds into the magnitude
  let tmj := j.getObjVal? "tm"
  let tq : Option (Q Float) := match tmj with
    | .ok t => match getFloat t with
      | .ok tm => some (Q.init 1 (.scalar tm) iv)
      | .error _ => none
    | .error _ => none
  let mtoq := match tq with
    | some t => match t.val with
      | .scalar tm' =>
        let (q2, ok2) := Q.toQuantity types q tm' t.bu
        Json.mkObj [("ok", Json.bool ok2), ("val", jmag q2.val), ("tag", jnat q2.bu.tag),
                    ("units", jarr jstr q2.bu.units)]
      | _ => Json.null
    | none => Json.null
  -- specification side
  let (f1, d1) := factorOf iu
  let (f2, d2) := factorOf iv
  let live2 := iv.filter (fun i => i.exp.num != 0)
  let live1 := iu.filter (fun i => i.exp.num != 0)
  let single2 := match live2 with
    | [i] => some (i.base, i.exp)
    | _ => none
  let kind := specKind d1 d2 live1.isEmpty single2
  let sval := magMapOpt (specValue kind f1 f2) x
  pure (Json.mkObj [("value", mval), ("to", mto), ("toq", mtoq),
    ("init", Json.mkObj [("val", jmag q.val), ("units", jarr jstr q.bu.units), ("mag", jfloat q.bu.magnitude)]),
    ("spec", Json.mkObj [("kind", jstr (kindStr kind)), ("val", jopt jmag sval),
                         ("f1", jfloat f1), ("f2", jfloat f2)])])

def getRat (j : Json) : Except String Rat := do
  match (← getList j) with
  | [a, b] => pure (mkRat (← a.getInt?) (← b.getNat?))
  | _ => throw "bad rat"

/-- temperature specification: `{"k":"tempspec","u":"K","pu":[n,d],"v":"Cel","pv":[n,d],"x":bits}` -/
def tempspec (j : Json) : Except String Json := do
  let u ← (← field j "u").getStr?
  let v ← (← field j "v").getStr?
  let pu ← getRat (← field j "pu")
  let pv ← getRat (← field j "pv")
  let x ← getMag (← field j "x")
  match outerScale u pu, outerScale v pv with
  | some su, some sv => pure (jmag (x.map (specTemp su sv)))
  | _, _ => throw "not a temperature unit"

/-- level specifications -/
def levelspec (j : Json) : Except String Json := do
  let dir ← (← field j "dir").getStr?
  let k ← getRat (← field j "kk")
  let ref ← getRat (← field j "ref")
  let p ← getFloat (← field j "p")
  let lin ← getFloat (← field j "lin")
  let x ← getMag (← field j "x")
  match dir with
  | "toLevel" => pure (jmag (x.map (specToLevel k ref p lin)))
  | "fromLevel" => pure (jmag (x.map (specFromLevel k ref p lin)))
  | "toNeper" => pure (jmag (x.map (specToNeper k p)))
  | "fromNeper" => pure (jmag (x.map (fun y => specFromNeper k p y / lin)))
  | _ => throw "bad dir"

def level (j : Json) : Except String Json := do
  let sub ← (← field j "sub").getBool?
  let iu ← getItems j "u"
  let iv ← getItems j "v"
  let x ← getFloat (← field j "x")
  let y ← getFloat (← field j "y")
  let b1 : BU Float := mkBU 0 iu
  let b2 : BU Float := mkBU 1 iv
  let m := match qLevelOp Gen.tables sub b1 b2 x y with
    | none => jstr "other-class"
    | some (.error e) => Json.mkObj [("err", jerr e)]
    | some (.ok r) => Json.mkObj [("ok", jfloat r)]
  -- the right operand, given in the same unit with possibly another prefix, re-expressed in the left one's
  let s := specLevelOp sub b1.magnitude x (y * b2.magnitude / b1.magnitude)
  pure (Json.mkObj [("model", m), ("spec", jfloat s)])

def handle (j : Json) : Except String Json := do
  let k ← (← field j "k").getStr?
  match k with
  | "conv" => conv j
  | "tempspec" => tempspec j
  | "levelspec" => levelspec j
  | "level" => level j
  | _ => throw s!"C04/C05: unknown kind {k}"

end SciVerif.C04.Drive
