import SciVerif.Drive.Util
import SciVerif.Model.C07
open Lean SciVerif.Drive

namespace SciVerif.C07.Drive

/-! Line protocol for the C07 heap model.

Request  `{"p":"C07","ops":[op,…]}`; quantities are named by their creation index (0,1,2,…).
Answer   one object per operation:
  `res`     `["qty",i]` / `["val",shape]` / `"nothing"` / `"invalid"`
  `snap`    for every quantity created so far `[magnitude, value-array|null, error-array|null, baseunits, dict]`
            (heap locations; the harness compares the *alias relation*, never the numbers)
  `changed` indices of quantities whose observation `(value, units, abse)` differs from before the operation
  `allowed` the specification: indices the operation may change (the target of an in-place method)
-/

def getBoolD (j : Json) (k : String) (d : Bool) : Bool :=
  match j.getObjVal? k with
  | .ok v => (v.getBool?).toOption.getD d
  | .error _ => d

def getNatD (j : Json) (k : String) (d : Nat) : Nat :=
  match j.getObjVal? k with
  | .ok v => (v.getNat?).toOption.getD d
  | .error _ => d

def parseFacts (j : Json) : Facts :=
  { ok := getBoolD j "ok" true, log := getBoolD j "log" false, linear := getBoolD j "linear" true,
    nodim := getBoolD j "nodim" false, k := getNatD j "k" 0, conv := getBoolD j "conv" true }

def parseUF : String → Except String UF
  | "root" => pure .root | "angle" => pure .angle | "arc" => pure .arc
  | "keep" => pure .keep | "sum" => pure .sum | "test" => pure .test
  | s => throw s!"bad ufunc kind {s}"

/-- creation index → heap location -/
def var (vars : List Loc) (j : Json) : Except String Loc := do
  let i ← j.getNat?
  match vars[i]? with
  | some l => pure l
  | none => throw s!"unknown quantity {i}"

def parseOp (vars : List Loc) (j : Json) : Except String Op := do
  let a ← getList j
  match a with
  | [Json.str "new", ia, he, f] => pure (.new (← ia.getBool?) (← he.getBool?) (parseFacts f))
  | [Json.str "add", x, y, f] => pure (.add (← var vars x) (← var vars y) (parseFacts f))
  | [Json.str "sub", x, y, f] => pure (.sub (← var vars x) (← var vars y) (parseFacts f))
  | [Json.str "mul", x, y, f] => pure (.mul (← var vars x) (← var vars y) (parseFacts f))
  | [Json.str "div", x, y, f] => pure (.div (← var vars x) (← var vars y) (parseFacts f))
  | [Json.str "pow", x, f] => pure (.pow (← var vars x) (parseFacts f))
  | [Json.str "neg", x, f] => pure (.neg (← var vars x) (parseFacts f))
  | [Json.str "eq", x, y, f] => pure (.eq (← var vars x) (← var vars y) (parseFacts f))
  | [Json.str "ufunc", Json.str u, x, f] => pure (.ufunc (← parseUF u) (← var vars x) (parseFacts f))
  | [Json.str "space", x, y, f] => pure (.space (← var vars x) (← var vars y) (parseFacts f))
  | [Json.str "space1", y, f] => pure (.space1 (← var vars y) (parseFacts f))
  | [Json.str "value", x, f] => pure (.value (← var vars x) (parseFacts f))
  | [Json.str "to", x, Json.str "text", f] => pure (.to (← var vars x) .text (parseFacts f))
  | [Json.str "to", x, Json.arr #[Json.str "buOf", y], f] =>
      pure (.to (← var vars x) (.buOf (← var vars y)) (parseFacts f))
  | [Json.str "to", x, Json.arr #[Json.str "qty", y], f] =>
      pure (.to (← var vars x) (.qty (← var vars y)) (parseFacts f))
  | [Json.str "rebase", x] => pure (.rebase (← var vars x))
  | [Json.str "abse", x] => pure (.abse (← var vars x))
  | [Json.str "rele", x] => pure (.rele (← var vars x))
  | [Json.str "poke", x, e] => pure (.poke (← var vars x) (← e.getBool?))
  | _ => throw s!"bad op {j}"

def refJson : Ref → Json
  | .arr l => jnat l
  | _ => Json.null

def snapOf (h : Heap) (x : Loc) : Json :=
  match h.q x with
  | some qc =>
    match h.m qc.mag, h.b qc.bu with
    | some mc, some bc => Json.arr #[jnat qc.mag, refJson mc.value, refJson mc.error, jnat qc.bu, jnat bc.dict]
    | _, _ => Json.null
  | none => Json.null

def idxOf (vars : List Loc) (l : Loc) : Json :=
  match vars.findIdx? (· == l) with
  | some i => jnat i
  | none => Json.null

def runOps (h : Heap) (vars : List Loc) : List Json → Except String (List Json)
  | [] => pure []
  | j :: js => do
    let op ← parseOp vars j
    let (h', r) := step h op
    let vars' := match r with
      | .qty x => if vars.contains x then vars else vars ++ [x]
      | _ => vars
    let res : Json := match r with
      | .qty x => Json.arr #[jstr "qty", idxOf vars' x]
      | .val v => Json.arr #[jstr "val", jstr (match v with | .arr _ => "array" | .scalar _ => "scalar" | .none => "none")]
      | .nothing => jstr "nothing"
      | .invalid => jstr "invalid"
    -- model: which observations changed; specification: which may change
    let idx := List.range vars.length
    let changed := idx.filter (fun i => match vars[i]? with
      | some x => decide (obs h' x ≠ obs h x)
      | none => false)
    let allowed := idx.filter (fun i => match vars[i]?, target op with
      | some x, some t => x == t
      | _, _ => false)
    -- the result's mutable cells against every older quantity's (the second half of the property)
    let shared := match r with
      | .qty x => if vars.contains x then [] else
          idx.filter (fun i => match vars[i]? with
            | some y => (mutReach h' x).any (fun c => (mutReach h' y).contains c)
            | none => false)
      | _ => []
    -- frozen units: BaseUnits objects / dicts held before the operation and written by it (never, by
    -- C07_units_frozen; reported so that the harness can compare with the real cached fields)
    let buWritten := idx.filter (fun i => match vars[i]? with
      | some x => match h.q x with
        | some qc => match h.b qc.bu with
          | some bc => decide (h'.b qc.bu ≠ some bc) || decide (h'.d bc.dict ≠ h.d bc.dict)
          | none => false
        | none => false
      | none => false)
    let out := Json.mkObj [("res", res), ("snap", jarr (snapOf h') vars'),
      ("changed", jarr jnat changed), ("allowed", jarr jnat allowed), ("shared", jarr jnat shared),
      ("bu_written", jarr jnat buWritten)]
    let rest ← runOps h' vars' js
    pure (out :: rest)

def handle (j : Json) : Except String Json := do
  let ops ← getList (← field j "ops")
  let outs ← runOps Heap.empty [] ops
  pure (Json.arr outs.toArray)

end SciVerif.C07.Drive
