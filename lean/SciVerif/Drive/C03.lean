import SciVerif.Drive.Util
import SciVerif.Model.C03
import SciVerif.Model.C03Spec
import SciVerif.Generated.C03Tables
open Lean SciVerif.Drive

namespace SciVerif.C03.Drive
open SciVerif.C03

def jS (s : Str) : Json := Json.str (String.ofList s)
def jRat (q : Rat) : Json := Json.arr #[jint q.num, jnat q.den]
def jFrac (f : Frac) : Json := Json.arr #[jint f.num, jint f.den]
def jFactor (f : Factor) : Json := Json.arr #[jint f.base.num, jnat f.base.den, jint f.exp.num, jint f.exp.den]
def jFVal : FVal → Json
  | .int i => jint i
  | .pair n d => Json.arr #[jint n, jint d]

def jBase (b : BaseUnits) : Json := Json.mkObj [
  ("entries", jarr (fun (ue : UnitId × Frac) => Json.arr #[jS ue.1.text, jint ue.2.num, jint ue.2.den]) b.entries),
  ("factors", jarr jFactor b.factors),
  ("dims", jarr (fun (f : Frac) => jFVal f.value) b.dims),
  ("nodim", Json.bool (nodim b.dims)),
  ("expression", jopt jS b.expr)]

def errTag (e : Err) : Json := Json.str (toString (repr e))

def modelOf (T : Tables) (s : Str) : Json :=
  let b := match baseUnitsOfText T s with
    | .ok b => jBase b
    | .error e => Json.mkObj [("err", errTag e)]
  let q := match quantityOfText T s with
    | .ok q => Json.mkObj [("coef", jRat q.coef), ("factors", jarr jFactor q.factors), ("base", jBase q.base)]
    | .error e => Json.mkObj [("err", errTag e)]
  Json.mkObj [("base", b), ("quantity", q)]

def jDen (T : Tables) (d : Den) : Json :=
  let g := grouped d.exps
  Json.mkObj [
    ("coef", jRat d.coef),
    ("units", jarr (fun (ue : UnitId × Rat) => Json.arr #[jS ue.1.text, jint ue.2.num, jnat ue.2.den]) g),
    ("dims", jarr jRat (specDims T d.exps)),
    ("factors", jarr (fun (ue : UnitId × Rat) =>
        let m := (unitMag T ue.1).getD 0
        Json.arr #[jint m.num, jnat m.den, jint ue.2.num, jnat ue.2.den]) g)]

def specOfAst (T : Tables) (a : U) : Json :=
  match denote T a with
  | some d => jDen T d
  | none => Json.mkObj [("err", Json.str "invalid")]

def specOfText (T : Tables) (s : Str) : Json :=
  match specParse T s with
  | none => Json.mkObj [("err", Json.str "grammar")]
  | some a => specOfAst T a

partial def parseAst (j : Json) : Except String U := do
  let a ← getList j
  match a with
  | [Json.str "atom", Json.str p, Json.str b, Json.str x] => pure (.atom p.toList b.toList x.toList)
  | [Json.str "sys", Json.str n, Json.str x] => pure (.sys n.toList x.toList)
  | [Json.str "num", Json.str t] => pure (.num t.toList)
  | [Json.str "mul", x, y] => pure (.mul (← parseAst x) (← parseAst y))
  | [Json.str "div", x, y] => pure (.div (← parseAst x) (← parseAst y))
  | [Json.str "par", x] => pure (.par (← parseAst x))
  | _ => throw s!"bad ast {j}"

def jPref : PrefAdm → Json
  | .all => jstr "all"
  | .none => jstr "none"
  | .only l => jarr jS l
  | .malformed => jstr "malformed"

def jKind : DefKind → Json
  | .base => Json.arr #[jstr "base"]
  | .expr t => Json.arr #[jstr "expr", jS t]
  | .temperature => Json.arr #[jstr "temperature"]
  | .logarithmic => Json.arr #[jstr "logarithmic"]

/-- the table this driver was compiled with (dump round trip) -/
def dump (T : Tables) : Json := Json.mkObj [
  ("prefixes", jarr (fun (p : PrefixRow) => Json.mkObj [("sym", jS p.sym), ("mag", jRat p.mag), ("defn", jS p.defn)]) T.prefixes),
  ("units", jarr (fun (u : UnitRow) => Json.mkObj [("sym", jS u.sym), ("mag", jRat u.mag),
      ("dims", jarr jFrac u.dims), ("pref", jPref u.pref), ("kind", jKind u.defn)]) T.units),
  ("sys", jarr (fun (u : SysRow) => Json.mkObj [("sym", jS u.sym), ("mag", jRat u.mag), ("dims", jarr jFrac u.dims)]) T.sys),
  ("symbols", jarr (fun (c : Char) => Json.str (String.singleton c)) T.symbols)]

def handle (j : Json) : Except String Json := do
  let T := Gen.tables
  let k ← (← field j "k").getStr?
  match k with
  | "dump" => pure (dump T)
  | "text" =>
    let s := (← (← field j "text").getStr?).toList
    pure (Json.mkObj [("model", modelOf T s), ("spec", specOfText T s)])
  | "ast" =>
    let s := (← (← field j "text").getStr?).toList
    let a ← parseAst (← field j "ast")
    pure (Json.mkObj [("render", jS a.render), ("leftassoc", Json.bool a.leftAssoc),
      ("model", modelOf T s), ("spec", specOfAst T a), ("spec_text", specOfText T s)])
  | "atom" =>
    let s := (← (← field j "text").getStr?).toList
    let m := match unitParse T s with
      | .ok (u, e) => Json.arr #[jS u.text, jint e.num, jint e.den]
      | .error e => errTag e
    pure (Json.mkObj [("unit", m), ("readings", jnat (readings T s))])
  | _ => throw s!"C03: unknown kind {k}"

end SciVerif.C03.Drive
