import SciVerif.Drive.Util
import SciVerif.Model.C16
open Lean SciVerif.Drive

namespace SciVerif.C16.Drive

def fabs (x : Float) : Float := if x < 0 then -x else x

structure UnitDef where
  name : String
  k : Float
  dims : List (Int × Nat)

def getFloat (j : Json) : Except String Float :=
  match j with
  | .num n => pure n.toFloat
  | _ => throw s!"number expected: {j}"

def optStr (j : Json) : Option String := match j with | .str s => some s | _ => none

/-- IEEE double arithmetic for the shared formulas `iscloseA` / `convA` of the model -/
def floatArith : Arith Float :=
  ⟨fun a b => a - b, fun a b => a + b, fun a b => a * b, fun a b => a / b, fabs, fun a b => a ≤ b⟩

def prim (units : List UnitDef) : Prim Float :=
  arithPrim floatArith
    (fun s => (units.find? (·.name == s)).map fun u => (⟨u.k, u.dims⟩ : LinUnit Float (List (Int × Nat))))
    1e-8 1e-6

def parseVal (j : Json) : Except String (Option (Val Float)) := do
  match j with
  | .null => pure none
  | _ =>
    match ← getList j with
    | [.str "num", x, u] => pure (some (.num (← getFloat x) (optStr u)))
    | [.str "str", .str s] => pure (some (.str s))
    | [.str "other"] => pure (some .other)
    | _ => throw s!"bad value {j}"

def parseOpt (j : Json) : Except String (Opt Float) := do
  match ← getList j with
  | [.str "num", x, u] => pure (.num (← getFloat x) (optStr u))
  | [.str "str", .str s] => pure (.str s)
  | _ => throw s!"bad option {j}"

def optNat (j : Json) : Option Nat := match j.getNat? with | .ok n => some n | _ => none

/-- Python's `<` on doubles through the model's `ltA` -/
def floatLt : Float → Float → Bool := ltA floatArith

/-- `"scond": [op, literal, unit|null]`: a `!condition` of the shape `{?} <op> literal [unit]`, to be
    evaluated by the MODEL (`condNum`) on the final value instead of being supplied -/
def parseSCond (j : Json) : Except String (Option (SimpleCond Float)) := do
  match j.getObjVal? "scond" with
  | .ok (.arr #[.str o, b, u]) =>
    let op ← match o with
      | "eq" => pure CmpOp.eq | "ne" => pure CmpOp.ne | "lt" => pure CmpOp.lt
      | "gt" => pure CmpOp.gt | "le" => pure CmpOp.le | "ge" => pure CmpOp.ge
      | _ => throw s!"bad operator {o}"
    pure (some ⟨op, ← getFloat b, optStr u⟩)
  | .ok x => throw s!"bad scond {x}"
  | _ => pure none

/-- the node with its condition computed by the model when it is a simple one (`withNumCond`) -/
def applySCond (P : Prim Float) (n : Node Float) : Option (SimpleCond Float) → Node Float
  | none => n
  | some c =>
    match n.value with
    | some (.num x ux) => withNumCond P floatLt n c x ux
    | _ => { n with condition := some none }

/-- node record for the model plus the specification's verdict on the condition -/
def parseNode (j : Json) : Except String (Node Float × Option (Option Bool)) := do
  let cond : Option (Option Bool) := match j.getObjVal? "cond" with
    | .ok (.bool b) => some (some b)
    | .ok (.str _) => some none
    | _ => none
  let condSpec : Option (Option Bool) := match j.getObjVal? "cond_spec" with
    | .ok (.bool b) => some (some b)
    | .ok (.str _) => some none          -- unknown
    | _ => none
  let fmt : Option Bool := match j.getObjVal? "fmt" with | .ok (.bool b) => some b | _ => none
  let dims ← (← getList (← field j "dims")).mapM fun d => do
    match ← getList d with
    | [a, b] => pure (optNat a, optNat b)
    | _ => throw "bad dim"
  let n : Node Float := {
    declared := ← (← field j "declared").getBool?
    value := ← parseVal (← field j "value")
    unit := optStr (← field j "unit")
    selectable := ← (← field j "selectable").getBool?
    options := ← (← getList (← field j "options")).mapM parseOpt
    condition := cond
    isStr := ← (← field j "isStr").getBool?
    format := fmt
    dims := dims
    shape := ← getNatList (← field j "shape") }
  pure (n, condSpec)

/-- Executable three-valued version of `holds`, with robust tolerance verdicts
    (`none` = too close to the boundary to judge). -/
def specNode (P : Prim Float) (n : Node Float) (condSpec : Option (Option Bool)) : Option Bool :=
  let sureEq (x y : Float) : Bool := fabs (x - y) ≤ 0.9 * (1e-8 + 1e-6 * fabs y)
  let sureNe (x y : Float) : Bool := fabs (x - y) ≥ 1.1 * (1e-8 + 1e-6 * fabs y)
  if !dimsOK n.dims n.shape then some false
  else
    match n.value with
    | none => some (!n.declared && n.options.isEmpty && condSpec.isNone && n.format.isNone)
    | some v =>
      let optV : Option Bool :=
        if n.options.isEmpty then some true
        else
          let verdicts : List (Option Bool) := n.options.map fun o =>
            match o, v with
            | .num x u, .num y _ =>
              match P.conv u n.unit x with
              | some w => if sureEq w y then some true else if sureNe w y then some false else none
              | none => some false
            | .str a, .str b => some (a == b)
            | _, _ => some false
          if verdicts.any (· == some true) then some true
          else if verdicts.all (· == some false) then some false else none
      let condV : Option Bool := match condSpec with
        | none => some true
        | some none => none
        | some (some b) => some b
      let fmtV : Option Bool := match n.format with | none => some true | some m => some m
      match optV, condV, fmtV with
      | some false, _, _ => some false
      | _, some false, _ => some false
      | _, _, some false => some false
      | some true, some true, some true => some true
      | _, _, _ => none

def handle (j : Json) : Except String Json := do
  let units ← (← getList (← field j "units")).mapM fun r => do
    match ← getList r with
    | [n, k, d] =>
      let dims ← (← getList d).mapM fun x => do
        match ← getList x with
        | [a, b] => pure (← a.getInt?, ← b.getNat?)
        | _ => throw "bad dims"
      pure (⟨← n.getStr?, ← getFloat k, dims⟩ : UnitDef)
    | _ => throw "bad unit"
  let P := prim units
  let nodes ← (← getList (← field j "nodes")).mapM fun nj => do
    let (n, cs) ← parseNode nj
    pure (applySCond P n (← parseSCond nj), cs)
  let model := validate P (nodes.map (·.1))
  let specs := nodes.map fun (n, cs) => specNode P n cs
  let spec : Json :=
    if specs.any (· == some false) then Json.bool false
    else if specs.all (· == some true) then Json.bool true else jstr "unknown"
  pure (Json.mkObj [("model", Json.bool model), ("spec", spec)])

end SciVerif.C16.Drive
