import Lean.Data.Json
open Lean

namespace SciVerif.Drive

def jstr (s : String) : Json := Json.str s
def jarr {α : Type} (f : α → Json) (l : List α) : Json := Json.arr (l.map f).toArray
def jint (i : Int) : Json := Json.num (JsonNumber.fromInt i)
def jnat (n : Nat) : Json := Json.num (JsonNumber.fromNat n)
def jopt {α : Type} (f : α → Json) : Option α → Json
  | none => Json.null
  | some a => f a

def getList (j : Json) : Except String (List Json) := do
  let a ← j.getArr?
  pure a.toList

def getIntList (j : Json) : Except String (List Int) := do
  let a ← getList j
  a.mapM (fun x => x.getInt?)

def getNatList (j : Json) : Except String (List Nat) := do
  let a ← getList j
  a.mapM (fun x => x.getNat?)

def field (j : Json) (k : String) : Except String Json := j.getObjVal? k

end SciVerif.Drive

namespace SciVerif.Drive
open Lean

/-- One JSON request per input line, one JSON answer per output line:
    `{"ok": …}` or `{"error": "…"}`. -/
partial def serveLoop (h : Json → Except String Json) (hin hout : IO.FS.Stream) : IO Unit := do
  let line ← hin.getLine
  if line.isEmpty then return ()
  let out := match Json.parse line with
    | .error e => Json.mkObj [("error", Json.str s!"parse: {e}")]
    | .ok j => match h j with
      | .ok r => Json.mkObj [("ok", r)]
      | .error e => Json.mkObj [("error", Json.str e)]
  hout.putStrLn out.compress
  hout.flush
  serveLoop h hin hout

def serve (h : Json → Except String Json) : IO Unit := do
  serveLoop h (← IO.getStdin) (← IO.getStdout)

end SciVerif.Drive
