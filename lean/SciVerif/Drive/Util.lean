import Lean.Data.Json
open Lean

namespace SciVerif.Drive

def jstr (s : String) : Json := Json.str s
def jarr {α : Type} (f : α → Json) (l : List α) : Json := Json.arr (l.map f).toArray
def jint (i : Int) : Json := Json.num (JsonNumber.fromInt i)
def jnat (n : Nat) : Json := Json.num (JsonNumber.fromNat n)
def jopt {α : Type} (f : α → Json) : Option α → Json
  | none => Json.null
  | some a => f a

def getList (j : Json) : Except String (List Json) := do
  let a ← j.getArr?
  pure a.toList

def getIntList (j : Json) : Except String (List Int) := do
  let a ← getList j
  a.mapM (fun x => x.getInt?)

def getNatList (j : Json) : Except String (List Nat) := do
  let a ← getList j
  a.mapM (fun x => x.getNat?)

def field (j : Json) (k : String) : Except String Json := j.getObjVal? k

end SciVerif.Drive
