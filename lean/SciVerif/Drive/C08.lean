import SciVerif.Drive.Util
import SciVerif.Model.C08
open Lean SciVerif.Drive

/-!
Driver side of C08 (also used by C06): the value type `Val` (a Python float or a numpy float
array with broadcasting), its `ValOps` instance (numpy primitives taken as element-wise
application), JSON encoding, and the handler for operations on `Magnitude`.
-/
namespace SciVerif.C08.Drive
open SciVerif.C08

inductive Val where
  | s (x : Float)
  | a (xs : Array Float)
deriving Inhabited

def Val.lift1 (f : Float → Float) : Val → Val
  | .s x => .s (f x)
  | .a xs => .a (xs.map f)

/-- numpy broadcasting of a scalar against an array; arrays element by element -/
def Val.lift2 (f : Float → Float → Float) : Val → Val → Val
  | .s x, .s y => .s (f x y)
  | .s x, .a ys => .a (ys.map (f x))
  | .a xs, .s y => .a (xs.map (fun x => f x y))
  | .a xs, .a ys => .a (Array.zipWith f xs ys)

def fmax (a b : Float) : Float := if a < b then b else a

def Val.elems : Val → Array Float
  | .s x => #[x]
  | .a xs => xs

def ratToFloat (q : Rat) : Float := Float.ofInt q.num / Float.ofNat q.den

instance : Add Val := ⟨Val.lift2 (· + ·)⟩
instance : Sub Val := ⟨Val.lift2 (· - ·)⟩
instance : Mul Val := ⟨Val.lift2 (· * ·)⟩
instance : Div Val := ⟨Val.lift2 (· / ·)⟩
instance : Neg Val := ⟨Val.lift1 (fun x => -x)⟩
instance (n : Nat) : OfNat Val n := ⟨.s (Float.ofNat n)⟩

instance : ValOps Val where
  abs := Val.lift1 Float.abs
  gmax x y :=
    let all := x.elems ++ y.elems
    .s (all.foldl fmax (all[0]!))
  fillLike v e := match v, e with
    | .a xs, .s x => .a (xs.map (fun _ => x))
    | _, e => e
  rpow v p := Val.lift1 (fun x => Float.pow x (ratToFloat p)) v
  ofRat q := .s (ratToFloat q)

/-! JSON -/

/-- floats travel as their IEEE bit pattern (`"~f<bits>"`), so nothing is rounded in transit -/
def jfloat (x : Float) : Json := Json.str ("~f" ++ toString x.toBits.toNat)

def jval : Val → Json
  | .s x => jfloat x
  | .a xs => Json.arr (xs.map jfloat)

def getFloat (j : Json) : Except String Float := do
  match j with
  | .num n => pure n.toFloat
  | .str s =>
    if s.startsWith "~f" then
      match (s.drop 2).toNat? with
      | some n => pure (Float.ofBits n.toUInt64)
      | none => throw s!"bad float bits {s}"
    else throw s!"number expected: {j}"
  | _ => throw s!"number expected: {j}"

def getVal (j : Json) : Except String Val := do
  match j with
  | .arr xs => pure (.a (← xs.mapM getFloat))
  | _ => pure (.s (← getFloat j))

def getOptVal (j : Json) : Except String (Option Val) :=
  match j with
  | .null => pure none
  | _ => do pure (some (← getVal j))

/-- a magnitude *as it is stored* in the real object: `{"v": value, "e": error|null}` -/
def getMag (j : Json) : Except String (Mag Val) := do
  pure ⟨← getVal (← field j "v"), ← getOptVal ((j.getObjVal? "e").toOption.getD Json.null)⟩

def jmag (m : Mag Val) : Json :=
  Json.mkObj [("v", jval m.value), ("e", jopt jval m.error)]

def getRat (j : Json) : Except String Rat := do
  match ← getList j with
  | [n, d] =>
    let n ← n.getInt?
    let d ← d.getInt?
    if d = 0 then throw "zero denominator" else pure ((n : Rat) / (d : Rat))
  | _ => throw s!"[n,d] expected: {j}"

/-- operations on `Magnitude` objects; a plain number operand is `{"num": x}` and goes through
    `Magnitude(x)` as in `__mul__` etc. -/
def getOperand (j : Json) : Except String (Mag Val) :=
  match j.getObjVal? "num" with
  | .ok x => do pure (Mag.exact (← getVal x))
  | .error _ => getMag j

def Val.all (p : Float → Bool) (v : Val) : Bool := v.elems.all p

/-- element-wise `x < y` for all elements (with broadcasting) -/
def Val.allLt (x y : Val) : Bool :=
  match Val.lift2 (fun a b => if a < b then 1.0 else 0.0) x y with
  | v => v.all (fun t => t == 1.0)

/-- where the first-order lower bound of a quotient is judged: every element of the divisor has
    `db < b` (interval excludes 0) or `b < db ≤ 2b` (theorems `C08_first_order_div`, `…_wide`);
    beyond `2b` the bound is false for the code (`C08_first_order_div_needs_interval`) and at
    `db = b` the code divides by zero. -/
def divBoundApplies (re rv : Val) : Bool :=
  (Val.lift2 (fun e v => if e < v || (v < e && e ≤ 2.0 * v) then 1.0 else 0.0) re rv).all (fun t => t == 1.0)

def ruleExact : Json := Json.mkObj [("rule", jstr "exact")]
def ruleEq (b : Val) : Json := Json.mkObj [("rule", jstr "eq"), ("bound", jval b)]
def ruleGe (b : Val) : Json := Json.mkObj [("rule", jstr "ge"), ("bound", jval b)]
def ruleNonneg : Json := Json.mkObj [("rule", jstr "nonneg")]

/-- which clause of the property applies to the error of `l op r`, with its bound computed by
    the specification formulas of `Model/C08.lean` -/
def specRule (op : String) (l r : Mag Val) : Json :=
  let zero : Val := .s 0.0
  let pos (v : Val) := v.all (fun x => 0.0 < x)
  match op, l.error, r.error with
  | _, none, none => ruleExact
  | "add", le, re => ruleEq (specSumErr le re)
  | "sub", le, re => ruleEq (specSumErr le re)
  | "mul", none, some re => ruleEq (specScaleErr l.value re)
  | "mul", some le, none => ruleEq (specScaleErr r.value le)
  | "mul", some le, some re =>
    if pos l.value && pos r.value then ruleGe (specFirstOrderMul l.value le r.value re) else ruleNonneg
  | "div", some le, none => ruleEq (specUnscaleErr r.value le)
  | "div", none, some re =>
    if pos l.value && pos r.value && divBoundApplies re r.value then
      ruleGe (specFirstOrderDiv l.value zero r.value re) else ruleNonneg
  | "div", some le, some re =>
    if pos l.value && pos r.value && divBoundApplies re r.value then
      ruleGe (specFirstOrderDiv l.value le r.value re) else ruleNonneg
  | _, _, _ => ruleNonneg

def withSpec (m : Mag Val) (spec : Json) : Json := Json.mkObj [("model", jmag m), ("spec", spec)]

def handle (j : Json) : Except String Json := do
  let op ← (← field j "op").getStr?
  match op with
  | "new" => do
    let v ← getVal (← field j "v")
    let e ← getOptVal (← field j "abse")
    pure (withSpec (Mag.new v e) (match e with | none => ruleExact | some x => ruleEq x))
  | "newrel" => do
    let v ← getVal (← field j "v")
    let r ← getVal (← field j "rele")
    pure (withSpec (Mag.newRel v r) ruleNonneg)
  | "rele" => do
    let m ← getMag (← field j "l")
    pure (Json.mkObj [("model", jopt jval m.rele)])
  | "neg" => do
    let m ← getOperand (← field j "l")
    pure (withSpec m.neg (match m.error with | none => ruleExact | some e => ruleEq e))
  | "pow" => do
    let m ← getOperand (← field j "l")
    pure (withSpec (m.pow (← getRat (← field j "p")))
      (match m.error with | none => ruleExact | some _ => ruleNonneg))
  | _ => do
    let l ← getOperand (← field j "l")
    let r ← getOperand (← field j "r")
    match op with
    | "add" => pure (withSpec (l.add r) (specRule op l r))
    | "sub" => pure (withSpec (l.sub r) (specRule op l r))
    | "mul" => pure (withSpec (l.mul r) (specRule op l r))
    | "div" => pure (withSpec (l.div r) (specRule op l r))
    | _ => throw s!"C08: unknown op {op}"

end SciVerif.C08.Drive
