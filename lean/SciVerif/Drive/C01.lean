import SciVerif.Drive.Util
import SciVerif.Model.C01Spec
import SciVerif.Generated.C01Tables
import SciVerif.Generated.C02Tables
open Lean SciVerif.Drive

namespace SciVerif.C01.Drive
open SciVerif.C01

def fn1Name : Fn1 → String
  | .neg => "neg" | .log => "log" | .log10 => "log10" | .sqrt => "sqrt" | .sin => "sin"
  | .cos => "cos" | .tan => "tan" | .lnot => "lnot"
def fn2Name : Fn2 → String
  | .add => "add" | .sub => "sub" | .mul => "mul" | .div => "div" | .pow => "pow" | .eq => "eq"
  | .ne => "ne" | .le => "le" | .ge => "ge" | .lt => "lt" | .gt => "gt" | .land => "land" | .lor => "lor"

def termJson : Term → Json
  | .num s => Json.arr #[jstr "num", jstr (String.ofList s)]
  | .e => Json.arr #[jstr "e"]
  | .un f t => Json.arr #[jstr "un", jstr (fn1Name f), termJson t]
  | .bin f a b => Json.arr #[jstr "bin", jstr (fn2Name f), termJson a, termJson b]

def tokJson : Tok Term → Json
  | .none => jstr "none"
  | .atom a => Json.mkObj [("atom", termJson a)]
  | .op i args => Json.mkObj [("op", jnat i), ("args", jarr (jopt termJson) args)]

def outJson : Except String (Tok Term) → Json
  | .error m => Json.mkObj [("err", jstr m)]
  | .ok t => tokJson t

def parseF1 : String → Except String F1
  | "par" => pure .par | "exp" => pure .exp | "log" => pure .log | "log10" => pure .log10
  | "sqrt" => pure .sqrt | "sin" => pure .sin | "cos" => pure .cos | "tan" => pure .tan
  | s => throw s!"bad fn1 {s}"
def parseF2 : String → Except String F2
  | "logb" => pure .logb | "powb" => pure .powb
  | s => throw s!"bad fn2 {s}"
def parseB2 : String → Except String B2
  | "pow" => pure .pow | "mul" => pure .mul | "div" => pure .div | "add" => pure .add
  | "sub" => pure .sub | "eq" => pure .eq | "ne" => pure .ne | "le" => pure .le | "ge" => pure .ge
  | "lt" => pure .lt | "gt" => pure .gt | "and" => pure .and | "or" => pure .or
  | s => throw s!"bad binary {s}"

partial def parseE (j : Json) : Except String E := do
  let a ← getList j
  match a with
  | [Json.str "num", Json.str t] => pure (.num t.toList)
  | [Json.str "fn1", Json.str f, e] => pure (.fn1 (← parseF1 f) (← parseE e))
  | [Json.str "fn2", Json.str g, x, y] => pure (.fn2 (← parseF2 g) (← parseE x) (← parseE y))
  | [Json.str "sign", Json.bool s, e] => pure (.sign s (← parseE e))
  | [Json.str "bin", Json.str o, l, r] => pure (.bin (← parseB2 o) (← parseE l) (← parseE r))
  | [Json.str "not", e] => pure (.not (← parseE e))
  | _ => throw s!"bad ast {j}"

def namedConfig (name : String) : Except String (Table × List (List String × Otype)) :=
  match name with
  | "default" => pure (SciVerif.C01.Gen.dflt, SciVerif.C01.Gen.dfltSteps)
  | "strcfg" => pure (SciVerif.C02.Gen.strcfg, SciVerif.C02.Gen.strcfgSteps)
  | "unarycfg" => pure (SciVerif.C02.Gen.unarycfg, SciVerif.C02.Gen.unarycfgSteps)
  | "prefixcfg" => pure (SciVerif.C02.Gen.prefixcfg, SciVerif.C02.Gen.prefixcfgSteps)
  | _ => throw s!"unknown configuration {name}"

/-- The operator dict `{n: default[n] for n in names}` (in this order): the rows of the regenerated
    default table, with the subclass relation and the Add/Sub entries re-indexed. -/
def subTable (names : List String) : Except String Table := do
  let base := SciVerif.C01.Gen.dflt
  let idxs ← names.mapM (fun n => match nameIdx base n with
    | some i => pure i
    | none => throw s!"unknown operator {n}")
  let pos := List.range idxs.length
  let rows := idxs.filterMap (fun i => base.rows[i]?)
  let rows' := rows.map (fun r =>
    { r with isa := pos.filter (fun k => match idxs[k]? with
        | some old => r.isa.contains old
        | none => false) })
  let reidx := fun (o : Option Nat) => match o with
    | some old => idxs.findIdx? (· == old)
    | none => none
  pure ⟨rows', reidx base.addIdx, reidx base.subIdx, base.sign⟩

def parseOtype : String → Except String Otype
  | "ARGS" => pure .args | "UNARY" => pure .unary | "BINARY" => pure .binary | "TERNARY" => pure .ternary
  | s => throw s!"bad otype {s}"

/-- `cfg` is a name, or `{"ops": [names], "steps": null | [[[names], otype], …]}` -/
def config (j : Json) : Except String (Table × List (List String × Otype)) :=
  match j with
  | Json.str name => namedConfig name
  | _ => do
    let names ← (← getList (← field j "ops")).mapM (fun x => x.getStr?)
    let tbl ← subTable names
    let st ← field j "steps"
    match st with
    | Json.null => pure (tbl, SciVerif.C01.Gen.dfltSteps)
    | _ =>
      let steps ← (← getList st).mapM (fun x => do
        let a ← getList x
        match a with
        | [ns, Json.str ot] => pure ((← (← getList ns).mapM (fun y => y.getStr?)), ← parseOtype ot)
        | _ => throw "bad step")
      pure (tbl, steps)

def algOf (name : String) : Except String (AtomAlg Term) :=
  match name with
  | "float" => pure termAlg
  | "any" => pure termAlgAny
  | _ => throw s!"unknown atom algebra {name}"

/-- model on a string -/
def solveReq (j : Json) : Except String Json := do
  let (tbl, steps) ← config (← field j "cfg")
  let alg ← algOf (← (← field j "alg").getStr?)
  let s ← (← field j "s").getStr?
  pure (Json.mkObj [("model", outJson (solve tbl alg steps s.toList))])

/-- specification on an AST: rendering, value, and the two theorem statements on this instance -/
def specReq (j : Json) : Except String Json := do
  let e ← parseE (← field j "ast")
  let bl ← getNatList (← field j "bl")
  let tbl := SciVerif.C01.Gen.dflt
  let steps := SciVerif.C01.Gen.dfltSteps
  let lit : List Char → Term := .num
  let text := render bl e
  let tk := toks tbl termAlg lit e
  let tokd := match tokenize tbl termAlg steps text with
    | .ok l => jarr tokJson l
    | .error m => Json.mkObj [("err", jstr m)]
  pure (Json.mkObj [("text", jstr (String.ofList text)), ("wf", Json.bool e.wf),
    ("eval", termJson (eval termAlg lit e)),
    ("toksolve", outJson (solveToks tbl termAlg steps tk)),
    ("toks", jarr tokJson tk), ("tokenized", tokd)])

/-- float-literal recogniser -/
def litReq (j : Json) : Except String Json := do
  let s ← (← field j "s").getStr?
  pure (Json.bool (isFloatLit (strip s.toList)))

def bufsJson (b : Bufs Term) : Json :=
  Json.mkObj [("left", jarr tokJson b.left.reverse), ("right", jarr tokJson b.right)]

/-- one instance, a history of calls: after each call the outcome and the buffers left behind;
    beside it the outcome of a fresh instance (specification) and of the body without reset -/
def historyRun (tbl : Table) (alg : AtomAlg Term) (steps : List (List String × Otype)) :
    Bufs Term → Bufs Term → List String → List Json
  | _, _, [] => []
  | st, stNo, s :: rest =>
    let r := solveI tbl alg steps st s.toList
    let rNo := solveFrom tbl alg steps stNo s.toList
    Json.mkObj [("out", outJson r.2), ("bufs", bufsJson r.1),
      ("fresh", outJson (solve tbl alg steps s.toList)),
      ("noreset", outJson rNo.2)] :: historyRun tbl alg steps r.1 rNo.1 rest

def historyReq (j : Json) : Except String Json := do
  let (tbl, steps) ← config (← field j "cfg")
  let alg ← algOf (← (← field j "alg").getStr?)
  let exprs ← (← getList (← field j "exprs")).mapM (fun x => x.getStr?)
  pure (Json.arr (historyRun tbl alg steps ⟨[], []⟩ ⟨[], []⟩ exprs).toArray)

/-- toPostfix form of a term (flat, so that terms thousands of operators deep can be transported) -/
def toPostfix : Term → List String → List String
  | .num s, acc => ("n:" ++ String.ofList s) :: acc
  | .e, acc => "e" :: acc
  | .un f t, acc => toPostfix t (("u:" ++ fn1Name f) :: acc)
  | .bin f a b, acc => toPostfix a (toPostfix b (("b:" ++ fn2Name f) :: acc))

def outPostfix : Except String (Tok Term) → Json
  | .error m => Json.mkObj [("err", jstr m)]
  | .ok (.atom t) => Json.mkObj [("postfix", jarr jstr (toPostfix t []))]
  | .ok .none => jstr "none"
  | .ok (.op i _) => Json.mkObj [("op", jnat i)]

def parseOperand (j : Json) : Except String E := do
  let signs ← (← getList (← field j "signs")).mapM (fun x => x.getBool?)
  let t ← (← field j "lit").getStr?
  pure (signs.foldr (fun s e => E.sign s e) (E.num t.toList))

/-- A long flat chain `x0 o1 x1 o2 x2 …` of one nesting level (operands: literals with sign runs),
    optionally wrapped in a call: built by left folding, rendered, evaluated and solved here. -/
def chainReq (j : Json) : Except String Json := do
  let first ← parseOperand (← field j "first")
  let rest ← (← getList (← field j "rest")).mapM (fun x => do
    let o ← parseB2 (← (← field x "op").getStr?)
    let e ← parseOperand x
    pure (o, e))
  let chain := rest.foldl (fun l (p : B2 × E) => E.bin p.1 l p.2) first
  let e ← match (← field j "wrap") with
    | Json.null => pure chain
    | Json.str "powb" => pure (E.fn2 .powb chain (.num ['2']))
    | Json.str f => pure (E.fn1 (← parseF1 f) chain)
    | _ => throw "bad wrap"
  let bl ← getNatList (← field j "bl")
  let tbl := SciVerif.C01.Gen.dflt
  let steps := SciVerif.C01.Gen.dfltSteps
  let text := render bl e
  pure (Json.mkObj [("text", jstr (String.ofList text)), ("wf", Json.bool e.wf),
    ("spec", jarr jstr (toPostfix (eval termAlg Term.num e) [])),
    ("model", outPostfix (solve tbl termAlg steps text))])

def handle (j : Json) : Except String Json := do
  let k ← (← field j "k").getStr?
  match k with
  | "solve" => solveReq j
  | "spec" => specReq j
  | "lit" => litReq j
  | "history" => historyReq j
  | "chain" => chainReq j
  | _ => throw s!"C01: unknown kind {k}"

end SciVerif.C01.Drive
