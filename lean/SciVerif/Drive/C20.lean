import SciVerif.Drive.Util
import SciVerif.Model.C20
open Lean SciVerif.Drive

namespace SciVerif.C20.Drive

abbrev Rec := List Int

def outJson : Out String Rec → Json
  | .unit => jstr "unit"
  | .err => jstr "err"
  | .val v => Json.mkObj [("val", jarr jint v)]
  | .nat n => Json.mkObj [("nat", jnat n)]
  | .keys l => Json.mkObj [("keys", jarr jstr l)]
  | .items l => Json.mkObj [("items", jarr (fun (kv : String × Rec) => Json.arr #[jstr kv.1, jarr jint kv.2]) l)]
  | .bool b => Json.mkObj [("bool", Json.bool b)]

def parseOp (j : Json) : Except String (Op String Rec) := do
  let a ← getList j
  match a with
  | [Json.str "append", Json.str k, v] => pure (.append k (← getIntList v))
  | [Json.str "del", Json.str k] => pure (.del k)
  | [Json.str "getkey", Json.str k] => pure (.getKey k)
  | [Json.str "getpos", i] => pure (.getPos (← i.getInt?))
  | [Json.str "len"] => pure .len
  | [Json.str "keys"] => pure .keys
  | [Json.str "items"] => pure .items
  | [Json.str "contains", Json.str k] => pure (.contains k)
  | _ => throw s!"bad table op {j}"

def table (j : Json) : Except String Json := do
  let ops ← (← getList (← field j "ops")).mapM parseOp
  let m := ((Tbl.init : Tbl String Rec).run ops).2
  let s := (specRun ([] : List (String × Rec)) ops).2
  pure (Json.mkObj [("model", jarr outJson m), ("spec", jarr outJson s)])

def loutJson : Out Nat Rec → Json
  | .unit => jstr "unit"
  | .err => jstr "err"
  | .val v => Json.mkObj [("val", jarr jint v)]
  | .nat n => Json.mkObj [("nat", jnat n)]
  | .keys l => Json.mkObj [("keys", jarr jnat l)]
  | .items l => Json.mkObj [("items", jarr (fun (kv : Nat × Rec) => Json.arr #[jnat kv.1, jarr jint kv.2]) l)]
  | .bool b => Json.mkObj [("bool", Json.bool b)]

def parseLOp (j : Json) : Except String (LOp Rec) := do
  let a ← getList j
  match a with
  | [Json.str "append", v] => pure (.append (← getIntList v))
  | [Json.str "del", i] => pure (.del (← i.getInt?))
  | [Json.str "get", i] => pure (.get (← i.getInt?))
  | [Json.str "len"] => pure .len
  | [Json.str "items"] => pure .items
  | _ => throw s!"bad list-table op {j}"

def ltable (j : Json) : Except String Json := do
  let ops ← (← getList (← field j "ops")).mapM parseLOp
  pure (jarr loutJson (lrun ([] : List Rec) ops).2)

/-- RowCollector op sequence; after every op both the model's row view and the
    list-of-rows specification are reported. -/
def rcRun (r : RC Int) (spec : List (List Int)) : List Json → Except String (List Json)
  | [] => pure []
  | op :: ops => do
    let a ← getList op
    match a with
    | [Json.str "row", v] =>
      let row ← getIntList v
      match r.appendRow row with
      | none => do
        let rest ← rcRun r spec ops
        pure (Json.mkObj [("model", jstr "err"), ("spec", jstr "err")] :: rest)
      | some r' => do
        let spec' := spec ++ [row.take r.names.length]
        let rest ← rcRun r' spec' ops
        pure (Json.mkObj [("model", jarr (jarr jint) r'.rows), ("spec", jarr (jarr jint) spec')] :: rest)
    | [Json.str "dict", kv] =>
      let kvs ← (← getList kv).mapM (fun p => do
        let q ← getList p
        match q with
        | [Json.str k, v] => pure (k, ← v.getInt?)
        | _ => throw "bad dict entry")
      match r.appendDict kvs with
      | none => do
        let rest ← rcRun r spec ops
        pure (Json.mkObj [("model", jstr "err"), ("spec", jstr "err")] :: rest)
      | some r' => do
        -- specification: the row is the dict read in column order
        let row := r.names.filterMap (fun n => dget kvs n)
        let spec' := spec ++ [row]
        let rest ← rcRun r' spec' ops
        pure (Json.mkObj [("model", jarr (jarr jint) r'.rows), ("spec", jarr (jarr jint) spec')] :: rest)
    | [Json.str "sort", col, rev, ids] =>
      let col ← col.getNat?
      let rev ← rev.getBool?
      let ids ← getNatList ids
      let r' := r.sortWith ids
      -- specification: argsort returned a permutation that orders the key column
      let isPerm := isPermOfRange ids spec.length
      let spec' := takeIdx spec ids
      let key := spec'.filterMap (fun row => row[col]?)
      let sorted := if rev then sortedBy (fun a b => decide (b ≤ a)) key
                    else sortedBy (fun a b => decide (a ≤ b)) key
      let rest ← rcRun r' spec' ops
      pure (Json.mkObj [("model", jarr (jarr jint) r'.rows), ("spec", jarr (jarr jint) spec'),
        ("argsort_perm", Json.bool isPerm), ("sorted", Json.bool sorted)] :: rest)
    | _ => throw s!"bad rc op {op}"

def rc (j : Json) : Except String Json := do
  let names ← (← getList (← field j "names")).mapM (fun x => x.getStr?)
  let ops ← getList (← field j "ops")
  let outs ← rcRun (RC.init names) [] ops
  pure (Json.arr outs.toArray)

def grid (j : Json) : Except String Json := do
  let n ← (← field j "n").getNat?
  let ncols ← (← field j "ncols").getNat?
  let missing ← (← field j "missing").getBool?
  let tr ← (← field j "transpose").getBool?
  let items := gridItems n ncols missing tr
  pure (Json.mkObj [("nrows", jnat (gridRows n ncols)),
    ("items", jarr (fun (x : Nat × Nat × Nat) => Json.arr #[jnat x.1, jnat x.2.1, jnat x.2.2]) items)])

def combo (j : Json) : Except String Json := do
  let items ← (← getList (← field j "items")).mapM getIntList
  pure (Json.mkObj [
    ("keys", jarr (jarr jnat) (comboKeys items)),
    ("values", jarr (jarr jint) (comboValues items)),
    ("items", jarr (fun (x : List Nat × Option (List Int)) =>
        Json.arr #[jarr jnat x.1, jopt (jarr jint) x.2]) (comboItems items))])

def handle (j : Json) : Except String Json := do
  let k ← (← field j "k").getStr?
  match k with
  | "table" => table j
  | "ltable" => ltable j
  | "rc" => rc j
  | "grid" => grid j
  | "combo" => combo j
  | _ => throw s!"C20: unknown kind {k}"

end SciVerif.C20.Drive
