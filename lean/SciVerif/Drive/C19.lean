import SciVerif.Drive.Util
import SciVerif.Model.C19Read
import SciVerif.Model.C19Dip
open Lean SciVerif.Drive

namespace SciVerif.C19.Drive
open SciVerif.C19

def toStr (s : String) : Str := s.toList
def ofStr (s : Str) : String := String.ofList s
/-- strings leave the driver as ASCII only: a text with a character outside ASCII is sent as the list of its
    code points (`{"cp":[…]}`), so that the line protocol does not depend on the locale of the reading process -/
def jS (s : Str) : Json :=
  if s.all (fun c => c.toNat < 128) then Json.str (ofStr s)
  else Json.mkObj [("cp", Json.arr (s.map (fun c => Json.num (JsonNumber.fromNat c.toNat))).toArray)]

def parseKind (s : String) : Except String Kind :=
  match s with
  | "bool" => pure .bool | "int" => pure .int | "uint" => pure .uint
  | "float" => pure .float | "str" => pure .str
  | _ => throw s!"bad kind {s}"

partial def parseVal (j : Json) : Except String Val :=
  match j with
  | .bool b => pure (.leaf (.b b))
  | .num n => if n.exponent = 0 then pure (.leaf (.i n.mantissa)) else throw "non-integer number"
  | .arr a => do
    let vs ← a.toList.mapM parseVal
    pure (.arr vs)
  | .obj _ =>
    match j.getObjVal? "f", j.getObjVal? "s" with
    | .ok (.str t), _ => pure (.leaf (.f (toStr t)))
    | _, .ok (.str t) => pure (.leaf (.s (toStr t)))
    | _, _ => throw "bad scalar object"
  | _ => throw "bad value"

def scalarJson : Scalar → Json
  | .b v => Json.bool v
  | .i v => jint v
  | .f t => Json.mkObj [("f", jS t)]
  | .s t => Json.mkObj [("s", jS t)]

partial def valJson : Val → Json
  | .leaf s => scalarJson s
  | .arr vs => Json.arr (vs.map valJson).toArray

def optStr (j : Json) (k : String) : Except String (Option Str) :=
  match j.getObjVal? k with
  | .ok (.str s) => pure (some (toStr s))
  | _ => pure none

def strList (j : Json) (k : String) : Except String (List Str) :=
  match j.getObjVal? k with
  | .ok (.arr a) => a.toList.mapM (fun x => do pure (toStr (← x.getStr?)))
  | _ => pure []

def optStrList (j : Json) (k : String) : Except String (Option (List Str)) :=
  match j.getObjVal? k with
  | .ok (.arr a) => do
    let l ← a.toList.mapM (fun x => do pure (toStr (← x.getStr?)))
    pure (some l)
  | _ => pure none

def getBoolD (j : Json) (k : String) (d : Bool) : Bool :=
  match j.getObjVal? k with
  | .ok (.bool b) => b
  | _ => d

def getStrD (j : Json) (k : String) (d : String) : Str :=
  match j.getObjVal? k with
  | .ok (.str s) => toStr s
  | _ => toStr d

def parseParam (j : Json) : Except String Param := do
  let name ← (← field j "name").getStr?
  let kind ← parseKind (← (← field j "kind").getStr?)
  let bits ← (← field j "bits").getNat?
  let value ← parseVal (← field j "value")
  let unit ← optStr j "unit"
  let tags ← strList j "tags"
  pure ⟨toStr name, kind, bits, value, unit, tags⟩

def symJson (s : Sym) : Json :=
  Json.mkObj [("name", jS s.name), ("decl", jS s.decl), ("shape", jarr jnat s.shape),
    ("narrow", Json.bool s.narrow), ("value", valJson s.value)]

def bkindStr : BKind → String
  | .scalar => "scalar" | .indexed => "indexed" | .assoc => "assoc"

def bsymJson (s : BSym) : Json :=
  Json.mkObj [("name", jS s.name), ("kind", Json.str (bkindStr s.kind)), ("exported", Json.bool s.exported),
    ("items", jarr (fun (kv : Str × Str) => Json.arr #[jS kv.1, jS kv.2]) s.items)]

def shapedJson : Shaped → Json
  | .bare v => Json.mkObj [("bare", valJson v)]
  | .withUnit v u => Json.mkObj [("value", valJson v), ("unit", jS u)]

def kindStr : Kind → String
  | .bool => "bool" | .int => "int" | .uint => "uint" | .float => "float" | .str => "str"

/-- a parameter as the DIP reader model returns it -/
def paramJson (p : Param) : Json :=
  Json.mkObj [("name", jS p.name), ("kind", Json.str (kindStr p.kind)), ("bits", jnat p.bits),
    ("value", valJson p.value), ("unit", jopt jS p.unit)]

/-- macro-defined booleans read as 1 / 0 -/
def macroFix (define : List Str) (data : List Param) : List Param := data.map (macroParam define)

def case (j : Json) : Except String Json := do
  let backend ← (← field j "backend").getStr?
  let env ← (← getList (← field j "env")).mapM parseParam
  let query ← optStr j "query"
  let tags ← optStrList j "tags"
  let o ← field j "opts"
  let ren := getBoolD o "rename" true
  let data := select query tags env
  let names := jarr jS (data.map (·.name))
  let wrap (text : Option Str) (read spec : Option Json) : Json :=
    Json.mkObj [("selected", names), ("text", jopt jS text), ("read", jopt id read), ("spec", jopt id spec)]
  let syms (l : Option (List Sym)) : Option Json := l.map (jarr symJson)
  match backend with
  | "c" | "cpp" =>
    let co : COpts := ⟨getStrD o "guard" "CONFIG_H", ← strList o "define", ← strList o "const", ren⟩
    let b := if backend = "c" then bC else bCpp
    let text := if backend = "c" then exportC co data else exportCpp co data
    let rd := text.bind (readC b co.guard)
    pure (wrap text (syms rd) (syms (expected b ren co.define (macroFix co.define data))))
  | "rust" =>
    let text := exportRust ren data
    pure (wrap text (syms (text.bind readRust)) (syms (expected bRust ren [] data)))
  | "fortran" =>
    let m := getStrD o "module" "ConfigurationModule"
    let text := exportFortran m ren data
    pure (wrap text (syms (text.bind (readFortran m))) (syms (expected bFortran ren [] data)))
  | "bash" =>
    let ex := getBoolD o "export" true
    let text := exportBash ex ren data
    pure (wrap text ((text.bind readBash).map (jarr bsymJson)) (some (jarr bsymJson (expectedBash ex ren data))))
  | "dip" =>
    let text := exportDip data
    -- the reader model answers `none` outside its fragment (a `$` in a string text, control characters in elements)
    pure (wrap text ((text.bind readDip).map (jarr paramJson)) (some (jarr paramJson (expectedDip data))))
  | "json" | "yaml" | "toml" =>
    let units := getBoolD o "units" true
    let sh := exportData units data
    let js := jarr (fun (kv : Str × Shaped) => Json.arr #[jS kv.1, shapedJson kv.2]) sh
    pure (wrap none (some js) (some js))
  | _ => throw s!"C19: unknown backend {backend}"

/-- read an arbitrary text with a reader model (used to validate the readers on mutated text) -/
def readOnly (j : Json) : Except String Json := do
  let backend ← (← field j "backend").getStr?
  let text := toStr (← (← field j "text").getStr?)
  let o ← field j "opts"
  let syms (l : Option (List Sym)) : Json := jopt (jarr symJson) l
  match backend with
  | "c" => pure (syms (readC bC (getStrD o "guard" "CONFIG_H") text))
  | "cpp" => pure (syms (readC bCpp (getStrD o "guard" "CONFIG_H") text))
  | "rust" => pure (syms (readRust text))
  | "fortran" => pure (syms (readFortran (getStrD o "module" "ConfigurationModule") text))
  | "bash" => pure (jopt (jarr bsymJson) (readBash text))
  | _ => throw s!"C19: no reader for {backend}"

def handle (j : Json) : Except String Json := do
  let k ← (← field j "k").getStr?
  match k with
  | "case" => case j
  | "read" => readOnly j
  | _ => throw s!"C19: unknown kind {k}"

end SciVerif.C19.Drive
