import SciVerif.Drive.C08
import SciVerif.Model.C06
open Lean SciVerif.Drive

/-!
Line-protocol handler for the quantity model (C06, and the conversion / quantity level of C08).

request  `{"k":"qty","env":[[id,sym,base,factor,[[n,d]×8]],…],"op":…,"l":Q,"r":Q,"p":[n,d],"t":U}`
  with `Q = {"v":…,"e":…|null,"u":[[id,n,d],…]}` (state of the real object) or `{"num":x}`.
answer   `{"model": R|"err", "spec": S|"err"}`.
-/
namespace SciVerif.C06.Drive
open SciVerif.C08 SciVerif.C08.Drive SciVerif.C06

abbrev Env := String → UnitInfo Val

def getFrac (n d : Json) : Except String Frac := do pure ⟨← n.getInt?, ← d.getInt?⟩

def getDims (j : Json) : Except String Dims := do
  (← getList j).mapM (fun x => do
    match ← getList x with
    | [n, d] => getFrac n d
    | _ => throw "bad dim")

def getEnv (j : Json) : Except String Env := do
  let rows ← (← getList j).mapM (fun r => do
    match ← getList r with
    | [Json.str id, Json.str sym, Json.str base, f, dims] =>
      pure (id, (⟨sym, base, .s (← getFloat f), ← getDims dims⟩ : UnitInfo Val))
    | _ => throw s!"bad env row {r}")
  pure (fun u => match rows.find? (fun p => p.1 == u) with
    | some p => p.2
    | none => ⟨"?" ++ u, "?", .s 1.0, Dims.zero⟩)

def getBU (j : Json) : Except String (BU String) := do
  (← getList j).mapM (fun r => do
    match ← getList r with
    | [Json.str id, n, d] => do pure (id, ← getFrac n d)
    | _ => throw s!"bad unit entry {r}")

def getQty (j : Json) : Except String (Qty String Val) :=
  match j.getObjVal? "num" with
  | .ok x => do pure (Qty.ofNumber (← getVal x))
  | .error _ => do pure ⟨← getMag j, ← getBU (← field j "u")⟩

def jfrac (f : Frac) : Json := Json.arr #[jint f.num, jint f.den]
def jrat (q : Rat) : Json := Json.arr #[jint q.num, jnat q.den]

def jqty (env : Env) (q : Qty String Val) : Json :=
  Json.mkObj [("v", jval q.mag.value), ("e", jopt jval q.mag.error),
    ("units", jopt jstr (q.units.expression env)),
    ("u", jarr (fun (p : String × Frac) => Json.arr #[jstr p.1, jint p.2.num, jint p.2.den]) q.units),
    ("dims", jarr jfrac (q.units.dims env)),
    ("rele", jopt jval q.mag.rele)]

def jexc {α : Type} (f : α → Json) : Except String α → Json
  | .ok a => f a
  | .error _ => jstr "err"

/-- specification side: base value, prescribed unit map and dimension vector -/
def jspec (env : Env) (base : Val) (keys : List String) (e : String → Rat) : Json :=
  let us := specUnits env keys e
  let all := (keys.eraseDups.map (fun u => (u, e u)))
  Json.mkObj [("base", jval base),
    ("u", jarr (fun (p : String × Rat) => Json.arr #[jstr p.1, jint p.2.num, jnat p.2.den]) us),
    ("dims", jarr jrat (specDimVec env all))]

/-- `jspec` plus the clause of C08 that applies to the absolute error *in base dimensions*
    (`err·factor(units)`): the per-clause rule of `Drive/C08.specRule` evaluated on the operands'
    base-dimension magnitudes (unit factors are exact positive numbers, so sum rule, scaling and
    first-order bound carry over unchanged). -/
def withErr (spec : Json) (rule : Json) : Json := spec.setObjVal! "err" rule

def errRule1 (m : Mag Val) : Json :=
  match m.error with
  | none => ruleExact
  | some e => ruleEq e

def dimVecOf (env : Env) (b : BU String) : List Rat :=
  specDimVec env (b.map (fun p => (p.1, p.2.toRat)))

/-- specification of "a conversion to another linear unit": equal dimension vectors, or the
    documented rule that a bare number is an angle in radians (no unit → first power of a
    prefixed `rad`). Both multiply the value by the constant `f(from)/f(to)`. -/
def linearConv (env : Env) (a b : BU String) : Bool :=
  dimVecOf env a == dimVecOf env b ||
  (a.isEmpty && BU.unitNames env b == ["rad"] && dimVecOf env b == [0, 0, 0, 0, 0, 0, 0, 1])

def handleQ (j : Json) : Except String Json := do
  let env ← getEnv (← field j "env")
  let op ← (← field j "op").getStr?
  let l0 ← getQty (← field j "l")
  -- units handed over as a dimension list: the dict is built in DIMENSION_LIST order
  let l : Qty String Val ← match j.getObjVal? "dimlist" with
    | .ok dl => do
      let names ← (← getList (← field j "dimnames")).mapM (fun x => x.getStr?)   -- live DIMENSION_LIST
      pure ⟨l0.mag, BU.ofDimList names (← getDims dl)⟩
    | .error _ => pure l0
  let kl := l.units.map Prod.fst
  let bl := l.base env
  match op with
  | "state" =>
    -- the operand itself: text, dims and base value of a constructed quantity
    pure (Json.mkObj [("model", jqty env l), ("spec", jspec env bl kl l.units.expOf)])
  | "new" =>
    -- `Quantity(value, units, abse)` : the constructor (folds the units if the dimensions vanish).
    -- With a unit *string* that carries an explicit number `k` ('2*m', '1e3*g'):
    -- `self.magnitude *= atom.magnitude`, i.e. value and error are multiplied by the exact number.
    match j.getObjVal? "kf" with
    | .ok kj => do
      let k ← getVal kj
      let f : Val := l.units.magnitude env
      let rule := match l.mag.error with
        | none => ruleExact
        | some e => ruleEq (specScaleErr k (e * f))      -- multiplying by an exact number: |k|·err
      pure (Json.mkObj [("model", jqty env (Qty.new env (l.mag.mul (Mag.exact k)) (BU.new l.units))),
        ("spec", withErr (jspec env (bl * k) kl l.units.expOf) rule)])
    | .error _ =>
      pure (Json.mkObj [("model", jqty env (Qty.new env l.mag (BU.new l.units))),
        ("spec", withErr (jspec env bl kl l.units.expOf) (errRule1 (l.baseMag env)))])
  | "neg" =>
    pure (Json.mkObj [("model", jqty env (l.neg env)),
      ("spec", withErr (jspec env (-bl) kl l.units.expOf) (errRule1 (l.baseMag env)))])
  | "pow" => do
    let pj ← getList (← field j "p")
    let p ← match pj with
      | [n, d] => getFrac n d
      | _ => throw "bad p"
    let spec := if p.den = 0 then jstr "err"
      else withErr (jspec env (rpow bl p.toRat) kl (fun u => l.units.expOf u * p.toRat))
        (match l.mag.error with | none => ruleExact | some _ => ruleNonneg)
    pure (Json.mkObj [("model", jexc (jqty env) (l.pow env p)), ("spec", spec)])
  | "to" => do
    let t ← getBU (← field j "t")
    let same := linearConv env l.units (BU.new t)
    let spec := if same then
        -- linear conversion: same base value, error scaled like the value
        let f : Val := l.units.magnitude env / BU.magnitude env t
        Json.mkObj [("base", jval bl), ("v", jval (l.mag.value * f)),
          ("e", jopt jval (l.mag.error.map (fun e => e * f)))]
      else jstr "other"
    pure (Json.mkObj [("model", jexc (jqty env) (l.to env (BU.new t))), ("spec", spec)])
  | "rebase" =>
    -- `q.rebase()` : a change of units by a constant positive factor — same base value, same
    -- absolute error in base dimensions (judged by the harness only when the merged units have
    -- equal dimension vectors; the code keys on the dimension *names*)
    let r := l.rebase env
    pure (Json.mkObj [("model", jqty env r),
      ("spec", withErr (Json.mkObj [("base", jval bl),
        ("dims", jarr jrat (specDimVec env (l.units.map (fun p => (p.1, p.2.toRat)))))])
        (errRule1 (l.baseMag env)))])
  | "newq" => do
    -- `Quantity(value, ref, abse)` : the unit is itself a (possibly uncertain) quantity `r`
    let r ← getQty (← field j "r")
    let kr := r.units.map Prod.fst
    pure (Json.mkObj [("model", jqty env (Qty.newQ env l.mag r)),
      ("spec", withErr (jspec env (bl * r.base env) kr r.units.expOf)
        (specRule "mul" (l.baseMag env) (r.baseMag env)))])
  | "toq" => do
    -- conversion to a reference quantity `r` (value in multiples of `r`)
    let r ← getQty (← field j "r")
    let same := linearConv env l.units r.units
    let spec := if same then
        let f : Val := l.units.magnitude env / r.units.magnitude env
        let v := l.mag.value * f / r.mag.value
        let rule := match l.mag.error, r.mag.error with
          | none, none => ruleExact
          | some e, none => ruleEq (specUnscaleErr r.mag.value (e * f))
          | _, _ => ruleNonneg
        Json.mkObj [("base", jval bl), ("v", jval v), ("err", rule)]
      else jstr "other"
    pure (Json.mkObj [("model", jexc (jqty env) (l.toQ env r)), ("spec", spec)])
  | _ => do
    let r ← getQty (← field j "r")
    let kr := r.units.map Prod.fst
    let br := r.base env
    let same := dimVecOf env l.units == dimVecOf env r.units
    let rule := specRule op (l.baseMag env) (r.baseMag env)
    match op with
    | "add" => pure (Json.mkObj [("model", jexc (jqty env) (l.add env r)),
        ("spec", if same then withErr (jspec env (bl + br) kl l.units.expOf) rule else jstr "err")])
    | "sub" => pure (Json.mkObj [("model", jexc (jqty env) (l.sub env r)),
        ("spec", if same then withErr (jspec env (bl - br) kl l.units.expOf) rule else jstr "err")])
    | "mul" => pure (Json.mkObj [("model", jqty env (l.mul env r)),
        ("spec", withErr (jspec env (bl * br) (kl ++ kr) (fun u => l.units.expOf u + r.units.expOf u)) rule)])
    | "div" => pure (Json.mkObj [("model", jqty env (l.div env r)),
        ("spec", withErr (jspec env (bl / br) (kl ++ kr) (fun u => l.units.expOf u - r.units.expOf u)) rule)])
    | _ => throw s!"C06: unknown op {op}"

def handle (j : Json) : Except String Json := do
  let k ← (← field j "k").getStr?
  match k with
  | "qty" => handleQ j
  | "mag" => SciVerif.C08.Drive.handle j
  | _ => throw s!"unknown kind {k}"

end SciVerif.C06.Drive
