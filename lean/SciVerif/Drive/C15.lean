import SciVerif.Drive.Util
import SciVerif.Model.C15
open Lean SciVerif.Drive

namespace SciVerif.C15.Drive

/-! JSON protocol of `drv_c15`.

* `{"k":"ast","items":[…]}` — a program tree; answer: the rendered lines (the harness
  builds the DIP text from *these*, so the theorem's `render` is what the real parser sees),
  the model's result on them and the specification's result.
  (a block may have a 6th element `[extra,items]`: lines after its explicit `@end`, deeper than it)
  item = `["n",name,isMod,v,[[extra,prop],…]]` | `["p",prop]` | `["g",name,extra,items]`
       | `["b",[parent parts],[[c,extra,items],…],null|[extra,items],explicitEnd]`
  prop = `"const"` | `"tags:<t>"`
* `{"k":"lines","lines":[[indent,kind,[name parts],v],…]}` with kind ∈ n,m,g,c1,c0,else,end,
  p:const, p:tags:<t> — a raw line sequence; answer: text, the model's result, and whether the
  declarative specification calls some clause line misplaced.
-/

def parseProp (s : String) : Except String PKind :=
  if s == "const" then pure .constant
  else if s.startsWith "tags:" then pure (.tags ((s.drop 5).toString))
  else throw s!"bad prop {s}"

def getStrList (j : Json) : Except String (List String) := do
  (← getList j).mapM (fun x => x.getStr?)

partial def parseItems (j : Json) : Except String Items := do
  let a ← getList j
  let rec go : List Json → Except String Items
    | [] => pure .nil
    | x :: xs => do
      let i ← parseItem x
      let r ← go xs
      pure (.cons i r)
  go a
where
  parseItem (j : Json) : Except String Item := do
    let a ← getList j
    match a with
    | [Json.str "n", Json.str name, m, v, props] =>
      let ps ← (← getList props).mapM (fun q => do
        let p ← getList q
        match p with
        | [e, Json.str k] => pure ((← e.getNat?), (← parseProp k))
        | _ => throw "bad node prop")
      pure (.node name (← m.getBool?) (← v.getInt?) ps)
    | [Json.str "p", Json.str k] => pure (.prop (← parseProp k))
    | [Json.str "i", src, nd] =>
      let nd ← (match nd with | Json.null => pure none | x => do pure (some (← x.getStr?)))
      pure (.imp (← getStrList src) nd)
    | [Json.str "u", Json.str name, b] => pure (.unit name (← b.getBool?))
    | [Json.str "g", Json.str name, e, body] => pure (.group name (← e.getNat?) (← parseItems body))
    | Json.str "b" :: pfx :: cls :: els :: ee :: rest5 =>
      let pfx ← getStrList pfx
      let (te, tr) ← (match rest5 with
        | [t] => do
          let p ← getList t
          match p with
          | [x, body] => pure ((← x.getNat?), (← parseItems body))
          | _ => throw "bad trailer"
        | _ => pure ((0 : Nat), Items.nil))
      let cl ← getList cls
      let ee ← ee.getBool?
      let tail : Chain ← (match els with
        | Json.null => pure (Chain.fin ee te tr)
        | e => do
          let p ← getList e
          match p with
          | [x, body] => pure (Chain.els (← x.getNat?) (← parseItems body) ee te tr)
          | _ => throw "bad else")
      let triples ← cl.mapM (fun c => do
        let p ← getList c
        match p with
        | [c, e, body] => pure ((← c.getBool?), (← e.getNat?), (← parseItems body))
        | _ => throw "bad clause")
      match triples with
      | [] => throw "block without clause"
      | (c, e, body) :: rest =>
        let chain := rest.foldr (fun (t : Bool × Nat × Items) acc => Chain.case t.1 t.2.1 t.2.2 acc) tail
        pure (.block pfx c e body chain)
    | _ => throw s!"bad item {j}"

def dotted (l : List String) : String := ".".intercalate l

def clausePfx (l : List String) : String := if l.isEmpty then "" else dotted l ++ "."

def propText : PKind → String
  | .constant => "!constant"
  | .tags t => "!tags [\"" ++ t ++ "\"]"

def lineText (l : Line) : String :=
  match l.kw with
  | .node false v => s!"{dotted l.name} int = {v}"
  | .node true v => s!"{dotted l.name} = {v}"
  | .group => dotted l.name
  | .prop p => propText p
  | .imp none => "{?" ++ dotted l.name ++ ".*}"
  | .imp (some n) => "{?" ++ dotted (l.name ++ [n]) ++ "}"
  | .unit false => "$unit " ++ dotted l.name ++ " = 2 m"
  | .unit true => "$unit " ++ dotted l.name ++ " = 2 zzz"
  | .case true => clausePfx l.name ++ "@case true"
  | .case false => clausePfx l.name ++ "@case false"
  | .els => clausePfx l.name ++ "@else"
  | .fin => clausePfx l.name ++ "@end"

def linesJson (ls : List Line) : Json :=
  jarr (fun (l : Line) => Json.arr #[jnat l.indent, jstr (lineText l)]) ls

/-- The lines in the format the `lines` request accepts (for the mutation stream). -/
def lineSpecs (ls : List Line) : Json :=
  jarr (fun (l : Line) =>
    let (k, v) : String × Int := match l.kw with
      | .node false v => ("n", v)
      | .node true v => ("m", v)
      | .group => ("g", 0)
      | .prop .constant => ("p:const", 0)
      | .prop (.tags t) => ("p:tags:" ++ t, 0)
      | .imp none => ("i*", 0)
      | .imp (some n) => ("i:" ++ n, 0)
      | .unit false => ("u0", 0)
      | .unit true => ("u1", 0)
      | .case true => ("c1", 0)
      | .case false => ("c0", 0)
      | .els => ("else", 0)
      | .fin => ("end", 0)
    Json.arr #[jnat l.indent, jstr k, jarr jstr l.name, jint v]) ls

def dataJson (r : Except Unit (List Eff)) : Json :=
  match r with
  | .error _ => jstr "err"
  | .ok effs =>
    match applyEffs [] effs with
    | .error _ => jstr "err"
    | .ok d => jarr (fun (r : NodeRec) =>
        Json.arr #[jstr (dotted r.name), jint r.v, Json.bool r.constant, jarr jstr r.tags]) d

def effJson : Eff → Json
  | .node name m v => Json.arr #[jstr (dotted name), Json.bool m, jint v]
  | .prop p => Json.arr #[jstr (propText p)]
  | .imp pre src nd => Json.arr #[jstr "import", jstr (dotted pre), jstr (dotted src), jopt jstr nd]
  | .fail => Json.arr #[jstr "fail"]

def effsJson (r : Except Unit (List Eff)) : Json :=
  match r with
  | .error _ => jstr "err"
  | .ok effs => jarr effJson effs

def stateJson (ls : List Line) : Json :=
  match parseFrom St.init ls with
  | .error _ => jstr "err"
  | .ok (s, _) => Json.mkObj [("open", jnat s.state.length), ("num_cases", jnat s.numCases),
      ("num_branches", jnat s.numBranches),
      ("parents", jarr (fun (c : Comp) => match c with | .nm x => jstr x | .cs n => jstr s!"@{n}") (fullName s.parents))]

def ast (j : Json) : Except String Json := do
  let p ← parseItems (← field j "items")
  let ls := p.render 0
  let spec : Except Unit (List Eff) := .ok (p.sem [])
  pure (Json.mkObj [("lines", linesJson ls), ("specs", lineSpecs ls), ("model", dataJson (parse ls)), ("spec", dataJson spec),
    ("model_effs", effsJson (parse ls)), ("spec_effs", effsJson spec), ("state", stateJson ls),
    ("misplaced", Json.bool (misplaced ls))])

def parseLine (j : Json) : Except String Line := do
  let a ← getList j
  match a with
  | [i, Json.str k, name, v] =>
    let i ← i.getNat?
    let v ← v.getInt?
    let name ← getStrList name
    match k with
    | "n" => pure ⟨i, name, .node false v⟩
    | "m" => pure ⟨i, name, .node true v⟩
    | "g" => pure ⟨i, name, .group⟩
    | "c1" => pure ⟨i, name, .case true⟩
    | "c0" => pure ⟨i, name, .case false⟩
    | "else" => pure ⟨i, name, .els⟩
    | "end" => pure ⟨i, name, .fin⟩
    | "i*" => pure ⟨i, name, .imp none⟩
    | "u0" => pure ⟨i, name, .unit false⟩
    | "u1" => pure ⟨i, name, .unit true⟩
    | _ =>
      if k.startsWith "i:" then pure ⟨i, name, .imp (some ((k.drop 2).toString))⟩ else
      if k.startsWith "p:" then pure ⟨i, [], .prop (← parseProp ((k.drop 2).toString))⟩
      else throw s!"bad line kind {k}"
  | _ => throw s!"bad line {j}"

def lines (j : Json) : Except String Json := do
  let ls ← (← getList (← field j "lines")).mapM parseLine
  pure (Json.mkObj [("lines", linesJson ls), ("model", dataJson (parse ls)),
    ("model_effs", effsJson (parse ls)), ("state", stateJson ls),
    ("misplaced", Json.bool (misplaced ls))])

/-! Histories: a base code, then further codes each parsed on the environment of the base or of
    an earlier step (`from`: 0 = base, i = result of step i).  An environment = machine state
    left by the parse (cases closed, fix 445f434) + the node records.  Model: `parseFrom` on a
    copy of that state; specification: `sem` of the step's own tree on top of the records (for a
    raw line sequence only the verdict "misplaced ⇒ refused"). -/

def recsJson (d : List NodeRec) : Json :=
  jarr (fun (r : NodeRec) =>
    Json.arr #[jstr (dotted r.name), jint r.v, Json.bool r.constant, jarr jstr r.tags]) d

def resJson : Option (List NodeRec) → Json
  | none => jstr "err"
  | some d => recsJson d

def modelStep (env : St × List NodeRec) (ls : List Line) : Option (St × List NodeRec) :=
  match parseFrom env.1 ls with
  | .error _ => none
  | .ok (s', effs) =>
    match applyEffs env.2 effs with
    | .error _ => none
    | .ok d => some (s', d)

def specStep (recs : List NodeRec) (p : Items) : Option (List NodeRec) :=
  match applyEffs recs (p.sem []) with
  | .error _ => none
  | .ok d => some d

def histSteps (menvs : List (Option (St × List NodeRec))) (senvs : List (Option (List NodeRec))) :
    List Json → Except String (List Json)
  | [] => pure []
  | st :: rest => do
    let from_ ← (← field st "from").getNat?
    let menv := (menvs[from_]?).join
    let senv := (senvs[from_]?).join
    match st.getObjVal? "items" with
    | .ok its =>
      let p ← parseItems its
      let ls := p.render 0
      let m := menv.bind (fun e => modelStep e ls)
      let sp := senv.bind (fun r => specStep r p)
      let out := Json.mkObj [("lines", linesJson ls), ("model", if menv.isNone then jstr "skip" else resJson (m.map (·.2))),
        ("spec", if senv.isNone then jstr "skip" else resJson sp),
        ("num_cases", jopt (fun (e : St × List NodeRec) => jnat e.1.numCases) m)]
      let r ← histSteps (menvs ++ [m]) (senvs ++ [sp]) rest
      pure (out :: r)
    | .error _ =>
      let ls ← (← getList (← field st "lines")).mapM parseLine
      let m := menv.bind (fun e => modelStep e ls)
      let out := Json.mkObj [("lines", linesJson ls), ("model", if menv.isNone then jstr "skip" else resJson (m.map (·.2))),
        ("misplaced", Json.bool (misplaced ls)), ("spec", if senv.isNone then jstr "skip" else jstr "none")]
      let r ← histSteps (menvs ++ [none]) (senvs ++ [none]) rest
      pure (out :: r)

def hist (j : Json) : Except String Json := do
  let base ← parseItems (← field j "base")
  let ls := base.render 0
  let m := modelStep (St.init, []) ls
  let sp := specStep [] base
  let steps ← histSteps [m] [sp] (← getList (← field j "steps"))
  pure (Json.mkObj [("base", Json.mkObj [("lines", linesJson ls), ("model", resJson (m.map (·.2))), ("spec", resJson sp),
      ("num_cases", jopt (fun (e : St × List NodeRec) => jnat e.1.numCases) m)]),
    ("steps", Json.arr steps.toArray)])

def handle (j : Json) : Except String Json := do
  let k ← (← field j "k").getStr?
  match k with
  | "ast" => ast j
  | "lines" => lines j
  | "hist" => hist j
  | _ => throw s!"C15: unknown kind {k}"

end SciVerif.C15.Drive
