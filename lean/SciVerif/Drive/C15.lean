import SciVerif.Drive.Util
import SciVerif.Model.C15
open Lean SciVerif.Drive

namespace SciVerif.C15.Drive

/-! JSON protocol of `drv_c15`.

* `{"k":"ast","items":[…]}` — a program tree; answer: the rendered lines (the harness
  builds the DIP text from *these*, so the theorem's `render` is what the real parser sees),
  the model's result on them and the specification's result.
  item = `["n",name,isMod,v]` | `["g",name,extra,items]`
       | `["b",[[c,extra,items],…],null|[extra,items],explicitEnd]`
* `{"k":"lines","lines":[[indent,kind,name,v],…]}` with kind ∈ n,m,g,c1,c0,else,end —
  a raw line sequence; answer: text, the model's result, and whether the declarative
  specification calls some `@else`/`@end` misplaced.
-/

partial def parseItems (j : Json) : Except String Items := do
  let a ← getList j
  let rec go : List Json → Except String Items
    | [] => pure .nil
    | x :: xs => do
      let i ← parseItem x
      let r ← go xs
      pure (.cons i r)
  go a
where
  parseItem (j : Json) : Except String Item := do
    let a ← getList j
    match a with
    | [Json.str "n", Json.str name, m, v] => pure (.node name (← m.getBool?) (← v.getInt?))
    | [Json.str "g", Json.str name, e, body] => pure (.group name (← e.getNat?) (← parseItems body))
    | [Json.str "b", cls, els, ee] =>
      let cl ← getList cls
      let ee ← ee.getBool?
      let tail : Chain ← (match els with
        | Json.null => pure (Chain.fin ee)
        | e => do
          let p ← getList e
          match p with
          | [x, body] => pure (Chain.els (← x.getNat?) (← parseItems body) ee)
          | _ => throw "bad else")
      let triples ← cl.mapM (fun c => do
        let p ← getList c
        match p with
        | [c, e, body] => pure ((← c.getBool?), (← e.getNat?), (← parseItems body))
        | _ => throw "bad clause")
      match triples with
      | [] => throw "block without clause"
      | (c, e, body) :: rest =>
        let chain := rest.foldr (fun (t : Bool × Nat × Items) acc => Chain.case t.1 t.2.1 t.2.2 acc) tail
        pure (.block c e body chain)
    | _ => throw s!"bad item {j}"

def lineText (l : Line) : String :=
  match l.kw with
  | .node false v => s!"{l.name} int = {v}"
  | .node true v => s!"{l.name} = {v}"
  | .group => l.name
  | .case true => "@case true"
  | .case false => "@case false"
  | .els => "@else"
  | .fin => "@end"

def linesJson (ls : List Line) : Json :=
  jarr (fun (l : Line) => Json.arr #[jnat l.indent, jstr (lineText l)]) ls

def dataJson (r : Except Unit (List Eff)) : Json :=
  match r with
  | .error _ => jstr "err"
  | .ok effs =>
    match applyEffs [] effs with
    | .error _ => jstr "err"
    | .ok d => jarr (fun (p : List String × Int) => Json.arr #[jstr (".".intercalate p.1), jint p.2]) d

def effsJson (r : Except Unit (List Eff)) : Json :=
  match r with
  | .error _ => jstr "err"
  | .ok effs => jarr (fun (e : Eff) => Json.arr #[jstr (".".intercalate e.name), Json.bool e.isMod, jint e.v]) effs

def stateJson (ls : List Line) : Json :=
  match run St.init ls with
  | .error _ => jstr "err"
  | .ok (s, _) => Json.mkObj [("open", jnat s.state.length), ("num_cases", jnat s.numCases),
      ("num_branches", jnat s.numBranches),
      ("parents", jarr (fun (c : Comp) => match c with | .nm x => jstr x | .cs n => jstr s!"@{n}") (fullName s.parents))]

def ast (j : Json) : Except String Json := do
  let p ← parseItems (← field j "items")
  let ls := p.render 0
  let spec : Except Unit (List Eff) := .ok (p.sem [])
  pure (Json.mkObj [("lines", linesJson ls), ("model", dataJson (parse ls)), ("spec", dataJson spec),
    ("model_effs", effsJson (parse ls)), ("spec_effs", effsJson spec), ("state", stateJson ls),
    ("misplaced", Json.bool (misplaced ls))])

def parseLine (j : Json) : Except String Line := do
  let a ← getList j
  match a with
  | [i, Json.str k, Json.str name, v] =>
    let i ← i.getNat?
    let v ← v.getInt?
    match k with
    | "n" => pure ⟨i, name, .node false v⟩
    | "m" => pure ⟨i, name, .node true v⟩
    | "g" => pure ⟨i, name, .group⟩
    | "c1" => pure ⟨i, "", .case true⟩
    | "c0" => pure ⟨i, "", .case false⟩
    | "else" => pure ⟨i, "", .els⟩
    | "end" => pure ⟨i, "", .fin⟩
    | _ => throw s!"bad line kind {k}"
  | _ => throw s!"bad line {j}"

def lines (j : Json) : Except String Json := do
  let ls ← (← getList (← field j "lines")).mapM parseLine
  pure (Json.mkObj [("lines", linesJson ls), ("model", dataJson (parse ls)),
    ("model_effs", effsJson (parse ls)), ("state", stateJson ls),
    ("misplaced", Json.bool (misplaced ls))])

def handle (j : Json) : Except String Json := do
  let k ← (← field j "k").getStr?
  match k with
  | "ast" => ast j
  | "lines" => lines j
  | _ => throw s!"C15: unknown kind {k}"

end SciVerif.C15.Drive
