import SciVerif.Drive.Util
import SciVerif.Model.C17
import SciVerif.Lemmas.C17k
import SciVerif.Lemmas.C17l
import SciVerif.Lemmas.C17m
import SciVerif.Lemmas.C17n
open Lean SciVerif.Drive

namespace SciVerif.C17.Drive

def toStr (s : String) : Str := s.toList
def ofStr (s : Str) : String := String.ofList s
def jS (s : Str) : Json := Json.str (ofStr s)

def getStr (j : Json) : Except String Str := do pure (toStr (← j.getStr?))
def optOf {α : Type} (f : Json → Except String α) (j : Json) : Except String (Option α) :=
  match j with
  | Json.null => pure none
  | _ => do pure (some (← f j))
def fieldD (j : Json) (k : String) : Json := (j.getObjVal? k).toOption.getD Json.null

partial def getVal (j : Json) : Except String Val := do
  if let .ok q := j.getObjVal? "q" then
    match ← getList q with
    | [n, d] => pure (.num (mkRat (← n.getInt?) (← d.getNat?)))
    | _ => throw "bad q"
  else if let .ok b := j.getObjVal? "b" then pure (.bool (← b.getBool?))
  else if let .ok s := j.getObjVal? "s" then pure (.str (← getStr s))
  else if let .ok a := j.getObjVal? "a" then
    pure (.arr (← (← getList a).mapM getVal))
  else throw s!"bad value {j}"

partial def valJson : Val → Json
  | .num q => Json.mkObj [("q", Json.arr #[jint q.num, jnat q.den])]
  | .bool b => Json.mkObj [("b", Json.bool b)]
  | .str s => Json.mkObj [("s", jS s)]
  | .arr l => Json.mkObj [("a", Json.arr (l.map valJson).toArray)]

def getOptNat (j : Json) : Except String (Option Nat) := optOf (fun x => x.getNat?) j

def getPair (j : Json) : Except String (Option Nat × Option Nat) := do
  match ← getList j with
  | [a, b] => pure (← getOptNat a, ← getOptNat b)
  | _ => throw "bad pair"

def getKw (s : String) : Except String Kw :=
  match s with
  | "bool" => pure .bool | "int" => pure .int | "float" => pure .float | "str" => pure .str
  | "mod" => pure .mod | "group" => pure .group | "import" => pure .imp
  | _ => throw s!"bad keyword {s}"

def kwStr : Kw → String
  | .bool => "bool" | .int => "int" | .float => "float" | .str => "str"
  | .mod => "mod" | .group => "group" | .imp => "import"

def getSl (j : Json) : Except String Sl := do
  match ← getList j with
  | [Json.str "idx", n] => pure (.idx (← n.getNat?))
  | [Json.str "rng", a, b] => pure (.rng (← getOptNat a) (← getOptNat b))
  | _ => throw s!"bad slice {j}"

def getNode (j : Json) : Except String Node := do
  pure { name := ← getStr (← field j "name"),
         indent := ← (← field j "indent").getNat?,
         kw := ← getKw (← (← field j "kw").getStr?),
         dims := ← (← getList (fieldD j "dims" |> fun x => if x == Json.null then Json.arr #[] else x)).mapM getPair,
         raw := ← optOf getVal (fieldD j "raw"),
         ref := ← optOf getStr (fieldD j "ref"),
         slice := ← (← getList (fieldD j "slice" |> fun x => if x == Json.null then Json.arr #[] else x)).mapM getSl,
         unitsRaw := ← optOf getStr (fieldD j "unit"),
         value := none,
         defined := (fieldD j "defined").getBool?.toOption.getD false,
         constant := false, condition := none, format := none, tags := [], options := [],
         description := none, imported := false }

def getItem (j : Json) : Except String Item := do
  match ← (← field j "t").getStr? with
  | "node" => pure (.node (← getNode j))
  | "unit" =>
    if fieldD j "ref" == Json.null then
      pure (.unitdef (← getStr (← field j "name")) (← getVal (← field j "value")) (← optOf getStr (fieldD j "unit")))
    else
      pure (.unitref (← getStr (← field j "name")) (← getStr (← field j "ref")) (← optOf getStr (fieldD j "unit")))
  | "optref" => pure (.optref (← getStr (← field j "ref")) (← optOf getStr (fieldD j "unit")))
  | "unitimp" => pure (.unitimp (← getStr (← field j "source")) (← optOf getStr (fieldD j "name")))
  | "case" =>
    let indent ← (← field j "indent").getNat?
    match ← (← field j "kind").getStr? with
    | "cond" => pure (.case indent (.cond (← optOf getVal (fieldD j "raw")) (← optOf getStr (fieldD j "ref"))))
    | "else" => pure (.case indent .els)
    | "end" => pure (.case indent .fin)
    | k => throw s!"bad case kind {k}"
  | "prop" =>
    match ← (← field j "p").getStr? with
    | "constant" => pure (.prop .constant)
    | "condition" => pure (.prop (.condition (← getStr (← field j "v"))))
    | "format" => pure (.prop (.format (← getStr (← field j "v"))))
    | "tags" => pure (.prop (.tags (← (← getList (← field j "v")).mapM getStr)))
    | "option" => pure (.prop (.option (← getVal (← field j "v")) (← optOf getStr (fieldD j "unit"))))
    | "description" => pure (.prop (.description (← getStr (← field j "v"))))
    | p => throw s!"bad prop {p}"
  | t => throw s!"bad item {t}"

def optJ {α : Type} (f : α → Json) : Option α → Json
  | none => Json.null
  | some a => f a

def optsJson (l : List (Val × Option Str)) : Json :=
  jarr (fun (o : Val × Option Str) => Json.arr #[valJson o.1, optJ jS o.2]) l

def nodeJson (n : Node) : Json :=
  Json.mkObj [("name", jS n.name), ("kw", jstr (kwStr n.kw)), ("unit", optJ jS n.unitsRaw),
    ("value", optJ valJson n.value), ("constant", Json.bool n.constant),
    ("condition", optJ jS n.condition), ("format", optJ jS n.format),
    ("tags", jarr jS n.tags), ("options", optsJson n.options), ("description", optJ jS n.description),
    ("dims", jarr (fun (d : Dim) => Json.arr #[optJ jnat d.1, optJ jnat d.2]) n.dims)]

def getRat (q : Json) : Except String Rat := do
  match ← getList q with
  | [n, m] => pure (mkRat (← n.getInt?) (← m.getNat?))
  | _ => throw "bad rational"

def getTbl (j : Json) : Except String UnitTable := do
  (← getList j).mapM (fun e => do
    match ← getList e with
    | [s, d, a, b] => pure (← getStr s, ← d.getNat?, ← getRat a, ← getRat b)
    | _ => throw "bad unit entry")

/-! specification input -/

def getPath (j : Json) : Except String (List Str) := do (← getList j).mapM getStr

def getSQuery (j : Json) : Except String SQuery := do
  match ← getList j with
  | [Json.str "all"] => pure .all
  | [Json.str "children", p] => pure (.children (← getPath p))
  | [Json.str "exact", p] => pure (.exact (← getPath p))
  | _ => throw s!"bad query {j}"

def getSVal (j : Json) : Except String SVal := do
  if let .ok v := j.getObjVal? "lit" then pure (.lit (← getVal v))
  else
    pure (.inj (← optOf getStr (fieldD j "source")) (← getSQuery (← field j "query"))
      (← (← getList (← field j "slices")).mapM getSl))

def getStmt (j : Json) : Except String SStmt := do
  let path ← getPath (fieldD j "path" |> fun x => if x == Json.null then Json.arr #[] else x)
  match ← (← field j "t").getStr? with
  | "def" => pure (.defn path (← getKw (← (← field j "kw").getStr?))
      (← (← getList (← field j "dims")).mapM getPair) (← getSVal (← field j "v"))
      (← optOf getStr (fieldD j "unit")))
  | "decl" => pure (.decl path (← getKw (← (← field j "kw").getStr?))
      (← (← getList (← field j "dims")).mapM getPair) (← optOf getStr (fieldD j "unit")))
  | "mod" => pure (.modl path (← getSVal (← field j "v")) (← optOf getStr (fieldD j "unit")))
  | "imp" => pure (.imp path (← optOf getStr (fieldD j "source")) (← getSQuery (← field j "query")))
  | "constant" => pure (.constant path)
  | "condition" => pure (.condition path (← getStr (← field j "v")))
  | "format" => pure (.format path (← getStr (← field j "v")))
  | "tags" => pure (.tags path (← (← getList (← field j "v")).mapM getStr))
  | "option" => pure (.option path (← getSVal (← field j "v")) (← optOf getStr (fieldD j "unit")))
  | "unitdef" => pure (.unitdef (← getStr (← field j "name")) (← getSVal (← field j "v")) (← optOf getStr (fieldD j "unit")))
  | "unitimp" => pure (.unitimp (← getStr (← field j "source")) (← optOf getStr (fieldD j "name")))
  | "case" => pure (.caseCond (← getSVal (← field j "v")))
  | "else" => pure .caseElse
  | "end" => pure .caseEnd
  | "description" => pure (.description path (← getStr (← field j "v")))
  | t => throw s!"bad stmt {t}"

def snodeJson (n : SNode) : Json :=
  Json.mkObj [("name", jS (joinDot n.path)), ("kw", jstr (kwStr n.kw)), ("unit", optJ jS n.unit),
    ("value", optJ valJson n.value), ("constant", Json.bool n.constant),
    ("condition", optJ jS n.condition), ("format", optJ jS n.format),
    ("tags", jarr jS n.tags), ("options", optsJson n.options), ("description", optJ jS n.description),
    ("dims", jarr (fun (d : Dim) => Json.arr #[optJ jnat d.1, optJ jnat d.2]) n.dims)]

def envJson (e : Env) : Json :=
  Json.mkObj [("nodes", jarr nodeJson e.nodes),
    ("units", jarr (fun (u : Str × Val × Option Str) => Json.arr #[jS u.1, valJson u.2.1, optJ jS u.2.2]) e.units)]

abbrev UnitDefs := List (Str × Val × Option Str)

/-- remote sources are parsed on their own, in order, each seeing the sources before it -/
def parseSources (tbl : UnitTable) : List Json → List (Str × List Node) → List (Str × UnitDefs) →
    Except String (List (Str × List Node) × List (Str × UnitDefs))
  | [], acc, ua => pure (acc, ua)
  | j :: rest, acc, ua => do
    let name ← getStr (← field j "name")
    let items ← (← getList (← field j "items")).mapM getItem
    match parseC tbl { Env.empty with sources := acc, srcUnits := ua } items with
    | .error e => throw s!"source: {e}"
    | .ok env =>
      -- `withSource`: the installation step of C17_refinement_with_source_partial / C17_inv_with_source
      let e' := withSource { Env.empty with sources := acc, srcUnits := ua } name env
      parseSources tbl rest e'.sources e'.srcUnits

def specSources (tbl : UnitTable) : List Json → List (Str × List SNode) → List (Str × UnitDefs) →
    Except String (Option (List (Str × List SNode) × List (Str × UnitDefs)))
  | [], acc, ua => pure (some (acc, ua))
  | j :: rest, acc, ua => do
    let name ← getStr (← field j "name")
    let stmts ← (← getList (← field j "stmts")).mapM getStmt
    match sRunC tbl (⟨[], acc, false, [], ua⟩, none) stmts with
    | .error _ => pure none
    | .ok (env, _) =>
      let s' := sWithSource ⟨[], acc, false, [], ua⟩ name env
      specSources tbl rest s'.sources s'.srcUnits

/-- name of `env.nodes[-1]` before every line of the main text (what a property line acts on) -/
def lastTrace (tbl : UnitTable) : CEnv → List Item → List Json
  | _, [] => []
  | c, it :: rest =>
    optJ (fun (n : Node) => jS n.name) c.env.nodes.getLast? ::
      (match stepC tbl c it with
       | .ok c' => lastTrace tbl c' rest
       | .error _ => [])

def runModel (tbl : UnitTable) (j : Json) : Except String Json := do
  let srcs ← getList (fieldD j "sources" |> fun x => if x == Json.null then Json.arr #[] else x)
  match parseSources tbl srcs [] [] with
  | .error e => pure (Json.mkObj [("err", jstr e)])
  | .ok (sources, srcUnits) =>
    let env0 : Env := { Env.empty with sources := sources, srcUnits := srcUnits }
    let baseJ := fieldD j "base"
    let mainItems ← (← getList (← field j "main")).mapM getItem
    let srcJson := jarr (fun (s : Str × List Node) => Json.mkObj [("name", jS s.1), ("nodes", jarr nodeJson s.2)]) sources
    if baseJ == Json.null then
      let tr := Json.arr (lastTrace tbl ⟨env0, none⟩ mainItems).toArray
      match parseC tbl env0 mainItems with
      | .error e => pure (Json.mkObj [("err", jstr e), ("sources", srcJson), ("trace", tr)])
      | .ok env => pure (Json.mkObj [("env", envJson env), ("sources", srcJson), ("trace", tr)])
    else
      let baseItems ← (← getList baseJ).mapM getItem
      match parseC tbl env0 baseItems with
      | .error e => pure (Json.mkObj [("base_err", jstr e), ("sources", srcJson)])
      | .ok benv =>
        let tr := Json.arr (lastTrace tbl ⟨benv, none⟩ mainItems).toArray
        match parseC tbl benv mainItems with
        | .error e => pure (Json.mkObj [("err", jstr e), ("base", envJson benv), ("sources", srcJson), ("trace", tr)])
        | .ok env => pure (Json.mkObj [("env", envJson env), ("base", envJson benv), ("sources", srcJson), ("trace", tr)])

def serrStr : SErr → String
  | .rejected => "rejected"
  | .outside => "outside"

def runSpec (tbl : UnitTable) (j : Json) : Except String Json := do
  let srcs ← getList (fieldD j "sources" |> fun x => if x == Json.null then Json.arr #[] else x)
  match ← specSources tbl srcs [] [] with
  | none => pure (jstr "outside")
  | some (sources, srcUnits) =>
    let baseJ := fieldD j "base"
    let baseStmts ← if baseJ == Json.null then pure [] else (← getList baseJ).mapM getStmt
    let mainStmts ← (← getList (← field j "main")).mapM getStmt
    match sRunC tbl (⟨[], sources, false, [], srcUnits⟩, none) baseStmts with
    | .error _ => pure (jstr "outside")       -- the base itself must be a valid program
    | .ok (benv, _) =>
      if benv.mayReject then pure (jstr "outside") else
      match sRunC tbl (benv, none) mainStmts with
      | .error e => pure (jstr (serrStr e))
      | .ok (env, _) =>
        -- a declared node without value makes the real parse fail in its validation loop (C16)
        if env.nodes.any (fun n => n.value.isNone) then pure (jstr "outside") else
        pure (Json.mkObj [("nodes", jarr snodeJson env.nodes), ("mayReject", Json.bool env.mayReject),
          ("base", jarr snodeJson benv.nodes),
          ("units", jarr (fun (u : Str × Val × Option Str) => Json.arr #[jS u.1, valJson u.2.1, optJ jS u.2.2]) env.units),
          ("sources", jarr (fun (s : Str × List SNode) => Json.mkObj [("name", jS s.1), ("nodes", jarr snodeJson s.2)]) sources)])

/-- plain slicing probe: model `slice_value` and the Python-slice specification -/
def runSlice (j : Json) : Except String Json := do
  let v ← getVal (← field j "v")
  let sl ← (← getList (← field j "slices")).mapM getSl
  pure (Json.mkObj [("model", optJ valJson (sliceValue sl v)),
                    ("spec", optJ valJson (specSlice sl v))])

def blankNode (nm : Str) : Node :=
  { name := nm
    indent := 0
    kw := Kw.int
    dims := []
    raw := none
    ref := none
    slice := []
    unitsRaw := none
    value := none
    defined := false
    constant := false
    condition := none
    format := none
    tags := []
    options := []
    description := none
    imported := false }

def runQuery (j : Json) : Except String Json := do
  let names ← (← getList (← field j "names")).mapM getStr
  let q ← getStr (← field j "q")
  let ns : List Node := names.map blankNode
  pure (jarr (fun (n : Node) => jS n.name) (query ns (parseQuery q)))

/-! ### tie of the refinement theorems' own definitions to the programs that are run

`C17_refinement_nested_imports_partial` speaks about the line record `impAt i pre source q` and the
destination `impDest parents i pre`; `C17_refinement_checked_partial` about the check `fragRunB`.
For every import line of a main program the driver evaluates these definitions where the model
stands when it reaches the line, and compares them with the line record the harness built from the
program text and with the destination of the specification statement (which is compared with the
real code by the environment comparison). -/

/-- the import lines of a program with the hierarchy stack the model holds when it reaches them -/
def impSites (tbl : UnitTable) : CEnv → List Item → List (List (Nat × Str) × Node)
  | _, [] => []
  | c, it :: rest =>
    let here := match it with
      | .node n => if n.kw = .imp then [(c.env.parents, n)] else []
      | _ => []
    here ++ (match stepC tbl c it with
      | .ok c' => impSites tbl c' rest
      | .error _ => [])

def tieOne (x : (List (Nat × Str) × Node) × (List Str × Option Str × SQuery)) : Json :=
  let ps := x.1.1
  let n := x.1.2
  let dest := x.2.1
  let source := x.2.2.1
  let q := x.2.2.2
  let pre : List Str := match (splitDotBrace n.name).dropLast with
    | [] => []
    | p :: _ => splitDot p
  let a := impAt n.indent pre source q
  Json.mkObj [
    ("line", Json.bool (decide (a.name = n.name) && decide (a.ref = n.ref) && decide (a.indent = n.indent))),
    ("dest", Json.bool (decide (impDest ps n.indent pre = dest))),
    ("indent", jnat n.indent)]

/-! #### the nested check `runNB` on the program that is run

The main program (line records + specification statements, as the harness sends them) is read as
a list of `NLine`s; it counts as covered by `C17_refinement_nested_checked_partial` when every
line is expressible, the line records `NLine.item` produces ARE the records that are run
(field by field), and `runNB` accepts. -/

def slEqB : Sl → Sl → Bool
  | .idx a, .idx b => a == b
  | .rng a b, .rng c d => a == c && b == d
  | _, _ => false

def slsEqB : List Sl → List Sl → Bool
  | [], [] => true
  | a :: t, b :: u => slEqB a b && slsEqB t u
  | _, _ => false

def nodeEqB (a b : Node) : Bool :=
  decide (a.name = b.name) && a.indent == b.indent && decide (a.kw = b.kw) && decide (a.dims = b.dims) &&
  (optJ valJson a.raw == optJ valJson b.raw) && decide (a.ref = b.ref) && slsEqB a.slice b.slice &&
  decide (a.unitsRaw = b.unitsRaw) && (optJ valJson a.value == optJ valJson b.value) &&
  a.defined == b.defined && a.constant == b.constant && decide (a.condition = b.condition) &&
  decide (a.format = b.format) && decide (a.tags = b.tags) && (a.options.isEmpty && b.options.isEmpty) &&
  decide (a.description = b.description) && a.imported == b.imported

def itemsMatch : List Item → List Item → Bool
  | [], [] => true
  | .node a :: t, .node b :: u => nodeEqB a b && itemsMatch t u
  | .prop _ :: t, .prop _ :: u => itemsMatch t u      -- the same `PropLine` by construction
  | _, _ => false

def stmtPath? : SStmt → Option (List Str)
  | .constant p => some p
  | .condition p _ => some p
  | .format p _ => some p
  | .tags p _ => some p
  | .option p _ _ => some p
  | .description p _ => some p
  | _ => none

def toNLines : List Item → List SStmt → Option (List NLine)
  | [], [] => some []
  | [], _ :: _ => none
  | .node n :: its, ss =>
    if n.kw = .group then (toNLines its ss).map (fun r => .base (.group n.indent n.name) :: r)
    else match ss with
      | [] => none
      | s :: ss' =>
        if n.kw = .imp then
          match s with
          | .imp dest source q =>
            let pre : List Str := match (splitDotBrace n.name).dropLast with
              | [] => []
              | p :: _ => splitDot p
            (toNLines its ss').map (fun r => .imp n.indent pre dest source q :: r)
          | _ => none
        else (toNLines its ss').map (fun r => .base (.stmt n.indent n.name s) :: r)
  | .prop p :: its, s :: ss' =>
    match stmtPath? s with
    | some path => (toNLines its ss').map (fun r => .base (.prop path p) :: r)
    | none => none
  | _, _ => none

def nestedCover (tbl : UnitTable) (benv : Env) (items : List Item) (stmts : List SStmt) : String :=
  match toNLines items stmts with
  | none => "inexpressible"
  | some ls =>
    match ls.mapM NLine.item with
    | none => "inexpressible"
    | some its =>
      if !itemsMatch its items then "records-differ"
      else if runNB tbl benv ls then "accepts" else "refuses"

/-- the declared-node fragment (C17_refinement_declared_partial) on the program that is run: every
    statement passes `litFragB`, the line records `concD` builds are, field by field, the records
    the model is run on, and `invDB` accepts the environment the program starts from -/
def declCover (tbl : UnitTable) (benv : Env) (items : List Item) (stmts : List SStmt) : String :=
  if !stmts.all litFragB then "outside-fragment"
  else match stmts.mapM concD with
    | none => "outside-fragment"
    | some its =>
      if !itemsMatch its items then "records-differ"
      else if invDB tbl benv then "accepts" else "env-refused"

def runTie (tbl : UnitTable) (mj sj : Json) : Except String Json := do
  let srcs ← getList (fieldD mj "sources" |> fun x => if x == Json.null then Json.arr #[] else x)
  match parseSources tbl srcs [] [] with
  | .error _ => pure Json.null
  | .ok (sources, srcUnits) =>
    let env0 : Env := { Env.empty with sources := sources, srcUnits := srcUnits }
    let baseJ := fieldD mj "base"
    let mainItems ← (← getList (← field mj "main")).mapM getItem
    let mainStmts ← (← getList (← field sj "main")).mapM getStmt
    let baseItems ← if baseJ == Json.null then pure [] else (← getList baseJ).mapM getItem
    match (if baseJ == Json.null then Except.ok env0 else parseC tbl env0 baseItems) with
    | .error _ => pure Json.null
    | .ok benv =>
      let sites := impSites tbl ⟨benv, none⟩ mainItems
      let imps := mainStmts.filterMap (fun s => match s with
        | .imp d so q => some (d, so, q)
        | _ => none)
      let frag := fragRunB tbl (absEnv benv) mainStmts
      -- `invB` (C17_inv_decidable): the invariant the refinement theorems assume of the initial
      -- environment, evaluated on the environment the main program starts from (parsed remote
      -- sources, parsed base), and on the environment the model ends in
      let invFinal : Json := match parseC tbl benv mainItems with
        | .ok env => Json.bool (invB tbl env)
        | .error _ => Json.null
      let badNodes := (benv.nodes ++ benv.sources.flatMap (fun s => s.2)).filter (fun n => !goodB tbl n)
      -- the base stage of C17_refinement_on_base_partial: `invB` on the environment the base text
      -- starts from, `runNB` on the base text read as `NLine`s
      let baseNested : Json ← if baseJ == Json.null then pure Json.null else do
        let sb := fieldD sj "base"
        let baseStmts ← if sb == Json.null then pure [] else (← getList sb).mapM getStmt
        pure (jstr (nestedCover tbl env0 baseItems baseStmts))
      pure (Json.mkObj [("imports", Json.arr ((sites.zip imps).map tieOne).toArray),
                        ("frag", Json.bool frag),
                        ("nested", jstr (nestedCover tbl benv mainItems mainStmts)),
                        ("inv0", Json.bool (invB tbl env0)),
                        ("declared", jstr (declCover tbl benv mainItems mainStmts)),
                        ("declared_has_decl", Json.bool (mainStmts.any (fun s => match s with
                          | .decl .. => true
                          | _ => false))),
                        ("base_nested", baseNested),
                        ("inv", Json.bool (invB tbl benv)),
                        ("inv_bad", jarr (fun (n : Node) => jS n.name) badNodes),
                        ("inv_declared", Json.bool (badNodes.any (fun n => n.value.isNone))),
                        ("inv_final", invFinal)])

def handle (j : Json) : Except String Json := do
  let k ← (← field j "k").getStr?
  match k with
  | "prog" =>
    let tbl ← getTbl (← field j "tbl")
    let m ← runModel tbl (← field j "model")
    let s ← runSpec tbl (← field j "spec")
    let t ← runTie tbl (← field j "model") (← field j "spec")
    pure (Json.mkObj [("model", m), ("spec", s), ("tie", t)])
  | "slice" => runSlice j
  | "query" => runQuery j
  | _ => throw s!"C17: unknown kind {k}"

end SciVerif.C17.Drive
