import SciVerif.Drive.C13

/-! C14 uses the DIP core model and specification of `Model/C13*.lean` through the same protocol. -/
namespace SciVerif.C14.Drive

def handle := SciVerif.C13.Drive.handle

end SciVerif.C14.Drive
