import SciVerif.Drive.C11
import SciVerif.Model.C10
import SciVerif.Model.C10Spec
import SciVerif.Model.C10Heap
open Lean SciVerif.Drive SciVerif.C11.Drive

namespace SciVerif.C10.Drive

def jchars (s : Str) : Json := Json.str (String.ofList s)

def edataJson (d : EData) : Json :=
  Json.mkObj [("element", jchars d.element), ("mass", jrat d.mass), ("Z", jrat d.Z), ("N", jrat d.N),
    ("e", jrat d.e), ("isotope", jrat d.isotope), ("ionisation", jint d.ionisation)]

def liveElement (natural : Bool) (s : Str) : Option EData :=
  elementOf liveTable liveMe liveNucleon natural s

def liveValid (natural : Bool) (s : Str) : Bool := (liveElement natural s).isSome

/-- species descriptor of the specification: `["nucleon","p"]`, `["iso",sym,A,q]`, `["unspec",sym,q]` -/
def getSp (j : Json) : Except String Spec.Sp := do
  match ← getList j with
  | [Json.str "nucleon", Json.str c] => pure (.nucleon (c.toList.headD ' '))
  | [Json.str "iso", Json.str sym, a, q] => pure (.iso sym.toList (← a.getNat?) (← q.getInt?))
  | [Json.str "unspec", Json.str sym, q] => pure (.unspecified sym.toList (← q.getInt?))
  | _ => throw s!"bad species descriptor {j}"

def sdataJson (d : Spec.SData) : Json :=
  Json.mkObj [("mass", jrat d.mass), ("Z", jrat d.Z), ("N", jrat d.N), ("e", jrat d.e)]

def liveSpec (natural : Bool) (sp : Spec.Sp) : Option Spec.SData :=
  Spec.speciesData liveTable liveMe liveNucleon natural sp

/-- `{"k":"element","s":…,"natural":b,"sp":descriptor|null}` -/
def element (j : Json) : Except String Json := do
  let s ← (← field j "s").getStr?
  let natural ← (← field j "natural").getBool?
  let model := match liveElement natural s.toList with
    | none => jstr "err"
    | some d => edataJson d
  let spec ← match j.getObjVal? "sp" with
    | .ok spj => if spj.isNull then pure Json.null else do
        let sp ← getSp spj
        pure (match liveSpec natural sp with | none => jstr "undefined" | some d => sdataJson d)
    | .error _ => pure Json.null
  pure (Json.mkObj [("model", model), ("spec", spec)])

/-- `{"k":"preprocess","s":…}` → the four intermediate strings -/
def preprocessK (j : Json) : Except String Json := do
  let s := (← (← field j "s").getStr?).toList
  let s1 := pass1 (2 * s.length + 2) s
  let s2 := pass2 (s1.length + 1) s1
  let s3 := pass3 (s2.length + 1) s2
  let s4 := pass4 (s3.length + 1) s3
  pure (Json.arr #[jchars s1, jchars s2, jchars s3, jchars s4])

def substanceJson (natural : Bool) (s : Str) : Json :=
  match substanceOf (liveValid natural) s with
  | none => jstr "err"
  | some cs =>
    match cs.mapM (fun kp => (liveElement natural kp.1).map fun d => (kp.1, kp.2, d)) with
    | none => jstr "err"
    | some rows =>
      let t := totals (rows.map fun r => (r.2.1, r.2.2))
      Json.mkObj [
        ("components", jarr (fun (r : Str × Rat × EData) =>
          Json.mkObj [("expr", jchars r.1), ("count", jrat r.2.1), ("data", edataJson r.2.2)]) rows),
        ("sum", Json.mkObj [("mass", jrat t.1), ("Z", jrat t.2.1), ("N", jrat t.2.2.1), ("e", jrat t.2.2.2)])]

/-- `{"k":"substance","s":…,"natural":b}` -/
def substance (j : Json) : Except String Json := do
  let s ← (← field j "s").getStr?
  let natural ← (← field j "natural").getBool?
  pure (substanceJson natural s.toList)

partial def getF (j : Json) : Except String F := do
  match ← getList j with
  | [Json.str "sp", Json.str s] => pure (.sp s.toList)
  | [Json.str "count", f, n] => pure (.count (← getF f) (← n.getNat?))
  | [Json.str "mulx", f, n] => pure (.mulx (← getF f) (← n.getNat?))
  | [Json.str "group", f] => pure (.group (← getF f))
  | [Json.str "seq", ws, a, b] => pure (.seq (← ws.getNat?) (← getF a) (← getF b))
  | [Json.str "plus", a, b] => pure (.plus (← getF a) (← getF b))
  | _ => throw s!"bad formula {j}"

/-- `{"k":"formula","ast":…,"natural":b}` → rendered text, its expansion (specification),
    the AST-level evaluation with the Composite operations, and the model pipeline on the text -/
def formula (j : Json) : Except String Json := do
  let f ← getF (← field j "ast")
  let natural ← (← field j "natural").getBool?
  let txt := render f
  let ev : Comps Rat := evalF f
  -- specification of data and totals: descriptors of the species come with the request
  let descs : List (String × Json) ← match j.getObjVal? "species" with
    | .ok (Json.obj kvs) => pure (kvs.toList)
    | _ => pure []
  let specRows : Option (List (Str × Nat × Spec.SData)) ← (expand f).foldrM (fun kn acc => do
      match descs.find? (fun d => d.1.toList == kn.1) with
      | none => pure none
      | some d =>
        let sp ← getSp d.2
        pure (match acc, liveSpec natural sp with
          | some rows, some sd => some ((kn.1, kn.2, sd) :: rows)
          | _, _ => none)) (some [])
  let specJ : Json := match specRows with
    | none => jstr "undefined"
    | some rows =>
      let t := Spec.totals (rows.map fun r => (r.2.1, r.2.2))
      Json.mkObj [("rows", jarr (fun (r : Str × Nat × Spec.SData) =>
          Json.mkObj [("expr", jchars r.1), ("count", jnat r.2.1), ("data", sdataJson r.2.2)]) rows),
        ("sum", sdataJson t)]
  pure (Json.mkObj [
    ("spec", specJ),
    ("wf", Json.bool f.wf),
    ("explicit", jchars (renderExplicit f)),
    ("preprocess_ok", Json.bool (preprocess txt == renderExplicit f)),
    ("text", jchars txt),
    ("expand", jarr (fun (kn : Str × Nat) => Json.arr #[jchars kn.1, jnat kn.2]) (expand f)),
    ("evalF", jarr (fun (kp : Str × Rat) => Json.arr #[jchars kp.1, jrat kp.2]) ev),
    ("model", substanceJson natural txt)])

/-- a history of operations on composites in the object store (composites are numbered in order
    of creation): `["new",[[key,n],…]]`, `["add",i,key,n]` (in place), `["plus",i,j]`, `["mul",i,x]`,
    `["pluselem",i,key,n]`; the answer lists what every composite reads after every operation -/
def opsRun : List Json → Heap → Except String (List (List (Comps Rat)))
  | [], _ => pure []
  | op :: rest, h => do
    let a ← getList op
    let getKN := fun (kj nj : Json) => do
      let k ← kj.getStr?
      let n ← getRat nj
      pure (k.toList, n)
    let h' ← match a with
      | [Json.str "new", l] => do
        let kvs ← (← getList l).mapM fun kv => do
          match ← getList kv with
          | [k, n] => getKN k n
          | _ => throw "bad pair"
        pure (h.new kvs)
      | [Json.str "add", i, k, n] => do
        let (k, n) ← getKN k n
        pure (h.add (← i.getNat?) k n)
      | [Json.str "plus", i, j] => do pure (h.plus (← i.getNat?) (← j.getNat?))
      | [Json.str "mul", i, x] => do pure (h.mul (← i.getNat?) (← getRat x))
      | [Json.str "pluselem", i, k, n] => do
        let (k, n) ← getKN k n
        -- `_add` with a bare component: the left operand's entries, then `add(other.expr, other.proportion)`
        pure ((h.alloc.addAll h.nobj (h.read (← i.getNat?))).add h.nobj k n)
      | _ => throw s!"bad op {op}"
    let tail ← opsRun rest h'
    pure (((List.range h'.nobj).map h'.read) :: tail)

def opsK (j : Json) : Except String Json := do
  let ops ← getList (← field j "ops")
  let snaps ← opsRun ops Heap.empty
  pure (jarr (jarr (jarr fun (kp : Str × Rat) => Json.arr #[jchars kp.1, jrat kp.2])) snaps)

def handle (j : Json) : Except String Json := do
  let k ← (← field j "k").getStr?
  match k with
  | "substance" => substance j
  | "formula" => formula j
  | "preprocess" => preprocessK j
  | "element" => element j
  | "ops" => opsK j
  | _ => throw s!"C10: unknown kind {k}"

end SciVerif.C10.Drive
