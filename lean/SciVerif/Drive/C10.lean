import SciVerif.Drive.C11
import SciVerif.Model.C10
open Lean SciVerif.Drive SciVerif.C11.Drive

namespace SciVerif.C10.Drive

def jchars (s : Str) : Json := Json.str (String.ofList s)

def edataJson (d : EData) : Json :=
  Json.mkObj [("element", jchars d.element), ("mass", jrat d.mass), ("Z", jrat d.Z), ("N", jrat d.N),
    ("e", jrat d.e), ("isotope", jrat d.isotope), ("ionisation", jint d.ionisation)]

def liveElement (natural : Bool) (s : Str) : Option EData :=
  elementOf liveTable liveMe liveNucleon natural s

def liveValid (natural : Bool) (s : Str) : Bool := (liveElement natural s).isSome

/-- `{"k":"element","s":…,"natural":b}` -/
def element (j : Json) : Except String Json := do
  let s ← (← field j "s").getStr?
  let natural ← (← field j "natural").getBool?
  pure (match liveElement natural s.toList with
    | none => jstr "err"
    | some d => edataJson d)

/-- `{"k":"preprocess","s":…}` → the four intermediate strings -/
def preprocessK (j : Json) : Except String Json := do
  let s := (← (← field j "s").getStr?).toList
  let s1 := pass1 (2 * s.length + 2) s
  let s2 := pass2 (s1.length + 1) s1
  let s3 := pass3 (s2.length + 1) s2
  let s4 := pass4 (s3.length + 1) s3
  pure (Json.arr #[jchars s1, jchars s2, jchars s3, jchars s4])

def substanceJson (natural : Bool) (s : Str) : Json :=
  match substanceOf (liveValid natural) s with
  | none => jstr "err"
  | some cs =>
    match cs.mapM (fun kp => (liveElement natural kp.1).map fun d => (kp.1, kp.2, d)) with
    | none => jstr "err"
    | some rows =>
      let t := totals (rows.map fun r => (r.2.1, r.2.2))
      Json.mkObj [
        ("components", jarr (fun (r : Str × Rat × EData) =>
          Json.mkObj [("expr", jchars r.1), ("count", jrat r.2.1), ("data", edataJson r.2.2)]) rows),
        ("sum", Json.mkObj [("mass", jrat t.1), ("Z", jrat t.2.1), ("N", jrat t.2.2.1), ("e", jrat t.2.2.2)])]

/-- `{"k":"substance","s":…,"natural":b}` -/
def substance (j : Json) : Except String Json := do
  let s ← (← field j "s").getStr?
  let natural ← (← field j "natural").getBool?
  pure (substanceJson natural s.toList)

partial def getF (j : Json) : Except String F := do
  match ← getList j with
  | [Json.str "sp", Json.str s] => pure (.sp s.toList)
  | [Json.str "count", f, n] => pure (.count (← getF f) (← n.getNat?))
  | [Json.str "mulx", f, n] => pure (.mulx (← getF f) (← n.getNat?))
  | [Json.str "group", f] => pure (.group (← getF f))
  | [Json.str "seq", ws, a, b] => pure (.seq (← ws.getNat?) (← getF a) (← getF b))
  | [Json.str "plus", a, b] => pure (.plus (← getF a) (← getF b))
  | _ => throw s!"bad formula {j}"

/-- `{"k":"formula","ast":…,"natural":b}` → rendered text, its expansion (specification),
    the AST-level evaluation with the Composite operations, and the model pipeline on the text -/
def formula (j : Json) : Except String Json := do
  let f ← getF (← field j "ast")
  let natural ← (← field j "natural").getBool?
  let txt := render f
  let ev : Comps Rat := evalF f
  pure (Json.mkObj [
    ("text", jchars txt),
    ("expand", jarr (fun (kn : Str × Nat) => Json.arr #[jchars kn.1, jnat kn.2]) (expand f)),
    ("evalF", jarr (fun (kp : Str × Rat) => Json.arr #[jchars kp.1, jrat kp.2]) ev),
    ("model", substanceJson natural txt)])

def handle (j : Json) : Except String Json := do
  let k ← (← field j "k").getStr?
  match k with
  | "substance" => substance j
  | "formula" => formula j
  | "preprocess" => preprocessK j
  | "element" => element j
  | _ => throw s!"C10: unknown kind {k}"

end SciVerif.C10.Drive
