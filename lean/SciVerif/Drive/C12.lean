import SciVerif.Drive.C11
import SciVerif.Model.C12
open Lean SciVerif.Drive SciVerif.C11 SciVerif.C11.Drive

namespace SciVerif.C12.Drive

def getQ (j : Json) : Except String (Option (Q Rat)) := do
  if j.isNull then return none
  match ← getList j with
  | [v, f] => pure (some ⟨← getRat v, ← getRat f⟩)
  | _ => throw "bad quantity"

def jorat : Option Rat → Json := jopt jrat

def stateJson (s : MState Rat) : Json :=
  Json.mkObj [("rho", jorat s.rho), ("n", jorat s.n), ("mass", jorat s.mass)]

def tableJson (t : Table Rat) : Json :=
  let s := t.sums
  Json.mkObj [("n", jarr jrat t.n), ("rho", jarr jrat t.rho),
    ("N", jopt (jarr jrat) t.N), ("M", jopt (jarr jrat) t.M),
    ("sum", Json.mkObj [("n", jrat s.1), ("rho", jrat s.2.1), ("N", jorat s.2.2.1), ("M", jorat s.2.2.2)])]

/-- declarative specification (number modes): one formula unit has mass `M = Σ p_i m_i` -/
def spec (cs : List (Comp Rat)) (da : Rat) (rho n vol : Option (Q Rat)) : Option Json :=
  let M := (cs.map fun c => c.p * c.m).sum * da          -- g per formula unit
  let dens : Option (Rat × Rat) :=
    match rho, n with
    | some r, _ => some (r.std, r.std / M)
    | none, some v => some (v.std * M, v.std)
    | none, none => none
  match dens with
  | none => none
  | some (r, v) =>
    let V := vol.map Q.std
    let ni := cs.map fun c => c.p * v
    let ri := cs.map fun c => c.p * v * (c.m * da)
    some (Json.mkObj [("rho", jrat r), ("n", jrat v), ("mass", jorat (V.map (r * ·))),
      ("n_i", jarr jrat ni), ("rho_i", jarr jrat ri),
      ("N_i", jopt (jarr jrat) (V.map fun V => ni.map (· * V))),
      ("M_i", jopt (jarr jrat) (V.map fun V => ri.map (· * V)))])

/-- `{"k":"matter","mode":…,"comps":[[p,m],…],"da":r,"rho":q|null,"n":q|null,"vol":q|null,"via":"dict"|"string"}` -/
def matter (j : Json) : Except String Json := do
  let mode ← getMode (← field j "mode")
  let cs ← getComps (← field j "comps")
  let da ← getRat (← field j "da")
  let rho ← getQ (← field j "rho")
  let n ← getQ (← field j "n")
  let vol ← getQ (← field j "vol")
  let via ← (← field j "via").getStr?
  -- selections requested one after the other on the same object
  let keeps : List (List Bool) ← match j.getObjVal? "keeps" with
    | .ok kj => (← getList kj).mapM fun k => do (← getList k).mapM fun b => b.getBool?
    | .error _ => pure []
  let posQ : Option (Q Rat) → Bool := fun q => match q with
    | none => true
    | some q => decide (0 < q.v) && decide (0 < q.f)
  if cs.isEmpty || !positive cs || !(decide (0 < da)) || !(posQ rho && posQ n && posQ vol) then
    return Json.mkObj [("model", jstr "out-of-domain")]
  -- explicit history of component lists (objects modified with add() after construction), else
  -- the constructor's own history
  let h ← match j.getObjVal? "hist" with
    | .ok hj => do
        let lists ← (← getList hj).mapM getComps
        pure (lists.map (compositeMassQ mode) ++ [compositeMassQ mode cs])
    | .error _ => pure (if via == "dict" then dictHistory mode cs else stringHistory mode cs)
  let model : Json :=
    match runHistory da h (MState.init rho n vol) with
    | none => jstr "err"
    | some s =>
      match dataMatter da cs s with
      | none => jstr "err"
      | some t =>
        let sels : List Json := keeps.map fun k => tableJson (t.select k)
        Json.mkObj [("state", stateJson s), ("table", tableJson t), ("sel", Json.arr sels.toArray)]
  let sp : Json := if mode == .massFraction then jstr "unspecified" else
    match spec cs da rho n vol with
    | none => jstr "unspecified"
    | some s => s
  pure (Json.mkObj [("model", model), ("spec", sp)])

def handle (j : Json) : Except String Json := do
  let k ← (← field j "k").getStr?
  match k with
  | "matter" => matter j
  | "fractions" => SciVerif.C11.Drive.fractions j
  | _ => throw s!"C12: unknown kind {k}"

end SciVerif.C12.Drive
