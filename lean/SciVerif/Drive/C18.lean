import SciVerif.Drive.Util
import SciVerif.Model.C18
import SciVerif.Model.C18Num
import SciVerif.Model.C18Str
import SciVerif.Model.C18Log
open Lean SciVerif.Drive

namespace SciVerif.C18.Drive

/-! ### Float instantiations of the parameters -/

def fabs (x : Float) : Float := if x < 0 then -x else x

def floatToInt (x : Float) : Option Int :=
  if x == x.round ∧ fabs x < 1e9 then
    some (if x < 0 then - ((-x).toUInt64.toNat : Int) else (x.toUInt64.toNat : Int))
  else none

def floatOps : NumOps Float where
  add := (· + ·)
  sub := (· - ·)
  mul := (· * ·)
  div := (· / ·)
  neg := fun x => -x
  one := 1
  exp := Float.exp
  log := Float.log
  log10 := Float.log10
  sqrt := Float.sqrt
  sin := Float.sin
  cos := Float.cos
  tan := Float.tan
  pow := Float.pow
  toInt := floatToInt

/-- value together with a magnitude bound of the rounding-error scale (for the tolerance) -/
abbrev FS := Float × Float

def fsOps : NumOps FS where
  add := fun a b => (a.1 + b.1, a.2 + b.2)
  sub := fun a b => (a.1 - b.1, a.2 + b.2)
  mul := fun a b => (a.1 * b.1, a.2 * b.2)
  div := fun a b => (a.1 / b.1, a.2 * b.2 / (b.1 * b.1))
  neg := fun a => (-a.1, a.2)
  one := (1, 1)
  exp := fun a => (Float.exp a.1, fabs (Float.exp a.1) * (1 + a.2))
  log := fun a => (Float.log a.1, (fabs (Float.log a.1) + 1) * (1 + a.2 / fabs a.1))
  log10 := fun a => (Float.log10 a.1, (fabs (Float.log10 a.1) + 1) * (1 + a.2 / fabs a.1))
  sqrt := fun a => (Float.sqrt a.1, Float.sqrt a.2)
  sin := fun a => (Float.sin a.1, 1 + a.2)
  cos := fun a => (Float.cos a.1, 1 + a.2)
  tan := fun a => (Float.tan a.1, (fabs (Float.tan a.1) + 1) * (1 + a.2) * (1 + a.2))
  pow := fun a b => (Float.pow a.1 b.1, Float.pow a.2 (fabs b.1))
  toInt := fun a => floatToInt a.1

def decToFloat (d : Dec) : Float :=
  let m := if d.exp10 ≥ 0 then Float.ofScientific (d.mant * 10 ^ d.exp10.toNat) false 0
           else Float.ofScientific d.mant true (-d.exp10).toNat
  if d.neg then -m else m

/-! ### request decoding -/

def getFloat (j : Json) : Except String Float := do
  match j with
  | .num n => pure n.toFloat
  | _ => throw s!"number expected: {j}"

/-- exact transport of a double: `["f", <IEEE bits>]` -/
def jfloat (x : Float) : Json := Json.arr #[jstr "f", jnat x.toBits.toNat]

def getRat (j : Json) : Except String Rat := do
  let a ← getList j
  match a with
  | [n, d] => pure (mkRat (← n.getInt?) (← d.getNat?))
  | _ => throw "rat expected"

structure UnitDef where
  name : String
  k : Float
  dims : Dims

structure NodeDef where
  name : String
  kind : String            -- "float" | "int" | "bool" | "str" | "other"
  num : Float
  b : Bool
  s : String
  unit : Option String

structure Env where
  table : List OpDef
  steps : List Step
  units : List UnitDef
  nodes : List NodeDef
  autoref : Option String := none     -- Environment.autoref (`{?}` inside a !condition)

def parseEnv (j : Json) : Except String Env := do
  let table ← (← getList (← field j "table")).mapM fun r => do
    match ← getList r with
    | [k, s, p, n] => pure (⟨← k.getStr?, (← s.getStr?).toList, ← p.getBool?, ← n.getNat?⟩ : OpDef)
    | _ => throw "bad table row"
  let steps ← (← getList (← field j "steps")).mapM fun r => do
    match ← getList r with
    | [ops, t] => pure (⟨← (← getList ops).mapM (·.getStr?), ← t.getNat?⟩ : Step)
    | _ => throw "bad step"
  let units ← (← getList (← field j "units")).mapM fun r => do
    match ← getList r with
    | [n, k, d] => pure (⟨← n.getStr?, ← getFloat k, ← (← getList d).mapM getRat⟩ : UnitDef)
    | _ => throw "bad unit"
  let nodes ← (← getList (← field j "nodes")).mapM fun r => do
    match ← getList r with
    | [n, kd, v, u] =>
      let kind ← kd.getStr?
      let unit := match u with | .str s => some s | _ => none
      let num := match v with | .num x => x.toFloat | _ => 0
      let b := match v with | .bool x => x | _ => false
      let s := match v with | .str x => x | _ => ""
      pure (⟨← n.getStr?, kind, num, b, s, unit⟩ : NodeDef)
    | _ => throw "bad node"
  let autoref := match j.getObjVal? "autoref" with | .ok (.str s) => some s | _ => none
  pure ⟨table, steps, units, nodes, autoref⟩

partial def parseAst (j : Json) : Except String (E (List Char)) := do
  match ← getList j with
  | [.str "lit", .str t] => pure (.lit t.toList)
  | [.str "par", e] => pure (.par (← parseAst e))
  | [.str "fn1", .str f, a] => pure (.fn1 f (← parseAst a))
  | [.str "fn2", .str f, a, b] => pure (.fn2 f (← parseAst a) (← parseAst b))
  | [.str "pre", .str u, e] => pure (.pre u (← parseAst e))
  | [.str "bin", .str o, l, r] => pure (.bin o (← parseAst l) (← parseAst r))
  | _ => throw s!"bad ast {j}"

def Env.sym (env : Env) (key : String) : List Char :=
  match env.table.find? (·.key == key) with
  | some d => d.sym
  | none => "<?>".toList

def Env.unit? (env : Env) (u : Option (List Char)) : Option (Float × Dims) :=
  match u with
  | none => some (1, Dims.zero)
  | some cs =>
    match env.units.find? (·.name == String.ofList cs) with
    | some d => some (d.k, d.dims)
    | none => none

/-- `env.request(path, count=[0,1])` for a local path `?name`: the node with exactly that name. -/
def Env.node? (env : Env) (path : List Char) : Option (Option NodeDef) :=
  match path with
  | ['?'] =>
    match env.autoref with
    | some a => some (env.nodes.find? (·.name == a))
    | none => some none
  | '?' :: n => some (env.nodes.find? (·.name == String.ofList n))
  | _ => none     -- remote sources: outside the model

/-! ### numerical -/

/-- `NumericalSolver._parse_atom`: `none` = raises -/
def numAtom (N : NumOps F) (ofF : Float → F) (env : Env) (s : List Char) : Option (QV F) :=
  match parseAtomSrc s with
  | none => none
  | some (.ref path) =>
    match env.node? path with
    | some (some nd) =>
      let v : Option Float :=
        if nd.kind == "float" || nd.kind == "int" then some nd.num
        else if nd.kind == "bool" then some (if nd.b then 1 else 0)
        else none
      match v, env.unit? (nd.unit.map String.toList) with
      | some x, some (k, d) => some (some (Quant.mk' N (ofF x) (ofF k) d))
      | _, _ => none
    | _ => none
  | some (.raw v u) =>
    match parseDec v, env.unit? u with
    | some d, some (k, dm) => some (some (Quant.mk' N (ofF (decToFloat d)) (ofF k) dm))
    | _, _ => none

def siAtom (N : NumOps F) (ofF : Float → F) (env : Env) (s : List Char) : Option (SQ F) :=
  match numAtom N ofF env s with
  | some (some q) => some (q.toSI N)
  | _ => none

def numResult (env : Env) (out : Option String) (r : Option (Tok (QV Float))) : Json :=
  match r with
  | some (.atom (some q)) =>
    match out with
    | some u =>
      match env.unit? (some u.toList) with
      | some (k, d) =>
        match valueIn floatOps q k d with
        | some x => jfloat x
        | none => jstr "err"
      | none => jstr "err"
    | none => if q.dims.nodim then jfloat (q.val * q.k) else jstr "dimensional"
  | _ => jstr "err"

def numHandle (j : Json) : Except String Json := do
  let env ← parseEnv j
  let out := match j.getObjVal? "out" with | .ok (.str s) => some s | _ => none
  let keys := env.table.map (·.key)
  let S := numSem floatOps
  let atom := numAtom floatOps id env
  match j.getObjVal? "text" with
  | .ok (.str t) =>
    -- raw string: model only
    let r := solveStr S env.table env.steps atom (t.length + 1) t.toList
    pure (Json.mkObj [("model", numResult env out r)])
  | _ =>
    let ast ← parseAst (← field j "ast")
    let bl ← getNatList (← field j "blanks")
    let text := (render env.sym false ast bl).1
    let r := solveStr S env.table env.steps atom (text.length + 1) text
    -- token level: the tree's own token list through the same machine
    let tree : Option (QV Float) := ast.solve S keys env.steps (fun a => (atom a).getD none)
    let atomsOk := match ast.tk S keys env.steps (fun a => (atom a).getD none) with
      | some _ => true | none => false
    let treeJ := numResult env out (tree.map Tok.atom)
    -- specification with error scale
    let spec := evalSI fsOps (siAtom fsOps (fun x => (x, fabs x)) env) ast
    let (specJ, scaleJ) : Json × Json := match spec with
      | some q =>
        match out with
        | some u =>
          match env.unit? (some u.toList) with
          | some (k, d) =>
            match siValueIn fsOps q (k, fabs k) d with
            | some x => (jfloat x.1, jfloat x.2)
            | none => (jstr "err", Json.null)
          | none => (jstr "err", Json.null)
        | none => if q.dims.nodim then (jfloat q.si.1, jfloat q.si.2) else (jstr "dimensional", Json.null)
      | none => (jstr "err", Json.null)
    pure (Json.mkObj [("text", jstr (String.ofList text)), ("wf", Json.bool (ast.wf numGrammar)),
      ("model", numResult env out r), ("tree", treeJ), ("atoms_ok", Json.bool atomsOk),
      ("spec", specJ), ("scale", scaleJ)])

/-! ### logical -/

def cmpOps (env : Env) : CmpOps Float where
  isclose := fun a b => fabs (a - b) ≤ 1e-8 + 1e-6 * fabs b
  lt := fun a b => a < b
  conv := fun s t v =>
    match env.unit? (some s.toList), env.unit? (some t.toList) with
    | some (k1, d1), some (k2, d2) => if d1 = d2 then some (v * k1 / k2) else none
    | _, _ => none
  ofRaw := fun r => (parseDec r).map decToFloat

def specOps : SpecOps Float where
  sureEq := fun x y => fabs (x - y) ≤ 0.9 * (1e-8 + 1e-6 * fabs y)
  sureNe := fun x y => fabs (x - y) ≥ 1.1 * (1e-8 + 1e-6 * fabs y)
  sureLt := fun x y => x < y ∧ fabs (x - y) > 1e-9 * (fabs x + fabs y)
  same := fun x y => x == y

def nodeLV (nd : NodeDef) : LV Float :=
  if nd.kind == "float" then .num 2 nd.num nd.unit
  else if nd.kind == "int" then .num 1 nd.num nd.unit
  else if nd.kind == "bool" then .bool nd.b
  else if nd.kind == "str" then .str nd.s.toList
  else .outside

/-- `LogicalSolver._eval_node` (the argument is already stripped and non-empty); `none` = raises -/
def logAtom (env : Env) (s : List Char) : Option (LV Float) :=
  let s := strip s
  let (defined, s) := match s with
    | '!' :: t => (true, t)
    | _ => (false, s)
  match parseAtomSrc s with
  | none => some .outside
  | some (.ref path) =>
    match env.node? path with
    | some (some nd) => some (if defined then .bool true else nodeLV nd)
    | some none => if defined then some (.bool false) else none
    | none => some .outside
  | some (.raw v u) =>
    if defined then some .outside
    else if v = "true".toList then some (.bool true)
    else if v = "false".toList then some (.bool false)
    else some (.lit v (u.map String.ofList))

def specAtom (env : Env) (s : List Char) : SAtom Float :=
  let s := strip s
  let (defined, s) := match s with
    | '!' :: t => (true, t)
    | _ => (false, s)
  match parseAtomSrc s with
  | some (.ref path) =>
    match env.node? path with
    | some (some nd) =>
      if defined then .defined true
      else if nd.kind == "float" || nd.kind == "int" then .val (.num nd.num nd.unit)
      else if nd.kind == "bool" then .val (.bool nd.b)
      else if nd.kind == "str" then .val (.str nd.s.toList)
      else .missing
    | _ => if defined then .defined false else .missing
  | some (.raw v u) =>
    if v = "true".toList then .val (.bool true)
    else if v = "false".toList then .val (.bool false)
    else match (parseDec v) with
      | some d => .val (.num (decToFloat d) (u.map String.ofList))
      | none => .val (.str v)
  | none => .missing

def lvJson : Option (Tok (LV Float)) → Json
  | some (.atom (.bool b)) => Json.bool b
  | some (.atom .outside) => jstr "outside"
  | some (.atom .err) => jstr "err"
  | some (.atom _) => jstr "nonbool"
  | some .nil => jstr "none"
  | _ => jstr "err"

def E.mapAtoms {A B : Type} (f : A → B) : E A → E B
  | .lit a => .lit (f a)
  | .par e => .par (mapAtoms f e)
  | .fn1 g a => .fn1 g (mapAtoms f a)
  | .fn2 g a b => .fn2 g (mapAtoms f a) (mapAtoms f b)
  | .pre u e => .pre u (mapAtoms f e)
  | .bin o l r => .bin o (mapAtoms f l) (mapAtoms f r)

def logHandle (j : Json) : Except String Json := do
  let env ← parseEnv j
  let keys := env.table.map (·.key)
  let C := cmpOps env
  let S := logSem C
  -- an atom that raises is an absorbing error value on the token level
  let atom := logAtom env
  match j.getObjVal? "text" with
  | .ok (.str t) =>
    let r := solveStr S env.table env.steps atom (t.length + 1) t.toList
    pure (Json.mkObj [("model", lvJson r)])
  | _ =>
    let ast ← parseAst (← field j "ast")
    let bl ← getNatList (← field j "blanks")
    let text := (render env.sym true ast bl).1
    let r := solveStr S env.table env.steps atom (text.length + 1) text
    let tree : Option (LV Float) := ast.solve S keys env.steps (fun a => (atom a).getD .err)
    let spec := evalB C specOps (E.mapAtoms (specAtom env) ast)
    let specJ := match spec with
      | .val b => Json.bool b
      | .err => jstr "err"
      | .unknown => jstr "unknown"
    pure (Json.mkObj [("text", jstr (String.ofList text)), ("wf", Json.bool (ast.wf logGrammar)),
      ("model", lvJson r), ("tree", lvJson (tree.map Tok.atom)), ("spec", specJ)])

/-! ### templates -/

def pieceJson : Piece → Json
  | .text c => Json.arr #[jstr "t", jstr (String.singleton c)]
  | .raise => Json.arr #[jstr "raise"]
  | .hole p sl fm => Json.arr #[jstr "h", jstr (String.ofList p),
      -- index n -> [n, n]; range a:b -> [a, b]; the range n:n -> [n, n, "range"] (kept apart from the index)
      jopt (jarr (fun (x : SliceEntry) => match x with
        | .idx n => Json.arr #[jnat n, jnat n]
        | .range a b => if a = b ∧ a.isSome then Json.arr #[jopt jnat a, jopt jnat b, jstr "range"]
                        else Json.arr #[jopt jnat a, jopt jnat b])) sl,
      jopt (fun f => jstr (String.ofList f)) fm]

def tplHandle (j : Json) : Except String Json := do
  let t ← (← field j "text").getStr?
  pure (jarr pieceJson (scanTemplate (t.length + 1) t.toList))

/-- The produced text: `outs[i]` is what Python gives for the i-th hole the model's scan finds
    (characters of `format(value, fmt)` / `str(value)`, `null` = raises); the table keyed by
    (reference, slice, format) built from it is the parameter `hole` of `solveTemplate`. -/
def tploHandle (j : Json) : Except String Json := do
  let t ← (← field j "text").getStr?
  let outs ← (← getList (← field j "outs")).mapM (fun o =>
    match o with
    | .null => pure (none : Option (List Char))
    | o => do pure (some (← o.getStr?).toList))
  let keys := (scanTemplate (t.length + 1) t.toList).filterMap (fun p =>
    match p with
    | .hole p sl fm => some (p, sl, fm)
    | _ => none)
  let tbl := keys.zip outs
  let hole : HoleFn := fun p sl fm => (tbl.lookup (p, sl, fm)).join
  pure (match solveTemplate hole t.toList with
    | some s => Json.mkObj [("out", jstr (String.ofList s))]
    | none => Json.mkObj [("out", Json.null)])

def handle (j : Json) : Except String Json := do
  let k ← (← field j "k").getStr?
  match k with
  | "num" => numHandle j
  | "log" => logHandle j
  | "tpl" => tplHandle j
  | "tplo" => tploHandle j
  | _ => throw s!"C18: unknown kind {k}"

end SciVerif.C18.Drive
