import SciVerif.Drive.C01
import SciVerif.Model.C02
open Lean SciVerif.Drive

namespace SciVerif.C02.Drive

/-- C02 uses the protocol handler of the generic solver model (request kind "history":
    `solveI` threaded through a list of calls, beside `solve` on a fresh instance and the
    un-reset body `solveFrom`). -/
def handle (j : Json) : Except String Json := SciVerif.C01.Drive.handle j

end SciVerif.C02.Drive
