import SciVerif.Model.C10

/-!
# C10/C11 — composites as objects: a store of component cells

`Composite.components` is a dict of *objects* (`Element` / `Substance` instances) whose
`proportion` attribute is updated in place by `Composite.add` (`+=`).  Whether two composites can
influence each other therefore depends on which component objects they share.  This model keeps
the component objects in a store of cells; `add`, `_add` (`+`) and `_multiply` (`*`) are the
operations of `composite.py`: `+` and `*` build their result with `composite.add(...)`, which
creates a *new* component object for every key (`self.component_class(expr, …)`).
-/
namespace SciVerif.C10

/-- `cells c` = the `proportion` of component object `c`; `objs i` = the dict of composite `i`
    (key ↦ component object); `next` / `nobj` = next fresh cell / composite -/
structure Heap where
  cells : Nat → Rat
  next : Nat
  objs : Nat → List (Str × Nat)
  nobj : Nat

def Heap.empty : Heap := ⟨fun _ => 0, 0, fun _ => [], 0⟩

def findCell : List (Str × Nat) → Str → Option Nat
  | [], _ => none
  | (k', c) :: t, k => if k' = k then some c else findCell t k

/-- what one observes of composite `i`: `{expr: component.proportion}` -/
def Heap.read (h : Heap) (i : Nat) : Comps Rat := (h.objs i).map fun kc => (kc.1, h.cells kc.2)

/-- `Composite.add(expr, proportion)` on composite `i` -/
def Heap.add (h : Heap) (i : Nat) (k : Str) (p : Rat) : Heap :=
  match findCell (h.objs i) k with
  | some c =>            -- self.components[expr].proportion += proportion
    { h with cells := fun c' => if c' = c then h.cells c + p else h.cells c' }
  | none =>              -- self.components[expr] = self.component_class(expr, proportion=proportion)
    { h with cells := fun c' => if c' = h.next then p else h.cells c',
             next := h.next + 1,
             objs := fun i' => if i' = i then h.objs i ++ [(k, h.next)] else h.objs i' }

/-- a new empty composite (`Substance()`, `Material()`) -/
def Heap.alloc (h : Heap) : Heap := { h with nobj := h.nobj + 1 }

def Heap.addAll (h : Heap) (n : Nat) (src : Comps Rat) : Heap := src.foldl (fun a kp => a.add n kp.1 kp.2) h

/-- `a + b`: `_add(Substance(), other)`; the result is composite `h.nobj` -/
def Heap.plus (h : Heap) (i j : Nat) : Heap := (h.alloc.addAll h.nobj (h.read i)).addAll h.nobj (h.read j)

/-- `a * x`: `_multiply(Substance(), other)`; the result is composite `h.nobj` -/
def Heap.mul (h : Heap) (i : Nat) (x : Rat) : Heap :=
  h.alloc.addAll h.nobj ((h.read i).map fun kp => (kp.1, kp.2 * x))

/-- construction from a dict / a parsed formula: the result is composite `h.nobj` -/
def Heap.new (h : Heap) (src : Comps Rat) : Heap := h.alloc.addAll h.nobj src

end SciVerif.C10
