/-
Generic model of the expression solver (properties C01, C02).

Mirrors, statement by statement (repository state after the `fix:` commits 83006a6, df63a0b,
9379d0a, ff875d5, 8818136):
  * `solver/expression.py`  Expression.shift / remove / pop_left
  * `solver/tokens.py`      Tokens.get_left/right, put_left/right, append, operate
  * `solver/operators.py`   OperatorPar.__init__ (argument scanner), the operate_* methods -- these
                            are *data* here: the operator table, the step table and the behaviour of
                            every operate_* method are regenerated from the live classes on every run
                            (`Generated/C01Tables.lean`), the model below only interprets them
  * `solver/solver.py`      ExpressionSolver.solve (tokeniser loop, nested solver per argument,
                            step loop, final test)

The atom class is the parameter `AtomAlg`.  No Mathlib imports (compiled into the driver).
-/
namespace SciVerif.C01

/-! ### Atom algebra: exactly the methods `AtomBase` exposes -/

inductive Fn1 | neg | log | log10 | sqrt | sin | cos | tan | lnot
deriving DecidableEq, Repr

inductive Fn2 | add | sub | mul | div | pow | eq | ne | le | ge | lt | gt | land | lor
deriving DecidableEq, Repr

structure AtomAlg (A : Type) where
  /-- `atom(text)`; `none` = the constructor raises -/
  parse : List Char → Option A
  /-- `atom(np.e)` -/
  constE : A
  un : Fn1 → A → A
  bin : Fn2 → A → A → A

/-! ### Operator behaviour as data (what the translator observes) -/

/-- Term template over the operands an `operate_*` method fetched. -/
inductive Tm
  | L | R | arg (i : Nat) | constE
  | un (f : Fn1) (t : Tm)
  | bin (f : Fn2) (a b : Tm)
deriving DecidableEq, Repr

inductive Side | left | right deriving DecidableEq, Repr
inductive SignK | add | sub deriving DecidableEq, Repr
/-- token kinds the sign operators distinguish -/
inductive Kind | none | atom | add | sub | other deriving DecidableEq, Repr
/-- what a sign operator pushes: its left/right operand, the negated right operand,
    a new `OperatorAdd()` / `OperatorSub()` -/
inductive Item | L | R | negR | newAdd | newSub deriving DecidableEq, Repr
inductive Otype | args | unary | binary | ternary deriving DecidableEq, Repr

/-- `symbol_open`, `symbol_separator`, `symbol_close`, `narg` of an `OperatorPar` subclass -/
structure ParSpec where
  sopen : List Char
  sep : List Char
  close : List Char
  narg : Nat
deriving DecidableEq, Repr

/-- An `operate_*` method of the shape: optional `get_left()`, optional `get_right()`, then a
    sequence of `put_left/put_right(<atom expression>)`. -/
structure Simple where
  getL : Bool
  getR : Bool
  puts : List (Side × Tm)
deriving DecidableEq, Repr

inductive UBeh
  | sign (k : SignK)       -- OperatorAdd/OperatorSub.operate_unary: interpreted through the 2x25 table
  | simple (s : Simple)
deriving DecidableEq, Repr

structure OpRow where
  name : String                 -- key in the `operators` dict
  symbol : List Char
  par : Option ParSpec          -- `some` iff subclass of OperatorPar
  isAdd : Bool                  -- issubclass(cls, OperatorAdd)
  isSub : Bool                  -- issubclass(cls, OperatorSub)
  isa : List Nat                -- indices j of the table with issubclass(cls, table[j])
  unary : Option UBeh           -- `none` = no such method (AttributeError when called)
  binary : Option Simple
  args : Option Simple
deriving Repr

structure Table where
  rows : List OpRow
  addIdx : Option Nat           -- the entry that *is* OperatorAdd (class of `OperatorAdd()` tokens)
  subIdx : Option Nat
  sign : List (SignK × Kind × Kind × Option (List (Side × Item)))

/-! ### Tokens and the two buffers of `Tokens` -/

inductive Tok (A : Type)
  | none                                   -- Python `None` (empty stack / stored None)
  | atom (a : A)
  | op (i : Nat) (args : List (Option A))  -- instance of operator class #i, solved arguments
deriving Repr

/-- `Tokens.left` (top of the stack FIRST, i.e. the Python list reversed) and `Tokens.right`. -/
structure Bufs (A : Type) where
  left : List (Tok A)
  right : List (Tok A)
deriving Repr

/-- A raised exception: the buffers as they are at that instant, and a tag. -/
abbrev M (A X : Type) := Except (Bufs A × String) X

variable {A : Type}

def getLeft (b : Bufs A) : Tok A × Bufs A :=
  match b.left with
  | [] => (.none, b)
  | t :: l => (t, ⟨l, b.right⟩)

def getRight (b : Bufs A) : Tok A × Bufs A :=
  match b.right with
  | [] => (.none, b)
  | t :: r => (t, ⟨b.left, r⟩)

def putLeft (b : Bufs A) (t : Tok A) : Bufs A := ⟨t :: b.left, b.right⟩
def putRight (b : Bufs A) (t : Tok A) : Bufs A := ⟨b.left, t :: b.right⟩
def put (b : Bufs A) (s : Side) (t : Tok A) : Bufs A :=
  match s with
  | .left => putLeft b t
  | .right => putRight b t
/-- `Tokens.append` -/
def append (b : Bufs A) (t : Tok A) : Bufs A := ⟨b.left, b.right ++ [t]⟩

def tokAtom : Tok A → Option A
  | .atom a => some a
  | _ => none

/-- Value of a template; `none` = an atom method received a non-atom (raises). -/
def evalTm (alg : AtomAlg A) (L R : Tok A) (args : List (Option A)) : Tm → Option A
  | .L => tokAtom L
  | .R => tokAtom R
  | .arg i => match args[i]? with
      | some (some a) => some a
      | _ => none
  | .constE => some alg.constE
  | .un f t => (evalTm alg L R args t).map (alg.un f)
  | .bin f a b =>
      match evalTm alg L R args a, evalTm alg L R args b with
      | some x, some y => some (alg.bin f x y)
      | _, _ => none

/-- The token a `put_*(<expression>)` stores: an operand passed through unchanged is stored
    as it is (also `None`); anything else is the result of atom methods. -/
def putTok (alg : AtomAlg A) (L R : Tok A) (args : List (Option A)) : Tm → Option (Tok A)
  | .L => some L
  | .R => some R
  | .arg i => match args[i]? with
      | some (some a) => some (.atom a)
      | some none => some .none
      | none => none
  | t => (evalTm alg L R args t).map .atom

def runPuts (alg : AtomAlg A) (L R : Tok A) (args : List (Option A)) :
    List (Side × Tm) → Bufs A → M A (Bufs A)
  | [], b => .ok b
  | (s, t) :: ps, b =>
      match putTok alg L R args t with
      | some v => runPuts alg L R args ps (put b s v)
      | none => .error (b, "operand")

def runSimple (alg : AtomAlg A) (s : Simple) (args : List (Option A)) (b : Bufs A) : M A (Bufs A) :=
  let lb := if s.getL then getLeft b else (Tok.none, b)
  let rb := if s.getR then getRight lb.2 else (Tok.none, lb.2)
  runPuts alg lb.1 rb.1 args s.puts rb.2

/-! ### The sign operators, through the regenerated 2x25 behaviour table -/

def kindOf (tbl : Table) : Tok A → Kind
  | .none => .none
  | .atom _ => .atom
  | .op i _ => match tbl.rows[i]? with
      | some r => if r.isAdd then .add else if r.isSub then .sub else .other
      | none => .other

def signLookup (tbl : Table) (k : SignK) (kl kr : Kind) : Option (List (Side × Item)) :=
  match tbl.sign.find? (fun r => r.1 == k && r.2.1 == kl && r.2.2.1 == kr) with
  | some r => r.2.2.2
  | none => none

def itemTok (tbl : Table) (alg : AtomAlg A) (L R : Tok A) : Item → Option (Tok A)
  | .L => some L
  | .R => some R
  | .negR => (tokAtom R).map (fun a => .atom (alg.un .neg a))
  | .newAdd => tbl.addIdx.map (fun i => .op i [])
  | .newSub => tbl.subIdx.map (fun i => .op i [])

def runItems (tbl : Table) (alg : AtomAlg A) (L R : Tok A) :
    List (Side × Item) → Bufs A → M A (Bufs A)
  | [], b => .ok b
  | (s, it) :: ps, b =>
      match itemTok tbl alg L R it with
      | some t => runItems tbl alg L R ps (put b s t)
      | none => .error (b, "sign-item")

def signStep (tbl : Table) (alg : AtomAlg A) (k : SignK) (b : Bufs A) : M A (Bufs A) :=
  let lb := getLeft b
  let rb := getRight lb.2
  match signLookup tbl k (kindOf tbl lb.1) (kindOf tbl rb.1) with
  | none => .error (rb.2, "sign")
  | some acts => runItems tbl alg lb.1 rb.1 acts rb.2

/-! ### `Tokens.operate` -/

/-- `isinstance(token, operators)` for a token of class #i and the classes #ops of a step -/
def isInst (tbl : Table) (ops : List Nat) (i : Nat) : Bool :=
  match tbl.rows[i]? with
  | some r => ops.any (fun j => r.isa.contains j)
  | none => false

def dispatch (tbl : Table) (alg : AtomAlg A) (ot : Otype) (i : Nat) (args : List (Option A))
    (b : Bufs A) : M A (Bufs A) :=
  match tbl.rows[i]? with
  | none => .error (b, "row")
  | some row =>
    match ot with
    | .unary =>
      match row.unary with
      | none => .error (b, "no-operate_unary")
      | some (.sign k) => signStep tbl alg k b
      | some (.simple s) => runSimple alg s args b
    | .binary =>
      match row.binary with
      | none => .error (b, "no-operate_binary")
      | some s => runSimple alg s args b
    | .args =>
      match row.args with
      | none => .error (b, "no-operate_args")
      | some s => runSimple alg s args b
    | .ternary => .ok b

/-- One iteration of the `while self.right:` loop. -/
def step (tbl : Table) (alg : AtomAlg A) (ops : List Nat) (ot : Otype) (b : Bufs A) : M A (Bufs A) :=
  match b.right with
  | [] => .ok b
  | .op i args :: r =>
      if isInst tbl ops i && ot != .ternary then dispatch tbl alg ot i args ⟨b.left, r⟩
      else .ok ⟨.op i args :: b.left, r⟩
  | t :: r => .ok ⟨t :: b.left, r⟩

def loop (f : Bufs A → M A (Bufs A)) : Nat → Bufs A → M A (Bufs A)
  | 0, b => if b.right.isEmpty then .ok b else .error (b, "fuel")
  | n + 1, b =>
      if b.right.isEmpty then .ok b
      else match f b with
        | .ok b' => loop f n b'
        | .error e => .error e

/-- `Tokens.operate(operators, otype)`; afterwards `right = left; left = []`. -/
def operate (tbl : Table) (alg : AtomAlg A) (ops : List Nat) (ot : Otype) (b : Bufs A) : M A (Bufs A) :=
  match loop (step tbl alg ops ot) (2 * b.right.length + 2) b with
  | .ok b' => .ok ⟨[], b'.left.reverse⟩
  | .error e => .error e

/-! ### The step loop of `solve` -/

def nameIdx (tbl : Table) (n : String) : Option Nat := tbl.rows.findIdx? (fun r => r.name == n)

/-- `tuple(self.operators[o] for o in ostep['operators'] if o in self.operators)` -/
def resolveStep (tbl : Table) (s : List String × Otype) : List Nat × Otype :=
  (s.1.filterMap (nameIdx tbl), s.2)

def runSteps (tbl : Table) (alg : AtomAlg A) : List (List String × Otype) → Bufs A → M A (Bufs A)
  | [], b => .ok b
  | s :: ss, b =>
      let r := resolveStep tbl s
      if r.1.isEmpty then runSteps tbl alg ss b
      else match operate tbl alg r.1 r.2 b with
        | .ok b' => runSteps tbl alg ss b'
        | .error e => .error e

/-- The final test and `get_right()`. -/
def finish (b : Bufs A) : M A (Tok A × Bufs A) :=
  if b.left.length > 0 || b.right.length > 1 then .error (b, "unprocessed") else .ok (getRight b)

/-! ### `Expression` -/

structure Ex where
  left : List Char
  right : List Char
deriving Repr

def isWs (c : Char) : Bool :=
  c == ' ' || c == '\t' || c == '\n' || c == '\r' || c == '\x0b' || c == '\x0c'

/-- `str.strip()` on the ASCII whitespace the generators use -/
def strip (s : List Char) : List Char := ((s.dropWhile isWs).reverse.dropWhile isWs).reverse

def Ex.shift (e : Ex) : Ex := ⟨e.left ++ e.right.take 1, e.right.drop 1⟩
def Ex.remove (e : Ex) (sym : List Char) : Ex := ⟨e.left, e.right.drop sym.length⟩
def Ex.popLeft (e : Ex) : List Char × Ex := (strip e.left, ⟨[], e.right⟩)

/-- `OperatorPar.__init__` after the operator's own symbol was removed: scans to the matching
    close symbol, splitting arguments at separators of depth 1.  `none` = "Unclosed parenthesis". -/
def parScan (p : ParSpec) : Nat → Nat → Ex → List (List Char) → Option (Ex × List (List Char))
  | 0, _, _, _ => none
  | n + 1, depth, e, args =>
      if e.right.isEmpty then none
      else if p.sopen.isPrefixOf e.right then parScan p n (depth + 1) e.shift args
      else if p.sep.isPrefixOf e.right && depth == 1 then
        let pe := (e.remove p.sep).popLeft
        parScan p n depth pe.2 (args ++ [pe.1])
      else if p.close.isPrefixOf e.right then
        if depth == 1 then
          let pe := (e.remove p.close).popLeft
          some (pe.2, args ++ [pe.1])
        else parScan p n (depth - 1) e.shift args
      else parScan p n depth e.shift args

/-- first operator, in table (dict) order, whose symbol prefixes the text -/
def findOpFrom (i : Nat) : List OpRow → List Char → Option (Nat × OpRow)
  | [], _ => none
  | r :: rs, s => if r.symbol.isPrefixOf s then some (i, r) else findOpFrom (i + 1) rs s

def findOp (tbl : Table) (s : List Char) : Option (Nat × OpRow) := findOpFrom 0 tbl.rows s

/-- `if left := pop_left(): tokens.append(atom(left))` -/
def pushAtom (alg : AtomAlg A) (txt : List Char) (b : Bufs A) : M A (Bufs A) :=
  if txt.isEmpty then .ok b
  else match alg.parse txt with
    | some a => .ok (append b (.atom a))
    | none => .error (b, "atom")

/-- `self.tokens.left, self.tokens.right = [], []` at the entry of `solve` (commit 8818136) -/
def resetBufs (_st : Bufs A) : Bufs A := ⟨[], []⟩

/-- The nested solver's results become the operator's `args`.  ONE nested instance
    (`with ExpressionSolver(...) as es:`, buffers `st`) solves all arguments of the call in turn;
    `solveArg st a` is that instance's `solve(a)`: the buffers it leaves and the outcome. -/
def solveArgs (solveArg : Bufs A → List Char → Bufs A × Except String (Tok A)) :
    Bufs A → List (List Char) → Except String (List (Option A))
  | _, [] => .ok []
  | st, a :: as =>
      match solveArg st a with
      | (_, .error m) => .error m
      | (_, .ok (.op _ _)) => .error "unsupported:operator-valued-argument"
      | (st', .ok t) =>
        match solveArgs solveArg st' as with
        | .error m => .error m
        | .ok vs => .ok (tokAtom t :: vs)

/-- The tokeniser loop of `solve` (and the atom from the remaining left text). -/
def tokLoop (tbl : Table) (alg : AtomAlg A)
    (solveArg : Bufs A → List Char → Bufs A × Except String (Tok A)) :
    Nat → Ex → Bufs A → M A (Bufs A)
  | 0, _, b => .error (b, "fuel")
  | n + 1, e, b =>
      if e.right.isEmpty then pushAtom alg e.popLeft.1 b
      else match findOp tbl e.right with
        | none => tokLoop tbl alg solveArg n e.shift b
        | some (i, row) =>
          match pushAtom alg e.popLeft.1 b with
          | .error x => .error x
          | .ok b1 =>
            let e2 := e.popLeft.2.remove row.symbol
            match row.par with
            | none => tokLoop tbl alg solveArg n e2 (append b1 (.op i []))
            | some p =>
              match parScan p (e2.right.length + 1) 1 e2 [] with
              | none => .error (b1, "unclosed")
              | some (e3, args) =>
                if args.length != p.narg then .error (b1, "arity")
                else match solveArgs solveArg ⟨[], []⟩ args with
                  | .error m => .error (b1, m)
                  | .ok vals => tokLoop tbl alg solveArg n e3 (append b1 (.op i vals))

/-- The body of `solve` *after* the buffer reset, started on arbitrary buffers `b0`
    (what the method did before commit 8818136).  Returns the buffers left behind and the outcome. -/
def solveFromF (tbl : Table) (alg : AtomAlg A) (steps : List (List String × Otype)) :
    Nat → Bufs A → List Char → Bufs A × Except String (Tok A)
  | 0, b0, _ => (b0, .error "fuel")
  | n + 1, b0, s =>
      let nested := fun (st : Bufs A) (a : List Char) => solveFromF tbl alg steps n (resetBufs st) a
      match tokLoop tbl alg nested (s.length + 1) ⟨[], s⟩ b0 with
      | .error (b, m) => (b, .error m)
      | .ok b1 =>
        match runSteps tbl alg steps b1 with
        | .error (b, m) => (b, .error m)
        | .ok b2 =>
          match finish b2 with
          | .error (b, m) => (b, .error m)
          | .ok (t, b3) => (b3, .ok t)

def solveFrom (tbl : Table) (alg : AtomAlg A) (steps : List (List String × Otype))
    (b0 : Bufs A) (s : List Char) : Bufs A × Except String (Tok A) :=
  solveFromF tbl alg steps (s.length + 1) b0 s

/-- `ExpressionSolver.solve` on an instance whose buffers are `st`: resets them, then the body. -/
def solveI (tbl : Table) (alg : AtomAlg A) (steps : List (List String × Otype))
    (st : Bufs A) (s : List Char) : Bufs A × Except String (Tok A) :=
  solveFrom tbl alg steps (resetBufs st) s

/-- a fresh instance -/
def solve (tbl : Table) (alg : AtomAlg A) (steps : List (List String × Otype)) (s : List Char) :
    Except String (Tok A) :=
  (solveI tbl alg steps ⟨[], []⟩ s).2

/-- Token-level entry: the step loop and the final test on a given token list. -/
def solveToks (tbl : Table) (alg : AtomAlg A) (steps : List (List String × Otype))
    (toks : List (Tok A)) : Except String (Tok A) :=
  match runSteps tbl alg steps ⟨[], toks⟩ with
  | .error (_, m) => .error m
  | .ok b =>
    match finish b with
    | .error (_, m) => .error m
    | .ok (t, _) => .ok t

end SciVerif.C01
