import SciVerif.Model.C13Core
/-
DIP core, part 3: executable instances of the parameters of `Model/C13Core.lean`:
`int()` / `float()` on literal text, `json.loads` + `np.array(…, dtype)` for array values with
the shape checks of `BaseNode.cast_value`, `TableNode.parse`, and the linear unit table
(`NumberType.convert` = multiply by the ratio of the two magnitudes when the dimensions agree).
Forms that Python accepts but the model does not describe are `Err.unsupported`.
-/
namespace SciVerif.C13

/-! ### number literals -/

def splitSign (s : Str) : Bool × Str :=
  match s with
  | '-' :: t => (true, t)
  | '+' :: t => (false, t)
  | _ => (false, s)

def pow10 (n : Nat) : Rat := ((10 ^ n : Nat) : Rat)

def hasOdd (s : Str) : Bool := s.any (fun c => c == '_' || isWs c)

/-- Python `int(text)` for `[+-]?digits`; underscores / blanks are not modelled -/
def castInt (s : Str) : R Int :=
  if hasOdd s then .error .unsupported else
  let (neg, d) := splitSign s
  if allDigits d then .ok (if neg then -(digitsToNat d : Int) else (digitsToNat d : Int))
  else .error .fail

def lower (s : Str) : Str := s.map Char.toLower

/-- mantissa `digits [. digits]` or `. digits` -/
def parseMantissa (m : Str) : Option Rat :=
  let ip := m.takeWhile Char.isDigit
  match m.dropWhile Char.isDigit with
  | [] => if ip.isEmpty then none else some (digitsToNat ip : Rat)
  | '.' :: fp =>
    if fp.all Char.isDigit && !(ip.isEmpty && fp.isEmpty) then
      some ((digitsToNat ip : Rat) + (digitsToNat fp : Rat) / pow10 fp.length)
    else none
  | _ => none

/-- Python `float(text)` for decimal / scientific notation (exact rational) -/
def castFloat (s : Str) : R Rat :=
  if hasOdd s then .error .unsupported else
  let (neg, body) := splitSign s
  let mant := body.takeWhile (fun c => c != 'e' && c != 'E')
  let rest := body.dropWhile (fun c => c != 'e' && c != 'E')
  match parseMantissa mant with
  | none =>
    -- not a decimal number: `inf`, `nan`, `infinity` are accepted by Python but not modelled
    let lb := lower body
    if lb == "inf".toList || lb == "nan".toList || lb == "infinity".toList then .error .unsupported
    else .error .fail
  | some m =>
    let signed : Rat := if neg then -m else m
    match rest with
    | [] => .ok signed
    | _ :: ex =>
      let (eneg, ed) := splitSign ex
      if allDigits ed then
        if digitsToNat ed > 400 then .error .unsupported      -- float overflow / underflow range
        else .ok (if eneg then signed / pow10 (digitsToNat ed) else signed * pow10 (digitsToNat ed))
      else .error .fail

/-- JSON number grammar `-?(0|[1-9]\d*)(\.\d+)?([eE][+-]?\d+)?`; `true` when it is an integer literal -/
def jsonNumber (s : Str) : Option Bool :=
  let body := match s with | '-' :: t => t | _ => s
  let ip := body.takeWhile Char.isDigit
  let r := body.dropWhile Char.isDigit
  if ip.isEmpty || (ip.length > 1 && ip.head? == some '0') then none else
  match r with
  | [] => some true
  | '.' :: fr =>
    let fp := fr.takeWhile Char.isDigit
    if fp.isEmpty then none else
    match fr.dropWhile Char.isDigit with
    | [] => some false
    | c :: ex => if (c == 'e' || c == 'E') && allDigits (splitSign ex).2 then some false else none
  | c :: ex => if (c == 'e' || c == 'E') && allDigits (splitSign ex).2 then some false else none

/-! ### `json.loads` on (nested) arrays: shape and flat token list -/

inductive Tok where
  | bare (s : Str)
  | str (s : Str)
deriving Repr, DecidableEq

def isDelim (c : Char) : Bool := isWs c || c == ',' || c == ']' || c == '['

mutual
def pVal : Nat → Str → R (List Nat × List Tok × Str)
  | 0, _ => .error .fail
  | f + 1, s =>
    match dropWs s with
    | '[' :: r =>
      (match dropWs r with
       | ']' :: r' => .ok ([0], [], r')
       | _ => pElems f r none 0 [])
    | '"' :: r =>
      let inner := r.takeWhile (fun c => c != '"')
      if inner.contains '\\' then .error .unsupported
      else if inner.any (fun c => c.toNat < 32) then .error .fail     -- JSON: no control characters in strings
      else
      (match r.dropWhile (fun c => c != '"') with
       | _ :: r' => .ok ([], [.str inner], r')
       | [] => .error .fail)
    | r =>
      let tok := r.takeWhile (fun c => !isDelim c)
      if tok.isEmpty then .error .fail else .ok ([], [.bare tok], r.dropWhile (fun c => !isDelim c))
def pElems : Nat → Str → Option (List Nat) → Nat → List Tok → R (List Nat × List Tok × Str)
  | 0, _, _, _, _ => .error .fail
  | f + 1, s, sh, n, acc => do
    let (sh1, toks, r) ← pVal f s
    if (match sh with | some sh0 => sh0 != sh1 | none => false) then .error .fail   -- ragged
    else
      match dropWs r with
      | ',' :: r' => pElems f r' (some sh1) (n + 1) (acc ++ toks)
      | ']' :: r' => .ok ((n + 1) :: sh1, acc ++ toks, r')
      | _ => .error .fail
end

/-- whole text is one JSON value -/
def parseJson (s : Str) : R (List Nat × List Tok) := do
  let (sh, toks, r) ← pVal (s.length + 1) s
  if isBlank r then .ok (sh, toks) else .error .fail

/-- numpy stores `dtype=int` as 64-bit: a larger literal raises OverflowError -/
def int64Atom (i : Int) : R Atom :=
  if -(2 ^ 63 : Int) ≤ i && i < (2 ^ 63 : Int) then .ok (.num (i : Rat)) else .error .fail

/-- `np.array(json value, dtype)` on one token -/
def tokAtom (ty : Ty) : Tok → R Atom
  | .str s => if ty == .str then .ok (.str s) else .error .unsupported
  | .bare t =>
    if t == "true".toList || t == "false".toList then
      (if ty == .bool then .ok (.bool (t == "true".toList)) else .error .unsupported)
    else if t == "null".toList then .error .unsupported
    else match jsonNumber t with
      | none => .error .fail
      | some isInt =>
        match ty with
        | .float => (castFloat t).map Atom.num
        | .int => if isInt then (castInt t).bind int64Atom else .error .fail   -- a float literal is not an integer
        | _ => .error .unsupported

/-- the same on a JSON cell of a table column: there numpy still truncates float literals of an int
    column (`TableNode.parse` hands over parsed lists, not text) — not modelled -/
def tokAtomCell (ty : Ty) (tok : Tok) : R Atom :=
  match ty, tok with
  | .int, .bare t =>
    (match jsonNumber t with
     | some false => .error .unsupported
     | _ => tokAtom ty tok)
  | _, _ => tokAtom ty tok

/-- the shape tests of `cast_value` -/
def checkDims : List Dim → List Nat → Bool
  | [], _ => true
  | _ :: _, [] => false                        -- IndexError
  | (lo, hi) :: ds, n :: sh =>
    (match lo with | some l => decide (l ≤ n) | none => true) &&
    (match hi with | some h => decide (n ≤ h) | none => true) && checkDims ds sh

def castScalar (ty : Ty) (s : Str) : R Val :=
  match ty with
  | .bool =>
    if s == "true".toList then .ok (.scalar (.bool true))
    else if s == "false".toList then .ok (.scalar (.bool false))
    else .error .fail
  | .int => (castInt s).map (fun i => .scalar (.num (i : Rat)))
  | .float => (castFloat s).map (fun q => .scalar (.num q))
  | .str => .ok (.scalar (.str s))

/-- `BaseNode.cast_value(raw)` on text -/
def castText (ty : Ty) (dims : Option (List Dim)) (s : Str) : R Val :=
  if s == "none".toList then .ok .none
  else match dims with
    | none => castScalar ty s
    | some ds => do
      let (sh, toks) ← parseJson s
      let el ← toks.mapM (tokAtom ty)
      if checkDims ds sh then .ok (.array sh el) else .error .fail

def cellAtom (ty : Ty) (c : Str) : R Atom :=
  match ty with
  | .bool =>
    if c == "true".toList then .ok (.bool true)
    else if c == "false".toList then .ok (.bool false)
    else match parseJson c with
      | .ok _ => .error .unsupported
      | .error e => .error e
  | .int => (castInt c).bind int64Atom
  | .float => (castFloat c).map .num
  | .str => .ok (.str c)

/-- `cast_value` on the cell list of a table column; `inner` = the column was declared with a
    dimension, so every cell went through `json.loads` -/
def castCellsGen (inner : Bool) (ty : Ty) (cells : List Str) : R Val :=
  if !inner then do
    let el ← cells.mapM (cellAtom ty)
    .ok (.array [cells.length] el)
  else do
    let ps ← cells.mapM parseJson
    match ps with
    | [] => .error .unsupported
    | (sh0, _) :: _ =>
      if ps.any (fun p => p.1 != sh0) then .error .fail else do
      let el ← (ps.flatMap (fun p => p.2)).mapM (tokAtomCell ty)
      .ok (.array (cells.length :: sh0) el)

/-! ### `TableNode.parse` -/

/-- one header line: name, type, dimension, units, nothing else -/
def headerLine (tname : Str) (line : Str) : R (Node × Bool) :=
  let nm := line.takeWhile isNameCh
  let rest := line.dropWhile isNameCh
  if nm.isEmpty then .error .fail
  else if !isBlank rest && rest.head? != some ' ' then .error .fail
  else do
    let (kind, info, r0) ← partType rest
    let (dims, r1) ← partDimension r0
    let (u, r2) := partUnits r1
    if !isBlank r2 then .error .fail
    else match kind with
      | .typed _ =>
        .ok ({ kind, name := some (tname ++ ['.'] ++ nm), info, units := u }, dims.isSome)
      | _ => .error .fail

/-- states of the `_csv` reader (excel dialect: quote character `"`, doubled quotes, not strict) -/
inductive CsvSt where
  | startRec | startField | inField | inQuoted | quoteInQuoted

/-- `csv.reader(…, delimiter=' ')` on one line, character by character as `parse_process_char` does:
    a field that starts with `"` runs to the closing `"` (`""` is a literal quote, text after the
    closing quote is appended), any other field runs to the next blank with quotes and backslashes
    taken literally; two blanks enclose an empty field.  A quoted field that is still open at the end
    of the line would continue on the next row: not modelled. -/
def csvGo : CsvSt → Str → List Str → Str → R (List Str)
  | st, fld, flds, [] =>
    match st with
    | .startRec => .ok []
    | .startField => .ok (([] :: flds).reverse)
    | .inField => .ok ((fld.reverse :: flds).reverse)
    | .inQuoted => .error .unsupported
    | .quoteInQuoted => .ok ((fld.reverse :: flds).reverse)
  | st, fld, flds, c :: t =>
    match st with
    | .startRec | .startField =>
      if c == '"' then csvGo .inQuoted [] flds t
      else if c == ' ' then csvGo .startField [] ([] :: flds) t
      else csvGo .inField [c] flds t
    | .inField =>
      if c == ' ' then csvGo .startField [] (fld.reverse :: flds) t
      else csvGo .inField (c :: fld) flds t
    | .inQuoted =>
      if c == '"' then csvGo .quoteInQuoted fld flds t
      else csvGo .inQuoted (c :: fld) flds t
    | .quoteInQuoted =>
      if c == '"' then csvGo .inQuoted ('"' :: fld) flds t
      else if c == ' ' then csvGo .startField [] (fld.reverse :: flds) t
      else csvGo .inField (c :: fld) flds t

def csvRow (s : Str) : R (List Str) := csvGo .startRec [] [] s

def rstrip (s : Str) : Str := (s.reverse.dropWhile isWs).reverse
def strip (s : Str) : Str := rstrip (dropWs s)

def transposeCols (ncols : Nat) (rows : List (List Str)) : List (List Str) :=
  (List.range ncols).map (fun c => rows.map (fun r => r.getD c []))

/-- the column nodes, before `node.indent = self.indent` -/
def expandTable0 (raw : Option Raw) (name : Option Str) : R (List Node) :=
  match raw, name with
  | some (.text v), some tname =>
    let lines := splitOn '\n' v
    let hdr := lines.takeWhile (fun l => !isBlank l)
    let body := (lines.dropWhile (fun l => !isBlank l)).drop 1
    do
      let cols ← hdr.mapM (headerLine tname)
      if body.isEmpty || body.any isBlank then .error .unsupported
      else do
        let rows ← body.mapM (fun l => csvRow (strip l))
        if rows.any (fun r => r.length != cols.length) then .error .fail
        else
          let n := rows.length
          let cs := transposeCols cols.length rows
          .ok ((cols.zip cs).map (fun (p : (Node × Bool) × List Str) =>
            { p.1.1 with
                -- the declared inner dimension (and, since the fix, `bool`) only decides
                -- whether the cells are read as JSON; `node.dimension = [(nvalues, nvalues)]`
                raw := some (.cells p.1.2 p.2),
                dims := some [(some n, some n)] }))
  | _, _ => .error .fail

def expandTable (nd : Node) : R (List Node) :=
  (expandTable0 nd.raw nd.name).map (List.map (fun c => { c with indent := nd.indent }))

def castCells (ty : Ty) (json : Bool) (cells : List Str) : R Val := castCellsGen json ty cells

/-! ### linear unit table -/

structure UnitRow where
  name : Str
  factor : Rat
  dim : List Int
deriving Repr

def convWith (tbl : List UnitRow) (frm to : Str) (v : Rat) : R Rat :=
  match tbl.find? (fun r => r.name = frm), tbl.find? (fun r => r.name = to) with
  | some a, some b =>
    if a.dim = b.dim && b.factor != 0 then .ok (v * a.factor / b.factor) else .error .fail
  | _, _ => .error .fail

def mkParams (tbl : List UnitRow) : Params where
  castText := castText
  castCells := castCells
  unitKnown := fun u => tbl.any (fun r => r.name = u)
  conv := convWith tbl
  expandTable := expandTable

end SciVerif.C13
