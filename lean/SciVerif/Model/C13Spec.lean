import SciVerif.Model.C13Cast
/-
Specification for C13 / C14 on the *abstract* sequence of lines `(indent, name, payload)`:

  * parent of a line = nearest preceding name-bearing line with smaller indentation;
    path = names of all ancestors ++ own name, joined by '.';
  * one parameter per distinct path, in order of first appearance;
  * type, width/sign, dimension and unit come from the first occurrence; the value is the one
    of the last occurrence, converted from its unit (or the definition's unit when it has none)
    into the definition's unit;
  * a different type, a unit of another dimension (including any unit for a parameter defined
    without one), an assignment after `!constant`, an assignment to an undefined path, or a
    declared path never assigned make the whole parse fail.

The specification is generic in the representation `α` of a written value.  `Interp α` says what a
written value means for a parameter of a given type and shape.  Two instances are used:
`α = Val` (already typed values, `fitsInterp`; this is what the harness sends) and `α = Raw`
(the raw text of the lexed line with the casts of `Params`, `castInterp`; this is what the
refinement theorem `C14_parse_refines_spec` talks about).
-/
namespace SciVerif.C13

inductive Payload (α : Type) where
  | skip                                            -- blank / comment / $unit line
  | group
  | const                                           -- `!constant`
  /-- `name type[dims] [= value] [unit]`: definition, declaration (no value) or typed modification -/
  | typed (ty : Ty) (info : TyInfo) (dims : Option (List Dim)) (unit : Option Str) (v : Option α)
  /-- `name = value [unit]` -/
  | mod (unit : Option Str) (v : α)
deriving Repr, DecidableEq

structure ALine (α : Type) where
  indent : Nat
  name : Str
  p : Payload α
deriving Repr

/-- what a written value means -/
structure Interp (α : Type) where
  /-- for the line's own type and shape (`node.set_value()`); `none` = no value object -/
  init : Ty → Option (List Dim) → α → R (Option Val)
  /-- for the type and shape of the parameter it is assigned to (`cast_value`) -/
  cast : Ty → Option (List Dim) → α → R Val

/-- Ancestors of a line with indentation `m`, nearest first, among the earlier name-bearing
    lines given latest-first: the nearest earlier line with a smaller indentation, then the
    nearest line before *that* with a still smaller one, and so on. -/
def anc (m : Nat) : List (Nat × Str) → List (Nat × Str)
  | [] => []
  | (d, n) :: rest => if d < m then (d, n) :: anc d rest else anc m rest

/-- the parent alone: nearest earlier line with a smaller indentation -/
def parent? (m : Nat) (earlier : List (Nat × Str)) : Option (Nat × Str) :=
  earlier.find? (fun p => decide (p.1 < m))

def specPath (earlier : List (Nat × Str)) (d : Nat) (nm : Str) : Str :=
  joinWith ['.'] (((anc d earlier).reverse.map Prod.snd) ++ [nm])

def Payload.nameBearing {α : Type} : Payload α → Bool
  | .group | .typed .. | .mod .. => true
  | _ => false

def Payload.valueBearing {α : Type} : Payload α → Bool
  | .typed .. | .mod .. => true
  | _ => false

/-- Occurrences `(path, payload)` of value-bearing lines in text order.  A `!constant` line is
    recorded under the path of the most recently *created* parameter (`seen` = paths so far in
    order of first appearance); with nothing to mark it is recorded under `none`. -/
def occurrences {α : Type} : List (Nat × Str) → List Str → List (ALine α) → List (Option Str × Payload α)
  | _, _, [] => []
  | earlier, seen, l :: t =>
    match l.p with
    | .skip => occurrences earlier seen t
    | .const => (seen.getLast?, .const) :: occurrences earlier seen t
    | .group => occurrences ((l.indent, l.name) :: earlier) seen t
    | p =>
      let path := specPath earlier l.indent l.name
      (some path, p) :: occurrences ((l.indent, l.name) :: earlier)
        (if seen.contains path then seen else seen ++ [path]) t

def atomFits (ty : Ty) : Atom → Bool
  | .bool _ => ty == .bool
  | .num q => ty == .float || (ty == .int && q.den == 1)
  | .str _ => ty == .str

/-- the value is a literal of the declared type and shape -/
def fits (ty : Ty) (dims : Option (List Dim)) : Val → Bool
  | .none => true
  | .scalar a => dims.isNone && atomFits ty a
  | .array sh el =>
    (match dims with | some ds => checkDims ds sh | none => false) && el.all (atomFits ty) &&
      el.length == sh.foldl (· * ·) 1

/-- already typed values: they must be literals of the type and shape -/
def fitsInterp : Interp Val where
  init := fun ty dims v => if fits ty dims v then .ok (some v) else .error .fail
  cast := fun ty dims v => if fits ty dims v then .ok v else .error .fail

/-- raw text of a lexed line with the casts of the implementation -/
def castInterp (P : Params) : Interp Raw where
  init := fun ty dims r => initValue P ty dims (some r)
  cast := fun ty dims r => match r with
    | .text s => P.castText ty dims s
    | .cells _ _ => .error .unsupported

structure SNode where
  name : Str
  ty : Ty
  info : TyInfo
  dims : Option (List Dim)
  units : Option Str
  value : Option Val          -- `none`: no value object (declared, not yet assigned)
  frozen : Bool := false
deriving Repr, DecidableEq

/-- units written on typed lines must exist; bool / str typed lines carry none -/
def unitsOk {α : Type} (unitKnown : Str → Bool) : Payload α → Bool
  | .typed ty _ _ (some u) _ => (ty == .int || ty == .float) && unitKnown u
  | _ => true

/-- the value `r` written with unit `uk` assigned to parameter `s`: cast to the parameter's type
    and shape, `none` stays `none`, otherwise converted into the parameter's unit -/
def assignValue {α : Type} (I : Interp α) (conv : Str → Str → Rat → R Rat) (s : SNode)
    (uk : Option Str) (r : α) : R SNode := do
  let v ← I.cast s.ty s.dims r
  if v = .none then .ok { s with value := some .none }
  else do
    let v' ← convertG conv s.ty s.units uk v
    .ok { s with value := some v' }

/-- one later occurrence of a path -/
def assignTo {α : Type} (I : Interp α) (conv : Str → Str → Rat → R Rat) (unitKnown : Str → Bool)
    (s : SNode) (p : Payload α) : R SNode :=
  match p with
  | .const => .ok { s with frozen := true }
  | .typed ty info dims u v =>
    if !unitsOk unitKnown (.typed ty info dims u v) then .error .fail
    else if s.frozen then .error .fail
    else if ty != s.ty then .error .fail
    else match v with
      | none => .error .fail                      -- a line without value assigns nothing
      | some r => do
        -- a typed modification is a definition of its own: its value must fit its own shape
        let _ ← I.init ty dims r
        assignValue I conv s u r
  | .mod u r =>
    if s.frozen then .error .fail else assignValue I conv s u r
  | _ => .error .fail

/-- the first occurrence of a path -/
def firstOf {α : Type} (I : Interp α) (unitKnown : Str → Bool) (path : Str) (p : Payload α) : R SNode :=
  match p with
  | .typed ty info dims u v =>
    if !unitsOk unitKnown (.typed ty info dims u v) then .error .fail
    else match v with
      | some r => do
          let w ← I.init ty dims r
          .ok { name := path, ty, info, dims, units := u, value := w }
      | none => .ok { name := path, ty, info, dims, units := u, value := none }
  | _ => .error .fail                                -- assignment to an undefined path

def foldAssign {α : Type} (I : Interp α) (conv : Str → Str → Rat → R Rat) (unitKnown : Str → Bool) :
    SNode → List (Payload α) → R SNode
  | s, [] => .ok s
  | s, p :: t => do
      let s' ← assignTo I conv unitKnown s p
      foldAssign I conv unitKnown s' t

/-- all payloads recorded under `path`, in text order -/
def occOf {α : Type} (path : Str) (os : List (Option Str × Payload α)) : List (Payload α) :=
  (os.filter (fun o => o.1 == some path)).map Prod.snd

/-- the parameter for one path from all its occurrences -/
def specNode {α : Type} (I : Interp α) (conv : Str → Str → Rat → R Rat) (unitKnown : Str → Bool)
    (path : Str) (os : List (Option Str × Payload α)) : R SNode :=
  match occOf path os with
  | [] => .error .fail
  | f :: later => do
      let s ← firstOf I unitKnown path f
      foldAssign I conv unitKnown s later

/-- the elements of the list that are not in `seen`, each once, in order of first appearance -/
def dedupFrom (seen : List Str) : List Str → List Str
  | [] => []
  | a :: t => if seen.contains a then dedupFrom seen t else a :: dedupFrom (a :: seen) t

/-- distinct paths in order of first appearance -/
def pathsOf {α : Type} (os : List (Option Str × Payload α)) : List Str :=
  dedupFrom [] (os.filterMap (fun o => o.1))

/-- the whole specification on occurrences -/
def specOcc {α : Type} (I : Interp α) (conv : Str → Str → Rat → R Rat) (unitKnown : Str → Bool)
    (os : List (Option Str × Payload α)) : R (List SNode) :=
  if os.any (fun o => o.1.isNone) then .error .fail            -- `!constant` with nothing to mark
  else do
    let ns ← (pathsOf os).mapM (fun p => specNode I conv unitKnown p os)
    if ns.any (fun s => s.value.isNone) then .error .fail       -- declared, never assigned
    else .ok ns

/-- the whole specification -/
def specRunG {α : Type} (I : Interp α) (conv : Str → Str → Rat → R Rat) (unitKnown : Str → Bool)
    (ls : List (ALine α)) : R (List SNode) :=
  specOcc I conv unitKnown (occurrences [] [] ls)

/-- on typed values (what the harness sends) -/
def specRun (conv : Str → Str → Rat → R Rat) (unitKnown : Str → Bool) (ls : List (ALine Val)) : R (List SNode) :=
  specRunG fitsInterp conv unitKnown ls

end SciVerif.C13
