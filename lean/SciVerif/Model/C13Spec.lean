import SciVerif.Model.C13Cast
/-
Specification for C13 / C14 on the *abstract* sequence of lines `(indent, name, payload)`:

  * parent of a line = nearest preceding name-bearing line with smaller indentation;
    path = names of all ancestors ++ own name, joined by '.';
  * one parameter per distinct path, in order of first appearance;
  * type, width/sign, dimension and unit come from the first occurrence; the value is the one
    of the last occurrence, converted from its unit (or the definition's unit when it has none)
    into the definition's unit;
  * a different type, a unit of another dimension, an assignment after `!constant`, an
    assignment to an undefined path, or a declared path never assigned make the whole parse fail.

The payload values are already typed (`Val`), there is no text and no casting here.
-/
namespace SciVerif.C13

inductive Payload where
  | skip                                            -- blank / comment / $unit line
  | group
  | defn (ty : Ty) (info : TyInfo) (dims : Option (List Dim)) (unit : Option Str) (v : Val)
  | decl (ty : Ty) (info : TyInfo) (dims : Option (List Dim)) (unit : Option Str)
  | assign (ty : Option Ty) (unit : Option Str) (v : Val)
  | const
deriving Repr, DecidableEq

structure ALine where
  indent : Nat
  name : Str
  p : Payload
deriving Repr, DecidableEq

/-- Ancestors of a line with indentation `m`, nearest first, among the earlier name-bearing
    lines given latest-first: the nearest earlier line with a smaller indentation, then the
    nearest line before *that* with a still smaller one, and so on. -/
def anc (m : Nat) : List (Nat × Str) → List (Nat × Str)
  | [] => []
  | (d, n) :: rest => if d < m then (d, n) :: anc d rest else anc m rest

/-- the parent alone: nearest earlier line with a smaller indentation -/
def parent? (m : Nat) (earlier : List (Nat × Str)) : Option (Nat × Str) :=
  earlier.find? (fun p => decide (p.1 < m))

def specPath (earlier : List (Nat × Str)) (d : Nat) (nm : Str) : Str :=
  joinWith ['.'] (((anc d earlier).reverse.map Prod.snd) ++ [nm])

def Payload.nameBearing : Payload → Bool
  | .group | .defn .. | .decl .. | .assign .. => true
  | _ => false

def Payload.valueBearing : Payload → Bool
  | .defn .. | .decl .. | .assign .. => true
  | _ => false

/-- occurrences `(path, payload)` of value-bearing lines in text order; a `!constant` line is
    recorded under the path of the value-bearing line before it -/
def occurrences : List (Nat × Str) → Option Str → List ALine → List (Str × Payload)
  | _, _, [] => []
  | earlier, last, l :: t =>
    if l.p.nameBearing then
      let path := specPath earlier l.indent l.name
      let earlier' := (l.indent, l.name) :: earlier
      if l.p.valueBearing then (path, l.p) :: occurrences earlier' (some path) t
      else occurrences earlier' last t
    else if l.p = .const then
      match last with
      | some path => (path, .const) :: occurrences earlier last t
      | none => ([], .const) :: occurrences earlier last t     -- nothing to mark: error below
    else occurrences earlier last t

def atomFits (ty : Ty) : Atom → Bool
  | .bool _ => ty == .bool
  | .num q => ty == .float || (ty == .int && q.den == 1)
  | .str _ => ty == .str

/-- the value is a literal of the declared type and shape -/
def fits (ty : Ty) (dims : Option (List Dim)) : Val → Bool
  | .none => true
  | .scalar a => dims.isNone && atomFits ty a
  | .array sh el =>
    (match dims with | some ds => checkDims ds sh | none => false) && el.all (atomFits ty) &&
      el.length == sh.foldl (· * ·) 1

structure SNode where
  name : Str
  ty : Ty
  info : TyInfo
  dims : Option (List Dim)
  units : Option Str
  value : Option Val          -- `none`: declared, not yet assigned
  frozen : Bool := false
deriving Repr, DecidableEq

/-- "last assignment wins, in the unit of the definition" for one later occurrence -/
def assignTo (conv : Str → Str → Rat → R Rat) (s : SNode) : Payload → R SNode
  | .const => .ok { s with frozen := true }
  | .assign ty u v =>
    if s.frozen then .error .fail
    else if (match ty with | some t => t != s.ty | none => false) then .error .fail
    else if !fits s.ty s.dims v then .error .fail
    else if v = .none then .ok { s with value := some .none }
    else match s.units, u with
      | none, some _ => .error .unsupported        -- outside the quantified domain (see ASSUMPTIONS)
      | some u0, some uk =>
        if uk = u0 then .ok { s with value := some v }
        else match v with
          | .scalar (.num q) => do
              let q' ← conv uk u0 q
              .ok { s with value := some (.scalar (.num q')) }
          | .array sh el => do
              let el' ← mapAtoms (conv uk u0) el
              .ok { s with value := some (.array sh el') }
          | _ => .error .fail
      | _, none => .ok { s with value := some v }
  | _ => .error .unsupported

def firstOf (path : Str) : Payload → R SNode
  | .defn ty info dims u v =>
    if fits ty dims v then .ok { name := path, ty, info, dims, units := u, value := some v }
    else .error .fail
  | .decl ty info dims u => .ok { name := path, ty, info, dims, units := u, value := none }
  | _ => .error .fail                                -- assignment to an undefined path

def foldAssign (conv : Str → Str → Rat → R Rat) : SNode → List Payload → R SNode
  | s, [] => .ok s
  | s, p :: t => do
      let s' ← assignTo conv s p
      foldAssign conv s' t

/-- the parameter for one path from all its occurrences -/
def specNode (conv : Str → Str → Rat → R Rat) (path : Str) (os : List (Str × Payload)) : R SNode :=
  match (os.filter (fun o => o.1 = path)).map Prod.snd with
  | [] => .error .fail
  | f :: later => do
      let s ← firstOf path f
      let s' ← foldAssign conv s later
      if s'.value.isNone then .error .fail else .ok s'

def dedup : List Str → List Str
  | [] => []
  | a :: t => a :: (dedup t).filter (fun b => b != a)

/-- the whole specification -/
def specRun (conv : Str → Str → Rat → R Rat) (unitKnown : Str → Bool) (ls : List ALine) :
    R (List SNode) :=
  let os := occurrences [] none ls
  -- units written on numeric lines must exist; bool / str lines carry no unit
  let unitsOk := ls.all (fun l => match l.p with
    | .defn ty _ _ (some u) _ => (ty == .int || ty == .float) && unitKnown u
    | .decl ty _ _ (some u) => (ty == .int || ty == .float) && unitKnown u
    | .assign (some ty) (some u) _ => (ty == .int || ty == .float) && unitKnown u
    | _ => true)
  if !unitsOk then .error .fail
  else if os.any (fun o => o.1.isEmpty && o.2 = .const) then .error .fail
  else (dedup ((os.filter (fun o => o.2.valueBearing)).map Prod.fst)).mapM (fun p => specNode conv p os)

end SciVerif.C13
