import Lean.Elab.Term
/-!
# C19 — base vocabulary of the configuration-export model

Strings are `List Char` (kernel-friendly); `cs!"…"` is a literal for them.
No Mathlib; everything here is executable and compiled into `drv_c19`.
-/
namespace SciVerif.C19

abbrev Str := List Char

open Lean in
/-- `cs!"abc"` = `['a','b','c']` (expanded at elaboration time, so the kernel never
    has to reduce `String.toList`). -/
macro "cs!" s:str : term => do
  let elems : Array (TSyntax `term) :=
    s.getString.toList.toArray.map (fun c => ⟨(Syntax.mkCharLit c).raw⟩)
  `(([$elems,*] : List Char))

/-- DIP data types (`settings`/`datatypes`): the keyword class; widths are carried separately. -/
inductive Kind | bool | int | uint | float | str
  deriving DecidableEq, Repr, Inhabited

/-- A scalar as the environment holds it.  Floats are carried as the text Python's `str(float)`
    produces for them (the exporters print exactly that text; its decimal meaning is the value). -/
inductive Scalar
  | b (v : Bool)
  | i (v : Int)
  | f (tok : Str)
  | s (v : Str)
  deriving DecidableEq, Repr, Inhabited

/-- Nested lists (what `ndarray.tolist()` gives) with leaves of type `α`. -/
inductive Tree (α : Type) where
  | leaf (a : α) : Tree α
  | arr (ts : List (Tree α)) : Tree α
  deriving Repr, Inhabited

abbrev Val := Tree Scalar
abbrev TokTree := Tree Str

structure Param where
  name : Str
  kind : Kind
  bits : Nat            -- precision (0 for bool / str)
  value : Val
  unit : Option Str
  tags : List Str
  deriving Repr, Inhabited

/-! ## decimal numerals (`str(int)`) -/

def digitChar (d : Nat) : Char := Char.ofNat (48 + d)

def charDigit? (c : Char) : Option Nat :=
  if 48 ≤ c.toNat ∧ c.toNat ≤ 57 then some (c.toNat - 48) else none

/-- little-endian decimal digits; `fuel` only bounds the recursion (`n + 1` always suffices). -/
def digitsLE : Nat → Nat → List Nat
  | 0, _ => []
  | f + 1, n => if n < 10 then [n] else (n % 10) :: digitsLE f (n / 10)

def valLE : List Nat → Nat
  | [] => 0
  | d :: ds => d + 10 * valLE ds

def showNat (n : Nat) : Str := ((digitsLE (n + 1) n).reverse).map digitChar

def digitsOf : Str → Option (List Nat)
  | [] => some []
  | c :: cs =>
    match charDigit? c, digitsOf cs with
    | some d, some ds => some (d :: ds)
    | _, _ => none

def readNat (s : Str) : Option Nat :=
  match digitsOf s with
  | none => none
  | some [] => none
  | some (d :: ds) => some (valLE (d :: ds).reverse)

def showInt : Int → Str
  | Int.ofNat n => showNat n
  | Int.negSucc n => '-' :: showNat (n + 1)

def readInt : Str → Option Int
  | '-' :: r => (readNat r).map (fun n => - (Int.ofNat n))
  | s => (readNat s).map Int.ofNat

/-! ## small list helpers -/

/-- Python `sep.join(parts)`. -/
def joinWith (sep : Str) : List Str → Str
  | [] => []
  | [a] => a
  | a :: b :: r => a ++ sep ++ joinWith sep (b :: r)

/-- `s.startswith(p)` returning the remainder. -/
def dropPrefix? : Str → Str → Option Str
  | [], s => some s
  | _ :: _, [] => none
  | p :: ps, c :: cs => if p = c then dropPrefix? ps cs else none

/-- Split on a separator character (Python `s.split(c)`). -/
def splitOn (c : Char) : Str → List Str
  | [] => [[]]
  | x :: xs =>
    match splitOn c xs with
    | [] => [[]]            -- unreachable
    | h :: t => if x = c then [] :: h :: t else (x :: h) :: t

def lines (s : Str) : List Str := splitOn '\n' s

end SciVerif.C19
