/-!
# C04 — model of unit conversion (`scinumtools.units`)

Mirrors, statement by statement,

* `fraction.py`   `Fraction.__eq__` (cross-multiplication), `__add__`, `__mul__`, `__neg__`
* `dimensions.py` `Dimensions.__add__/__mul__/__neg__/__eq__` (8 components)
* `base_units.py` `BaseUnits.__init__` accumulation (magnitude product, dimension sum,
                  `units`, `nobase`, zero-exponent deletion) — the *parser* is C03's and is
                  not modelled: a unit expression enters as its list of dict items
* `quantity.py`   `Quantity.__init__` ("rebase if dimensions are zero"), `_convert`
                  (first class of `UNIT_TYPES` whose `_istype` accepts), `value(expr)`,
                  `to(expr)` (state assigned only after a successful conversion)
* `unit_types.py` `UnitType.__new__/convert` (`f(value·mag1)/mag2`), `StandardUnitType`

The number type `α` is a parameter (`Float` in the driver, any field in the theorems).
No Mathlib import: this file is compiled into `drv_c04`/`drv_c05`.
-/
namespace SciVerif.C04

/-! ## Fraction, Dimensions -/

/-- `Fraction` (numerator and denominator as written; never normalised by arithmetic). -/
structure Frac where
  num : Int
  den : Int
  deriving Repr, DecidableEq, Inhabited

namespace Frac
/-- `Fraction.__eq__`: `isclose(self.num*other.den, other.num*self.den, abs_tol=1e-7)` on
    integers; for |products| < 10^9 (assumption A1) this is integer equality. -/
def eq (a b : Frac) : Bool := a.num * b.den == b.num * a.den
def add (a b : Frac) : Frac := ⟨a.num * b.den + b.num * a.den, a.den * b.den⟩
def mul (a b : Frac) : Frac := ⟨a.num * b.num, a.den * b.den⟩
/-- `Fraction.__mul__` with a plain int. -/
def mulInt (a : Frac) (k : Int) : Frac := ⟨a.num * k, a.den⟩
def zero : Frac := ⟨0, 1⟩
end Frac

/-- `Dimensions`: the 8 components in `DIMENSION_LIST` order. -/
abbrev Dims := List Frac

namespace Dims
def zero : Dims := List.replicate 8 Frac.zero
/-- `Dimensions.__eq__`: all components `Fraction.__eq__`. -/
def eq : Dims → Dims → Bool
  | [], [] => true
  | a :: as, b :: bs => a.eq b && eq as bs
  | _, _ => false
def add : Dims → Dims → Dims
  | a :: as, b :: bs => a.add b :: add as bs
  | _, _ => []
/-- `Dimensions.__mul__(Fraction)`. -/
def mulFrac (a : Dims) (e : Frac) : Dims := a.map (·.mul e)
/-- `Dimensions.__neg__`: every component `* -1`. -/
def neg (a : Dims) : Dims := a.map (·.mulInt (-1))
/-- `Dimensions.nodim` (set in `__post_init__`): every numerator is 0. -/
def nodim (a : Dims) : Bool := a.all (·.num == 0)
end Dims

/-! ## BaseUnits -/

/-- Float power `x ** exp.value(dtype=float)` of `get_unit_base`. -/
class PowFrac (α : Type) where
  powf : α → Frac → α

/-- One entry of the `baseunits` dict together with what `get_unit_base` reads from the
    tables for it. -/
structure Item (α : Type) where
  unitid : String          -- dict key, e.g. "k:m", "J", "#SLEN"
  base   : String          -- `Base.units`: the table symbol
  pmag   : Option α        -- prefix magnitude (`none` when the key has no prefix)
  umag   : α               -- table magnitude of the symbol
  dims   : Dims            -- table dimensions of the symbol (`Dimensions.from_list`)
  exp    : Frac            -- exponent
  deriving Inhabited, DecidableEq

/-- `BaseUnits` after `__init__`. `tag` identifies the object (which expression it came
    from); `items` is the dict after zero-exponent deletion. -/
structure BU (α : Type) where
  magnitude : α
  dims      : Dims
  units     : List String
  nobase    : Bool
  items     : List (Item α)
  tag       : Nat
  deriving Inhabited, DecidableEq

variable {α : Type}

/-- `get_unit_base(unitid, exp).magnitude`. -/
def Item.magnitude [Mul α] [PowFrac α] (i : Item α) : α :=
  match i.pmag with
  | some p => PowFrac.powf (p * i.umag) i.exp
  | none => PowFrac.powf i.umag i.exp

/-- The loop of `BaseUnits.__init__`. -/
def mkBUAux [Mul α] [PowFrac α] : List (Item α) → BU α → BU α
  | [], acc => acc
  | i :: is, acc =>
    if i.exp.num == 0 then mkBUAux is acc          -- `del self.baseunits[unitid]; continue`
    else mkBUAux is { acc with
      magnitude := acc.magnitude * i.magnitude
      dims := acc.dims.add (i.dims.mulFrac i.exp)
      units := acc.units ++ [i.base]
      nobase := false
      items := acc.items ++ [i] }

def mkBU [Mul α] [One α] [PowFrac α] (tag : Nat) (items : List (Item α)) : BU α :=
  mkBUAux items { magnitude := 1, dims := Dims.zero, units := [], nobase := true, items := [], tag := tag }

/-! ## Magnitude values (scalar or array) -/

inductive Mag (α : Type) where
  | scalar (x : α)
  | arr (xs : List α)
  deriving Repr, Inhabited, DecidableEq

def Mag.map (f : α → α) : Mag α → Mag α
  | .scalar x => .scalar (f x)
  | .arr xs => .arr (xs.map f)

/-! ## Unit types and `_convert` -/

inductive Err where
  | unsupported      -- "Unsupported conversion between units"
  | notImplemented   -- "Conversion method is not implemented"
  | onlySimple       -- "Only simple (and fraction) units can be converted…"
  deriving Repr, DecidableEq, Inhabited

/-- Outcome of `utype(baseunits1, baseunits2)` followed by the `hasattr` test of `convert`. -/
inductive Sel (α : Type) where
  | decline                    -- `_istype` returned False: `__new__` gives None
  | raise (e : Err)            -- `_istype` raised
  | missing                    -- accepted, but the named `_convert_…` method does not exist
  | accept (f : α → α)         -- accepted with this inner function

/-- A unit-type class: what its `_istype` decides for a pair of `BaseUnits`. -/
abbrev Rule (α : Type) := BU α → BU α → Sel α

/-- `Quantity._convert` + `UnitType.convert`: the first class in the list that does not
    decline decides; the inner function is wrapped as `f(value·mag1)/mag2`. -/
def pick [Mul α] [Div α] : List (Rule α) → BU α → BU α → Except Err (α → α)
  | [], _, _ => .error .unsupported
  | r :: rs, b1, b2 =>
    match r b1 b2 with
    | .decline => pick rs b1 b2
    | .raise e => .error e
    | .missing => .error .notImplemented
    | .accept f => .ok (fun x => f (x * b1.magnitude) / b2.magnitude)

/-- `self.baseunits2.dimensions.rad.num==self.baseunits2.dimensions.rad.den`: the radian
    component (index 7 of `DIMENSION_LIST`) is the first power. -/
def radOne (d : Dims) : Bool :=
  match d[7]? with
  | some f => f.num == f.den
  | none => false

/-- `StandardUnitType._istype` with `_convert_linear` / `_convert_inversed`. -/
def standard [Div α] [One α] : Rule α := fun b1 b2 =>
  if b1.dims.eq b2.dims then .accept (fun v => v)
  else if b1.dims.neg.eq b2.dims then .accept (fun v => 1 / v)
  else if b1.nobase && b2.units == ["rad"] && radOne b2.dims then .accept (fun v => v)
  else .decline

/-! ## Quantity -/

structure Q (α : Type) where
  val : Mag α
  bu  : BU α
  deriving Inhabited, DecidableEq

/-- `Quantity.__init__(magnitude, str)` after parsing, including "rebase if dimensions are
    zero": dimensionless compounds lose every unit that has a dimension, its factor being
    folded into the magnitude. -/
def Q.init [Mul α] [One α] [PowFrac α] (tag : Nat) (x : Mag α) (items : List (Item α)) : Q α :=
  let b := mkBU tag items
  if b.dims.nodim then
    let keep := b.items.filter (fun i => (i.dims.mulFrac i.exp).nodim)
    let drop := b.items.filter (fun i => !(i.dims.mulFrac i.exp).nodim)
    let x' := drop.foldl (fun (m : Mag α) i => m.map (· * i.magnitude)) x
    { val := x', bu := mkBU tag keep }
  else { val := x, bu := b }

/-- `Quantity.value(expression)` (expression given): out of place. -/
def Q.valueIn [Mul α] [Div α] (types : List (Rule α)) (q : Q α) (b2 : BU α) : Except Err (Mag α) :=
  match pick types q.bu b2 with
  | .ok g => .ok (q.val.map g)
  | .error e => .error e

/-- `Quantity.to(units)` as a state transformer: the new state and whether it succeeded.
    An exception leaves `self.magnitude` and `self.baseunits` unassigned, i.e. as they were. -/
def Q.to [Mul α] [Div α] (types : List (Rule α)) (q : Q α) (b2 : BU α) : Q α × Bool :=
  match pick types q.bu b2 with
  | .ok g => ({ val := q.val.map g, bu := b2 }, true)
  | .error _ => (q, false)

/-- `Quantity.to(units)` when `units` is itself a `Quantity` (e.g. `Unit().m`, `2*Unit('s')`,
    `Quantity(2,'s')`) with scalar magnitude `tm` and base units `tb`:
    `self.magnitude = self._convert(self.magnitude, self.baseunits, units.baseunits) / units.magnitude`,
    one statement — the division happens only after a successful conversion, so a refusal
    leaves the quantity as it was. -/
def Q.toQuantity [Mul α] [Div α] (types : List (Rule α)) (q : Q α) (tm : α) (tb : BU α) : Q α × Bool :=
  match pick types q.bu tb with
  | .ok g => ({ val := q.val.map (fun x => g x / tm), bu := tb }, true)
  | .error _ => (q, false)

/-- `UnitType.convert` together with the uncertainty it carries: the value is computed from
    the value alone; what happens to the error (scaled for linear conversions, C08) is a
    parameter `errf` of this model. Returns `(value, error)`. -/
def Q.valueInWithError [Mul α] [Div α] (types : List (Rule α)) (q : Q α) (err : Option (Mag α))
    (errf : (α → α) → Mag α → Mag α) (b2 : BU α) : Except Err (Mag α × Option (Mag α)) :=
  match pick types q.bu b2 with
  | .ok g => .ok (q.val.map g, err.map (errf g))
  | .error e => .error e

/-- `Unit().<symbol>` / `Unit(symbol)`: a *fresh* `Quantity(1, symbol)` on every access. -/
def unitAttr [Mul α] [One α] [PowFrac α] (tag : Nat) (items : List (Item α)) : Q α :=
  Q.init tag (.scalar 1) items

/-! ## Specification -/

/-- What the property prescribes for a conversion of `x` with factors `f1`, `f2`. -/
inductive Kind where
  | same | reciprocal | numberToRad | refuse
  deriving Repr, DecidableEq, Inhabited

def specValue [Mul α] [Div α] [One α] (k : Kind) (f1 f2 x : α) : Option α :=
  match k with
  | .same => some (x * f1 / f2)
  | .reciprocal => some (1 / (x * f1) / f2)
  | .numberToRad => some (x * f1 / f2)
  | .refuse => none

/-- Semantic classification used by the specification side of the driver: dimension
    vectors compared as exact rationals (`num/den`), independent of `Fraction.__eq__`. -/
def ratOf (f : Frac) : Rat := (f.num : Rat) / (f.den : Rat)

def specKind (d1 d2 : Dims) (nobase1 : Bool) (single2 : Option (String × Frac)) : Kind :=
  let r1 := d1.map ratOf
  let r2 := d2.map ratOf
  if r1 == r2 then .same
  else if r1.map (fun q => -q) == r2 then .reciprocal
  else if nobase1 && (match single2 with
                      | some (b, e) => b == "rad" && ratOf e == 1
                      | none => false) then .numberToRad
  else .refuse

end SciVerif.C04
