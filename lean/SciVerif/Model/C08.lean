/-
Model of `scinumtools/units/magnitude.py` (class `Magnitude`) and of the error handling of
`unit_types.py UnitType.convert` (properties C08 and, for the value part, C06).

The model is polymorphic in the type `V` of numerical values:
  * `V = ℝ` (or any linearly ordered field) in the theorems (`Props/C08.lean`),
  * `V = Val` (a float scalar or a float array with numpy broadcasting, `Drive/C08.lean`)
    in the compiled driver that is compared with the real classes on every run.
The arithmetic operators are the ones of `V`; the numpy primitives the code calls are
collected in `ValOps`.

No Mathlib imports: this file is compiled into `drv_c06` / `drv_c08`.
-/
namespace SciVerif.C08

/-- numpy primitives used by `magnitude.py`. -/
class ValOps (V : Type) where
  /-- `np.abs(x)` -/
  abs : V → V
  /-- `np.max([x, y])` : for scalars the larger one; for arrays the largest element of both
      (a scalar) — as written in `_mul` / `_truediv`. -/
  gmax : V → V → V
  /-- `np.full_like(value, error)` if `value` is an array, else `error` (constructor, last lines). -/
  fillLike : V → V → V
  /-- `x ** p` for a Python float `p` (the float is given as the rational it denotes). -/
  rpow : V → Rat → V
  /-- a Python number as a value -/
  ofRat : Rat → V

export ValOps (abs gmax fillLike rpow ofRat)

/-- `Magnitude`: a value and an optional absolute error (`None` = exact). -/
structure Mag (V : Type) where
  value : V
  error : Option V

variable {V : Type} [Add V] [Sub V] [Mul V] [Div V] [Neg V] [OfNat V 100] [ValOps V]

/-- `Magnitude(value, abse)` : the constructor (float / array branch). Every admissible input —
    int, float, list, ndarray of any numeric dtype, numpy scalar — is cast to float
    (`float(value)`, `np.array(value, dtype=float)`, `value.astype(float)`: always a fresh float
    array), so values enter the model as elements of `V`; integer arithmetic and views of the
    caller's array do not exist in the model, and the correspondence checks exactly that. -/
def Mag.new (value : V) (error : Option V) : Mag V :=
  ⟨value, error.map (fillLike value)⟩

/-- `Magnitude(x)` for a plain number -/
def Mag.exact (value : V) : Mag V := Mag.new value none

/-- `_rel_to_abs` : `np.abs(self.value)*rele/100` -/
def relToAbs (value rele : V) : V := abs value * rele / 100

/-- `_abs_to_rel` : `100*abse/np.abs(self.value)` -/
def absToRel (value abse : V) : V := 100 * abse / abs value

/-- `Magnitude(value, rele=r)` -/
def Mag.newRel (value rele : V) : Mag V := Mag.new value (some (relToAbs value rele))

/-- `m.rele()` -/
def Mag.rele (m : Mag V) : Option V := m.error.map (absToRel m.value)

/-- the error rule shared by `_add` and `_sub` -/
def sumErr : Option V → Option V → Option V
  | none, none => none
  | none, some r => some r
  | some l, none => some l
  | some l, some r => some (l + r)

/-- `Magnitude._add(left, right)` -/
def Mag.add (l r : Mag V) : Mag V := Mag.new (l.value + r.value) (sumErr l.error r.error)

/-- `Magnitude._sub(left, right)` -/
def Mag.sub (l r : Mag V) : Mag V := Mag.new (l.value - r.value) (sumErr l.error r.error)

/-- the error computed by `_mul` -/
def mulErr (lv rv : V) : Option V → Option V → Option V
  | none, none => none
  | none, some re => some (re * abs lv)
  | some le, none => some (le * abs rv)
  | some le, some re =>
    let value := lv * rv
    let maxerror := abs ((lv + le) * (rv + re) - value)
    let minerror := abs ((lv - le) * (rv - re) - value)
    some (gmax maxerror minerror)

/-- `Magnitude._mul(left, right)` -/
def Mag.mul (l r : Mag V) : Mag V := Mag.new (l.value * r.value) (mulErr l.value r.value l.error r.error)

/-- the error computed by `_truediv` -/
def divErr (lv rv : V) : Option V → Option V → Option V
  | none, none => none
  | none, some re =>
    let value := lv / rv
    let maxerror := abs (lv / (rv + re) - value)
    let minerror := abs (lv / (rv - re) - value)
    some (gmax maxerror minerror)
  | some le, none => some (le / abs rv)
  | some le, some re =>
    let value := lv / rv
    let maxerror := abs ((lv + le) / (rv - re) - value)
    let minerror := abs ((lv - le) / (rv + re) - value)
    some (gmax maxerror minerror)

/-- `Magnitude._truediv(left, right)` -/
def Mag.div (l r : Mag V) : Mag V := Mag.new (l.value / r.value) (divErr l.value r.value l.error r.error)

/-- the error computed by `__pow__`: `self._rel_to_abs(self._abs_to_rel()*np.abs(power))`
    (both helpers use the value *before* the power is taken, as written). -/
def powErr (v : V) (p : Rat) : Option V → Option V
  | none => none
  | some e => some (relToAbs v (absToRel v e * ofRat (if p < 0 then -p else p)))

/-- `Magnitude.__pow__(power)` -/
def Mag.pow (m : Mag V) (p : Rat) : Mag V := Mag.new (rpow m.value p) (powErr m.value p m.error)

/-- `Magnitude.__neg__` -/
def Mag.neg (m : Mag V) : Mag V := Mag.new (-m.value) m.error

/-- `UnitType.convert` with `_convert_linear`: `value*mag1/mag2`; the error is scaled by
    `mag1/mag2`. -/
def Mag.convertLinear (m : Mag V) (mag1 mag2 : V) : Mag V :=
  Mag.new (m.value * mag1 / mag2) (m.error.map (fun e => e * (mag1 / mag2)))

/-- `UnitType.convert` with `_convert_inversed`: `1/(value*mag1)/mag2`; the error is carried
    over unchanged (as written). Needs the literal `1`. -/
def Mag.convertInversed [OfNat V 1] (m : Mag V) (mag1 mag2 : V) : Mag V :=
  Mag.new (1 / (m.value * mag1) / mag2) m.error

/-! ### Specification: the formulas the property names -/

/-- sum rule: the error of a sum/difference is the sum of the operands' errors (`None` = 0) -/
def specSumErr [OfNat V 0] (le re : Option V) : V := le.getD 0 + re.getD 0
/-- scaling by an exact number `k` -/
def specScaleErr (k e : V) : V := abs k * e
/-- division by an exact number `k` -/
def specUnscaleErr (k e : V) : V := e / abs k
/-- first-order error of a product `a*b` -/
def specFirstOrderMul (a da b db : V) : V := abs a * db + abs b * da
/-- first-order error of a quotient `a/b` -/
def specFirstOrderDiv (a da b db : V) : V := (abs a * db + abs b * da) / (b * b)

end SciVerif.C08
