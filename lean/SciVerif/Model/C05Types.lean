/-!
# C05 — shapes of the tables regenerated from `unit_types.py` / `settings.py`

(No Mathlib; imported by `Generated/C05Tables.lean` and `Model/C05.lean`.)
-/
namespace SciVerif.C05

/-- The body of a `LogarithmicUnitType._convert_*` method applied to the extra arguments
    stored in `conversions`, as classified by symbolic execution of the real method:

    * `shift e`      `_convert_B_B(value, exp)`         `value + exp`
    * `scale c`      `_convert_B_Np(value)`             `c*value`
    * `unscale c`    `_convert_Np_B(value)`             `value/c`
    * `ratioB k c`   `_convert_Ratio_B(value,exp,conv)` `exp*log10(value*conv)`
    * `bRatio k c`   `_convert_B_Ratio(value,exp,conv)` `10^(value/exp)*conv`
    * `ratioNp k c`  `_convert_Ratio_Np`                `exp*ln(value*conv)`
    * `npRatio k c`  `_convert_Np_Ratio`                `e^(value/exp)*conv` -/
inductive LogFn where
  | shift (e : Rat)
  | scale (c : Rat)
  | unscale (c : Rat)
  | ratioB (k c : Rat)
  | bRatio (k c : Rat)
  | ratioNp (k c : Rat)
  | npRatio (k c : Rat)
  deriving Repr, DecidableEq, Inhabited

/-- One `_convert_<u>_<v>` method of `TemperatureUnitType`, executed on an exact affine
    abstract value: the method computes `a*value + b`. -/
structure TempEntry where
  name : String      -- method name without the `_convert_` prefix, e.g. "K_Cel"
  u : String
  v : String
  a : Rat
  b : Rat
  deriving Repr, DecidableEq, Inhabited

/-- One entry of `LogarithmicUnitType.conversions` (key as written, its two halves, the
    classified method with its stored arguments). -/
structure LogEntry where
  key : String
  u : String
  v : String
  fn : LogFn
  deriving Repr, DecidableEq, Inhabited

/-- Everything the conversion model reads from the code besides the unit tables. -/
structure Tables where
  unitTypes   : List String          -- class names of `UNIT_TYPES`, in order
  tempProcess : List String
  tempMethods : List TempEntry
  logProcess  : List String
  logConversions : List LogEntry
  /-- methods reachable through the name fallback `_convert_<u>_<v>` with defaults only -/
  logMethods  : List LogEntry
  deriving Repr, Inhabited

end SciVerif.C05
