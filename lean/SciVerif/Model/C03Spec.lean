import SciVerif.Model.C03

/-!
# C03 — specification: unit AST and its denotation

`U` is the abstract syntax of unit expressions, `denote` the meaning the property talks
about: a numeric coefficient and a *multiset* of (unit, rational exponent) pairs — a product
appends the multisets, a quotient appends the negated one.  The exponent of a unit is the sum
over its pairs, the dimension vector the sum of `e·dim`, the factor the product of
`(prefix·unit)^e`.  `specParse` is the plain grammar (atoms separated by `*`/`/`, parentheses)
used to judge arbitrary strings.
-/
namespace SciVerif.C03

inductive U
  | atom (pre base : Str) (exp : Str)
  | sys (name : Str) (exp : Str)
  | num (text : Str)
  | mul (a b : U)
  | div (a b : U)
  | par (a : U)
deriving DecidableEq, Repr

def U.render : U → Str
  | .atom p b x => p ++ b ++ x
  | .sys n x => n ++ x
  | .num t => t
  | .mul a b => a.render ++ '*' :: b.render
  | .div a b => a.render ++ '/' :: b.render
  | .par a => '(' :: a.render ++ [')']

/-- `*` and `/` associate to the left: a right operand is a leaf or parenthesised -/
def U.isOp : U → Bool
  | .mul _ _ => true
  | .div _ _ => true
  | _ => false

def U.leftAssoc : U → Bool
  | .mul a b => a.leftAssoc && b.leftAssoc && !b.isOp
  | .div a b => a.leftAssoc && b.leftAssoc && !b.isOp
  | .par a => a.leftAssoc
  | _ => true

/-- meaning of an exponent text: none written = 1, `n`, or `n:d` with `d ≠ 0` -/
def specExp (x : Str) : Option Rat :=
  if x = [] then some 1 else
  match Frac.fromString x with
  | some f => if f.den = 0 then none else some f.toRat
  | none => none

/-- a prefix–unit pair the tables allow -/
def admissible (T : Tables) (p b : Str) : Prop :=
  ∃ row ∈ T.units, row.sym = b ∧ (p = [] ∨ (p ∈ T.prefixKeys ∧ admits T row p = true))

def admissibleB (T : Tables) (p b : Str) : Bool :=
  T.units.any (fun row => row.sym == b && (p == [] || (T.prefixKeys.contains p && admits T row p)))

structure Den where
  coef : Rat
  exps : List (UnitId × Rat)
deriving Repr, DecidableEq

def negExps (l : List (UnitId × Rat)) : List (UnitId × Rat) := l.map (fun ue => (ue.1, -ue.2))

/-- the denotation; `none` = not a valid unit expression over the tables -/
def denote (T : Tables) : U → Option Den
  | .atom p b x =>
    if admissibleB T p b then (specExp x).map (fun e => ⟨1, [(.std p b, e)]⟩) else none
  | .sys n x =>
    if (T.findSys n).isSome then (specExp x).map (fun e => ⟨1, [(.sys n, e)]⟩) else none
  | .num t => ((numberParts t).bind floatOfParts).map (fun q => ⟨q, []⟩)
  | .mul a b =>
    match denote T a, denote T b with
    | some x, some y => some ⟨x.coef * y.coef, x.exps ++ y.exps⟩
    | _, _ => none
  | .div a b =>
    match denote T a, denote T b with
    | some x, some y => if y.coef = 0 then none else some ⟨x.coef / y.coef, x.exps ++ negExps y.exps⟩
    | _, _ => none
  | .par a => denote T a

/-- total exponent of a unit in a multiset -/
def expOf (l : List (UnitId × Rat)) (u : UnitId) : Rat :=
  (l.map (fun ue => if ue.1 = u then ue.2 else 0)).sum

/-- table magnitude and dimension vector of a key -/
def unitMag (T : Tables) : UnitId → Option Rat
  | .sys n => (T.findSys n).map (·.mag)
  | .std p b =>
    match T.findUnit b with
    | none => none
    | some row => if p = [] then some row.mag else (T.findPrefix p).map (fun q => q.mag * row.mag)

def unitDims (T : Tables) : UnitId → Option (List Rat)
  | .sys n => (T.findSys n).map (fun r => r.dims.map Frac.toRat)
  | .std _ b => (T.findUnit b).map (fun r => r.dims.map Frac.toRat)

def zeroRDims : List Rat := List.replicate 8 0
def addRDims (a b : List Rat) : List Rat := List.zipWith (· + ·) a b

/-- dimension vector `Σ e·dim(u)` -/
def specDims (T : Tables) : List (UnitId × Rat) → List Rat
  | [] => zeroRDims
  | (u, e) :: rest => addRDims (((unitDims T u).getD zeroRDims).map (e * ·)) (specDims T rest)

/-- distinct keys in order of first occurrence -/
def keysOf (l : List (UnitId × Rat)) : List UnitId := (l.map (·.1)).eraseDups

/-- the grouped map with zero exponents removed -/
def grouped (l : List (UnitId × Rat)) : List (UnitId × Rat) :=
  ((keysOf l).map (fun u => (u, expOf l u))).filter (fun ue => ue.2 != 0)

/-! ## grammar for arbitrary strings -/

inductive Lex
  | atom (s : Str)
  | lp | rp | mul | div
deriving DecidableEq, Repr

def lexFlush (cur : Str) : List Lex :=
  let s := strip cur.reverse
  if s = [] then [] else [.atom s]

def lexer : Str → (cur : Str) → List Lex
  | [], cur => lexFlush cur
  | c :: r, cur =>
    if c = '(' then lexFlush cur ++ .lp :: lexer r []
    else if c = ')' then lexFlush cur ++ .rp :: lexer r []
    else if c = '*' then lexFlush cur ++ .mul :: lexer r []
    else if c = '/' then lexFlush cur ++ .div :: lexer r []
    else lexer r (c :: cur)

/-- all ways to read `s` as prefix? ++ unit symbol ++ exponent characters -/
def decompositions (T : Tables) (s : Str) : List (Str × Str × Str) :=
  ([] :: T.prefixKeys).flatMap (fun p =>
    T.units.filterMap (fun row =>
      if (p ++ row.sym).isPrefixOf s then
        let x := s.drop (p.length + row.sym.length)
        if x.all isExpChar then some (p, row.sym, x) else none
      else none))

/-- the leaf an atom text stands for; an unreadable text becomes an (invalid) bare symbol -/
def leafOf (T : Tables) (s : Str) : U :=
  if (numberParts s).isSome then .num s
  else if s.head? == some '#' then .sys (dropTrail isExpChar s) (trailRun isExpChar s)
  else match (decompositions T s).filter (fun d => admissibleB T d.1 d.2.1) with
    | (p, b, x) :: _ => .atom p b x
    | [] => .atom [] s []

/-- number of admissible readings (1 for every valid atom when fact F1 holds) -/
def readings (T : Tables) (s : Str) : Nat :=
  ((decompositions T s).filter (fun d => admissibleB T d.1 d.2.1)).length

mutual
def pTerm (T : Tables) : Nat → List Lex → Option (U × List Lex)
  | 0, _ => none
  | _ + 1, .atom s :: r => some (leafOf T s, r)
  | f + 1, .lp :: r =>
    match pExpr T f r with
    | some (a, .rp :: r') => some (.par a, r')
    | _ => none
  | _ + 1, _ => none
def pExpr (T : Tables) : Nat → List Lex → Option (U × List Lex)
  | 0, _ => none
  | f + 1, ts =>
    match pTerm T f ts with
    | some (a, r) => pRest T f a r
    | none => none
def pRest (T : Tables) : Nat → U → List Lex → Option (U × List Lex)
  | 0, _, _ => none
  | f + 1, a, .mul :: r =>
    match pTerm T f r with
    | some (b, r') => pRest T f (.mul a b) r'
    | none => none
  | f + 1, a, .div :: r =>
    match pTerm T f r with
    | some (b, r') => pRest T f (.div a b) r'
    | none => none
  | _ + 1, a, r => some (a, r)
end

/-- the grammar: `none` = not an expression -/
def specParse (T : Tables) (s : Str) : Option U :=
  let toks := lexer s []
  match pExpr T (3 * toks.length + 3) toks with
  | some (a, []) => some a
  | _ => none

end SciVerif.C03
