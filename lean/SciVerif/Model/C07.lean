/-
Heap model of `scinumtools.units` for property C07
("operations on quantities never alter their operands; results share no mutable state").

What is modelled (the repaired code, /repo commits 83f1645 f98198d 170158e 5b86228):
  quantity.py   Quantity.__init__ (pass-through of Magnitude / BaseUnits, the "dimensionless" re-build),
                _add/_sub/_mul/_truediv/__pow__/__neg__/__eq__, __array_ufunc__, linspace/logspace and the
                array functions, value(unit), to, rebase, abse, rele
  unit_types.py UnitType.convert / add / sub, LogarithmicUnitType.add / sub
  magnitude.py  Magnitude.__init__ (value copied with `astype`, error filled with `np.full_like` only when the
                value is an array, otherwise *stored as passed*), _add/_sub/_mul/_truediv/__pow__/__neg__
  base_units.py BaseUnits.__init__ (a `dict` / `BaseUnits` argument is *aliased*, zero exponents deleted in
                place), __add__/__sub__/__mul__/__truediv__ (copy of the dict)

The numeric payload is abstracted: every scalar and every array content is a token, every write stores a
fresh token.  Hence "observation unchanged" in the model means "no location the observation reads was
written", which is stronger than equality of numbers.  Facts of unit algebra that steer the control flow
(did a unit type match, is the result dimensionless, was the conversion linear …) are parameters (`Facts`);
all theorems quantify over them.

No Mathlib import: this file is compiled into the driver.
-/
namespace SciVerif.C07

scoped notation "Loc" => Nat
scoped notation "Tok" => Nat

/-- Content of the `value` / `error` attribute of a Magnitude. -/
inductive Ref where
  | none                 -- Python `None`
  | scalar (t : Tok)     -- float / Decimal / numpy scalar: immutable
  | arr (l : Loc)        -- numpy array object at location `l`: mutable
deriving DecidableEq, Repr

def Ref.isArr : Ref → Bool
  | .arr _ => true
  | _ => false

def Ref.isNone : Ref → Bool
  | .none => true
  | _ => false

structure Mag where
  value : Ref
  error : Ref
deriving DecidableEq, Repr

/-- `f = true` : the `value` attribute, `false` : the `error` attribute. -/
def Mag.field (c : Mag) (f : Bool) : Ref := if f then c.value else c.error

structure BU where
  dict : Loc             -- the exponent dict (held by reference)
  cache : Tok            -- magnitude / dimensions / units / expression computed by the constructor
deriving DecidableEq, Repr

structure DictC where
  ver : Tok
  normalised : Bool      -- all entries are Fractions, no zero exponent (what BaseUnits.__init__ establishes)
deriving DecidableEq, Repr

structure Qty where
  mag : Loc
  bu : Loc
deriving DecidableEq, Repr

/-- The heap: one store per class, one counter for fresh locations and fresh tokens. -/
structure Heap where
  q : Loc → Option Qty
  m : Loc → Option Mag
  a : Loc → Option Tok
  b : Loc → Option BU
  d : Loc → Option DictC
  n : Nat

def Heap.empty : Heap := ⟨fun _ => none, fun _ => none, fun _ => none, fun _ => none, fun _ => none, 0⟩

def upd {α : Type} (f : Loc → Option α) (l : Loc) (c : α) : Loc → Option α :=
  fun i => if i = l then some c else f i

/-! ### Magnitude.__init__ -/

/-- What is passed as `abse` to `Magnitude(value, abse)`. -/
inductive ErrArg where
  | none                      -- `None`
  | fresh (arrLike : Bool)    -- result of an arithmetic expression (a new object; an array iff `arrLike`)
  | pass (r : Ref)            -- an existing object handed over *as is* (`error = right.error`, `-self.error` …)
deriving DecidableEq, Repr

structure MagSpec where
  isArr : Bool                -- the value expression is an array
  err : ErrArg
deriving DecidableEq, Repr

/-- a new scalar token or a new array -/
def allocRef (h : Heap) (isArr : Bool) : Ref × Heap :=
  if isArr then (.arr h.n, { h with a := upd h.a h.n h.n, n := h.n + 1 })
  else (.scalar h.n, { h with n := h.n + 1 })

/-- `self.error = abse; if isinstance(self.value, np.ndarray) and self.error is not None:
    self.error = np.full_like(self.value, self.error)` -/
def errRef (h : Heap) (isArr : Bool) : ErrArg → Ref × Heap
  | .none => (.none, h)
  | .fresh arrLike => allocRef h (isArr || arrLike)
  | .pass .none => (.none, h)
  | .pass (.scalar t) => if isArr then allocRef h true else (.scalar t, h)
  | .pass (.arr l) => if isArr then allocRef h true else (.arr l, h)   -- stored as passed: an alias

/-- `Magnitude(value_expression, abse)`: the value is always a new object (`float(…)`, `np.array(…)`,
    `value.astype(float)`). Returns the location of the new Magnitude. -/
def newMag (h : Heap) (s : MagSpec) : Loc × Heap :=
  let v := allocRef h s.isArr
  let e := errRef v.2 s.isArr s.err
  (e.2.n, { e.2 with m := upd e.2.m e.2.n ⟨v.1, e.1⟩, n := e.2.n + 1 })

def newMags (h : Heap) : List MagSpec → Heap
  | [] => h
  | s :: ss => newMags (newMag h s).2 ss

/-! ### BaseUnits.__init__ -/

inductive BUSpec where
  | fresh                 -- from text / None / a dict built by this operation: new dict, new BaseUnits
  | aliasDict (b : Loc)   -- `BaseUnits(other_baseunits)`: new BaseUnits over the *same* dict
  | share (b : Loc)       -- the BaseUnits object itself is handed over (`Quantity(magnitude, left.baseunits)`)
deriving DecidableEq, Repr

/-- new BaseUnits object over dict `dl`; the constructor loop rewrites the dict only if it still
    contains a non-Fraction or a zero exponent -/
def buOver (h : Heap) (dl : Loc) : Loc × Heap :=
  let h1 : Heap := match h.d dl with
    | some dc => if dc.normalised then h
                 else { h with d := upd h.d dl ⟨h.n, true⟩, n := h.n + 1 }
    | none => h
  (h1.n + 1, { h1 with b := upd h1.b (h1.n + 1) ⟨dl, h1.n⟩, n := h1.n + 2 })

def newBU (h : Heap) : BUSpec → Loc × Heap
  | .fresh =>
      -- the new dict (built by UnitSolver / `dict(self.baseunits)` + arithmetic), then the constructor
      buOver { h with d := upd h.d h.n ⟨h.n, false⟩, n := h.n + 1 } h.n
  | .aliasDict b =>
      match h.b b with
      | some bc => buOver h bc.dict
      | none => (b, h)
  | .share b => (b, h)

def newBUs (h : Heap) : List BUSpec → Heap
  | [] => h
  | s :: ss => newBUs (newBU h s).2 ss

/-! ### The in-place attribute writes -/

/-- `mag.<field> = <new object>`: assignment of a new scalar / a new array to the `value` (`f = true`) or
    `error` (`f = false`) attribute of the Magnitude object at `ml` (whose current content is `c`). -/
def setField (h : Heap) (ml : Loc) (c : Mag) (f : Bool) (isArr : Bool) : Heap :=
  let r := allocRef h isArr
  { r.2 with m := upd r.2.m ml (if f then { c with value := r.1 } else { c with error := r.1 }) }

/-- `x.abse(number)`: `self.magnitude.error = number` -/
def setErrScalar (h : Heap) (ml : Loc) (c : Mag) : Heap := setField h ml c false false

/-- `x.rele(number)`: `self.magnitude.error = np.abs(self.value)*rele/100` (an array iff the value is) -/
def setErrRel (h : Heap) (ml : Loc) (c : Mag) : Heap := setField h ml c false c.value.isArr

/-- `arr[i] = number` through the array handed out by `x.value()` / `x.abse()` -/
def pokeArr (h : Heap) (l : Loc) : Heap :=
  { h with a := upd h.a l h.n, n := h.n + 1 }

/-! ### One operation = allocations, then at most one assignment -/

inductive Kind where
  | construct             -- a new Quantity is returned
  | assign (x : Loc)      -- `self.magnitude = …; self.baseunits = …` of the existing quantity `x`
  | valueOf               -- a plain value (number / array) is returned
  | nothing               -- a bool / nothing is returned
deriving DecidableEq, Repr

/-- Everything an operation does to the heap, in program order. -/
structure Spec where
  temps : List MagSpec := []       -- Magnitude objects created on the way (dropped afterwards)
  tempBUs : List BUSpec := []      -- BaseUnits objects created on the way (dropped afterwards)
  final : MagSpec := ⟨false, .none⟩
  rewriteValue : Bool := false     -- `mag.value = np.log10(mag.value)/factor` on the new Magnitude
  bu : BUSpec := .fresh
  kind : Kind := .nothing
deriving Repr

inductive Res where
  | qty (x : Loc)
  | val (r : Ref)
  | nothing
  | invalid               -- an operand is not a live quantity (never produced by the harness)
deriving DecidableEq, Repr

/-- the optional `mag.value = np.log10(mag.value)/factor` on the Magnitude at `ml` -/
def rewriteStep (h : Heap) (ml : Loc) (isArr : Bool) (on : Bool) : Heap :=
  if on then
    match h.m ml with
    | some c => setField h ml c true isArr
    | none => h
  else h

def exec (h : Heap) (s : Spec) : Heap × Res :=
  let h1 := newMags h s.temps
  let h2 := newBUs h1 s.tempBUs
  match s.kind with
  | .nothing => (h2, .nothing)
  | .valueOf =>
      let m := newMag h2 s.final
      (m.2, .val (match m.2.m m.1 with | some c => c.value | none => .none))
  | .construct =>
      let m := newMag h2 s.final
      let h3 := rewriteStep m.2 m.1 s.final.isArr s.rewriteValue
      let b := newBU h3 s.bu
      ({ b.2 with q := upd b.2.q b.2.n ⟨m.1, b.1⟩, n := b.2.n + 1 }, .qty b.2.n)
  | .assign x =>
      let m := newMag h2 s.final
      let b := newBU m.2 s.bu
      ({ b.2 with q := upd b.2.q x ⟨m.1, b.1⟩ }, .qty x)

/-! ### Compilation of the Python operations -/

/-- Facts of unit algebra that decide which statements run (parameters; taken from the real run by the
    harness, arbitrary in the theorems). -/
structure Facts where
  ok : Bool := true        -- no exception (a unit type matched, dimensions agree, conversion implemented)
  log : Bool := false      -- LogarithmicUnitType matched (add / sub)
  linear : Bool := true    -- `_convert_linear` was used (error rescaled) — otherwise the error is passed on
  nodim : Bool := false    -- `self.baseunits.dimensions.nodim` in Quantity.__init__
  k : Nat := 0             -- dimensional bases multiplied into the magnitude in that branch
  conv : Bool := true      -- `np.all(other.magnitude.value != 0)` in __eq__
deriving DecidableEq, Repr

inductive UF where
  | root     -- np.sqrt / np.cbrt / np.power
  | angle    -- np.sin / np.cos / np.tan
  | arc      -- np.arcsin / np.arccos / np.arctan
  | keep     -- every other ufunc and np.absolute/abs/round/floor/ceil: `Quantity(f(value), a.baseunits)`
  | sum      -- np.sum
  | test     -- np.isnan / np.isnat
deriving DecidableEq, Repr

inductive UnitsArg where
  | text                 -- str / None / list / Dimensions
  | buOf (y : Loc)       -- `y.baseunits`
  | qty (y : Loc)        -- the Quantity `y`
deriving DecidableEq, Repr

/- Reflected operators and number operands: `x + 2`, `2 + x`, `0 + x`, `1 * x`, builtin `sum([...])`
   (= `((0 + x1) + x2) + …`) and `math.prod` first wrap the number (`other = Quantity(other)`, op `new`) and then
   call `_add/_sub/_mul/_truediv` with the operands in the stated order: `n + x` is `[new, add n x]`, `x + n` is
   `[new, add x n]`.  There is no short-cut for neutral elements in the library, hence none in the model:
   `C07_result_new` says the result of every such call is a new quantity. -/
inductive Op where
  | new (isArr hasErr : Bool) (f : Facts)     -- Quantity(number | list, 'unit', abse=…)
  | add (a b : Loc) (f : Facts)
  | sub (a b : Loc) (f : Facts)
  | mul (a b : Loc) (f : Facts)
  | div (a b : Loc) (f : Facts)
  | pow (a : Loc) (f : Facts)
  | neg (a : Loc) (f : Facts)
  | eq (a b : Loc) (f : Facts)                -- `==` and `!=`
  | ufunc (u : UF) (a : Loc) (f : Facts)
  | space (a b : Loc) (f : Facts)             -- np.linspace / np.logspace (a, b, n), both quantities
  | space1 (b : Loc) (f : Facts)              -- np.linspace / np.logspace (number, b, n) and (b, number, n)
  | value (a : Loc) (f : Facts)               -- a.value('unit')
  | to (a : Loc) (u : UnitsArg) (f : Facts)
  | rebase (a : Loc)
  | abse (a : Loc)                            -- a.abse(number)
  | rele (a : Loc)                            -- a.rele(number)
  | poke (a : Loc) (err : Bool)               -- in-place write into a.value() (or a.abse() when `err`)
deriving DecidableEq, Repr

/-- the Magnitude of a live quantity -/
def magOf (h : Heap) (x : Loc) : Option (Loc × Mag) :=
  match h.q x with
  | some qc => match h.m qc.mag with
    | some mc => some (qc.mag, mc)
    | none => none
  | none => none

def buOf (h : Heap) (x : Loc) : Option Loc := (h.q x).map (·.bu)

/-- `Magnitude * float` (`self.magnitude *= base.magnitude`): `Magnitude(float)` then the product -/
def scaled (s : MagSpec) (hasErr : Bool) : List MagSpec × MagSpec :=
  ([s, ⟨false, .none⟩], ⟨s.isArr, if hasErr then .fresh s.isArr else .none⟩)

def scaledK (s : MagSpec) (hasErr : Bool) : Nat → List MagSpec × MagSpec
  | 0 => ([], s)
  | k + 1 => let r := scaledK s hasErr k
             let r2 := scaled r.2 hasErr
             (r.1 ++ r2.1, r2.2)

/-- tail of `Quantity.__init__`: "rebase if dimensions are zero" -/
def initTail (f : Facts) (s : Spec) (hasErr : Bool) : Spec :=
  if f.nodim then
    let r := scaledK s.final hasErr f.k
    { s with temps := s.temps ++ r.1, final := r.2,
             tempBUs := s.tempBUs ++ (match s.bu with | .share _ => [] | o => [o]), bu := .fresh }
  else s

/-- error argument of the Magnitude built by `UnitType.convert(magnitude1)` -/
def convErr (f : Facts) (e : Ref) : ErrArg :=
  if e.isNone then .none else if f.linear then .fresh e.isArr else .pass e

/-- `Magnitude._add/_sub(left, right)` error rule -/
def sumErr (le re : ErrArg) (lArr rArr : Bool) : ErrArg :=
  match le, re with
  | .none, .none => .none
  | .none, r => r
  | l, .none => l
  | _, _ => .fresh (lArr || rArr)

def ErrArg.ofRef (r : Ref) : ErrArg := if r.isNone then .none else .pass r

def hasErr2 (ca cb : Mag) : Bool := !(ca.error.isNone && cb.error.isNone)

def compile (h : Heap) : Op → Option Spec
  | .new isArr hasErr f =>
      let e : ErrArg := if hasErr then .fresh false else .none
      -- Magnitude(number, abse); `self.magnitude *= atom.magnitude`; BaseUnits(atom.baseunits)
      let s := scaled ⟨isArr, e⟩ hasErr
      some (initTail f { temps := s.1, final := s.2, bu := .fresh, kind := .construct } hasErr)
  | .add a b f | .sub a b f =>
      match magOf h a, magOf h b, buOf h a with
      | some (_, ca), some (_, cb), some ba =>
        if !f.ok then some {} else
        let conv : MagSpec := ⟨cb.value.isArr, convErr f cb.error⟩
        let isArr := ca.value.isArr || cb.value.isArr
        let he := hasErr2 ca cb
        if f.log then
          -- mag2 = _convert(...); lin1 = Magnitude(10**…, mag1.error); lin2 = Magnitude(10**…, mag2.error)
          let lin1 : MagSpec := ⟨ca.value.isArr, .ofRef ca.error⟩
          some (initTail f { temps := [conv, lin1, conv],
                             final := ⟨isArr, sumErr lin1.err conv.err ca.error.isArr cb.error.isArr⟩,
                             rewriteValue := true, bu := .share ba, kind := .construct } he)
        else
          some (initTail f { temps := [conv],
                             final := ⟨isArr, sumErr (.ofRef ca.error) conv.err ca.error.isArr cb.error.isArr⟩,
                             bu := .share ba, kind := .construct } he)
      | _, _, _ => none
  | .mul a b f | .div a b f =>
      match magOf h a, magOf h b with
      | some (_, ca), some (_, cb) =>
        let isArr := ca.value.isArr || cb.value.isArr
        let he := hasErr2 ca cb
        some (initTail f { final := ⟨isArr, if he then .fresh (ca.error.isArr || cb.error.isArr) else .none⟩,
                           bu := .fresh, kind := .construct } he)
      | _, _ => none
  | .pow a f =>
      match magOf h a with
      | some (_, ca) =>
        let he := !ca.error.isNone
        some (initTail f { final := ⟨ca.value.isArr, if he then .fresh (ca.error.isArr || ca.value.isArr) else .none⟩,
                           bu := .fresh, kind := .construct } he)
      | none => none
  | .neg a f =>
      match magOf h a, buOf h a with
      | some (_, ca), some ba =>
        -- Magnitude(-self.value, self.error): the error object is handed over as is
        some (initTail f { final := ⟨ca.value.isArr, .ofRef ca.error⟩, bu := .share ba, kind := .construct }
                (!ca.error.isNone))
      | _, _ => none
  | .eq a b f =>
      match magOf h a, magOf h b with
      | some _, some (_, cb) =>
        if f.conv then
          -- baseunits = BaseUnits(self.units()); magnitude = self._convert(...)   (f.ok = false: raises)
          some { tempBUs := [.fresh], temps := if f.ok then [⟨cb.value.isArr, convErr f cb.error⟩] else [] }
        else some {}
      | _, _ => none
  | .ufunc u a f =>
      match magOf h a, buOf h a with
      | some (_, ca), some ba =>
        if !f.ok then some {} else
        let isArr := ca.value.isArr
        match u with
        | .root => some (initTail f { final := ⟨isArr, .none⟩, bu := .fresh, kind := .construct } false)
        | .angle =>
            -- inputs[0].value('rad') ; Quantity(ufunc(...))
            some (initTail f { tempBUs := [.fresh], temps := [⟨isArr, convErr f ca.error⟩],
                               final := ⟨isArr, .none⟩, bu := .fresh, kind := .construct } false)
        | .arc =>
            -- inputs[0].value(BaseUnits()) ; Quantity(ufunc(...), 'rad')
            let s := scaled ⟨isArr, .none⟩ false
            some (initTail f { tempBUs := [.fresh, .fresh], temps := ⟨isArr, convErr f ca.error⟩ :: s.1,
                               final := s.2, bu := .fresh, kind := .construct } false)
        | .keep => some (initTail f { final := ⟨isArr, .none⟩, bu := .share ba, kind := .construct } false)
        | .sum => some (initTail f { final := ⟨false, .none⟩, bu := .share ba, kind := .construct } false)
        | .test => some {}
      | _, _ => none
  | .space a b f =>
      match magOf h a, magOf h b, buOf h a with
      | some _, some (_, cb), some ba =>
        if !f.ok then some {} else
        -- b = Quantity(b.value(a.baseunits), a.baseunits); Quantity(np.linspace(...), a.baseunits)
        some (initTail f { tempBUs := [.aliasDict ba],
                           temps := [⟨cb.value.isArr, convErr f cb.error⟩, ⟨cb.value.isArr, .none⟩],
                           final := ⟨true, .none⟩, bu := .share ba, kind := .construct } false)
      | _, _, _ => none
  | .space1 b f =>
      match magOf h b, buOf h b with
      | some _, some bb =>
        some (initTail f { temps := [⟨false, .none⟩], final := ⟨true, .none⟩, bu := .share bb,
                           kind := .construct } false)
      | _, _ => none
  | .value a f =>
      match magOf h a with
      | some (_, ca) =>
        if !f.ok then some { tempBUs := [.fresh] } else
        some { tempBUs := [.fresh], final := ⟨ca.value.isArr, convErr f ca.error⟩, kind := .valueOf }
      | none => none
  | .to a u f =>
      match magOf h a with
      | some (_, ca) =>
        match u with
        | .text =>
          if !f.ok then some { tempBUs := [.fresh] } else
          some { final := ⟨ca.value.isArr, convErr f ca.error⟩, bu := .fresh, kind := .assign a }
        | .buOf y =>
          match buOf h y with
          | some by_ =>
            if !f.ok then some { tempBUs := [.aliasDict by_] } else
            some { final := ⟨ca.value.isArr, convErr f ca.error⟩, bu := .aliasDict by_, kind := .assign a }
          | none => none
        | .qty y =>
          match magOf h y, buOf h y with
          | some (_, cy), some by_ =>
            if !f.ok then some {} else
            -- self._convert(...) / units.magnitude ; self.baseunits = units.baseunits
            let conv : MagSpec := ⟨ca.value.isArr, convErr f ca.error⟩
            let he := hasErr2 ca cy
            some { temps := [conv],
                   final := ⟨ca.value.isArr || cy.value.isArr, if he then .fresh false else .none⟩,
                   bu := .share by_, kind := .assign a }
          | _, _ => none
      | none => none
  | .rebase a =>
      match magOf h a with
      | some (_, ca) =>
        let s := scaled ⟨ca.value.isArr, .none⟩ (!ca.error.isNone)
        -- `self.magnitude *= factor` : Magnitude(factor) and the product; BaseUnits({...})
        some { temps := [⟨false, .none⟩], final := s.2, bu := .fresh, kind := .assign a }
      | none => none
  | .abse _ | .rele _ | .poke _ _ => none     -- handled by `step` directly

/-- One operation of the library. -/
def step (h : Heap) (op : Op) : Heap × Res :=
  match op with
  | .abse a =>
      match magOf h a with
      | some (ml, c) => (setErrScalar h ml c, .qty a)
      | none => (h, .invalid)
  | .rele a =>
      match magOf h a with
      | some (ml, c) => (setErrRel h ml c, .qty a)
      | none => (h, .invalid)
  | .poke a err =>
      match magOf h a with
      | some (_, c) =>
        match c.field (!err) with
        | .arr l => (pokeArr h l, .nothing)
        | _ => (h, .nothing)           -- a scalar cannot be written in place
      | none => (h, .invalid)
  | op =>
      match compile h op with
      | some s => exec h s
      | none => (h, .invalid)

def run (h : Heap) : List Op → Heap
  | [] => h
  | op :: ops => run (step h op).1 ops

/-- The quantity an operation is *allowed* to change (the explicitly in-place methods). -/
def target : Op → Option Loc
  | .to a _ _ => some a
  | .rebase a => some a
  | .abse a => some a
  | .rele a => some a
  | .poke a _ => some a
  | _ => none

/-! ### Observation and reachable mutable state (the specification side) -/

/-- what a read of `value` / `error` yields: the token of the scalar or the current content of the array -/
inductive Seen where
  | none
  | scalar (t : Tok)
  | array (content : Tok)
deriving DecidableEq, Repr

def see (h : Heap) : Ref → Option Seen
  | .none => some .none
  | .scalar t => some (.scalar t)
  | .arr l => (h.a l).map .array

structure Obs where
  value : Seen
  units : Tok × Tok          -- BaseUnits cache token, dict version
  abse : Seen
deriving DecidableEq, Repr

/-- `(x.value(), x.units(), x.abse())` -/
def obs (h : Heap) (x : Loc) : Option Obs :=
  match h.q x with
  | some qc => match h.m qc.mag, h.b qc.bu with
    | some mc, some bc => match h.d bc.dict, see h mc.value, see h mc.error with
      | some dc, some v, some e => some ⟨v, (bc.cache, dc.ver), e⟩
      | _, _, _ => none
    | _, _ => none
  | none => none

/-- mutable cells: the Quantity object, its Magnitude object, the value array, the error array -/
inductive Cell where
  | q (l : Loc)
  | m (l : Loc)
  | a (l : Loc)
deriving DecidableEq, Repr

def refCells : Ref → List Cell
  | .arr l => [.a l]
  | _ => []

def mutReach (h : Heap) (x : Loc) : List Cell :=
  match h.q x with
  | some qc => .q x :: .m qc.mag :: (match h.m qc.mag with
      | some mc => refCells mc.value ++ refCells mc.error
      | none => [])
  | none => []

end SciVerif.C07
