import SciVerif.Model.C19
/-!
# C19 — reader models and the specification

Reader models for exactly the text the exporters emit: what a C / C++ / Rust / Fortran compiler
or Bash makes of one exported declaration.  They are *validated* against the real tools on every
run (harness), not derived from a language standard.  Anything outside the emitted subset is
`none` ("not covered"), never a guess.
-/
namespace SciVerif.C19

/-! ## the bracket machine: one pass over the characters, no fuel

`{1, 2, {3}}`-like initialisers (any bracket pair).  A token is either bare (no delimiter
characters) or one double-quoted string literal; inside a literal a quote is written `\"`
(`Quoting.backslash`: a backslash takes the next character with it) or `""` (`Quoting.doubled`:
a quote directly after the closing quote re-opens the literal). -/

inductive Mode | bare | inStr | esc | strDone
  deriving DecidableEq, Repr

structure MSt where
  stack : List (List TokTree)     -- open frames, innermost first, each reversed; the last one is the top level
  tok : Str                       -- pending token, reversed
  mode : Mode
  bad : Bool
  deriving Repr

def MSt.init : MSt := ⟨[[]], [], .bare, false⟩

def MSt.fail (s : MSt) : MSt := { s with bad := true }

/-- close the pending token (if any) into the innermost frame -/
def MSt.flush (s : MSt) : MSt :=
  match s.tok, s.stack with
  | [], _ => s
  | _ :: _, f :: rest => { s with stack := (Tree.leaf s.tok.reverse :: f) :: rest, tok := [], mode := .bare }
  | _ :: _, [] => s.fail

def mstep (q : Quoting) (o c : Char) (s : MSt) (ch : Char) : MSt :=
  if s.bad then s
  else match s.mode with
  | .esc => { s with tok := ch :: s.tok, mode := .inStr }
  | .inStr =>
    { s with tok := ch :: s.tok,
             mode := if ch = '"' then .strDone else if ch = '\\' ∧ q = .backslash then .esc else .inStr }
  | m =>
    if ch = '"' then
      (if s.tok = [] then { s with tok := [ch], mode := .inStr }
       else if m = .strDone ∧ q = .doubled then { s with tok := ch :: s.tok, mode := .inStr }
       else s.fail)
    else if ch = o then
      (let s' := s.flush; { s' with stack := [] :: s'.stack })
    else if ch = c then
      (let s' := s.flush
       match s'.stack with
       | f :: g :: rest => { s' with stack := (Tree.arr f.reverse :: g) :: rest }
       | _ => s'.fail)
    else if ch = ',' ∨ ch = ' ' then s.flush
    else if m = .strDone then s.fail
    else { s with tok := ch :: s.tok }

def mrun (q : Quoting) (o c : Char) (s : MSt) (text : Str) : MSt := text.foldl (mstep q o c) s

/-- all top-level items of a text -/
def parseItems (q : Quoting) (o c : Char) (text : Str) : Option (List TokTree) :=
  let s := (mrun q o c MSt.init text).flush
  if s.bad ∨ s.mode = .inStr ∨ s.mode = .esc then none
  else match s.stack with
    | [top] => some top.reverse
    | _ => none

/-- exactly one item -/
def parseInit (q : Quoting) (o c : Char) (text : Str) : Option TokTree :=
  match parseItems q o c text with
  | some [t] => some t
  | _ => none

/-! ## typed interpretation of tokens -/

def floatChar (c : Char) : Bool :=
  (48 ≤ c.toNat ∧ c.toNat ≤ 57) ∨ c = '.' ∨ c = 'e' ∨ c = '+' ∨ c = '-'

/-- decoder state: plain, directly after a backslash, directly after a (closing or doubled) quote -/
inductive UMode | normal | afterBackslash | afterQuote
  deriving DecidableEq, Repr

def unescGo (q : Quoting) : UMode → Str → Option Str
  | .normal, [] => none
  | .normal, ch :: r =>
    if ch = '"' then unescGo q .afterQuote r
    else if ch = '\\' ∧ q = .backslash then unescGo q .afterBackslash r
    else (unescGo q .normal r).map (ch :: ·)
  | .afterQuote, [] => some []
  | .afterQuote, d :: r => if q = .doubled ∧ d = '"' then (unescGo q .normal r).map ('"' :: ·) else none
  | .afterBackslash, [] => none
  | .afterBackslash, d :: r => if d = '"' ∨ d = '\\' then (unescGo q .normal r).map (d :: ·) else none

/-- the characters of a literal after its opening quote, up to and including the closing quote:
    the string the compiler stores.  Escapes other than the ones the exporters write (`\\n`, …) are
    not covered (`none`). -/
def unescBody (q : Quoting) (s : Str) : Option Str := unescGo q .normal s

/-- the value of a string-literal token -/
def unquote (q : Quoting) : Str → Option Str
  | '"' :: r => unescBody q r
  | _ => none

def readScalar (q : Quoting) (k : Kind) (tru fls : Str) (tok : Str) : Option Scalar :=
  match k with
  | .bool => if tok = tru then some (.b true) else if tok = fls then some (.b false) else none
  | .int | .uint => (readInt tok).map .i
  | .float => if tok ≠ [] ∧ tok.all floatChar then some (.f tok) else none
  | .str => (unquote q tok).map .s

mutual
def interp (q : Quoting) (k : Kind) (tru fls : Str) : TokTree → Option Val
  | .leaf t => (readScalar q k tru fls t).map .leaf
  | .arr ts => (interpList q k tru fls ts).map .arr
def interpList (q : Quoting) (k : Kind) (tru fls : Str) : List TokTree → Option (List Val)
  | [] => some []
  | t :: ts => do
    let v ← interp q k tru fls t
    let vs ← interpList q k tru fls ts
    some (v :: vs)
end

mutual
/-- strict (rectangular) shape: every child has the same shape -/
def rectShape {α : Type} : Tree α → Option (List Nat)
  | .leaf _ => some []
  | .arr ts => match rectShapes ts with
    | none => none
    | some none => some [0]
    | some (some sh) => some (ts.length :: sh)
/-- `some none` = empty list, `some (some sh)` = all children have shape `sh` -/
def rectShapes {α : Type} : List (Tree α) → Option (Option (List Nat))
  | [] => some none
  | t :: ts => match rectShape t, rectShapes ts with
    | some sh, some none => some (some sh)
    | some sh, some (some sh') => if sh = sh' then some (some sh) else none
    | _, _ => none
end

/-! ## symbols -/

structure Sym where
  name : Str
  decl : Str          -- declared type text; `macro` for `#define`
  shape : List Nat
  narrow : Bool       -- float values pass through a literal kind narrower than min(declared, 64) bits
  value : Val
  deriving Repr

def targetKind (backend decl : Str) : Option (Kind × Nat) :=
  match Gen.targetInfo.find? (fun r => r.1 = backend ∧ r.2.1 = decl) with
  | some r => some r.2.2
  | none => none

def targets (backend : Str) : List Str :=
  (Gen.typeRows.filterMap (fun r => if r.1 = backend then r.2.2.2 else none)).eraseDups

/-- the declared type at the head of a declaration: the table entry `t` with `t ++ " "` a prefix -/
def matchType (ts : List Str) (text : Str) : Option (Str × Str) :=
  match ts with
  | [] => none
  | t :: rest =>
    match dropPrefix? (t ++ [' ']) text with
    | some r => some (t, r)
    | none => matchType rest text

/-- `[2][3]…` -/
def parseDims : Nat → Str → Option (List Nat × Str)
  | 0, _ => none
  | fuel + 1, '[' :: r =>
    let (ds, r2) := r.span (fun c => c ≠ ']')
    match readNat ds, r2 with
    | some n, ']' :: r3 => (parseDims fuel r3).map (fun (l, rest) => (n :: l, rest))
    | _, _ => none
  | _ + 1, r => some ([], r)

def dropLastChar? (c : Char) (s : Str) : Option Str :=
  match s.reverse with
  | x :: r => if x = c then some r.reverse else none
  | [] => none

/-! ### C / C++ -/

def stripConst (l : Str) : Option Str :=
  match dropPrefix? (cs!"constexpr ") l with
  | some r => some r
  | none => dropPrefix? (cs!"const ") l

/-- the initialiser of a declaration whose head has been read -/
def readInit (q : Quoting) (o c : Char) (backend decl name : Str) (dims : List Nat) (body : Str) : Option Sym := do
  let tree ← parseInit q o c body
  let sh ← rectShape tree
  if sh ≠ dims then none else
  let (k, _) ← targetKind backend decl
  let v ← interp q k (cs!"true") (cs!"false") tree
  some ⟨name, decl, dims, false, v⟩

def readConstLine (backend : Str) (l : Str) : Option Sym := do
  let r ← stripConst l
  let (decl, r) ← matchType (targets backend) r
  let (name, r) := r.span (fun c => c ≠ '[' ∧ c ≠ ' ')
  let (dims, r) ← parseDims (r.length + 1) r
  let r ← dropPrefix? (cs!" = ") r
  let body ← dropLastChar? ';' r
  readInit .backslash '{' '}' backend decl name dims body

def macroDecl : Str := cs!"macro"

/-- the token after a macro name, classified by its form -/
def defineTok (tok : Str) : Option Scalar :=
  match tok with
  | '"' :: _ => (unquote .backslash tok).map Scalar.s
  | _ => match readInt tok with
    | some i => some (Scalar.i i)
    | none => if tok ≠ [] ∧ tok.all floatChar then some (Scalar.f tok) else none

/-- `#define NAME value` -/
def readDefineLine (l : Str) : Option Sym := do
  let r ← dropPrefix? (cs!"#define ") l
  let (name, r) := r.span (fun c => c ≠ ' ')
  let tok ← dropPrefix? [' '] r
  let v ← defineTok tok
  some ⟨name, macroDecl, [], false, .leaf v⟩

def isDeclLine (l : Str) : Bool :=
  (dropPrefix? (cs!"const") l).isSome

/-- one body line: a `const` / `constexpr` declaration or a `#define` -/
def readLineC (backend : Str) (l : Str) : Option Sym :=
  if isDeclLine l then readConstLine backend l else readDefineLine l

def includeLine : Str := cs!"#include <stdbool.h>"

/-- the optional include block -/
def stripInclude (ls : List Str) : List Str :=
  match ls with
  | inc :: [] :: rest => if inc = includeLine then rest else ls
  | _ => ls

/-- declarations up to the blank line that is followed by the closing `#endif` line -/
def readBodyC (backend endline : Str) : List Str → Option (List Sym)
  | [] => none
  | l :: rest =>
    if l = [] then
      (match rest with
       | [e] => if e = endline then some [] else none
       | _ => none)
    else do
      let s ← readLineC backend l
      let ss ← readBodyC backend endline rest
      some (s :: ss)

/-- the header: guard lines, optional include block, declarations, `#endif` -/
def readC (backend guard : Str) (text : Str) : Option (List Sym) := do
  let ls ← match lines text with
    | a :: b :: [] :: rest =>
      if a = cs!"#ifndef " ++ guard ∧ b = cs!"#define " ++ guard then some rest else none
    | _ => none
  readBodyC backend (cs!"#endif /* " ++ guard ++ cs!" */") (stripInclude ls)

/-! ### Rust -/

def countOpen : Str → Nat × Str
  | '[' :: r => let (n, r') := countOpen r; (n + 1, r')
  | r => (0, r)

/-- `; 3]; 2]` → `[3, 2]` (innermost first) -/
def rustDims : Nat → Str → Option (List Nat × Str)
  | 0, r => some ([], r)
  | n + 1, r => do
    let r ← dropPrefix? [';', ' '] r
    let (ds, r2) := r.span (fun c => c ≠ ']')
    let d ← readNat ds
    let r3 ← dropPrefix? [']'] r2
    let (l, rest) ← rustDims n r3
    some (d :: l, rest)

def readRustLine (l : Str) : Option Sym := do
  let r ← dropPrefix? (cs!"pub const ") l
  let (name, r) := r.span (fun c => c ≠ ':')
  let r ← dropPrefix? [':', ' '] r
  let (k, r) := countOpen r
  let (decl, r) := r.span (fun c => c ≠ ';' ∧ c ≠ ' ')
  let (inner, r) ← rustDims k r
  let dims := inner.reverse          -- array types nest outermost-first
  let r ← dropPrefix? (cs!" = ") r
  let body ← dropLastChar? ';' r
  readInit .backslash '[' ']' bRust decl name dims body

def readRust (text : Str) : Option (List Sym) :=
  if text = [] then some [] else (lines text).mapM readRustLine

/-! ### Fortran -/

def prod : List Nat → Nat
  | [] => 1
  | d :: ds => d * prod ds

/-- row-major position (last index fastest) -/
def rowPos : List Nat → List Nat → Nat
  | _ :: ds, i :: is => i * prod ds + rowPos ds is
  | _, _ => 0

/-- column-major position (first index fastest): what `reshape(src, shape)` uses -/
def colPos : List Nat → List Nat → Nat
  | d :: ds, i :: is => i + d * colPos ds is
  | _, _ => 0

/-- the nested (row-major) view of an array whose element at multi-index `idx` is `f idx` -/
def build {α : Type} : List Nat → (List Nat → Option α) → Option (Tree α)
  | [], f => (f []).map .leaf
  | d :: ds, f => ((List.range d).mapM (fun i => build ds (fun idx => f (i :: idx)))).map .arr

mutual
def flatten {α : Type} : Tree α → List α
  | .leaf a => [a]
  | .arr ts => flattenList ts
def flattenList {α : Type} : List (Tree α) → List α
  | [] => []
  | t :: ts => flatten t ++ flattenList ts
end

/-- `reshape(src, dims [, order=[k..1]])` : element `idx` = `src[pos idx]` -/
def reshapeF {α : Type} (src : List α) (dims : List Nat) (order : Option (List Nat)) : Option (Tree α) :=
  if src.length ≠ prod dims then none
  else match order with
    | none => build dims (fun idx => src[colPos dims idx]?)
    | some o => if o = orderList dims.length then build dims (fun idx => src[rowPos dims idx]?) else none

def leafTok : TokTree → Option Str
  | .leaf t => some t
  | .arr _ => none

def natList (t : TokTree) : Option (List Nat) :=
  match t with
  | .arr ts => ts.mapM (fun x => (leafTok x).bind readNat)
  | .leaf _ => none

def parseCommaNats (s : Str) : Option (List Nat) := (splitOn ',' s).mapM readNat

mutual
/-- an integer literal has default kind: its magnitude must fit 32 bits, and the value must fit the
    declared kind (gfortran rejects everything else) -/
def fitsInt (bits : Nat) : Val → Bool
  | .leaf (.i v) => decide (v.natAbs ≤ 2147483647) && decide (-(2 ^ (bits - 1) : Int) ≤ v) &&
      decide (v < (2 ^ (bits - 1) : Int))
  | .leaf _ => true
  | .arr vs => fitsIntList bits vs
def fitsIntList (bits : Nat) : List Val → Bool
  | [] => true
  | v :: vs => fitsInt bits v && fitsIntList bits vs
end

/-- `character(len=n)` -/
def charLen? (decl : Str) : Option Nat := do
  let r ← dropPrefix? (cs!"character(len=") decl
  let d ← dropLastChar? ')' r
  readNat d

def fortranKind (decl : Str) : Option (Kind × Nat) :=
  match charLen? decl with
  | some n => some (Kind.str, n)
  | none => targetKind bFortran decl

mutual
/-- all strings of an array constructor must have one length -/
def strLens : Val → List Nat
  | .leaf (.s v) => [utf8Len v]          -- a default-kind character is one byte of the UTF-8 source
  | .leaf _ => []
  | .arr vs => strLensList vs
def strLensList : List Val → List Nat
  | [] => []
  | v :: vs => strLens v ++ strLensList vs
end

/-- `[character(len=n) :: "a", "b"]` : drop the type specification of an array constructor;
    the flag says whether there was one -/
def stripTypeSpec (decl : Str) (ts : List TokTree) : List TokTree × Bool :=
  match ts with
  | .leaf d :: .leaf cc :: rest => if d = decl ∧ cc = [':', ':'] then (rest, true) else (ts, false)
  | _ => (ts, false)

/-- character literals of a constructor without type specification have one length; none is longer
    than the declared length -/
def lensOK (typed : Bool) (bits : Nat) : List Nat → Bool
  | [] => true
  | n :: ns => (typed || ns.all (· = n)) && (n :: ns).all (· ≤ bits)

/-- the value read, checked against the declared type: integer literals fit, character literals of a
    constructor without type specification have one length, none is longer than the declared length -/
def fortranFinish (decl : Str) (k : Kind) (bits : Nat) (name : Str) (dims : List Nat) (tree : TokTree)
    (typed : Bool) : Option Sym := do
  let v ← interp .doubled k (cs!".true.") (cs!".false.") tree
  if ¬ fitsInt bits v then none else
  if lensOK typed bits (strLens v) then
    some ⟨name, decl, dims, decide (k = Kind.float ∧ bits > 32), v⟩
  else none

/-- `NAME = value;` after `parameter :: ` -/
def readFortranScalar (decl : Str) (k : Kind) (bits : Nat) (r : Str) : Option Sym := do
  let nr := r.span (fun c => c ≠ ' ')
  let r ← dropPrefix? (cs!" = ") nr.2
  let body ← dropLastChar? ';' r
  let tree ← parseInit .doubled '[' ']' body
  match tree with
  | .leaf _ => fortranFinish decl k bits nr.1 [] tree false
  | .arr _ => none

/-- `NAME = [ … ];` after `dimension (n) :: ` -/
def readFortranVector (decl : Str) (k : Kind) (bits : Nat) (dims : List Nat) (r : Str) : Option Sym := do
  let nr := r.span (fun c => c ≠ ' ')
  let r ← dropPrefix? (cs!" = ") nr.2
  let body ← dropLastChar? ';' r
  let tree ← parseInit .doubled '[' ']' body
  let et ← match tree with
    | .arr ts => some (stripTypeSpec decl ts)
    | .leaf _ => none
  let tree := Tree.arr et.1
  let sh ← rectShape tree
  if sh ≠ dims ∨ dims.length ≠ 1 then none else
  fortranFinish decl k bits nr.1 dims tree et.2

/-- `NAME = reshape([ … ],[dims],order=[…])` after `dimension (…), parameter :: ` -/
def readFortranReshape (decl : Str) (k : Kind) (bits : Nat) (dims : List Nat) (r : Str) : Option Sym := do
  let nr := r.span (fun c => c ≠ ' ')
  let r ← dropPrefix? (cs!" = reshape(") nr.2
  let body ← dropLastChar? ')' r
  let items ← parseItems .doubled '[' ']' body
  let sso ← match items with
    | [Tree.arr src, shp] => some (src, shp, (none : Option (List Nat)))
    | [Tree.arr src, shp, Tree.leaf o, ord] =>
      if o = cs!"order=" then (natList ord).map (fun x => (src, shp, some x)) else none
    | _ => none
  let st := stripTypeSpec decl sso.1
  let dims2 ← natList sso.2.1
  if dims2 ≠ dims then none else do
  let toks ← st.1.mapM leafTok
  let tree ← reshapeF toks dims sso.2.2
  fortranFinish decl k bits nr.1 dims tree st.2

/-- after `decl, ` : the three declaration forms -/
def readFortranRest (decl : Str) (k : Kind) (bits : Nat) (r : Str) : Option Sym :=
  match dropPrefix? (cs!"parameter :: ") r with
  | some r => readFortranScalar decl k bits r
  | none => do
    let r ← dropPrefix? (cs!"dimension (") r
    let dr := r.span (fun c => c ≠ ')')
    let dims ← parseCommaNats dr.1
    match dropPrefix? (cs!") :: ") dr.2 with
    | some r => readFortranVector decl k bits dims r
    | none => do
      let r ← dropPrefix? (cs!"), parameter :: ") dr.2
      readFortranReshape decl k bits dims r

def readFortranLine (l : Str) : Option Sym := do
  let r ← dropPrefix? [' ', ' '] l
  let dr := r.span (fun c => c ≠ ',')
  let kb ← fortranKind dr.1
  let r ← dropPrefix? [',', ' '] dr.2
  readFortranRest dr.1 kb.1 kb.2 r

/-- declarations up to the blank line that is followed by the closing `end module` line -/
def readBodyF (endline : Str) : List Str → Option (List Sym)
  | [] => none
  | l :: rest =>
    if l = [] then
      (match rest with
       | [e] => if e = endline then some [] else none
       | _ => none)
    else do
      let s ← readFortranLine l
      let ss ← readBodyF endline rest
      some (s :: ss)

def readFortran (modname : Str) (text : Str) : Option (List Sym) := do
  let ls ← match lines text with
    | a :: b :: [] :: rest =>
      if a = cs!"module " ++ modname ∧ b = cs!"  implicit none" then some rest else none
    | _ => none
  readBodyF (cs!"end module " ++ modname) ls

/-! ### Bash -/

inductive BKind | scalar | indexed | assoc
  deriving DecidableEq, Repr

structure BSym where
  name : Str
  kind : BKind
  exported : Bool
  items : List (Str × Str)       -- (subscript, value); scalars have the single subscript ""
  deriving Repr

def bashSafeBare (c : Char) : Bool :=
  (48 ≤ c.toNat ∧ c.toNat ≤ 57) ∨ (65 ≤ c.toNat ∧ c.toNat ≤ 90) ∨ (97 ≤ c.toNat ∧ c.toNat ≤ 122) ∨
  c = '.' ∨ c = '-' ∨ c = '+' ∨ c = '_'

/-- inside double quotes a backslash is removed only before these -/
def bashDqSpecial (c : Char) : Bool := c = '\\' ∨ c = '"' ∨ c = '$' ∨ c = '`'

/-- the text after an opening double quote: (value after quote removal, text after the closing quote).
    `$` and a backquote start an expansion: not covered.  (`!` is literal: the file is sourced by a
    non-interactive shell.) -/
def bashDqGo : Bool → Str → Option (Str × Str)
  | _, [] => none
  | false, ch :: r =>
    if ch = '"' then some ([], r)
    else if ch = '\\' then bashDqGo true r
    else if ch = '$' ∨ ch = '`' then none
    else (bashDqGo false r).map (fun x => (ch :: x.1, x.2))
  | true, d :: r =>
    if bashDqSpecial d then (bashDqGo false r).map (fun x => (d :: x.1, x.2))
    else (bashDqGo false r).map (fun x => ('\\' :: d :: x.1, x.2))      -- the backslash stays

def bashDq (s : Str) : Option (Str × Str) := bashDqGo false s

/-- one word after quote removal (only forms without expansion) -/
def bashWordValue (w : Str) : Option Str :=
  match w with
  | '"' :: r =>
    match bashDq r with
    | some (v, []) => some v
    | _ => none
  | _ => if w.all bashSafeBare then some w else none

/-- `"w1" "w2" …` -/
def bashWords : Nat → Str → Option (List Str)
  | 0, _ => none
  | _ + 1, [] => some []
  | fuel + 1, '"' :: r =>
    match bashDq r with
    | some (v, []) => some [v]
    | some (v, ' ' :: r3) => (bashWords fuel r3).map (v :: ·)
    | _ => none
  | _ + 1, _ => none

def enumFrom (i : Nat) : List Str → List (Str × Str)
  | [] => []
  | x :: xs => (showNat i, x) :: enumFrom (i + 1) xs

def bashNameChar (c : Char) : Bool := c ≠ '=' ∧ c ≠ '[' ∧ c ≠ ' '

/-- `[export ]` and the name: (exported?, name, text after the name) -/
def bashHead (l : Str) : Bool × Str × Str :=
  let er : Bool × Str := match dropPrefix? (cs!"export ") l with
    | some r => (true, r)
    | none => (false, l)
  let nr := er.2.span bashNameChar
  (er.1, nr.1, nr.2)

/-- the text after `NAME=` : an indexed array `( … )` or one word -/
def readBashValue (acc : List BSym) (exp : Bool) (name : Str) (w : Str) : Option (List BSym) :=
  match w with
  | '(' :: r =>
    match dropLastChar? ')' r with
    | some body => (bashWords (body.length + 1) body).map (fun ws => acc ++ [⟨name, .indexed, exp, enumFrom 0 ws⟩])
    | none => none
  | _ => (bashWordValue w).map (fun v => acc ++ [⟨name, .scalar, exp, [([], v)]⟩])

/-- the text after the name -/
def readBashTail (acc : List BSym) (exp : Bool) (name : Str) (r : Str) : Option (List BSym) :=
  match r with
  | [] =>      -- `export NAME`
    if exp then some (acc.map (fun s => if s.name = name then { s with exported := true } else s)) else none
  | '=' :: w => readBashValue acc exp name w
  | '[' :: r =>
    let kr := r.span (fun c => c ≠ ']')
    match kr.2 with
    | ']' :: '=' :: w =>
      if exp then none else
      match bashWordValue w, acc.find? (fun s => s.name = name ∧ s.kind = .assoc) with
      | some v, some _ =>
        some (acc.map (fun s => if s.name = name then { s with items := s.items ++ [(kr.1, v)] } else s))
      | _, _ => none
    | _ => none
  | _ => none

def readBashLine (acc : List BSym) (l : Str) : Option (List BSym) :=
  match dropPrefix? (cs!"declare -A ") l with
  | some n => some (acc ++ [⟨n, .assoc, false, []⟩])
  | none =>
    let h := bashHead l
    readBashTail acc h.1 h.2.1 h.2.2

def readBash (text : Str) : Option (List BSym) :=
  if text = [] then some [] else
  (lines text).foldlM readBashLine []

/-! ## the specification: what the property says a reader must see -/

/-- canonical text of a scalar as Bash holds it (everything is a string there) -/
def bashValueText : Scalar → Str
  | .s v => v
  | .b v => if v then ['0'] else ['-', '1']
  | .i v => showInt v
  | .f t => t

mutual
def bashItems (coord : List Nat) : Val → List (Str × Str)
  | .leaf s => [(commaNats coord, bashValueText s)]
  | .arr vs => bashItemsList coord 0 vs
def bashItemsList (coord : List Nat) (i : Nat) : List Val → List (Str × Str)
  | [] => []
  | v :: vs => bashItems (coord ++ [i]) v ++ bashItemsList coord (i + 1) vs
end

def expectedBash (exp ren : Bool) (data : List Param) : List BSym :=
  data.map (fun p =>
    let k := match shapeOf p.value with
      | some [] => BKind.scalar
      | some [_] => BKind.indexed
      | _ => BKind.assoc
    ⟨rename ren p.name, k, exp, bashItems [] p.value⟩)

/-- declared type the property demands: the table entry for the node's type -/
def expectedDecl (backend : Str) (p : Param) : Option Str :=
  if backend = bFortran ∧ p.kind = Kind.str then
    fortranType p (printVal styleFortran p.value)
  else lookupType backend p.kind p.bits

def expectedSym (backend : Str) (ren : Bool) (isMacro : Bool) (p : Param) : Option Sym := do
  let sh ← shapeOf p.value
  let decl ← if isMacro then some macroDecl else expectedDecl backend p
  some ⟨rename ren p.name, decl, sh, false, p.value⟩

/-- what a parameter in the `define` list is expected to hold: booleans are written 1 / 0 -/
def macroParam (define : List Str) (p : Param) : Param :=
  if define.contains p.name then
    match p.value with
    | .leaf (.b v) => { p with value := .leaf (.i (if v then 1 else 0)) }
    | _ => p
  else p

def expected (backend : Str) (ren : Bool) (define : List Str) (data : List Param) : Option (List Sym) :=
  data.mapM (fun p => expectedSym backend ren (define.contains p.name) p)

end SciVerif.C19
