import SciVerif.Model.C01
/-
Model of one `ExpressionSolver` *instance* as a state machine (property C02).

The state is the `Tokens` object created once in `__init__`: the two buffers `left`/`right`.
`solveI` (in `Model/C01.lean`) mirrors `solve()`: it resets the buffers (commit 8818136), runs the
body `solveFrom`, and returns the buffers as they are when the call returns *or raises* -- a failing
call leaves the tokens collected so far behind.  Table, steps and atom algebra are parameters.
-/
namespace SciVerif.C02
open SciVerif.C01

variable {A : Type}

/-- the instance after a history of calls (outcomes discarded, failures included) -/
def runHistory (tbl : Table) (alg : AtomAlg A) (steps : List (List String × Otype)) :
    Bufs A → List (List Char) → Bufs A
  | st, [] => st
  | st, s :: h => runHistory tbl alg steps (solveI tbl alg steps st s).1 h

/-- the outcomes of a history of calls on one instance -/
def outcomes (tbl : Table) (alg : AtomAlg A) (steps : List (List String × Otype)) :
    Bufs A → List (List Char) → List (Except String (Tok A))
  | _, [] => []
  | st, s :: h =>
      (solveI tbl alg steps st s).2 :: outcomes tbl alg steps (solveI tbl alg steps st s).1 h

/-- the same history on an instance whose `solve` does NOT reset the buffers
    (the method as it was before the fix) -/
def runHistoryNoReset (tbl : Table) (alg : AtomAlg A) (steps : List (List String × Otype)) :
    Bufs A → List (List Char) → Bufs A
  | st, [] => st
  | st, s :: h => runHistoryNoReset tbl alg steps (solveFrom tbl alg steps st s).1 h

end SciVerif.C02
