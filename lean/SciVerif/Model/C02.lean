import SciVerif.Model.C01
/-
Model of one `ExpressionSolver` *instance* as a state machine (property C02).

The state is the `Tokens` object created once in `__init__`: the two buffers `left`/`right`.
`solveI` (in `Model/C01.lean`) mirrors `solve()`: it resets the buffers (commit 8818136), runs the
body `solveFrom`, and returns the buffers as they are when the call returns *or raises* -- a failing
call leaves the tokens collected so far behind.  Table, steps and atom algebra are parameters.
-/
namespace SciVerif.C02
open SciVerif.C01

variable {A : Type}

/-- the instance after a history of calls (outcomes discarded, failures included) -/
def runHistory (tbl : Table) (alg : AtomAlg A) (steps : List (List String × Otype)) :
    Bufs A → List (List Char) → Bufs A
  | st, [] => st
  | st, s :: h => runHistory tbl alg steps (solveI tbl alg steps st s).1 h

/-- the outcomes of a history of calls on one instance -/
def outcomes (tbl : Table) (alg : AtomAlg A) (steps : List (List String × Otype)) :
    Bufs A → List (List Char) → List (Except String (Tok A))
  | _, [] => []
  | st, s :: h =>
      (solveI tbl alg steps st s).2 :: outcomes tbl alg steps (solveI tbl alg steps st s).1 h

/-- the same history on an instance whose `solve` does NOT reset the buffers
    (the method as it was before the fix) -/
def runHistoryNoReset (tbl : Table) (alg : AtomAlg A) (steps : List (List String × Otype)) :
    Bufs A → List (List Char) → Bufs A
  | st, [] => st
  | st, s :: h => runHistoryNoReset tbl alg steps (solveFrom tbl alg steps st s).1 h

/-- a history in which every call runs under its own atom algebra: an atom class whose constructor
    reads variables that change between the calls (the `foo`/`bar` atom of the documentation) -/
def runHistoryW (tbl : Table) (steps : List (List String × Otype)) :
    Bufs A → List (AtomAlg A × List Char) → Bufs A
  | st, [] => st
  | st, (alg, s) :: h => runHistoryW tbl steps (solveI tbl alg steps st s).1 h

/-! ### everything the instance carries from call to call

The persistent state of an instance is exactly what `__init__` creates: `tokens` (with `atom`,
`left`, `right`), `operators`, `steps`, and `expr` once a call was made.  The correspondence
compares `vars(solver)` and `vars(solver.tokens)` with this list after every history, so a new
persistent field (a cache, say) is noticed. -/

/-- The attributes of an `ExpressionSolver` a call writes: the token buffers and `self.expr`
    (its `.expr` text; absent before the first call).  `operators`, `steps` and the atom class are
    never written by `solve` (checked on the real objects after every generated history), so they
    are parameters. -/
structure Inst (A : Type) where
  bufs : Bufs A
  expr : Option (List Char)

def Inst.fresh : Inst A := ⟨⟨[], []⟩, none⟩

/-- `solve(s)` on the instance: `self.expr = Expression(s)`, then `solveI` on the buffers -/
def Inst.solve (tbl : Table) (alg : AtomAlg A) (steps : List (List String × Otype))
    (i : Inst A) (s : List Char) : Inst A × Except String (Tok A) :=
  let r := solveI tbl alg steps i.bufs s
  (⟨r.1, some s⟩, r.2)

def Inst.run (tbl : Table) (alg : AtomAlg A) (steps : List (List String × Otype)) :
    Inst A → List (List Char) → Inst A
  | i, [] => i
  | i, s :: h => Inst.run tbl alg steps (i.solve tbl alg steps s).1 h

/-- The arguments of one call solved by independent fresh instances (the specification of
    `solveArgs`, which reuses ONE nested instance for all arguments of a call). -/
def freshArgs (tbl : Table) (alg : AtomAlg A) (steps : List (List String × Otype)) :
    List (List Char) → Except String (List (Option A))
  | [] => .ok []
  | a :: as =>
      match SciVerif.C01.solve tbl alg steps a with
      | .error m => .error m
      | .ok (.op _ _) => .error "unsupported:operator-valued-argument"
      | .ok t =>
        match freshArgs tbl alg steps as with
        | .error m => .error m
        | .ok vs => .ok (tokAtom t :: vs)

end SciVerif.C02
