/-
Model of DIP references (property C17): value injection `{?path}` / `{source?path}` with
slices, node imports `{?path.*}` / `{?path}` / `{?*}`, and parsing on top of a base
environment / remote source.

Mirrors, statement by statement (state of /repo after the C17 fixes f2429f9, d588ea0,
456a8ef, 34bd17b):
  * `environment.py`      Environment.request (source?query routing, local/remote, count test)
  * `lists/list_nodes.py` NodeList.query (`*`, `path.*`, exact path; copies; re-rooted names)
  * `nodes/node_base.py`  inject_value, raw_value, slice_value, cast_value, modify_value, set_value
  * `nodes/node_import.py` ImportNode.parse (name surgery on `.{`, indent, current raw value, no reference)
  * `lists/list_hierarchy.py` HierarchyList.register
  * `dip.py`              DIP.parse main loop for group / typed / modification / import / property /
                          `$unit` lines (no `@case` lines: branching is inert)
A *line record* (`Item`) is what the lexer produces from one line of text; values are
structured literals (`Val`) instead of text (the text <-> literal map is the lexer's and
json's business, property C13).  No Mathlib imports: compiled into the driver.
-/
namespace SciVerif.C17

abbrev Str := List Char

/-- Values: numbers (int and float alike; the dtype lives on the node), booleans, text,
    arrays (nested lists, as `Type.value` after `tolist()`). -/
inductive Val where
  | num (q : Rat)
  | bool (b : Bool)
  | str (s : Str)
  | arr (l : List Val)

/-- One entry of `value_slice` as `Parser.part_slice` stores it: an integer index `n` or a
    slice object `a:b` (`None` for an omitted bound). -/
inductive Sl where
  | idx (n : Nat)
  | rng (a b : Option Nat)

/-- Python `l[a:b]` for non-negative (or omitted) bounds. -/
def pySlice {α : Type} (l : List α) (a b : Option Nat) : List α :=
  (l.take (b.getD l.length)).drop (a.getD 0)

/-- `BaseNode.slice_value` on a numpy array / nested list / Python string: `value[index]`, then
    the remaining entries on the element (after an index) or on every element (after a range).
    Indexing or slicing a number or boolean raises = `none`. -/
def sliceValue : List Sl → Val → Option Val
  | [], v => some v
  | .idx n :: rest, .arr l =>
    match l[n]? with
    | none => none
    | some x => sliceValue rest x
  | .rng a b :: rest, .arr l =>
    match rest with
    | [] => some (.arr (pySlice l a b))
    | _ :: _ => ((pySlice l a b).mapM (fun x => sliceValue rest x)).map Val.arr
  | .idx n :: rest, .str s =>
    match s[n]? with
    | none => none
    | some c => sliceValue rest (.str [c])
  | .rng a b :: rest, .str s =>
    match rest with
    | [] => some (.str (pySlice s a b))
    | _ :: _ => ((pySlice s a b).mapM (fun c => sliceValue rest (.str [c]))).map Val.arr
  | _ :: _, _ => none

mutual
/-- `numpy.ndarray.shape` of a regular nested list -/
def shape : Val → List Nat
  | .arr l => l.length :: shapeHead l
  | _ => []
def shapeHead : List Val → List Nat
  | [] => []
  | x :: _ => shape x
end

inductive Kw where
  | bool | int | float | str | mod | group | imp
deriving DecidableEq, Repr

/-- `Node.dtype` of each node class (`str` is the class default). -/
def dtypeOf : Kw → Kw
  | .bool => .bool
  | .int => .int
  | .float => .float
  | _ => .str

def isIntRat (q : Rat) : Bool := q.den == 1

/-- `self.dtype(value)` / the explicit boolean conversion, on a scalar literal. -/
def castScalar (k : Kw) : Val → Option Val
  | .num q => match k with
    | .float => some (.num q)
    | .int => if isIntRat q then some (.num q) else none
    | _ => none
  | .bool b => match k with
    | .bool => some (.bool b)
    | _ => none
  | .str s => match dtypeOf k with
    | .str => some (.str s)
    | _ => none
  | .arr _ => none

mutual
/-- `np.array(value, dtype=self.dtype)` -/
def castElem (k : Kw) : Val → Option Val
  | .arr l => (castList k l).map Val.arr
  | .num q => castScalar k (.num q)
  | .bool b => castScalar k (.bool b)
  | .str s => castScalar k (.str s)
def castList (k : Kw) : List Val → Option (List Val)
  | [] => some []
  | x :: t =>
    match castElem k x, castList k t with
    | some a, some b => some (a :: b)
    | _, _ => none
end

abbrev Dim := Option Nat × Option Nat

/-- the dimension test of `cast_value` (`value.shape[d]` raises when `d` exceeds the rank) -/
def checkDims : List Dim → List Nat → Bool
  | [], _ => true
  | _ :: _, [] => false
  | (lo, hi) :: ds, s :: ss =>
    (match lo with | some a => decide (a ≤ s) | none => true) &&
    (match hi with | some b => decide (s ≤ b) | none => true) && checkDims ds ss

def isArr : Val → Bool
  | .arr _ => true
  | _ => false

structure Node where
  name : Str
  indent : Nat
  kw : Kw
  dims : List Dim            -- `dimension` (`[]` = None)
  raw : Option Val           -- `value_raw`
  ref : Option Str           -- `value_ref`
  slice : List Sl            -- `value_slice` (`[]` = None)
  unitsRaw : Option Str      -- `units_raw`
  value : Option Val         -- `value.value` (`none` = `value is None`); `value.unit` is `units_raw`
  defined : Bool
  constant : Bool
  condition : Option Str
  format : Option Str
  tags : List Str
  options : List (Val × Option Str)
  description : Option Str
  imported : Bool            -- `isource` set

/-- `BaseNode.cast_value(value)` for a value that is not `None`/`none`. -/
def castValue (n : Node) (v : Val) : Option Val :=
  if !n.dims.isEmpty || !n.slice.isEmpty then
    match castElem (dtypeOf n.kw) v with
    | none => none
    | some v1 =>
      match (if n.slice.isEmpty then some v1 else sliceValue n.slice v1) with
      | none => none
      | some v2 =>
        if !n.dims.isEmpty then
          (if checkDims n.dims (shape v2) then some v2 else none)
        else (if isArr v2 then none else some v2)
  else castScalar (if n.kw = .mod then .str else n.kw) v

/-- the unit table regenerated from the live unit objects: symbol, dimension id, and the affine
    map `x ↦ a·x + b` into the first unit of that dimension (`b = 0` for all but temperatures) -/
abbrev UnitTable := List (Str × Nat × Rat × Rat)

def lookupUnit (tbl : UnitTable) (u : Str) : Option (Nat × Rat × Rat) :=
  match tbl.find? (fun e => e.1 = u) with
  | some e => some e.2
  | none => none

mutual
/-- `x ↦ a·x + b` on every number of the value (numpy broadcasts the conversion) -/
def affVal (a b : Rat) : Val → Val
  | .num q => .num (q * a + b)
  | .arr l => .arr (affList a b l)
  | .bool x => .bool x
  | .str s => .str s
def affList (a b : Rat) : List Val → List Val
  | [] => []
  | x :: t => affVal a b x :: affList a b t
end

/-- `NumberType.convert(unit)` with `self.unit = from`: nothing happens unless both units are
    stated and differ; then `Quantity(value, from).value(to)`, element by element. -/
def convertVal (tbl : UnitTable) (v : Val) (frm to : Option Str) : Option Val :=
  match to, frm with
  | some t, some f =>
    if f = t then some v
    else match lookupUnit tbl f, lookupUnit tbl t with
      | some (df, af, bf), some (dt, at', bt) =>
        if df = dt then some (affVal (af / at') ((bf - bt) / at') v) else none
      | _, _ => none
  | _, _ => some v

/-! ### NodeList.query -/

def dotStar : Str := ['.', '*']

/-- `node.name.split('.')[-1]` -/
def lastComp : Str → Str
  | [] => []
  | c :: t => if t.contains '.' then lastComp t else (if c = '.' then t else c :: t)

inductive Query where
  | all                       -- `*`
  | children (pre : Str)      -- `path.*`; `pre = path ++ "."`
  | exact (path : Str)

/-- the three-way test at the head of `NodeList.query` -/
def parseQuery (q : Str) : Query :=
  if q = ['*'] then .all
  else if q.drop (q.length - 2) = dotStar then .children (q.take (q.length - 1))
  else .exact q

def qMatches : Query → Node → Bool
  | .all, _ => true
  | .children pre, n => pre.isPrefixOf n.name
  | .exact p, n => decide (n.name = p)

def qRename : Query → Node → Node
  | .all, n => n
  | .children pre, n => { n with name := n.name.drop pre.length }
  | .exact _, n => { n with name := lastComp n.name }

/-- `NodeList.query(query)` without tags: the matching nodes, in order, as renamed copies. -/
def query (ns : List Node) (q : Query) : List Node :=
  (ns.filter (qMatches q)).map (qRename q)

/-! ### Environment.request -/

structure Env where
  nodes : List Node
  units : List (Str × Val × Option Str)        -- `$unit` definitions (name, value, unit)
  sources : List (Str × List Node)             -- remote DIP sources: name ↦ parsed nodes
  parents : List (Nat × Str)                   -- hierarchy
  srcUnits : List (Str × List (Str × Val × Option Str))   -- custom units of the remote sources

def Env.empty : Env := ⟨[], [], [], [], []⟩

/-- `path.split('?')` for a path with exactly one `?` -/
def splitQ : Str → Option (Str × Str)
  | [] => none
  | c :: t => if c = '?' then (if t.contains '?' then none else some ([], t))
    else match splitQ t with
      | some (a, b) => some (c :: a, b)
      | none => none

inductive Count where
  | any | one

/-- `if source: … self.sources[source].nodes.query(query) else: … self.nodes.query(query)` -/
def requestNodes (env : Env) (source q : Str) : Except String (List Node) :=
  if source.isEmpty then
    (if env.nodes.isEmpty then .error "request: no local nodes"
     else .ok (query env.nodes (parseQuery q)))
  else match env.sources.find? (fun s => s.1 = source) with
    | none => .error "request: no such source"
    | some s => .ok (query s.2 (parseQuery q))

/-- `if count: … len(nodes)!=count → raise` -/
def countCheck (cnt : Count) (ns : List Node) : Except String (List Node) :=
  match cnt with
  | .any => .ok ns
  | .one => if ns.length = 1 then .ok ns else .error "request: count"

def request (env : Env) (path : Str) (cnt : Count) : Except String (List Node) :=
  match splitQ path with
  | none => .error "request: not source?query"
  | some (source, q) =>
    match requestNodes env source q with
    | .error e => .error e
    | .ok ns => countCheck cnt ns

/-! ### injection -/

/-- `BaseNode.raw_value()`: the current value written as a raw value, else the raw value. -/
def rawValue (n : Node) : Option Val :=
  match n.value with
  | some v => some v
  | none => n.raw

/-- `if not node.units_raw: node.units_raw = nodes[0].units_raw`: the host's own unit wins -/
def pickUnit (own other : Option Str) : Option Str :=
  match own with
  | some u => some u
  | none => other

/-- `BaseNode.inject_value(env)` -/
def injectValue (env : Env) (n : Node) : Except String Node :=
  match n.ref with
  | none => .ok n
  | some r =>
    match request env r .one with
    | .error e => .error e
    | .ok [] => .error "inject: impossible"
    | .ok (src :: _) =>
      .ok { n with raw := rawValue src, unitsRaw := pickUnit n.unitsRaw src.unitsRaw }

/-! ### hierarchy -/

def joinDot : List Str → Str
  | [] => []
  | [a] => a
  | a :: b :: t => a ++ '.' :: joinDot (b :: t)

/-- `while parents and indent <= parents[-1].indent: parents.pop()` on the reversed stack -/
def popParents (indent : Nat) : List (Nat × Str) → List (Nat × Str)
  | [] => []
  | p :: t => if indent ≤ p.1 then popParents indent t else p :: t

/-- `HierarchyList.register` (parents kept innermost first) -/
def register (ps : List (Nat × Str)) (n : Node) : List (Nat × Str) × Node :=
  let ps' := (n.indent, n.name) :: popParents n.indent ps
  (ps', { n with name := joinDot (ps'.reverse.map Prod.snd) })

/-! ### set_value / modify_value -/

def isNumKw : Kw → Bool
  | .int => true
  | .float => true
  | _ => false

/-- `node.set_value()` of the typed node classes: nothing without a raw value; else the cast of
    the current value if there is one (imported copies), else of the raw value.  The slice is
    dropped once applied. -/
def setValue (n : Node) : Except String Node :=
  match n.raw with
  | none => .ok { n with value := none }
  | some r =>
    if n.kw = .mod then .ok { n with value := some r }    -- `str(value_raw)` cannot fail
    else
    let v := match n.value with
      | some cur => cur
      | none => r
    match castValue n v with
    | none => .error "set_value: cast"
    | some v' => .ok { n with value := some v', slice := [] }

/-- `target.modify_value(node, env)` -/
def modifyValue (tbl : UnitTable) (t m : Node) : Except String Node :=
  if m.kw ≠ .mod ∧ dtypeOf m.kw ≠ dtypeOf t.kw then .error "modify: datatype"
  else match m.raw with
    | none => .error "modify: no raw value"
    | some r =>
      match castValue t r with
      | none => .error "modify: cast"
      | some v =>
        if isNumKw t.kw then
          if m.unitsRaw.isSome && t.unitsRaw.isNone then .error "modify: units onto a unit-less node"
          else match convertVal tbl v m.unitsRaw t.unitsRaw with
          | none => .error "modify: units"
          | some v' => .ok { t with value := some v', slice := [] }
        else if m.unitsRaw.isSome then .error "modify: units on a str/bool node"
        else .ok { t with value := some v, slice := [] }

/-- replace the first node of that name (the `for n in range(len(target.nodes))` loop) -/
def modifyFirst (tbl : UnitTable) (m : Node) : List Node → Except String (Option (List Node))
  | [] => .ok none
  | t :: rest =>
    if t.name = m.name then
      if t.constant then .error "constant"
      else match modifyValue tbl t m with
        | .error e => .error e
        | .ok t' => .ok (some (t' :: rest))
    else match modifyFirst tbl m rest with
      | .error e => .error e
      | .ok none => .ok none
      | .ok (some r) => .ok (some (t :: r))

/-- the per-class `parse`: numeric nodes test their unit, str/bool nodes refuse units -/
def unitCheck (tbl : UnitTable) (n : Node) : Except String Unit :=
  match n.kw, n.unitsRaw with
  | .int, some u | .float, some u =>
    if (lookupUnit tbl u).isSome then .ok () else .error "unknown unit"
  | .str, some _ | .bool, some _ => .error "units on str/bool"
  | _, _ => .ok ()

/-- One pass of the main loop of `DIP.parse` for a group / typed / modification node whose
    reference (if any) is already injected. -/
def processNode (tbl : UnitTable) (env : Env) (n : Node) : Except String Env :=
  match unitCheck tbl n with
  | .error e => .error e
  | .ok () =>
    let (ps, n1) := register env.parents n
    let env1 := { env with parents := ps }
    if n1.kw = .group then .ok env1
    else match setValue n1 with
      | .error e => .error e
      | .ok n2 =>
        match modifyFirst tbl n2 env1.nodes with
        | .error e => .error e
        | .ok (some ns) => .ok { env1 with nodes := ns }
        | .ok none =>
          if n2.kw = .mod then .error "modifying undefined node"
          else .ok { env1 with nodes := env1.nodes ++ [n2] }

/-! ### imports -/

/-- `str.split('.{')` -/
def splitDotBrace : Str → List Str
  | [] => [[]]
  | c :: t =>
    if c = '.' ∧ t.head? = some '{' then [] :: splitDotBrace t.tail
    else match splitDotBrace t with
      | [] => [[c]]
      | h :: r => (c :: h) :: r
termination_by s => s.length
decreasing_by
  all_goals simp [List.length_tail]
  all_goals omega

/-- the name surgery of `ImportNode.parse` -/
def importName (impName nodeName : Str) : Str :=
  joinDot ((splitDotBrace impName).dropLast ++ [nodeName])

/-- `ImportNode.parse(env)`: request without count test, reject an empty selection, re-root. -/
def importNodes (env : Env) (imp : Node) : Except String (List Node) :=
  match imp.ref with
  | none => .error "import: no reference"
  | some r =>
    match request env r .any with
    | .error e => .error e
    | .ok [] => .error "import: no nodes"
    | .ok ns => .ok (ns.map (fun n =>
        { n with name := importName imp.name n.name, indent := imp.indent, imported := true,
                 raw := rawValue n, ref := none }))

/-! ### property lines, `$unit`, the main loop -/

inductive PropLine where
  | constant
  | condition (e : Str)
  | format (f : Str)
  | tags (l : List Str)
  | option (raw : Val) (unit : Option Str)
  | description (d : Str)

/-- a `@case` / `@else` / `@end` line; a condition is a literal `true`/`false` or a bare
    reference `{?flag}` (expressions are C18's) -/
inductive CaseKind where
  | cond (raw : Option Val) (ref : Option Str)
  | els
  | fin

inductive Item where
  | node (n : Node)                       -- group / typed / modification / import line
  | prop (p : PropLine)
  | unitdef (name : Str) (value : Val) (unit : Option Str)     -- `$unit name = value unit`
  | unitref (name : Str) (ref : Str) (unit : Option Str)       -- `$unit name = {ref} unit`
  | optref (ref : Str) (unit : Option Str)                     -- option line `= {ref} unit`
  | unitimp (source : Str) (name : Option Str)                 -- `$unit {source?*}` / `$unit {source?name}`
  | case (indent : Nat) (k : CaseKind)

/-- `description = str(raw)` the first time, `description += str(raw)` afterwards -/
def addDescr (old : Option Str) (d : Str) : Option Str :=
  match old with
  | none => some d
  | some o => some (o ++ d)

def isTyped : Kw → Bool
  | .bool => true | .int => true | .float => true | .str => true
  | _ => false

def updateLast (f : Node → Except String Node) : List Node → Except String (List Node)
  | [] => .error "property without node"
  | [n] => match f n with
    | .ok n' => .ok [n']
    | .error e => .error e
  | n :: m :: t => match updateLast f (m :: t) with
    | .ok r => .ok (n :: r)
    | .error e => .error e

/-- the property node classes' `parse`: they act on `env.nodes[-1]` -/
def applyProp (p : PropLine) (n : Node) : Except String Node :=
  match p with
  | .constant => .ok { n with constant := true }
  | .condition e => .ok { n with condition := some e }
  | .format f => if n.kw = .str then .ok { n with format := some f } else .error "format on non-str"
  | .tags l => if isTyped n.kw then .ok { n with tags := n.tags ++ l } else .error "tags"
  | .option r u =>
    if n.kw = .int ∨ n.kw = .float ∨ n.kw = .str then .ok { n with options := n.options ++ [(r, u)] }
    else .error "options"
  | .description d =>
    if isTyped n.kw then .ok { n with description := addDescr n.description d }
    else .error "description"

/-- `self.inject_value(env, host)` for a host that is not a node of the list (`$unit`, option
    line): the referenced node's current value, and the host's own unit or else the adopted one -/
def injectHost (env : Env) (ref : Str) (unit : Option Str) : Except String (Val × Option Str) :=
  match request env ref .one with
  | .error e => .error e
  | .ok [] => .error "inject: impossible"
  | .ok (src :: _) =>
    match rawValue src with
    | none => .error "inject: no value"
    | some v => .ok (v, pickUnit unit src.unitsRaw)

/-- the unit text is empty or a unit of the table -/
def unitKnown (tbl : UnitTable) : Option Str → Bool
  | none => true
  | some u => (lookupUnit tbl u).isSome

/-- `UnitNode.parse`: `Quantity(float(value_raw), units_raw)` and `env.units.append` -/
def addUnit (tbl : UnitTable) (env : Env) (name : Str) (v : Val) (unit : Option Str) : Except String Env :=
  match v with
  | .num _ =>
    if !unitKnown tbl unit then .error "unknown unit"
    else if env.units.any (fun u => u.1 = name) then .error "unit exists"
    else .ok { env with units := env.units ++ [(name, v, unit)] }
  | _ => .error "unit value is not a number"

/-- `UnitList.extend`: every selected unit is added; a name that exists already is refused -/
def extendUnits (units : List (Str × Val × Option Str)) :
    List (Str × Val × Option Str) → Except String (List (Str × Val × Option Str))
  | [] => .ok units
  | u :: rest =>
    if units.any (fun x => x.1 = u.1) then .error "unit exists"
    else extendUnits (units ++ [u]) rest

/-- `$unit {source?query}`: `UnitList.query` of the remote source (`*` or one name), then `extend` -/
def importUnits (env : Env) (source : Str) (name : Option Str) : Except String Env :=
  match env.srcUnits.find? (fun s => s.1 = source) with
  | none => .error "request: no such source"
  | some s =>
    let sel : Except String (List (Str × Val × Option Str)) := match name with
      | none => .ok s.2
      | some nm => match s.2.find? (fun u => u.1 = nm) with
        | some u => .ok [u]
        | none => .error "requested unit does not exist"
    match sel with
    | .error e => .error e
    | .ok us =>
      match extendUnits env.units us with
      | .error e => .error e
      | .ok units' => .ok { env with units := units' }

def step (tbl : UnitTable) (env : Env) : Item → Except String Env
  | .unitimp source name => importUnits env source name
  | .prop p =>
    match updateLast (applyProp p) env.nodes with
    | .ok ns => .ok { env with nodes := ns }
    | .error e => .error e
  | .unitdef name value unit => addUnit tbl env name value unit
  | .unitref name ref unit =>
    match injectHost env ref unit with
    | .error e => .error e
    | .ok (v, u) => addUnit tbl env name v u
  | .optref ref unit =>
    match injectHost env ref unit with
    | .error e => .error e
    | .ok (v, u) =>
      match updateLast (applyProp (.option v u)) env.nodes with
      | .ok ns => .ok { env with nodes := ns }
      | .error e => .error e
  | .case _ _ => .error "case line: see stepC"
  | .node n =>
    if n.kw = .imp then
      match importNodes env n with
      | .error e => .error e
      | .ok ns => ns.foldlM (processNode tbl) env      -- `queue.prepend(parsed); continue`
    else
      match injectValue env n with
      | .error e => .error e
      | .ok n' => processNode tbl env n'

/-- final validation loop (only the test that involves no solver) -/
def validate (env : Env) : Except String Env :=
  if env.nodes.any (fun n => n.defined && n.value.isNone) then .error "value must be defined"
  else .ok env

/-- `DIP(base).parse()` for the lines `items`: `target = self.env.copy()` is a value copy
    (the hierarchy left over by the base parse included). -/
def parse (tbl : UnitTable) (base : Env) (items : List Item) : Except String Env :=
  match items.foldlM (step tbl) base with
  | .error e => .error e
  | .ok env => validate env

/-! ### `@case` chains (flat: no clause nested in another clause) -/

/-- the open branch: indent of its clauses, whether an earlier clause was true, whether the
    current clause is selected, whether `@else` was seen -/
structure Branch where
  indent : Nat
  anyTrue : Bool
  selected : Bool
  afterElse : Bool

structure CEnv where
  env : Env
  branch : Option Branch

/-- the condition of a clause: a literal or the injected current value of a boolean node
    (`CaseNode.inject_value` injects unless an ENCLOSING clause is unselected — never in a flat chain) -/
def caseValue (env : Env) (raw : Option Val) (ref : Option Str) : Except String Bool :=
  match ref with
  | some r =>
    match request env r .one with
    | .error e => .error e
    | .ok [] => .error "inject: impossible"
    | .ok (src :: _) =>
      match rawValue src with
      | some (.bool b) => .ok b
      | _ => .error "case: not a boolean"
  | none =>
    match raw with
    | some (.bool b) => .ok b
    | _ => .error "case: not a boolean"

/-- the main loop of `DIP.parse` with flat `@case` chains: clauses register in the hierarchy
    (their name is cleaned away again: only the popping is visible), only the first true clause
    of a branch is selected, lines of an unselected clause are skipped but still registered -/
def stepC (tbl : UnitTable) (c : CEnv) : Item → Except String CEnv
  | .case indent k =>
    let env' := { c.env with parents := popParents indent c.env.parents }
    match k with
    | .cond raw ref =>
      match caseValue c.env raw ref with
      | .error e => .error e
      | .ok v =>
        match c.branch with
        | none => .ok ⟨env', some ⟨indent, v, v, false⟩⟩
        | some b =>
          if b.indent ≠ indent then .error "nested / misplaced clause: outside the model"
          else if b.afterElse then .error "clause after @else"
          else .ok ⟨env', some ⟨indent, b.anyTrue || v, v && !b.anyTrue, false⟩⟩
    | .els =>
      match c.branch with
      | none => .error "@else without branch"
      | some b =>
        if b.indent ≠ indent then .error "nested / misplaced clause: outside the model"
        else if b.afterElse then .error "clause after @else"
        else .ok ⟨env', some ⟨indent, true, !b.anyTrue, true⟩⟩
    | .fin =>
      match c.branch with
      | none => .error "@end without branch"
      | some b =>
        if b.indent ≠ indent then .error "nested / misplaced clause: outside the model"
        else .ok ⟨env', none⟩
  | .node n =>
    -- `close_cases`: a named line at or below the clause indent ends the branch
    let br := match c.branch with
      | some b => if n.indent ≤ b.indent then none else some b
      | none => none
    match br with
    | some b =>
      if b.selected then
        match step tbl c.env (.node n) with
        | .ok e => .ok ⟨e, br⟩
        | .error e => .error e
      else .ok ⟨{ c.env with parents := (register c.env.parents n).1 }, br⟩
    | none =>
      match step tbl c.env (.node n) with
      | .ok e => .ok ⟨e, none⟩
      | .error e => .error e
  | it =>
    match c.branch with
    | some b =>
      if b.selected then
        match step tbl c.env it with
        | .ok e => .ok ⟨e, c.branch⟩
        | .error e => .error e
      else .ok c
    | none =>
      match step tbl c.env it with
      | .ok e => .ok ⟨e, none⟩
      | .error e => .error e

def parseC (tbl : UnitTable) (base : Env) (items : List Item) : Except String Env :=
  match items.foldlM (stepC tbl) ⟨base, none⟩ with
  | .error e => .error e
  | .ok c => validate c.env

/-! ### Specification -/

/-- numpy/Python indexing `v[s1, s2, …]` on nested lists -/
def specSlice : List Sl → Val → Option Val
  | [], v => some v
  | .idx n :: rest, .arr l =>
    match l[n]? with
    | none => none
    | some x => specSlice rest x
  | .rng a b :: rest, .arr l =>
    match rest with
    | [] => some (.arr (pySlice l a b))
    | _ :: _ => ((pySlice l a b).mapM (fun x => specSlice rest x)).map Val.arr
  | [.idx n], .str s => (s[n]?).map (fun c => Val.str [c])       -- text is sliced like a Python str
  | [.rng a b], .str s => some (.str (pySlice s a b))
  | _ :: _, _ => none

/-- abstract node: path components, dtype, unit, value, constraints -/
structure SNode where
  path : List Str
  kw : Kw
  dims : List Dim
  unit : Option Str
  value : Option Val        -- `none`: declared, not yet assigned
  constant : Bool
  condition : Option Str
  format : Option Str
  tags : List Str
  options : List (Val × Option Str)
  description : Option Str

inductive SQuery where
  | all
  | children (p : List Str)
  | exact (p : List Str)

def sMatches : SQuery → SNode → Bool
  | .all, _ => true
  | .children p, n => p.isPrefixOf n.path && decide (p.length < n.path.length)
  | .exact p, n => decide (n.path = p)

def sReroot (dest : List Str) : SQuery → SNode → SNode
  | .all, n => { n with path := dest ++ n.path }
  | .children p, n => { n with path := dest ++ n.path.drop p.length }
  | .exact _, n => { n with path := dest ++ n.path.drop (n.path.length - 1) }

def select (q : SQuery) (ns : List SNode) : List SNode := ns.filter (sMatches q)

inductive SVal where
  | lit (v : Val)
  | inj (source : Option Str) (path : SQuery) (slices : List Sl)

inductive SStmt where
  | defn (path : List Str) (kw : Kw) (dims : List Dim) (v : SVal) (unit : Option Str)
  | decl (path : List Str) (kw : Kw) (dims : List Dim) (unit : Option Str)
  | modl (path : List Str) (v : SVal) (unit : Option Str)
  | imp (dest : List Str) (source : Option Str) (q : SQuery)
  | constant (path : List Str)
  | condition (path : List Str) (e : Str)
  | format (path : List Str) (f : Str)
  | tags (path : List Str) (l : List Str)
  | option (path : List Str) (v : SVal) (unit : Option Str)
  | description (path : List Str) (d : Str)
  | unitdef (name : Str) (v : SVal) (unit : Option Str)
  | unitimp (source : Str) (name : Option Str)
  | caseCond (v : SVal)
  | caseElse
  | caseEnd

structure SEnv where
  nodes : List SNode
  sources : List (Str × List SNode)
  mayReject : Bool          -- an import selected nothing: rejecting the program is also allowed
  units : List (Str × Val × Option Str)      -- custom units (name, value, unit)
  srcUnits : List (Str × List (Str × Val × Option Str))   -- custom units of the remote sources

/-- `rejected`: the property demands an error.  `outside`: the property is silent. -/
inductive SErr where
  | rejected
  | outside

def sLookup (env : SEnv) (source : Option Str) : Option (List SNode) :=
  match source with
  | none => if env.nodes.isEmpty then none else some env.nodes
  | some s => (env.sources.find? (fun x => x.1 = s)).map Prod.snd

/-- the value and unit an injection delivers: the single selected node's current value, cut by
    the slice; rejected when the request selects no node or several -/
def sEval (env : SEnv) : SVal → Except SErr (Val × Option Str)
  | .lit v => .ok (v, none)
  | .inj source q sl =>
    match sLookup env source with
    | none => .error .outside
    | some ns =>
      match select q ns with
      | [n] => match n.value with
        | none => .error .outside                    -- declared, not yet assigned
        | some val => match specSlice sl val with
          | some v => .ok (v, n.unit)
          | none => .error .outside
      | _ => .error .rejected

/-- the value conforms to the declared type and dimensions -/
def conforms (kw : Kw) (dims : List Dim) (v : Val) : Option Val :=
  if dims.isEmpty then castScalar kw v
  else match castElem kw v with
    | some v' => if checkDims dims (shape v') then some v' else none
    | none => none

def sUpdate (p : List Str) (f : SNode → Option SNode) : List SNode → Option (List SNode)
  | [] => none
  | n :: t => if n.path = p then (f n).map (· :: t) else (sUpdate p f t).map (n :: ·)

def sAttr (env : SEnv) (path : List Str) (f : SNode → SNode) : Except SErr SEnv :=
  match sUpdate path (fun n => some (f n)) env.nodes with
  | some ns => .ok { env with nodes := ns }
  | none => .error .outside

def unitOk (tbl : UnitTable) (kw : Kw) (u : Option Str) : Bool :=
  match u with
  | none => true
  | some x => isNumKw kw && (lookupUnit tbl x).isSome

/-- the update a modification `path = v unit'` applies to the node at `path`: refused on a
    constant; the value must conform to the node's type and dimension; numbers are converted from
    the stated (or adopted) unit into the node's definition unit -/
def specModF (tbl : UnitTable) (v : Val) (unit' : Option Str) (n : SNode) : Option SNode :=
  if n.constant then none
  else match conforms n.kw n.dims v with
    | none => none
    | some v' =>
      if isNumKw n.kw then
        (if unit'.isSome && n.unit.isNone then none
         else (convertVal tbl v' unit' n.unit).map (fun w => { n with value := some w }))
      else if unit'.isSome then none
      else some { n with value := some v' }

/-- one imported node: re-created at its destination, or — when a node of that path already
    exists — assigned to it like a modification (same type required; current value converted from
    the imported node's unit into the existing node's definition unit; the existing node keeps
    its own constraints) -/
def sImportOne (tbl : UnitTable) (nodes : List SNode) (s : SNode) : Option (List SNode) :=
  if nodes.any (fun m => m.path = s.path) then
    match s.value with
    | none => none
    | some v => sUpdate s.path (fun t => if t.kw = s.kw then specModF tbl v s.unit t else none) nodes
  else some (nodes ++ [s])

def sImportAll (tbl : UnitTable) (nodes : List SNode) : List SNode → Option (List SNode)
  | [] => some nodes
  | s :: rest => match sImportOne tbl nodes s with
    | none => none
    | some nodes' => sImportAll tbl nodes' rest

def sStep (tbl : UnitTable) (env : SEnv) : SStmt → Except SErr SEnv
  | .defn path kw dims sv unit =>
    if env.nodes.any (fun n => n.path = path) then .error .outside   -- re-definition
    else match sEval env sv with
      | .error e => .error e
      | .ok (v, u) =>
        let unit' := pickUnit unit u
        if !unitOk tbl kw unit' then .error .outside
        else match conforms kw dims v with
          | none => .error .outside
          | some v' => .ok { env with nodes := env.nodes ++
              [⟨path, kw, dims, unit', some v', false, none, none, [], [], none⟩] }
  | .modl path sv unit =>
    match sEval env sv with
    | .error e => .error e
    | .ok (v, u) =>
      let unit' := pickUnit unit u
      match sUpdate path (specModF tbl v unit') env.nodes with
      | some ns => .ok { env with nodes := ns }
      | none => .error .outside
  | .decl path kw dims unit =>
    if env.nodes.any (fun n => n.path = path) then .error .outside
    else if !unitOk tbl kw unit then .error .outside
    else .ok { env with nodes := env.nodes ++ [⟨path, kw, dims, unit, none, false, none, none, [], [], none⟩] }
  | .imp dest source q =>
    match sLookup env source with
    | none => .error .outside
    | some ns =>
      let sel := (select q ns).map (sReroot dest q)
      if sel.isEmpty then .ok { env with mayReject := true }     -- rejected or nothing added
      else match sImportAll tbl env.nodes sel with
        | some ns' => .ok { env with nodes := ns' }
        | none => .error .outside
  | .constant path => sAttr env path (fun n => { n with constant := true })
  | .condition path e => sAttr env path (fun n => { n with condition := some e })
  | .format path f => sAttr env path (fun n => { n with format := some f })
  | .tags path l => sAttr env path (fun n => { n with tags := n.tags ++ l })
  | .option path sv unit =>
    match sEval env sv with
    | .error e => .error e
    | .ok (v, u) => sAttr env path (fun n => { n with options := n.options ++ [(v, pickUnit unit u)] })
  | .unitdef name sv unit =>
    match sEval env sv with
    | .error e => .error e
    | .ok (v, u) =>
      match v with
      | .num _ =>
        if !unitOk tbl .float (pickUnit unit u) then .error .outside
        else if env.units.any (fun x => x.1 = name) then .error .outside
        else .ok { env with units := env.units ++ [(name, v, pickUnit unit u)] }
      | _ => .error .outside
  | .unitimp source name =>
    match env.srcUnits.find? (fun s => s.1 = source) with
    | none => .error .outside
    | some s =>
      let sel : Option (List (Str × Val × Option Str)) := match name with
        | none => some s.2
        | some nm => (s.2.find? (fun u => u.1 = nm)).map (fun u => [u])
      match sel with
      | none => .error .outside
      | some us =>
        -- a name that exists already (in the environment or twice in the selection): refused
        if us.any (fun u => env.units.any (fun x => x.1 = u.1)) then .error .rejected
        else if !decide ((us.map (fun u => u.1)).Nodup) then .error .outside
        else .ok { env with units := env.units ++ us }
  | .caseCond _ => .error .outside      -- clauses are handled by `sStepC`
  | .caseElse => .error .outside
  | .caseEnd => .error .outside
  | .description path d => sAttr env path (fun n => { n with description := addDescr n.description d })

/-- `valueAt`: the environment the last-assignment semantics gives after the statements -/
def sRun (tbl : UnitTable) (env : SEnv) : List SStmt → Except SErr SEnv
  | [] => .ok env
  | s :: rest => match sStep tbl env s with
    | .error e => .error e
    | .ok env' => sRun tbl env' rest

/-- flat `@case` chains on the specification side: (an earlier clause was true, the current
    clause is selected); a condition is the referenced node's current boolean value -/
def sStepC (tbl : UnitTable) (c : SEnv × Option (Bool × Bool)) : SStmt → Except SErr (SEnv × Option (Bool × Bool))
  | .caseCond sv =>
    match sEval c.1 sv with
    | .error e => .error e
    | .ok (.bool v, _) =>
      (match c.2 with
       | none => .ok (c.1, some (v, v))
       | some (anyTrue, _) => .ok (c.1, some (anyTrue || v, v && !anyTrue)))
    | .ok _ => .error .outside
  | .caseElse =>
    match c.2 with
    | none => .error .outside
    | some (anyTrue, _) => .ok (c.1, some (true, !anyTrue))
  | .caseEnd => .ok (c.1, none)
  | st =>
    match c.2 with
    | some (_, false) => .ok c
    | _ => match sStep tbl c.1 st with
      | .ok e => .ok (e, c.2)
      | .error e => .error e

def sRunC (tbl : UnitTable) (c : SEnv × Option (Bool × Bool)) : List SStmt → Except SErr (SEnv × Option (Bool × Bool))
  | [] => .ok c
  | s :: rest => match sStepC tbl c s with
    | .error e => .error e
    | .ok c' => sRunC tbl c' rest

/-! ### Heap view of `Environment.copy` / `Node.copy` (for the frame properties) -/

/-- objects live in a heap; whoever holds an object holds its address -/
abbrev Heap (α : Type) := List α

/-- `copy.deepcopy`: every object reachable from the address list is duplicated at a fresh address -/
def deepCopy {α : Type} (h : Heap α) (addrs : List Nat) : Heap α × List Nat :=
  let objs := addrs.filterMap (fun a => h[a]?)
  (h ++ objs, List.range' h.length objs.length)

/-- what later code does to the copy: mutate in place through one of its addresses
    (`modify_value`, property lines, `options.append`, `tags +=`) or create a new object -/
inductive HOp (α : Type) where
  | write (i : Nat) (f : α → α)     -- i-th entry of the copy's address list
  | append (x : α)

/-- assignment to the object at address `a` -/
def writeAt {α : Type} (h : Heap α) (a : Nat) (f : α → α) : Heap α :=
  match h, a with
  | [], _ => []
  | x :: t, 0 => f x :: t
  | x :: t, a + 1 => x :: writeAt t a f

def hStep {α : Type} (s : Heap α × List Nat) : HOp α → Heap α × List Nat
  | .write i f => match s.2[i]? with
    | some a => (writeAt s.1 a f, s.2)
    | none => s
  | .append n => (s.1 ++ [n], s.2 ++ [s.1.length])

/-- the mutable attribute objects a node object refers to -/
inductive AttrObj where
  | value (v : Option Val) (unit : Option Str)      -- the `Type` object
  | options (l : List (Val × Option Str))
  | tags (l : List Str)
  | dimension (l : List Dim)

/-- a node object: immutable fields and the addresses of its mutable attribute objects -/
structure ObjNode where
  name : Str
  attrs : List Nat

/-- `node.copy()` in `NodeList.query` (`copy.deepcopy`) followed by the rebinding of `name` -/
def queryCopy (h : Heap AttrObj) (n : ObjNode) (newName : Str) : Heap AttrObj × ObjNode :=
  let r := deepCopy h n.attrs
  (r.1, { name := newName, attrs := r.2 })

/-- `copy.copy(node)`: the new node object refers to the same attribute objects -/
def queryCopyShallow (h : Heap AttrObj) (n : ObjNode) (newName : Str) : Heap AttrObj × ObjNode :=
  (h, { name := newName, attrs := n.attrs })

end SciVerif.C17
