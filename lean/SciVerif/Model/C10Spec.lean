import SciVerif.Model.C10

/-!
# C10 — specification side of the per-species data and of the totals

The property's own formulas, written directly over the regenerated table and *independently of
the model's code path* (`Model/C10.lean` mirrors `get_isotope / get_natural / get_abundant` with
index-based `argmax`, `mapM`, weighted `np.average`; here: `find?`, right folds, a running best
element).  The harness judges the real classes against these values.
-/
namespace SciVerif.C10.Spec
open SciVerif.C10

/-- a species as the property describes it -/
inductive Sp where
  | nucleon (c : Char)                       -- `[p]`, `[n]`, `[e]`
  | iso (sym : Str) (A : Nat) (q : Int)      -- element, mass number, signed charge number
  | unspecified (sym : Str) (q : Int)        -- isotope not given
  deriving Repr, DecidableEq

structure SData where
  mass : Rat
  Z : Rat
  N : Rat
  e : Rat
  deriving Repr, DecidableEq

def sumL (l : List Rat) : Rat := l.foldr (· + ·) 0

/-- `N = A − Z`, `e = Z + q`, `mass = M + q·mₑ` -/
def isoData (me : Rat) (Z : Nat) (i : Iso) (q : Int) : SData :=
  ⟨i.M + q * me, Z, (i.A : Rat) - (Z : Rat), (Z : Rat) + q⟩

/-- abundance-weighted mean of a quantity over the isotopes -/
def mean (isos : List Iso) (v : Iso → Rat) : Rat :=
  sumL (isos.map fun i => i.NA * v i) / sumL (isos.map (·.NA))

/-- the isotope with the largest abundance, the first one among equals -/
def mostAbundant : List Iso → Option Iso
  | [] => none
  | i :: t => some (t.foldl (fun best j => if best.NA < j.NA then j else best) i)

def speciesData (tbl : List Elem) (me : Rat) (nuc : Char → Option Rat) (natural : Bool) : Sp → Option SData
  | .nucleon c =>
    (nuc c).map fun m => ⟨m, if c = 'p' then 1 else 0, if c = 'n' then 1 else 0, if c = 'e' then 1 else 0⟩
  | .iso sym A q =>
    match tbl.find? (fun el => el.sym == sym) with
    | none => none
    | some el => (el.isos.find? (fun i => i.A == A)).map fun i => isoData me el.Z i q
  | .unspecified sym q =>
    match tbl.find? (fun el => el.sym == sym) with
    | none => none
    | some el =>
      if natural then
        if sumL (el.isos.map (·.NA)) = 0 then none     -- no natural mean exists
        else
          let d := fun (f : SData → Rat) => mean el.isos (fun i => f (isoData me el.Z i q))
          some ⟨d (·.mass), d (·.Z), d (·.N), d (·.e)⟩
      else (mostAbundant el.isos).map fun i => isoData me el.Z i q

/-- totals of a substance with the given counts: count-weighted sums -/
def totals (rows : List (Nat × SData)) : SData :=
  ⟨sumL (rows.map fun r => r.1 * r.2.mass), sumL (rows.map fun r => r.1 * r.2.Z),
   sumL (rows.map fun r => r.1 * r.2.N), sumL (rows.map fun r => r.1 * r.2.e)⟩

end SciVerif.C10.Spec
