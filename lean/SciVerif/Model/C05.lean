import SciVerif.Model.C04
import SciVerif.Model.C05Types

/-!
# C05 — model of temperature and logarithmic conversion (`unit_types.py`)

Mirrors `TemperatureUnitType._istype` (selection by unit *names*, "only simple units"),
`LogarithmicUnitType._istype` (table lookup by the key `"<u>_<v>"`, else the method name
`_convert_<u>_<v>`), the seven `_convert_*` method bodies, `LogarithmicUnitType.add/sub`
and the order of `UNIT_TYPES`. The tables are a parameter (`Tables`); the check
instantiates them with `Generated/C05Tables.lean`, regenerated from the code on every run.
No Mathlib import (compiled into the drivers).
-/
namespace SciVerif.C05
open SciVerif.C04

/-- The transcendental functions and constants the model needs from its number type. -/
class LogOps (α : Type) where
  ofRat : Rat → α
  log10 : α → α
  ln    : α → α
  exp   : α → α
  pow10 : α → α        -- `np.power(10, ·)`

variable {α : Type}

/-- The seven method bodies, operation by operation. -/
def LogFn.apply [Add α] [Mul α] [Div α] [LogOps α] : LogFn → α → α
  | .shift e, x => x + LogOps.ofRat e
  | .scale c, x => LogOps.ofRat c * x
  | .unscale c, x => x / LogOps.ofRat c
  | .ratioB k c, x => LogOps.ofRat k * LogOps.log10 (x * LogOps.ofRat c)
  | .bRatio k c, x => LogOps.pow10 (x / LogOps.ofRat k) * LogOps.ofRat c
  | .ratioNp k c, x => LogOps.ofRat k * LogOps.ln (x * LogOps.ofRat c)
  | .npRatio k c, x => LogOps.exp (x / LogOps.ofRat k) * LogOps.ofRat c

/-- `np.any(np.isin(units1+units2, process))` -/
def touches (process : List String) (b1 b2 : BU α) : Bool :=
  (b1.units ++ b2.units).any (fun u => process.contains u)

def findTemp (ms : List TempEntry) (name : String) : Option TempEntry :=
  ms.find? (fun e => e.name == name)

def findLog (ms : List LogEntry) (key : String) : Option LogEntry :=
  ms.find? (fun e => e.key == key)

/-- `TemperatureUnitType` -/
def temperature [Add α] [Mul α] [LogOps α] (T : Tables) : Rule α := fun b1 b2 =>
  if touches T.tempProcess b1 b2 then
    match b1.units, b2.units with
    | [u], [v] =>
      match findTemp T.tempMethods (u ++ "_" ++ v) with
      | some e => .accept (fun x => LogOps.ofRat e.a * x + LogOps.ofRat e.b)
      | none => .missing
    | _, _ => .raise .onlySimple
  else .decline

/-- `LogarithmicUnitType` -/
def logarithmic [Add α] [Mul α] [Div α] [LogOps α] (T : Tables) : Rule α := fun b1 b2 =>
  if touches T.logProcess b1 b2 then
    if (b1.units.length == 1 || b1.units.length == 2) && (b2.units.length == 1 || b2.units.length == 2) then
      match b1.units.head?, b2.units.head? with
      | some u, some v =>
        let key := u ++ "_" ++ v
        match findLog T.logConversions key with
        | some e => .accept (e.fn.apply)
        | none =>
          match findLog T.logMethods key with
          | some e => .accept (e.fn.apply)
          | none => .missing
      | _, _ => .raise .onlySimple
    else .raise .onlySimple
  else .decline

/-- The class named by an entry of `UNIT_TYPES`. -/
def ruleOf [Add α] [Mul α] [Div α] [One α] [LogOps α] (T : Tables) (name : String) : Rule α :=
  if name == "TemperatureUnitType" then temperature T
  else if name == "LogarithmicUnitType" then logarithmic T
  else if name == "StandardUnitType" then standard
  else fun _ _ => .raise .unsupported      -- a class this model does not know: never silently skipped

/-- `UNIT_TYPES` -/
def unitTypes [Add α] [Mul α] [Div α] [One α] [LogOps α] (T : Tables) : List (Rule α) :=
  T.unitTypes.map (ruleOf T)

/-! ## Level addition / subtraction (`LogarithmicUnitType.add/sub`) -/

/-- `add`/`sub` of two quantities whose base units the class accepted. `sub? = true` for
    `sub`. The right operand is first converted to the left operand's units
    (`unit2.to(unit1.baseunits)` / its out-of-place successor), both are exponentiated
    with the *left* units' magnitude, combined, and the logarithm is divided by it. -/
def levelOp [Add α] [Sub α] [Mul α] [Div α] [One α] [LogOps α] (T : Tables) (sub? : Bool)
    (b1 b2 : BU α) (x y : α) : Except Err α :=
  if !(b1.dims.eq b2.dims) then .error .unsupported
  else if b1.units != b2.units then .error .unsupported
  else
    match pick (unitTypes T) b2 b1 with
    | .error e => .error e
    | .ok g =>
      let p1 := LogOps.pow10 (x * b1.magnitude)
      let p2 := LogOps.pow10 (g y * b1.magnitude)
      let s := if sub? then p1 - p2 else p1 + p2
      .ok (LogOps.log10 s / b1.magnitude)

/-- `Quantity._add/_sub`: the first class that accepts does the operation; only the
    logarithmic class is modelled here (others: `none`). -/
def qLevelOp [Add α] [Sub α] [Mul α] [Div α] [One α] [LogOps α] (T : Tables) (sub? : Bool)
    (b1 b2 : BU α) (x y : α) : Option (Except Err α) :=
  let rec go : List String → Option (Except Err α)
    | [] => some (.error .unsupported)
    | n :: ns =>
      match (ruleOf (α := α) T n) b1 b2 with
      | .decline => go ns
      | .raise e => some (.error e)
      | _ => if n == "LogarithmicUnitType" then some (levelOp T sub? b1 b2 x y) else none
  go T.unitTypes

/-! ## Specification (documented definitions) -/

/-- Temperature scales as affine images of kelvin: `T_K = s·x + o`. -/
structure Scale where
  s : Rat
  o : Rat
  deriving Repr, DecidableEq

/-- The scale in which a `_convert_<u>_<v>` method sees its argument / returns its result:
    `UnitType.convert` has already multiplied by the table magnitude (5/9 for degR, a prefix
    for kelvin), so K and degR arrive as kelvin; Cel and degF (magnitude 1) as themselves. -/
def innerScale (u : String) : Option Scale :=
  if u == "K" || u == "degR" then some ⟨1, 0⟩
  else if u == "Cel" then some ⟨1, mkRat 27315 100⟩
  else if u == "degF" then some ⟨mkRat 5 9, mkRat 45967 100 * mkRat 5 9⟩
  else none

/-- Standard affine map between two scales: `x ↦ (s_u·x + o_u − o_v)/s_v`. -/
def stdA (su sv : Scale) : Rat := su.s / sv.s
def stdB (su sv : Scale) : Rat := (su.o - sv.o) / sv.s

/-- Documented logarithmic units: (symbol, linear counterpart, k = 1 power-like / 2
    amplitude-like, reference level in the SI unit of the counterpart). -/
def docLevels : List (String × String × Rat × Rat) := [
  ("Bm",   "W",   1, mkRat 1 1000),
  ("BmW",  "W",   1, mkRat 1 1000),
  ("BW",   "W",   1, 1),
  ("BV",   "V",   2, 1),
  ("BuV",  "V",   2, mkRat 1 1000000),
  ("BA",   "A",   2, 1),
  ("BuA",  "A",   2, mkRat 1 1000000),
  ("BOhm", "Ohm", 2, 1),
  ("BSPL", "Pa",  2, mkRat 2 100000),
  ("BSIL", "W",   1, mkRat 1 1000000000000),     -- W/m2
  ("BSWL", "W",   1, mkRat 1 1000000000000)]

end SciVerif.C05

namespace SciVerif.C05
open SciVerif.C04
variable {α : Type}

/-- Temperature scale of a unit as the user writes it (`pmag` = prefix magnitude, kelvin
    only): `T_K = s·x + o`. -/
def outerScale (u : String) (pmag : Rat) : Option Scale :=
  if u == "K" then some ⟨pmag, 0⟩
  else if u == "degR" then some ⟨mkRat 5 9, 0⟩
  else if u == "Cel" then some ⟨1, mkRat 27315 100⟩
  else if u == "degF" then some ⟨mkRat 5 9, mkRat 45967 100 * mkRat 5 9⟩
  else none

/-- Specification of a temperature conversion: through kelvin. -/
def specTemp [Add α] [Sub α] [Mul α] [Div α] [LogOps α] (su sv : Scale) (x : α) : α :=
  (LogOps.ofRat su.s * x + LogOps.ofRat su.o - LogOps.ofRat sv.o) / LogOps.ofRat sv.s

/-- Documented definition of a level: `k·log10(x/ref)` bels for a linear value `x·linSI`
    (in the SI unit of the counterpart), expressed in a unit of `p` bels. -/
def specToLevel [Mul α] [Div α] [LogOps α] (k ref : Rat) (p linSI x : α) : α :=
  LogOps.ofRat k * LogOps.log10 (x * linSI / LogOps.ofRat ref) / p

def specFromLevel [Mul α] [Div α] [LogOps α] (k ref : Rat) (p linSI y : α) : α :=
  LogOps.ofRat ref * LogOps.pow10 (y * p / LogOps.ofRat k) / linSI

/-- Nepers: `k·ln(x)` with `k = 1` for amplitude and `1/2` for power ratios. -/
def specToNeper [Mul α] [Div α] [LogOps α] (k : Rat) (p x : α) : α :=
  LogOps.ofRat k * LogOps.ln x / p

def specFromNeper [Mul α] [Div α] [LogOps α] (k : Rat) (p y : α) : α :=
  LogOps.exp (y * p / LogOps.ofRat k)

/-- Power sum of two levels given in a unit of `m` bels (`m = 1/10` for decibels):
    `10·log10(10^(a_dB/10) ± 10^(b_dB/10))` dB, expressed again in that unit. -/
def specLevelOp [Add α] [Sub α] [Mul α] [Div α] [LogOps α] (sub? : Bool) (m x y : α) : α :=
  let ten : α := LogOps.ofRat 10
  let a := x * m * ten
  let b := y * m * ten
  let s := if sub? then LogOps.pow10 (a / ten) - LogOps.pow10 (b / ten)
           else LogOps.pow10 (a / ten) + LogOps.pow10 (b / ten)
  ten * LogOps.log10 s / (ten * m)

end SciVerif.C05

namespace SciVerif.C05
open SciVerif.C04
variable {α : Type}

/-! ## Histories: level operands reused across several operations

`a + b` / `a - b` build new `Magnitude`s from *copies* (`_convert` returns a fresh
`Magnitude`, `add/sub` exponentiate into new objects), so the operand objects are not
written. The store of operand objects is threaded through every step to state that. -/

inductive LvOp where
  | add (i j : Nat)
  | sub (i j : Nat)
  | read (i : Nat)
  deriving Repr, DecidableEq

inductive LvOut (α : Type) where
  | level (r : Except Err α)
  | value (x : α)
  | bad                      -- index out of range / class not modelled
  deriving Inhabited

/-- one operation on the store of operand objects `(level, base units)`: the output and
    the store afterwards -/
def lvStep [Add α] [Sub α] [Mul α] [Div α] [One α] [LogOps α] (T : Tables)
    (st : List (α × BU α)) : LvOp → List (α × BU α) × LvOut α
  | .add i j =>
    match st[i]?, st[j]? with
    | some a, some b => (st, .level (levelOp T false a.2 b.2 a.1 b.1))
    | _, _ => (st, .bad)
  | .sub i j =>
    match st[i]?, st[j]? with
    | some a, some b => (st, .level (levelOp T true a.2 b.2 a.1 b.1))
    | _, _ => (st, .bad)
  | .read i =>
    match st[i]? with
    | some a => (st, .value a.1)
    | none => (st, .bad)

def lvRun [Add α] [Sub α] [Mul α] [Div α] [One α] [LogOps α] (T : Tables) :
    List (α × BU α) → List LvOp → List (α × BU α) × List (LvOut α)
  | st, [] => (st, [])
  | st, op :: ops =>
    let (st1, o) := lvStep T st op
    let (st2, os) := lvRun T st1 ops
    (st2, o :: os)

end SciVerif.C05

namespace SciVerif.C05

/-! ## `UNIT_TYPES` as state: unit environments

`UNIT_TYPES` is a module-level list that `UnitEnvironment` edits. The conversion model reads
it from `Tables.unitTypes`; these two functions model the edits. -/

/-- `UnitEnvironment.__init__`, conversion classes only: a class named by a custom unit's
    `definition` that is not in `UNIT_TYPES` is inserted at the front and recorded in
    `new_types`; a class already present is neither inserted nor recorded. -/
def envOpenAux : List String → List String → List String → List String × List String
  | types, rec, [] => (types, rec)
  | types, rec, d :: ds =>
    if types.contains d then envOpenAux types rec ds
    else envOpenAux (d :: types) (rec ++ [d]) ds

def envOpen (types defs : List String) : List String × List String := envOpenAux types [] defs

/-- `UnitEnvironment.close`: `for utype in self.new_types: UNIT_TYPES.remove(utype)` -/
def envClose (types rec : List String) : List String := rec.foldl (fun t d => t.erase d) types

end SciVerif.C05
