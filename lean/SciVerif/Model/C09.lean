import SciVerif.Model.C20
/-
Model of temporary custom units (property C09).

Mirrors, statement by statement (code as of the `fix:` commit that wraps the registration
loop of `UnitEnvironment.__init__` in `try … except BaseException: self.close(); raise`):
  * `units/unit_environment.py`  `check_unique_symbols`, `UnitEnvironment.__init__`,
                                 `close`, `__enter__`, `__exit__`
  * `parameter_table.py`         `ParameterTable.append / __delitem__ / __contains__`
                                 (keyed mode; the `Tbl` model of C20 is re-used)
  * Python's `with` protocol     (if `__init__` raises, neither `__enter__` nor `__exit__` runs;
                                 `__exit__` returns None, so a body exception propagates)
Process-wide state: `UNIT_STANDARD` (keyed table), `UNIT_TYPES` (list), `UNIT_PREFIXES` (keys;
never written by the code).

No Mathlib imports: this file is also compiled into the line-protocol driver.
-/
namespace SciVerif.C09
open SciVerif.C20 (Tbl dget dset ddel)

abbrev Sym := String
/-- A conversion class (`UnitType` subclass), identified by name (Python compares by identity). -/
abbrev Ty := String

/-- The `definition` field of a unit: `None`, a string, or a conversion class. -/
inductive Defn where
  | none
  | str (s : String)
  | ty (t : Ty)
deriving DecidableEq, Repr

/-- The `prefixes` field: `False`, `True`, or a list of prefix symbols. -/
inductive Pref where
  | no
  | all
  | list (l : List String)
deriving DecidableEq, Repr

/-- One row of `UNIT_STANDARD` (a `ParameterSettings` object). The magnitude is an opaque
    payload (the `repr` of the Python number) and so is the dimension list (its `repr`;
    entries may be ints or `(num, den)` tuples). -/
structure Row where
  magnitude : String
  dimensions : String
  definition : Defn
  name : String
  prefixes : Pref
deriving DecidableEq, Repr

deriving instance DecidableEq for Tbl

/-- The process-wide tables. -/
structure Globals where
  std : Tbl Sym Row          -- UNIT_STANDARD
  types : List Ty            -- UNIT_TYPES
  prefixes : List String     -- UNIT_PREFIXES.keys()
deriving DecidableEq, Repr

/-- What the caller passes as the definition of one custom unit. -/
inductive UnitDef where
  /-- a `dict`; `none` = key absent -/
  | dict (magnitude : Option String) (dimensions : Option String) (definition : Option Defn)
         (name : Option String) (prefixes : Option Pref)
  /-- a `Quantity`; `broken` = evaluating `unit.magnitude.value*unit.baseunits.magnitude` raises.
      `mag`, `dims` are the results of that evaluation (computed by the real `Quantity`). -/
  | quantity (broken : Bool) (mag : String) (dims : String)
  /-- anything else (a string, `None`, a number, a mapping whose access raises):
      `'name' not in unit` / `unit['name'] = symbol` raises -/
  | other
deriving DecidableEq, Repr

/-- The instance attributes of a `UnitEnvironment`. -/
structure Env where
  new_units : List Sym
  new_types : List Ty
deriving DecidableEq, Repr

/-! ### ParameterTable operations used (same definitions as `C20.Tbl.step`, see `Lemmas/C09`) -/

/-- `UNIT_STANDARD.append(symbol, row)` -/
def tblAppend (t : Tbl Sym Row) (k : Sym) (v : Row) : Tbl Sym Row :=
  ⟨if k ∈ t.keys then t.keys else t.keys ++ [k], dset t.data k v⟩

/-- `del UNIT_STANDARD[symbol]` : `_keys.remove` raises when absent (`none`). -/
def tblDel (t : Tbl Sym Row) (k : Sym) : Option (Tbl Sym Row) :=
  if k ∈ t.keys then some ⟨t.keys.erase k, ddel t.data k⟩ else none

/-! ### check_unique_symbols -/

/-- The prefixed symbols appended in the loop over `UNIT_STANDARD.items()`;
    `none` = `assert prefix in UNIT_PREFIXES` failed. -/
def prefixedSymbols (pfx : List String) : List (Sym × Row) → Option (List String)
  | [] => some []
  | (sym, r) :: rest =>
    match r.prefixes with
    | .list l =>
      if l.all (fun p => decide (p ∈ pfx)) then
        match prefixedSymbols pfx rest with
        | some t => some (l.map (fun p => p ++ sym) ++ t)
        | none => none
      else none
    | .all =>
      match prefixedSymbols pfx rest with
      | some t => some (pfx.map (fun p => p ++ sym) ++ t)
      | none => none
    | .no => prefixedSymbols pfx rest

/-- `units.sort()` : a merge sort by structural recursion (fuel = length), so that the kernel
    can evaluate it; only the emptiness of `dupes` below depends on it. -/
def mergeS : Nat → List String → List String → List String
  | 0, xs, ys => xs ++ ys
  | _ + 1, [], ys => ys
  | _ + 1, xs, [] => xs
  | n + 1, x :: xs, y :: ys =>
    if x ≤ y then x :: mergeS n xs (y :: ys) else y :: mergeS n (x :: xs) ys

def halve : List String → List String × List String
  | [] => ([], [])
  | [a] => ([a], [])
  | a :: b :: t => (a :: (halve t).1, b :: (halve t).2)

def msort : Nat → List String → List String
  | 0, l => l
  | n + 1, l =>
    match l with
    | [] => []
    | [a] => [a]
    | _ => mergeS l.length (msort n (halve l).1) (msort n (halve l).2)

def sortStrings (l : List String) : List String := msort l.length l

/-- `dupes = [x for x in units if x in seen or seen.add(x)]` on the sorted list:
    the elements equal to their predecessor. -/
def dupes : List String → List String
  | [] => []
  | [_] => []
  | a :: b :: t => if a = b then b :: dupes (b :: t) else dupes (b :: t)

/-- `check_unique_symbols()` : `true` = returns True, `false` = raises. -/
def checkUnique (g : Globals) : Bool :=
  match prefixedSymbols g.prefixes g.std.data with
  | none => false
  | some l =>
    let units := sortStrings (g.std.keys ++ l)
    (dupes units).isEmpty

/-! ### UnitEnvironment -/

/-- `isinstance(unit, Quantity)` and evaluating the conversion to a dict raises. -/
def conversionRaises : UnitDef → Bool
  | .quantity true _ _ => true
  | _ => false

/-- The mapping the loop body works on (`none` = not a mapping: the first item access raises).
    A `Quantity` becomes the fresh dict `{'magnitude': …, 'dimensions': …}`. -/
def fieldsOf : UnitDef →
    Option (Option String × Option String × Option Defn × Option String × Option Pref)
  | .quantity _ m d => some (some m, some d, none, none, none)
  | .dict m d df n p => some (m, d, df, n, p)
  | .other => none

/-- ```
    elif unit['definition'] is not None:
        if not isinstance(unit['definition'], str) and unit['definition'] not in UNIT_TYPES:
            UNIT_TYPES.insert(0, unit['definition']); self.new_types.append(unit['definition'])
    ``` -/
def regTypes (g : Globals) (e : Env) : Defn → Globals × Env
  | .ty t => if t ∈ g.types then (g, e)
             else ({ g with types := t :: g.types }, { e with new_types := e.new_types ++ [t] })
  | _ => (g, e)

/-- ```
    UNIT_STANDARD.append(symbol, (unit['magnitude'], unit['dimensions'], …))   # KeyError when absent
    self.new_units.append(symbol)
    ``` -/
def regAppend (g : Globals) (e : Env) (symbol : Sym) (m d : Option String) (defn : Defn)
    (name : String) (pref : Pref) : Globals × Env × Bool :=
  match m, d with
  | some mag, some dims =>
    ({ g with std := tblAppend g.std symbol ⟨mag, dims, defn, name, pref⟩ },
     { e with new_units := e.new_units ++ [symbol] }, true)
  | _, _ => (g, e, false)

/-- One iteration of the registration loop. Result: globals, env, `true` = completed /
    `false` = raised (state as left at the raise). -/
def regOne (g : Globals) (e : Env) (symbol : Sym) (u : UnitDef) : Globals × Env × Bool :=
  -- if isinstance(unit, Quantity): unit = {'magnitude': …, 'dimensions': …}
  if conversionRaises u then (g, e, false) else
  -- if symbol in UNIT_STANDARD: raise
  if symbol ∈ g.std.keys then (g, e, false) else
  match fieldsOf u with
  -- if 'name' not in unit: unit['name'] = symbol        (TypeError for a non-mapping)
  | none => (g, e, false)
  | some (m, d, df, n, p) =>
    let name := n.getD symbol
    -- if 'definition' not in unit: unit['definition'] = None
    let defn := df.getD Defn.none
    let ge := regTypes g e defn
    -- if 'prefixes' not in unit: unit['prefixes'] = False
    let pref := p.getD Pref.no
    regAppend ge.1 ge.2 symbol m d defn name pref

/-- `for symbol, unit in units.items(): …` -/
def regLoop : Globals → Env → List (Sym × UnitDef) → Globals × Env × Bool
  | g, e, [] => (g, e, true)
  | g, e, (symbol, u) :: rest =>
    match regOne g e symbol u with
    | (g', e', true) => regLoop g' e' rest
    | r => r

/-- `for unit in self.new_units: del UNIT_STANDARD[unit]`; `false` = raised part-way. -/
def closeUnits : Globals → List Sym → Globals × Bool
  | g, [] => (g, true)
  | g, k :: ks =>
    match tblDel g.std k with
    | some t => closeUnits { g with std := t } ks
    | none => (g, false)

/-- `for utype in self.new_types: UNIT_TYPES.remove(utype)` (ValueError when absent). -/
def closeTypes : Globals → List Ty → Globals × Bool
  | g, [] => (g, true)
  | g, t :: ts =>
    if t ∈ g.types then closeTypes { g with types := g.types.erase t } ts else (g, false)

/-- `UnitEnvironment.close` -/
def close (g : Globals) (e : Env) : Globals × Bool :=
  match closeUnits g e.new_units with
  | (g1, true) => closeTypes g1 e.new_types
  | r => r

/-- `UnitEnvironment.__init__` : `some env` = constructed, `none` = raised. -/
def init (g : Globals) (units : List (Sym × UnitDef)) : Globals × Option Env :=
  -- self.new_units = []; self.new_types = []; try:
  match regLoop g ⟨[], []⟩ units with
  | (g1, e1, true) =>
    if checkUnique g1 then (g1, some e1)
    else ((close g1 e1).1, none)          -- except BaseException: self.close(); raise
  | (g1, e1, false) => ((close g1 e1).1, none)

/-- `Quantity(1, sym)` for a plain symbol: resolves iff the symbol is a key of the table
    (domain: no other key is a proper suffix of `sym`, no exponent characters; see harness). -/
def resolves (g : Globals) (s : Sym) : Bool :=
  decide (s ∈ g.std.keys) && (dget g.std.data s).isSome

/-! ### Programs (histories with faults) -/

inductive Prog where
  | skip
  | raise                                  -- a statement that raises
  | use (s : Sym)                          -- `Quantity(1, s)` (raises when `s` does not resolve)
  | seq (p q : Prog)                       -- `p; q`
  | scope (units : List (Sym × UnitDef)) (body : Prog)   -- `with UnitEnvironment(units): body`
  | attempt (p : Prog)                     -- `try: p` / `except Exception: pass`
deriving Repr

/-- Observable events, for the correspondence with the real run. -/
inductive Ev where
  | used (s : Sym) (ok : Bool)
  | entered (ok : Bool) (g : Globals)      -- after `__init__` (completed / raised)
  | exited (ok : Bool) (g : Globals)       -- after `__exit__`
  | raised
  | caught
deriving Repr

/-- Run a program: final globals, `true` = completed / `false` = an exception propagates, events. -/
def run : Prog → Globals → Globals × Bool × List Ev
  | .skip, g => (g, true, [])
  | .raise, g => (g, false, [.raised])
  | .use s, g => (g, resolves g s, [.used s (resolves g s)])
  | .seq p q, g =>
    match run p g with
    | (g1, true, ev1) =>
      match run q g1 with
      | (g2, ok, ev2) => (g2, ok, ev1 ++ ev2)
    | r => r
  | .scope units body, g =>
    match init g units with
    | (g1, none) => (g1, false, [.entered false g1])      -- neither __enter__ nor __exit__ runs
    | (g1, some e) =>
      match run body g1 with
      | (g2, ok, ev) =>
        -- __exit__(…): self.close(); returns None, so a body exception propagates
        match close g2 e with
        | (g3, okc) => (g3, ok && okc, .entered true g1 :: ev ++ [.exited okc g3])
  | .attempt p, g =>
    match run p g with
    | (g1, true, ev) => (g1, true, ev)
    | (g1, false, ev) => (g1, true, ev ++ [.caught])

/-! ### Histories: `e = UnitEnvironment(units)` … `e.close()` through the explicit API, lifetimes
overlapping in any way (not necessarily nested) -/

inductive HOp where
  | opn (units : List (Sym × UnitDef))     -- `e = UnitEnvironment(units)`
  | cls (i : Nat)                          -- `close()` of the i-th of the currently open environments
  | use (s : Sym)                          -- `Quantity(1, s)`
deriving Repr

/-- Globals plus the environment objects that are open (in the order they were opened). -/
structure HSt where
  g : Globals
  opens : List Env
deriving DecidableEq, Repr

inductive HEv where
  | opened (ok : Bool) (g : Globals)
  | closed (ok : Bool) (g : Globals)
  | used (s : Sym) (ok : Bool)
  | noop
deriving Repr

/-- Split a list at position `i`: (before, element, after). -/
def pick : List Env → Nat → Option (List Env × Env × List Env)
  | [], _ => none
  | e :: t, 0 => some ([], e, t)
  | e :: t, i + 1 =>
    match pick t i with
    | some (pre, x, post) => some (e :: pre, x, post)
    | none => none

def hstep (s : HSt) : HOp → HSt × HEv
  | .opn units =>
    match init s.g units with
    | (g1, none) => (⟨g1, s.opens⟩, .opened false g1)
    | (g1, some e) => (⟨g1, s.opens ++ [e]⟩, .opened true g1)
  | .cls i =>
    match pick s.opens i with
    | none => (s, .noop)
    | some (pre, e, post) => (⟨(close s.g e).1, pre ++ post⟩, .closed (close s.g e).2 (close s.g e).1)
  | .use sym => (s, .used sym (resolves s.g sym))

def hrun : List HOp → HSt → HSt × List HEv
  | [], s => (s, [])
  | op :: ops, s => ((hrun ops (hstep s op).1).1, (hstep s op).2 :: (hrun ops (hstep s op).1).2)

end SciVerif.C09
