/-
Model of the helper containers (property C20).

Mirrors, statement by statement:
  * `parameter_table.py`  ParameterTable in keyed mode (`keys=True`)
  * `row_collector.py`    RowCollector in list mode (`array=False`)
  * `data_plot_grid.py`   DataPlotGrid.items (data / missing, normal / transposed)
  * `data_combination.py` DataCombination.keys / values / items

No Mathlib imports: this file is also compiled into the line-protocol driver.
-/
namespace SciVerif.C20

/-! ### Python `dict` as an insertion-ordered association list -/

variable {K V : Type} [DecidableEq K]

/-- `d[k] = v` : overwrite in place if present, else append at the end. -/
def dset : List (K × V) → K → V → List (K × V)
  | [], k, v => [(k, v)]
  | (k', v') :: t, k, v => if k' = k then (k, v) :: t else (k', v') :: dset t k v

/-- `del d[k]` on a present key (no-op on an absent key; the caller guards). -/
def ddel : List (K × V) → K → List (K × V)
  | [], _ => []
  | (k', v') :: t, k => if k' = k then t else (k', v') :: ddel t k

/-- `d[k]` -/
def dget : List (K × V) → K → Option V
  | [], _ => none
  | (k', v') :: t, k => if k' = k then some v' else dget t k

/-- Python list indexing with an `int` (negative indices count from the end). -/
def pyIndex {α : Type} (l : List α) (i : Int) : Option α :=
  if 0 ≤ i then l[i.toNat]?
  else if 0 ≤ i + l.length then l[(i + l.length).toNat]? else none

/-! ### ParameterTable (keyed mode) -/

/-- Concrete state: the `_keys` list kept beside the `_data` dict. -/
structure Tbl (K V : Type) where
  keys : List K
  data : List (K × V)
deriving Repr

inductive Op (K V : Type) where
  | append (k : K) (v : V)      -- `t.append(k, v)` and `t[k] = v`
  | del (k : K)                 -- `del t[k]`
  | getKey (k : K)              -- `t[k]` with a non-int key, and `t.k`
  | getPos (i : Int)            -- `t[i]` with an int
  | len                         -- `len(t)`
  | keys                        -- `t.keys()`
  | items                       -- `list(t.items())`
  | contains (k : K)            -- `k in t`

inductive Out (K V : Type) where
  | unit
  | err
  | val (v : V)
  | nat (n : Nat)
  | keys (l : List K)
  | items (l : List (K × V))
  | bool (b : Bool)
deriving Repr, DecidableEq

def Tbl.init : Tbl K V := ⟨[], []⟩

/-- One operation of the real class, as written in `parameter_table.py`. -/
def Tbl.step (t : Tbl K V) : Op K V → Tbl K V × Out K V
  | .append k v =>
      let keys' := if k ∈ t.keys then t.keys else t.keys ++ [k]
      (⟨keys', dset t.data k v⟩, .unit)
  | .del k =>
      -- `self._keys.remove(index)` raises ValueError first when absent
      if k ∈ t.keys then (⟨t.keys.erase k, ddel t.data k⟩, .unit) else (t, .err)
  | .getKey k =>
      match dget t.data k with
      | some v => (t, .val v)
      | none => (t, .err)
  | .getPos i =>
      match pyIndex t.keys i with
      | none => (t, .err)
      | some k => match dget t.data k with
        | some v => (t, .val v)
        | none => (t, .err)
  | .len => (t, .nat t.data.length)
  | .keys => (t, .keys t.keys)
  | .items => (t, .items t.data)
  | .contains k => (t, .bool (decide (k ∈ t.keys)))

/-- Run a sequence of operations, collecting the outputs. -/
def Tbl.run (t : Tbl K V) : List (Op K V) → Tbl K V × List (Out K V)
  | [] => (t, [])
  | op :: ops =>
      let (t', o) := t.step op
      let (t'', os) := Tbl.run t' ops
      (t'', o :: os)

/-! Abstract specification: an insertion-ordered map, nothing else. -/

def specStep (m : List (K × V)) : Op K V → List (K × V) × Out K V
  | .append k v => (dset m k v, .unit)
  | .del k => if k ∈ m.map Prod.fst then (ddel m k, .unit) else (m, .err)
  | .getKey k => match dget m k with
      | some v => (m, .val v)
      | none => (m, .err)
  | .getPos i => match pyIndex m i with
      | some kv => (m, .val kv.2)
      | none => (m, .err)
  | .len => (m, .nat m.length)
  | .keys => (m, .keys (m.map Prod.fst))
  | .items => (m, .items m)
  | .contains k => (m, .bool (decide (k ∈ m.map Prod.fst)))

def specRun (m : List (K × V)) : List (Op K V) → List (K × V) × List (Out K V)
  | [] => (m, [])
  | op :: ops =>
      let (m', o) := specStep m op
      let (m'', os) := specRun m' ops
      (m'', o :: os)

/-! ### ParameterTable (list mode, `keys=False`): a plain Python list of records -/

inductive LOp (V : Type) where
  | append (v : V)
  | del (i : Int)       -- `del t[i]`
  | get (i : Int)       -- `t[i]`
  | len
  | items               -- `t.items()` = list(enumerate(data))

/-- Python `del l[i]` : index normalisation as for reading; `none` = IndexError. -/
def pyDel {α : Type} (l : List α) (i : Int) : Option (List α) :=
  if 0 ≤ i then (if i.toNat < l.length then some (l.eraseIdx i.toNat) else none)
  else if 0 ≤ i + l.length then some (l.eraseIdx (i + l.length).toNat) else none

def lstep {V : Type} (l : List V) : LOp V → List V × Out Nat V
  | .append v => (l ++ [v], .unit)
  | .del i => match pyDel l i with
      | some l' => (l', .unit)
      | none => (l, .err)
  | .get i => match pyIndex l i with
      | some v => (l, .val v)
      | none => (l, .err)
  | .len => (l, .nat l.length)
  | .items => (l, .items ((List.range l.length).zip l))

def lrun {V : Type} (l : List V) : List (LOp V) → List V × List (Out Nat V)
  | [] => (l, [])
  | op :: ops =>
      let (l', o) := lstep l op
      let (l'', os) := lrun l' ops
      (l'', o :: os)

/-! ### RowCollector (list mode) -/

/-- Column-wise storage: `cols[n]` is the list stored under attribute `_columns[n]`. -/
structure RC (α : Type) where
  names : List String
  cols : List (List α)
deriving Repr

def RC.init {α : Type} (names : List String) : RC α := ⟨names, names.map (fun _ => [])⟩

/-- `append(list)`: `getattr(self,name).append(values[n])` for each column in turn.
    A row shorter than the column list raises part-way (reported as `none`; the
    model does not describe the half-updated state, see DESIGN C20 limits). -/
def RC.appendRow {α : Type} (r : RC α) (row : List α) : Option (RC α) :=
  if row.length < r.cols.length then none
  else some { r with cols := List.zipWith (fun c v => c ++ [v]) r.cols row }

/-- `append(dict)` with exactly the known columns: values picked by column name. -/
def RC.appendDict {α : Type} (r : RC α) (row : List (String × α)) : Option (RC α) :=
  if row.any (fun kv => !(r.names.contains kv.1)) then none     -- "Missing columns"
  else
    match r.names.mapM (fun n => dget row n) with
    | none => none                                              -- KeyError
    | some vals => r.appendRow vals

/-- `size()` -/
def RC.size {α : Type} (r : RC α) : Nat :=
  match r.cols with
  | [] => 0
  | c :: _ => c.length

/-- Row-wise view (the abstraction function): row `i` = the `i`-th entry of every column. -/
def RC.rows {α : Type} (r : RC α) : List (List α) :=
  (List.range r.size).map (fun i => r.cols.filterMap (fun c => c[i]?))

/-- Apply an index list to a list: `np.array(col)[ids]`. -/
def takeIdx {α : Type} (l : List α) (ids : List Nat) : List α :=
  ids.filterMap (fun i => l[i]?)

/-- `sort(name, reverse)` given the index list `ids` that `np.argsort` (reversed when
    `reverse`) returned: every column is re-indexed by the same `ids`. -/
def RC.sortWith {α : Type} (r : RC α) (ids : List Nat) : RC α :=
  { r with cols := r.cols.map (fun c => takeIdx c ids) }

/-- Specification of `np.argsort`: a permutation of `range n` … -/
def isPermOfRange (ids : List Nat) (n : Nat) : Bool :=
  ids.mergeSort (fun a b => decide (a ≤ b)) == List.range n

/-- … that puts the key column in non-decreasing order. -/
def sortedBy {α : Type} (le : α → α → Bool) : List α → Bool
  | [] => true
  | [_] => true
  | a :: b :: t => le a b && sortedBy le (b :: t)

/-! ### DataPlotGrid -/

def gridRows (n ncols : Nat) : Nat := (n + ncols - 1) / ncols   -- ceil(n / ncols), ncols ≥ 1

/-- `(i, row, col)` of cell index `i`, normal order. -/
def cellN (ncols i : Nat) : Nat × Nat := (i / ncols, i % ncols)
/-- transposed order -/
def cellT (nrows i : Nat) : Nat × Nat := (i % nrows, i / nrows)

def gridItems (n ncols : Nat) (missing transpose : Bool) : List (Nat × Nat × Nat) :=
  let nrows := gridRows n ncols
  let idx := if missing then (List.range (ncols * nrows)).drop n else List.range n
  idx.map (fun i => if transpose then (i, cellT nrows i) else (i, cellN ncols i))

/-! ### DataCombination -/

/-- `itertools.product(*lists)` : lexicographic, last index fastest. -/
def product {α : Type} : List (List α) → List (List α)
  | [] => [[]]
  | l :: ls => l.flatMap (fun x => (product ls).map (fun t => x :: t))

def comboKeys {α : Type} (items : List (List α)) : List (List Nat) :=
  product (items.map (fun l => List.range l.length))

def comboValues {α : Type} (items : List (List α)) : List (List α) := product items

/-- `items()` : `(keys, tuple(items[i][keys[i]]))`; `none` models IndexError. -/
def comboItems {α : Type} (items : List (List α)) : List (List Nat × Option (List α)) :=
  (comboKeys items).map (fun ks =>
    (ks, (List.zipWith (fun (l : List α) (k : Nat) => l[k]?) items ks).mapM id))

end SciVerif.C20
