/-
Model of the final validation of `DIP.parse` (property C16).

Mirrors, statement by statement:
  * `dip/dip.py`  DIP.parse, loop "Validate nodes" (order of the four tests, first failure raises)
  * `dip/nodes/node_select.py`  SelectNode.set_option (option converted to the node's unit when it is
    registered, for int and float nodes) and validate_options (first equal option wins)
  * `dip/nodes/node_base.py`   cast_value: dimension bounds test
The primitives are parameters: `conv` (NumberType.convert through the unit table), `isclose`
(NumberType.__eq__ = np.isclose(rtol 1e-6)), the value of the `!condition` expression computed by the
logical solver with `{?}` bound to the node (model and specification of C18), `re.match`.

No Mathlib imports: this file is also compiled into the line-protocol driver.
-/
namespace SciVerif.C16

/-- final value of a node -/
inductive Val (F : Type) where
  | num (v : F) (unit : Option String)
  | str (s : String)
  | other                         -- bool / array values: no options, no format
deriving Repr

/-- an option as written: value and unit -/
inductive Opt (F : Type) where
  | num (v : F) (unit : Option String)
  | str (s : String)
deriving Repr

structure Prim (F : Type) where
  /-- `NumberType.convert(unit)` of a value with unit `src` to unit `dst`; `none` = raises -/
  conv : Option String → Option String → F → Option F
  isclose : F → F → Bool

/-- one node of `target.nodes` with everything the loop reads -/
structure Node (F : Type) where
  declared : Bool                       -- node.defined
  value : Option (Val F)                -- node.value (None when never assigned)
  unit : Option String                  -- node.units_raw
  selectable : Bool                     -- isinstance(node, (IntegerNode, FloatNode, StringNode))
  options : List (Opt F)                -- as written on the property lines
  /-- `!condition`: value of `LogicalSolver(target).solve(cond).value` with autoref = this node;
      `none` inside = the solver raises -/
  condition : Option (Option Bool)
  isStr : Bool                          -- node.keyword == 'str'
  /-- `!format`: result of `re.match(format, value)` -/
  format : Option Bool
  dims : List (Option Nat × Option Nat) -- declared dimension bounds
  shape : List Nat                      -- shape of the final array value

variable {F : Type}

/-- `set_option`: the registered option value (converted to the node's unit for numbers). -/
def register (P : Prim F) (n : Node F) : Opt F → Option (Opt F)
  | .num v u => (P.conv u n.unit v).map fun w => .num w (if u.isSome ∧ n.unit.isSome then n.unit else u)
  | .str s => some (.str s)

/-- `option.value == self.value` on registered options -/
def optEq (P : Prim F) : Opt F → Val F → Bool
  | .num o _, .num v _ => P.isclose o v
  | .str a, .str b => a == b
  | _, _ => false

/-- `validate_options` (`true` = returns, `false` = raises) -/
def validateOptions (P : Prim F) (regs : List (Opt F)) (v : Val F) : Bool :=
  match regs with
  | [] => true
  | _ => regs.any fun o => optEq P o v

/-- `cast_value` dimension test: every declared dimension `d` with `lo ≤ shape[d] ≤ hi`. -/
def castDims : List (Option Nat × Option Nat) → List Nat → Bool
  | [], _ => true
  | _ :: _, [] => false                        -- value.shape[d] IndexError
  | (lo, hi) :: ds, s :: ss =>
    (match lo with | some l => decide (l ≤ s) | none => true) &&
    (match hi with | some h => decide (s ≤ h) | none => true) && castDims ds ss

/-- `cast_value` on the final value: a node without declared dimensions takes scalar values only
    ("Array value set to scalar node" / the scalar cast fails), otherwise the bounds test. -/
def dimsOK (dims : List (Option Nat × Option Nat)) (shape : List Nat) : Bool :=
  if dims.isEmpty then shape.isEmpty else castDims dims shape

/-- One iteration of the validation loop; `false` = an exception leaves `parse`. -/
def validateNode (P : Prim F) (n : Node F) : Bool :=
  -- options were registered while parsing: a failing conversion raised there
  match n.options.mapM (register P n) with
  | none => false
  | some regs =>
    -- dimension bounds were tested by cast_value when the final value was set
    if !dimsOK n.dims n.shape then false
    else
      match n.value with
      | none => !n.declared && regs.isEmpty && n.condition.isNone && n.format.isNone
      | some v =>
        if n.selectable && !validateOptions P regs v then false
        else
          (match n.condition with
           | none => true
           | some none => false
           | some (some b) => b) &&
          (if n.isStr then (match n.format with | none => true | some m => m) else true)

def validate (P : Prim F) : List (Node F) → Bool
  | [] => true
  | n :: ns => validateNode P n && validate P ns

/-! ### The two numeric primitives as formulas over an abstract arithmetic

`Arith F` is the arithmetic the formulas are written in; the driver instantiates it with `Float`
(IEEE operations, compared with the real code on every run), the theorems of `Props/C16.lean`
with the operations of an arbitrary ordered field — ONE definition serves both. -/

structure Arith (F : Type) where
  sub : F → F → F
  add : F → F → F
  mul : F → F → F
  div : F → F → F
  abs : F → F
  le : F → F → Bool

/-- a unit of the table: factor to the base and a key for its dimension -/
structure LinUnit (F D : Type) where
  k : F
  dims : D

/-- `np.isclose(a, b, rtol=rtol, atol=atol)`: `|a − b| ≤ atol + rtol·|b|` (`NumberType.__eq__`) -/
def iscloseA (A : Arith F) (atol rtol a b : F) : Bool :=
  A.le (A.abs (A.sub a b)) (A.add atol (A.mul rtol (A.abs b)))

/-- `NumberType.convert`: nothing without both units or for the same symbol, `v · k_src / k_dst`
    inside one dimension, an error across dimensions or for an unknown symbol -/
def convA {D : Type} [DecidableEq D] (A : Arith F) (tbl : String → Option (LinUnit F D)) :
    Option String → Option String → F → Option F
  | some s, some d, v =>
    if s = d then some v else
    match tbl s, tbl d with
    | some x, some y => if x.dims = y.dims then some (A.div (A.mul v x.k) y.k) else none
    | _, _ => none
  | _, _, v => some v

/-- the primitives of the validation loop over an arithmetic and a unit table -/
def arithPrim {D : Type} [DecidableEq D] (A : Arith F) (tbl : String → Option (LinUnit F D))
    (atol rtol : F) : Prim F :=
  ⟨convA A tbl, iscloseA A atol rtol⟩

/-! ### The `!condition` of the common shape `{?} <op> literal [unit]` as a function of the final value

Mirrors `LogicalSolver.solve` on the three tokens `{?}`, operator, literal with `{?}` bound to the
node's final value (a typed Integer/Float value, so `NumberType._prepare` takes the branch
"other datatype unknown": the LITERAL is converted to the value's unit with `NumberType.convert`
and made a float), then `CustomEq` / `CustomNe` (= not `==`) / `__lt__` / `__gt__` / `__le__` /
`__ge__` of `dip/datatypes/type_number.py` — the same semantics as `cmpOp`/`prepare` (branch
`.num, .lit`) of `Model/C18Log.lean`, here with the primitives of THIS model. -/

inductive CmpOp where
  | eq | ne | lt | gt | le | ge
deriving Repr, DecidableEq

/-- `{?} <op> lit unit` -/
structure SimpleCond (F : Type) where
  op : CmpOp
  lit : F
  unit : Option String

/-- Python's `left < right` written with the `le` of the arithmetic (false as soon as a NaN is involved) -/
def ltA (A : Arith F) (a b : F) : Bool := A.le a b && !A.le b a

/-- the six comparisons on the prepared pair `(left, right)` -/
def cmpWith (isclose lt : F → F → Bool) : CmpOp → F → F → Bool
  | .eq, x, y => isclose x y
  | .ne, x, y => !isclose x y
  | .lt, x, y => lt x y
  | .gt, x, y => lt y x
  | .le, x, y => lt x y || isclose x y
  | .ge, x, y => lt y x || isclose x y

/-- value of the condition `{?} <op> lit unit` on the final numeric value `x` with unit `ux`;
    `none` = the solver raises (literal not convertible to the value's unit) -/
def condNum (P : Prim F) (lt : F → F → Bool) (c : SimpleCond F) (x : F) (ux : Option String) : Option Bool :=
  (P.conv c.unit ux c.lit).map fun y => cmpWith P.isclose lt c.op x y

/-- a numeric node whose final value is `x ux` and whose `!condition` is the simple comparison `c`:
    `Node.condition` is a function of the final value -/
def withNumCond (P : Prim F) (lt : F → F → Bool) (n : Node F) (c : SimpleCond F) (x : F)
    (ux : Option String) : Node F :=
  { n with value := some (.num x ux), condition := some (condNum P lt c x ux) }

/-! ### Specification -/

/-- a value equals an option "after conversion to the node's unit" -/
def optHolds (P : Prim F) (n : Node F) (v : Val F) : Opt F → Prop
  | .num o u => ∃ w, P.conv u n.unit o = some w ∧ ∃ x un, v = .num x un ∧ P.isclose w x = true
  | .str s => v = .str s

/-- what is well-formed about a node record: options only on selectable nodes, format only on
    strings (OptionNode.parse / FormatNode.parse refuse anything else), every option convertible. -/
def Node.Sane (P : Prim F) (n : Node F) : Prop :=
  (n.selectable = false → n.options = []) ∧ (n.isStr = false → n.format = none) ∧
  (∀ o ∈ n.options, (register P n o).isSome)

/-- The property's constraint set on one node: the value fits the declared dimensions; a node
    without value is neither declared nor constrained (a missing value equals no option, fulfils no
    condition and matches no format); otherwise options, condition and format hold for the value. -/
def holds (P : Prim F) (n : Node F) : Prop :=
  dimsOK n.dims n.shape = true ∧
  match n.value with
  | none => n.declared = false ∧ n.options = [] ∧ n.condition = none ∧ n.format = none
  | some v =>
    (n.options = [] ∨ ∃ o ∈ n.options, optHolds P n v o) ∧
    (n.condition = none ∨ n.condition = some (some true)) ∧
    (n.format = none ∨ n.format = some true)

/-- dimension bounds, declaratively -/
def dimsWithin (dims : List (Option Nat × Option Nat)) (shape : List Nat) : Prop :=
  dims.length ≤ shape.length ∧
  ∀ d (h : d < dims.length) (h2 : d < shape.length),
    (∀ l, (dims[d]).1 = some l → l ≤ shape[d]) ∧ (∀ u, (dims[d]).2 = some u → shape[d] ≤ u)

end SciVerif.C16
