import SciVerif.Model.C19Base
import SciVerif.Generated.C19Tables
/-!
# C19 — exporter models (`dip/config/export*.py`), statement by statement

`ExportConfig.select/_rename`, the DIP text `parse`, and the C / C++ / Fortran / Rust / Bash
`_parse_scalar/_parse_array/_parse_value` + line templates; the JSON/YAML/TOML shaping step.
`_parse_dtype` is not written by hand: it is the regenerated table `Gen.typeRows`.
"Raises" in Python = `none` here.
-/
namespace SciVerif.C19

/-! ## selection (`Environment.data` → `NodeList.query`) and renaming -/

def upperChar (c : Char) : Char :=
  if 97 ≤ c.toNat ∧ c.toNat ≤ 122 then Char.ofNat (c.toNat - 32) else c

/-- `ExportConfig._rename` : `name.upper().replace(".", "_")` (ASCII names). -/
def rename (on : Bool) (n : Str) : Str :=
  if on then n.map (fun c => if upperChar c = '.' then '_' else upperChar c) else n

def lastSegment (n : Str) : Str := (splitOn '.' n).getLast?.getD []

/-- one node of `NodeList.query(query)`: the new (relative) name if the node is selected. -/
def queryName (q : Str) (n : Str) : Option Str :=
  if q = ['*'] then some n
  else
    match dropPrefix? ['*', '.'] q.reverse with          -- query[-2:] == ".*"
    | some rp => dropPrefix? (rp.reverse ++ ['.']) n     -- startswith(query[:-1]) → name[len(query[:-1]):]
    | none => if n = q then some (lastSegment n) else none

/-- the tag filter (`if tags:` … `nodes[n].tags and np.isin(tags, nodes[n].tags)`), for the
    documented use with ONE tag selector (several selectors make `np.isin` ambiguous → raises). -/
def tagKeep (tags : Option (List Str)) (p : Param) : Bool :=
  match tags with
  | none => true
  | some [] => true
  | some (t :: _) => p.tags.contains t

/-- `env.data(fmt, query=query, tags=tags)` as an ordered list of (name, param). -/
def select (query : Option Str) (tags : Option (List Str)) (env : List Param) : List Param :=
  let q : Option Str := match query, tags with
    | some q, _ => some q
    | none, some _ => some ['*']
    | none, none => none
  match q with
  | none => env
  | some q =>
    (env.filterMap (fun p => (queryName q p.name).map (fun n => { p with name := n }))).filter (tagKeep tags)

/-! ## literal rendering -/

/-- Python `s.replace(c, r)` for a one-character pattern `c`. -/
def replaceChar (c : Char) (r : Str) (s : Str) : Str := s.flatMap (fun x => if x = c then r else [x])

/-- how a back-end writes a quote inside a string literal: `\"` (and `\\`) or `""` -/
inductive Quoting | backslash | doubled
  deriving DecidableEq, Repr

/-- the body of a string literal, statement by statement:
    C / C++ / Rust `str(value).replace("\\","\\\\").replace("\"","\\\"")`, Fortran `str(value).replace("\"","\"\"")`. -/
def escStr : Quoting → Str → Str
  | .backslash, v => replaceChar '"' ['\\', '"'] (replaceChar '\\' ['\\', '\\'] v)
  | .doubled, v => replaceChar '"' ['"', '"'] v

def quoteStr (q : Quoting) (v : Str) : Str := '"' :: escStr q v ++ ['"']

structure Style where
  opn : Str
  cls : Str
  tru : Str
  fls : Str
  q : Quoting

def styleC : Style := ⟨['{'], ['}'], cs!"true", cs!"false", .backslash⟩
def styleRust : Style := ⟨['['], [']'], cs!"true", cs!"false", .backslash⟩
def styleFortran : Style := ⟨[], [], cs!".true.", cs!".false.", .doubled⟩

/-- `_parse_scalar` (C, C++, Rust, Fortran differ in the boolean words and the string escapes). -/
def printScalar (st : Style) : Scalar → Str
  | .b v => if v then st.tru else st.fls
  | .i v => showInt v
  | .f t => t
  | .s v => quoteStr st.q v

mutual
/-- `_parse_array` / `_parse_value` text part. -/
def printVal (st : Style) : Val → Str
  | .leaf s => printScalar st s
  | .arr vs => st.opn ++ printVals st vs ++ st.cls
def printVals (st : Style) : List Val → Str
  | [] => []
  | [v] => printVal st v
  | v :: w :: vs => printVal st v ++ [',', ' '] ++ printVals st (w :: vs)
end

mutual
/-- the `shape` result of `_parse_array`: `[len(values)] + shape(last element)`;
    an empty list leaves `shape` unbound (raises). -/
def shapeOf : Val → Option (List Nat)
  | .leaf _ => some []
  | .arr vs => match shapeLast vs with
    | none => none
    | some sh => some (vs.length :: sh)
def shapeLast : List Val → Option (List Nat)
  | [] => none
  | [v] => shapeOf v
  | _ :: w :: vs => shapeLast (w :: vs)
end

def Val.isArr : Val → Bool
  | .leaf _ => false
  | .arr _ => true

/-! ## type tables -/

def lookupType (backend : Str) (k : Kind) (bits : Nat) : Option Str :=
  match Gen.typeRows.find? (fun r => r.1 = backend ∧ r.2.1 = k ∧ r.2.2.1 = bits) with
  | some r => r.2.2.2
  | none => none

def bC : Str := cs!"c"
def bCpp : Str := cs!"cpp"
def bFortran : Str := cs!"fortran"
def bRust : Str := cs!"rust"
def bDip : Str := cs!"dip"

/-! ## C and C++ -/

def shapeBrackets (sh : List Nat) : Str :=
  ['['] ++ joinWith [']', '['] (sh.map showNat) ++ [']']

/-- `parse_const` / `parse_constexpr` (`kw` = "const" / "constexpr"). -/
def lineConst (backend kw : Str) (ren : Bool) (p : Param) : Option Str := do
  let dtype ← lookupType backend p.kind p.bits
  let sh ← shapeOf p.value
  let value := printVal styleC p.value
  if p.value.isArr then
    some (kw ++ [' '] ++ dtype ++ [' '] ++ rename ren p.name ++ shapeBrackets sh ++ cs!" = " ++ value ++ [';'])
  else
    some (kw ++ [' '] ++ dtype ++ [' '] ++ rename ren p.name ++ cs!" = " ++ value ++ [';'])

/-- `parse_define` for scalar parameters (arrays would print a Python list repr: outside the model). -/
def lineDefine (ren : Bool) (p : Param) : Option Str :=
  match p.value with
  | .leaf (.s v) => some (cs!"#define " ++ rename ren p.name ++ [' '] ++ quoteStr .backslash v)
  | .leaf (.b v) => some (cs!"#define " ++ rename ren p.name ++ [' '] ++ (if v then ['1'] else ['0']))
  | .leaf (.i v) => some (cs!"#define " ++ rename ren p.name ++ [' '] ++ showInt v)
  | .leaf (.f t) => some (cs!"#define " ++ rename ren p.name ++ [' '] ++ t)
  | .arr _ => none

structure COpts where
  guard : Str
  define : List Str
  const : List Str      -- C++ only
  rename : Bool

def headerWrap (guard : Str) (includes : Bool) (body : List Str) : Str :=
  joinWith ['\n'] (
    [cs!"#ifndef " ++ guard, cs!"#define " ++ guard, []] ++
    (if includes then [cs!"#include <stdbool.h>", []] else []) ++
    body ++ [[], cs!"#endif /* " ++ guard ++ cs!" */"])

/-- `ExportConfigC.parse`. -/
def exportC (o : COpts) (data : List Param) : Option Str := do
  let body ← data.mapM (fun p =>
    if o.define.contains p.name then lineDefine o.rename p else lineConst bC (cs!"const") o.rename p)
  let inc := data.any (fun p => p.kind = Kind.bool ∧ ¬ o.define.contains p.name)
  some (headerWrap o.guard inc body)

/-- `ExportConfigCPP.parse`. -/
def exportCpp (o : COpts) (data : List Param) : Option Str := do
  let body ← data.mapM (fun p =>
    if o.define.contains p.name then lineDefine o.rename p
    else if o.const.contains p.name then lineConst bCpp (cs!"const") o.rename p
    else lineConst bCpp (cs!"constexpr") o.rename p)
  some (headerWrap o.guard false body)

/-! ## Rust -/

/-- `size.reverse(); for dim in size: dtype = f"[{dtype}; {dim}]"` -/
def rustType (base : Str) : List Nat → Str
  | [] => base
  | d :: rest => ['['] ++ rustType base rest ++ [';', ' '] ++ showNat d ++ [']']

def lineRust (ren : Bool) (p : Param) : Option Str := do
  let dtype ← lookupType bRust p.kind p.bits
  let sh ← shapeOf p.value
  some (cs!"pub const " ++ rename ren p.name ++ [':', ' '] ++ rustType dtype sh ++ cs!" = " ++
        printVal styleRust p.value ++ [';'])

def exportRust (ren : Bool) (data : List Param) : Option Str := do
  let body ← data.mapM (lineRust ren)
  some (joinWith ['\n'] body)

/-! ## Fortran -/

def commaNats (l : List Nat) : Str := joinWith [','] (l.map showNat)

/-- `order=[k,…,1]` -/
def orderList (k : Nat) : List Nat := (List.range k).reverse.map (· + 1)

/-- `len(value.encode('utf-8'))` -/
def utf8Len (s : Str) : Nat := (s.map Char.utf8Size).sum

def fortranType (p : Param) (rendered : Str) : Option Str :=
  if p.kind = Kind.str then some (cs!"character(len=" ++ showNat (utf8Len rendered) ++ [')'])
  else lookupType bFortran p.kind p.bits

def lineFortran (ren : Bool) (p : Param) : Option Str := do
  let sh ← shapeOf p.value
  let value := printVal styleFortran p.value
  let dtype ← fortranType p value
  -- string arrays: constructor with an explicit type (elements may differ in length)
  let value := if p.value.isArr ∧ p.kind = Kind.str then dtype ++ cs!" :: " ++ value else value
  let name := rename ren p.name
  if ¬ p.value.isArr then
    some (cs!"  " ++ dtype ++ cs!", parameter :: " ++ name ++ cs!" = " ++ value ++ [';'])
  else if sh.length > 1 then
    some (cs!"  " ++ dtype ++ cs!", dimension (" ++ commaNats sh ++ cs!"), parameter :: " ++ name ++
          cs!" = reshape([" ++ value ++ cs!"],[" ++ commaNats sh ++ cs!"],order=[" ++
          commaNats (orderList sh.length) ++ cs!"])")
  else
    some (cs!"  " ++ dtype ++ cs!", dimension (" ++ commaNats sh ++ cs!") :: " ++ name ++
          cs!" = [" ++ value ++ cs!"];")

def exportFortran (modname : Str) (ren : Bool) (data : List Param) : Option Str := do
  let body ← data.mapM (lineFortran ren)
  some (joinWith ['\n'] ([cs!"module " ++ modname, cs!"  implicit none", []] ++ body ++
        [[], cs!"end module " ++ modname]))

/-! ## Bash (`Format.VALUE`: plain Python values) -/

/-- `for symbol in ["\\", "\"", "$", "`"]: value = value.replace(symbol, "\\"+symbol)` -/
def bashEsc (v : Str) : Str :=
  replaceChar '`' ['\\', '`'] (replaceChar '$' ['\\', '$'] (replaceChar '"' ['\\', '"']
    (replaceChar '\\' ['\\', '\\'] v)))

def bashScalar : Scalar → Str
  | .s v => '"' :: bashEsc v ++ ['"']
  | .b v => if v then ['0'] else ['-', '1']
  | .i v => showInt v
  | .f t => t

mutual
/-- `_parse_array(name, values, coord)` for `coord ≠ []` or rank ≥ 2: the list of
    `NAME[i,j,…]=value` lines (joined with newlines by the caller levels). -/
def bashAssoc (name : Str) (coord : List Nat) : Val → List Str
  | .leaf _ => []
  | .arr vs => bashAssocList name coord 0 vs
def bashAssocList (name : Str) (coord : List Nat) (i : Nat) : List Val → List Str
  | [] => []
  | (.leaf s) :: vs =>
      (name ++ ['['] ++ commaNats (coord ++ [i]) ++ [']', '='] ++ bashScalar s) ::
        bashAssocList name coord (i + 1) vs
  | (.arr ws) :: vs =>
      bashAssocList name (coord ++ [i]) 0 ws ++ bashAssocList name coord (i + 1) vs
end

def bashWord (v : Val) : Str :=
  match v with
  | .leaf (.s x) => bashScalar (.s x)                    -- strings are quoted once
  | .leaf s => '"' :: bashScalar s ++ ['"']
  | .arr _ => []

def lineBash (exp : Bool) (ren : Bool) (p : Param) : Option (List Str) := do
  let name := rename ren p.name
  let ex : Str := if exp then cs!"export " else []
  match p.value with
  | .leaf s => some [ex ++ name ++ ['='] ++ bashScalar s]
  | .arr vs =>
    let sh ← shapeOf p.value
    if sh.length > 1 then
      some ([cs!"declare -A " ++ name] ++ bashAssoc name [] p.value ++
            (if exp then [cs!"export " ++ name] else []))
    else
      some [ex ++ name ++ ['=', '('] ++ joinWith [' '] (vs.map bashWord) ++ [')']]

def exportBash (exp : Bool) (ren : Bool) (data : List Param) : Option Str := do
  let body ← data.mapM (lineBash exp ren)
  some (joinWith ['\n'] body.flatten)

/-! ## DIP text (`ExportConfig.parse`, `_parse_dip_scalar`, `_parse_dip_array`) -/

def hexDigit (d : Nat) : Char := if d < 10 then Char.ofNat (48 + d) else Char.ofNat (87 + d)

/-- `\\uXXXX` with lower-case digits, as `json.dumps` writes a 16-bit code unit -/
def jsonU (n : Nat) : Str :=
  ['\\', 'u', hexDigit (n / 4096 % 16), hexDigit (n / 256 % 16), hexDigit (n / 16 % 16), hexDigit (n % 16)]

/-- one character of a string element of an array value: `json.dumps` (ensure_ascii: a character
    outside ASCII becomes `\\uXXXX`, beyond the BMP a surrogate pair), then `\\"`, `\\\\` and `'`
    rewritten as unicode escapes (printable characters: `json.dumps` escapes nothing else) -/
def dipElemChar (c : Char) : Str :=
  if c = '"' then cs!"\\u0022" else if c = '\\' then cs!"\\u005c" else if c = '\'' then cs!"\\u0027"
  else if c.toNat < 128 then [c]
  else if c.toNat < 65536 then jsonU c.toNat
  else jsonU (55296 + (c.toNat - 65536) / 1024) ++ jsonU (56320 + (c.toNat - 65536) % 1024)

def dipScalar (element : Bool) : Scalar → Str
  | .s v => if element then '"' :: v.flatMap dipElemChar ++ ['"']
            else '"' :: replaceChar '"' ['\\', '"'] (replaceChar '\'' ['\\', '\''] v) ++ ['"']
  | .b v => if v then cs!"true" else cs!"false"
  | .i v => showInt v
  | .f t => t

mutual
/-- `_parse_dip_array` : `"[" + ",".join(strings) + "]"` -/
def dipArray : Val → Str
  | .leaf s => dipScalar true s
  | .arr vs => ['['] ++ dipArrayList vs ++ [']']
def dipArrayList : List Val → Str
  | [] => []
  | [v] => dipArray v
  | v :: w :: vs => dipArray v ++ [','] ++ dipArrayList (w :: vs)
end

def lineDip (p : Param) : Option Str := do
  let base ← lookupType bDip p.kind p.bits
  let (dtype, value) ← match p.value with
    | .leaf s => some (base, dipScalar false s)
    | .arr _ => do
      let sh ← shapeOf p.value                     -- `np.shape(param.value)` (rectangular values)
      let txt := dipArray p.value
      some (base ++ ['['] ++ commaNats sh ++ [']'],
            if p.kind = Kind.str then ['\''] ++ txt ++ ['\''] else txt)
  match p.unit with
  | some u => some (p.name ++ [' '] ++ dtype ++ cs!" = " ++ value ++ [' '] ++ u)
  | none => some (p.name ++ [' '] ++ dtype ++ cs!" = " ++ value)

def exportDip (data : List Param) : Option Str := do
  let body ← data.mapM lineDip
  some (joinWith ['\n'] body)

/-! ## JSON / YAML / TOML shaping (`Format.TUPLE`, then `{value, unit}` or the bare value) -/

inductive Shaped
  | bare (v : Val)
  | withUnit (v : Val) (u : Str)
  deriving Repr

def shapeEntry (units : Bool) (p : Param) : Str × Shaped :=
  match p.kind, p.unit with
  | Kind.bool, _ => (p.name, .bare p.value)
  | Kind.str, _ => (p.name, .bare p.value)
  | _, some u => if units then (p.name, .withUnit p.value u) else (p.name, .bare p.value)
  | _, none => (p.name, .bare p.value)

def exportData (units : Bool) (data : List Param) : List (Str × Shaped) := data.map (shapeEntry units)

/-! ## the exporter object over a history of calls (`__init__`, `select`, `parse`) -/

/-- one call on an exporter object; `α` = the options `parse` takes -/
inductive Call (α : Type)
  | select (query : Option Str) (tags : Option (List Str))
  | parse (opts : α)

/-- `ExportConfig` : the environment and `self.data` (the current selection) -/
structure ExporterObj where
  env : List Param
  data : List Param

/-- `__init__` : `self.data = self.env.data(self.dtype)` -/
def ExporterObj.init (env : List Param) : ExporterObj := ⟨env, env⟩

/-- the texts a history of calls returns, in order (`parse` reads `self.data`, `select` replaces it) -/
def runCalls {α β : Type} (exportF : α → List Param → β) : List (Call α) → ExporterObj → List β
  | [], _ => []
  | .select q t :: rest, o => runCalls exportF rest { o with data := select q t o.env }
  | .parse opts :: rest, o => exportF opts o.data :: runCalls exportF rest o

/-- the selection in force after a history: that of the last `select`, everything when there was none -/
def currentSelection {α : Type} (env : List Param) : List (Call α) → List Param → List Param
  | [], cur => cur
  | .select q t :: rest, _ => currentSelection env rest (select q t env)
  | .parse _ :: rest, cur => currentSelection env rest cur

end SciVerif.C19
