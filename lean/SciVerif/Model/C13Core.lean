import SciVerif.Model.C13
/-
DIP core, part 2: values, `HierarchyList.register`, the main loop of `DIP.parse`
(append / modify by path), `BaseNode.modify_value`, final validation and `data()`.
Casting of raw text, the unit table and table expansion enter through `Params`
(their executable instances live in `Model/C13Cast.lean`).
-/
namespace SciVerif.C13

/-! ### values -/

inductive Atom where
  | bool (b : Bool)
  | num (q : Rat)          -- int and float values (exact)
  | str (s : Str)
deriving Repr, DecidableEq

inductive Val where
  | none                                     -- `Type(None)`
  | scalar (a : Atom)
  | array (shape : List Nat) (elems : List Atom)
deriving Repr, DecidableEq

structure Params where
  /-- `cast_value(raw)` of a node of type `ty` with dimension `dims` on raw text -/
  castText : Ty → Option (List Dim) → Str → R Val
  /-- the same on the cell list of a table column -/
  castCells : Ty → Bool → List Str → R Val
  /-- `Unit(units_raw)` succeeds inside `UnitEnvironment(env.units)` -/
  unitKnown : Str → Bool
  /-- `Quantity(v, from).value(to)` -/
  conv : Str → Str → Rat → R Rat
  /-- `TableNode.parse` -/
  expandTable : Node → R (List Node)

/-! ### hierarchy -/

abbrev Stack := List (Nat × Str)       -- top first

/-- `while parents and indent <= parents[-1].indent: pop` then `append` -/
def push (st : Stack) (d : Nat) (nm : Str) : Stack :=
  (d, nm) :: st.dropWhile (fun p => decide (d ≤ p.1))

/-- `Sign.SEPARATOR.join(parent.name for parent in parents)` -/
def pathOf (st : Stack) : Str := joinWith ['.'] (st.reverse.map Prod.snd)

/-! ### environment nodes -/

structure ENode where
  name : Str
  ty : Ty
  info : TyInfo
  dims : Option (List Dim)
  units : Option Str
  /-- `none` = Python attribute `value is None`; `some Val.none` = `Type(None)` -/
  value : Option Val
  declared : Bool
  constant : Bool := false
deriving Repr, DecidableEq

structure State where
  stack : Stack := []
  nodes : List ENode := []
deriving Repr

def mapAtoms (f : Rat → R Rat) : List Atom → R (List Atom)
  | [] => .ok []
  | .num q :: t => do
      let q' ← f q
      let t' ← mapAtoms f t
      .ok (.num q' :: t')
  | a :: t => do
      let t' ← mapAtoms f t
      .ok (a :: t')

/-- "the value converted into the definition's unit": `value.unit = node.units_raw;
    value.convert(self.units_raw, env)` for numeric types; a unit behind a bool / str value, or
    behind a value for a node defined without unit, is rejected -/
def convertG (conv : Str → Str → Rat → R Rat) (ty : Ty) (u0 uk : Option Str) (v : Val) : R Val :=
  match ty with
  | .int | .float =>
    match u0, uk with
    | some a, some b =>
      if b = a then .ok v
      else match v with
        | .none => .ok v
        | .scalar (.num q) => do
            let q' ← conv b a q
            .ok (.scalar (.num q'))
        | .scalar _ => .error .fail
        | .array sh el => do
            -- the dimension test of `Quantity(...).value(unit)` does not depend on the elements:
            -- an empty array in a unit of another dimension is refused as well
            let _ ← conv b a 0
            let el' ← mapAtoms (conv b a) el
            .ok (.array sh el')
    | none, some _ => .error .fail       -- "defined without units and cannot be assigned a value with units"
    | _, none => .ok v
  | _ =>
    match uk with
    | some _ => .error .fail             -- "does not support units"
    | none => .ok v

def convertVal (P : Params) (ty : Ty) (u0 uk : Option Str) (v : Val) : R Val := convertG P.conv ty u0 uk v

def kindTy : Kind → Option Ty
  | .typed t => some t
  | _ => none

/-- `node.set_value()` on the first occurrence (repaired setters; `has_raw_value`: a raw value is
    missing when it is None or the empty placeholder text, except for str where the empty text is a value) -/
def initValue (P : Params) (ty : Ty) (dims : Option (List Dim)) : Option Raw → R (Option Val)
  | none => .ok none
  | some (.cells _ []) => .ok none
  | some (.cells j (c :: cs)) => do
      let v ← P.castCells ty j (c :: cs)
      .ok (some v)
  | some (.text s) =>
      if s.isEmpty && ty != .str then .ok none
      else do
        let v ← P.castText ty dims s
        .ok (some v)

/-- `node.keyword!='mod' and node.dtype!=self.dtype` -/
def tyMismatch (nd : Node) (t : Ty) : Bool :=
  match kindTy nd.kind with
  | some t' => t' != t
  | none => false

/-- `BaseNode.modify_value(self = e, node = nd)` -/
def modify (P : Params) (e : ENode) (nd : Node) : R ENode :=
  if tyMismatch nd e.ty then .error .fail
  else
    match nd.raw with
    | none => if e.value.isNone then .error .fail else .error .unsupported
    | some (.cells _ _) => .error .unsupported
    | some (.text s) => do
      let v ← P.castText e.ty e.dims s
      if v = .none then .ok { e with value := some .none }
      else do
        let v' ← convertVal P e.ty e.units nd.units v
        .ok { e with value := some v' }

/-- `for n in range(len(target.nodes)): if target.nodes[n].name==node.name: …` -/
def updateFirst (P : Params) (path : Str) (nd : Node) : List ENode → Option (R (List ENode))
  | [] => none
  | e :: t =>
    if e.name = path then
      some (if e.constant then .error .fail
            else (modify P e nd).map (fun e' => e' :: t))
    else (updateFirst P path nd t).map (fun r => r.map (fun t' => e :: t'))

/-- node-specific `parse()` : unit checks -/
def preCheck (P : Params) (nd : Node) : R Unit :=
  match nd.kind, nd.units with
  | .typed .bool, some _ => .error .fail
  | .typed .str, some _ => .error .fail
  | .typed _, some u => if P.unitKnown u then .ok () else .error .fail
  | _, _ => .ok ()

def setLastConstant : List ENode → R (List ENode)
  | [] => .error .fail                 -- `env.nodes[-1]` on an empty list
  | [e] => .ok [{ e with constant := true }]
  | e :: t => (setLastConstant t).map (fun t' => e :: t')

/-- one iteration of the `while len(queue.nodes)` loop for a node that is not a table -/
def stepPlain (P : Params) (st : State) (nd : Node) : R State :=
  match nd.kind with
  | .empty => .ok st
  | .unit => .ok st
  | .table => .error .unsupported
  | .constant => (setLastConstant st.nodes).map (fun ns => { st with nodes := ns })
  | .group =>
    match nd.name with
    | some nm => .ok { st with stack := push st.stack nd.indent nm }
    | none => .ok st
  | .mod | .typed _ =>
    match nd.name with
    | none => .error .fail
    | some nm => do
      preCheck P nd
      let stack := push st.stack nd.indent nm
      let path := pathOf stack
      match updateFirst P path nd st.nodes with
      | some r => do
          -- the node's own `set_value()` runs (and may raise) before the lookup
          match nd.kind with
          | .typed t => let _ ← initValue P t nd.dims nd.raw
          | _ => pure ()
          let ns ← r
          .ok { stack, nodes := ns }
      | none =>
        match nd.kind with
        | .typed t => do
            let v ← initValue P t nd.dims nd.raw
            .ok { stack, nodes := st.nodes ++ [{ name := path, ty := t, info := nd.info, dims := nd.dims,
                                                 units := nd.units, value := v, declared := nd.declared }] }
        | _ => .error .fail            -- "Modifying undefined node"

def foldSteps (P : Params) : State → List Node → R State
  | st, [] => .ok st
  | st, nd :: t => do
      let st' ← stepPlain P st nd
      foldSteps P st' t

/-- one queue element: a table is replaced by its column nodes -/
def step (P : Params) (st : State) (nd : Node) : R State :=
  if nd.kind = .table then do
    let cols ← P.expandTable nd
    if cols.isEmpty then .error .unsupported else foldSteps P st cols
  else stepPlain P st nd

def runNodes (P : Params) : State → List Node → R State
  | st, [] => .ok st
  | st, nd :: t => do
      let st' ← step P st nd
      runNodes P st' t

/-- "Node value must be defined" and the crash of `data()` on a node without value object -/
def validate (ns : List ENode) : R (List ENode) :=
  if ns.any (fun e => e.value.isNone) then .error .fail else .ok ns

/-- `DIP.parse()` + `env.data()` on already lexed nodes -/
def parseNodes (P : Params) (nds : List Node) : R (List ENode) := do
  let st ← runNodes P {} nds
  validate st.nodes

/-- from the text given to `add_string` to the final node list -/
def parseText (P : Params) (text : Str) : R (List ENode) := do
  let q ← getQueue (stripBlankLines (splitOn '\n' text))
  let nds ← q.mapM determine
  parseNodes P nds

end SciVerif.C13
