/-!
# C03 — table structures and the table-level functions of the model (no Mathlib)

Split from `Model/C03.lean` so that the kernel-decided table facts (`Facts/C03*.lean`)
depend only on this file and the regenerated table.
-/
namespace SciVerif.C03

abbrev Str := List Char

/-! ## fraction.py -/

/-- `Fraction(num, den)`: two Python ints, *not* normalised. -/
structure Frac where
  num : Int
  den : Int
deriving DecidableEq, Repr, Inhabited

namespace Frac
def one : Frac := ⟨1, 1⟩
def zero : Frac := ⟨0, 1⟩
/-- `__add__` -/
def add (a b : Frac) : Frac := ⟨a.num * b.den + b.num * a.den, a.den * b.den⟩
/-- `__sub__` -/
def sub (a b : Frac) : Frac := ⟨a.num * b.den - b.num * a.den, a.den * b.den⟩
/-- `__neg__` -/
def neg (a : Frac) : Frac := ⟨-a.num, a.den⟩
/-- `__mul__` with a `Fraction` -/
def mul (a b : Frac) : Frac := ⟨a.num * b.num, a.den * b.den⟩

/-- `rebase()`: zero reset, sign on top, common divisor removed
    (`np.gcd`, then `int(num/gcd)`: exact below 2^53). -/
def rebase (a : Frac) : Frac :=
  let a1 : Frac := if a.num = 0 then ⟨0, 1⟩ else a
  let a2 : Frac := if a1.den < 0 then ⟨-a1.num, -a1.den⟩ else a1
  let g : Int := (Int.gcd a2.num a2.den : Nat)
  if g > 1 then ⟨a2.num / g, a2.den / g⟩ else a2

/-- the rational the fraction stands for (only meaningful when `den ≠ 0`) -/
def toRat (a : Frac) : Rat := (a.num : Rat) / (a.den : Rat)
end Frac

/-- result of `Fraction.value()` (dtype=tuple): an int, or the rebased pair -/
inductive FVal
  | int (i : Int)
  | pair (n d : Int)
deriving DecidableEq, Repr

/-- `value()`: the int test comes *before* `rebase`, so `Fraction(4,2).value() = (2,1)`. -/
def Frac.value (a : Frac) : FVal :=
  if a.num = 0 ∨ a.den = 1 then .int a.num else .pair a.rebase.num a.rebase.den

/-! ## tables (regenerated from settings.py / unit_list.py into `Generated/C03Tables.lean`) -/

/-- the `prefixes` column of `UNIT_STANDARD`: `True`, `False` or a list -/
inductive PrefAdm
  | all
  | none
  | only (l : List Str)
  /-- any other value (a bare string such as `('m')`, a number …): not a value the table format
      allows; `AtomParser`'s three tests (`list`, `is True`, `is False`) all pass it -/
  | malformed
deriving DecidableEq, Repr

/-- the `definition` column: missing, an expression text, or a unit-type class -/
inductive DefKind
  | base
  | expr (text : Str)
  | temperature
  | logarithmic
deriving DecidableEq, Repr

structure PrefixRow where
  sym : Str
  mag : Rat
  defn : Str
deriving DecidableEq, Repr

structure UnitRow where
  sym : Str
  mag : Rat
  dims : List Frac
  pref : PrefAdm
  defn : DefKind
deriving DecidableEq, Repr

structure SysRow where
  sym : Str
  mag : Rat
  dims : List Frac
deriving DecidableEq, Repr

structure Tables where
  prefixes : List PrefixRow
  units : List UnitRow
  sys : List SysRow
  /-- SYMBOL_UNITID, SYMBOL_FRACTION, SYMBOL_MULTIPLY, SYMBOL_SYSTEM_UNIT -/
  symbols : List Char
deriving Repr

def Tables.prefixKeys (T : Tables) : List Str := T.prefixes.map (·.sym)
def Tables.findPrefix (T : Tables) (p : Str) : Option PrefixRow := T.prefixes.find? (·.sym == p)
def Tables.findUnit (T : Tables) (u : Str) : Option UnitRow := T.units.find? (·.sym == u)
def Tables.findSys (T : Tables) (u : Str) : Option SysRow := T.sys.find? (·.sym == u)

def isExpChar (c : Char) : Bool := c.isDigit || c == ':' || c == '+' || c == '-'

def longer (acc : Option UnitRow) (u : UnitRow) : Option UnitRow :=
  match acc with
  | none => some u
  | some a => if a.sym.length < u.sym.length then some u else some a

/-- `max([u for u in UNIT_STANDARD.keys() if string.endswith(u)], key=len)` (first maximal) -/
def findBase (T : Tables) (body : Str) : Option UnitRow :=
  (T.units.filter (fun u => u.sym.isSuffixOf body)).foldl longer none

/-- the three admissibility tests applied to a recognised prefix -/
def admits (T : Tables) (u : UnitRow) (p : Str) : Bool :=
  match u.pref with
  | .only l => l.contains p
  | .all => T.prefixKeys.contains p
  | .none => false
  | .malformed => T.prefixKeys.contains p


/-! ## decidable table conditions (decided by the kernel over the regenerated table) -/

/-- Boolean `Nodup` (fast in the kernel) -/
def nodupB : List Str → Bool
  | [] => true
  | a :: t => !t.contains a && nodupB t

/-- prefixes a unit admits -/
def admPrefixes (T : Tables) (u : UnitRow) : List Str := T.prefixKeys.filter (admits T u)

/-- F1: for every unit and every admitted prefix (or none) the longest table symbol that is a
    suffix of `' ' ++ prefix ++ symbol` is that unit -/
def factF1 (T : Tables) : Bool :=
  T.units.all (fun u => ([] :: admPrefixes T u).all (fun p => findBase T (' ' :: p ++ u.sym) == some u))

/-- F2: unit symbols are non-empty and do not end in an exponent character -/
def factF2 (T : Tables) : Bool :=
  T.units.all (fun u => match u.sym.getLast? with | some c => !isExpChar c | none => false)

/-- F3: prefixes are pairwise distinct and non-empty -/
def factF3 (T : Tables) : Bool :=
  nodupB T.prefixKeys && T.prefixKeys.all (fun p => p != [])

def isNumAlpha (c : Char) : Bool := c.isDigit || c == '-' || c == '.' || c == 'e' || c == '+'

/-- F4: every unit symbol has a character that cannot occur in a number literal; no prefix or
    unit symbol starts with the system-unit mark (or a blank) or contains the key separator -/
def factF4 (T : Tables) : Bool :=
  T.units.all (fun u => u.sym.any (fun c => !isNumAlpha c) && u.sym.head? != some '#' && u.sym.head? != some ' '
    && !u.sym.contains ':') &&
  T.prefixKeys.all (fun p => p.head? != some '#' && !p.contains ':')

/-- the list `check_unique_symbols` builds: every symbol and every admitted prefix++symbol -/
def allSymbols (T : Tables) : List Str :=
  T.units.flatMap (fun u => ([] :: admPrefixes T u).map (fun p => p ++ u.sym))

/-- F5: unit symbols are pairwise distinct; prefix lists only name existing prefixes
    (with F1 this gives `check_unique_symbols`' condition, see `C03_table_unique`) -/
def factUnique (T : Tables) : Bool :=
  nodupB (T.units.map (·.sym)) &&
  T.units.all (fun u => match u.pref with | .only l => l.all (fun p => T.prefixKeys.contains p) | _ => true)

/-- F6: all magnitudes are positive, all dimension vectors have 8 entries with non-zero denominators -/
def factPositive (T : Tables) : Bool :=
  T.prefixes.all (fun p => decide (0 < p.mag)) &&
  T.units.all (fun u => decide (0 < u.mag) && u.dims.length == 8 && u.dims.all (fun f => f.den != 0)) &&
  T.sys.all (fun u => decide (0 < u.mag) && u.dims.length == 8 && u.dims.all (fun f => f.den != 0))

/-- F8: the `prefixes` column is well formed: every entry is `True`, `False` or a duplicate-free
    list of keys of the prefix table -/
def factPrefShape (T : Tables) : Bool :=
  T.units.all (fun u => match u.pref with
    | .all => true
    | .none => true
    | .only l => l.all (fun p => T.prefixKeys.contains p) && nodupB l
    | .malformed => false)

/-- ASCII part of `str.isspace` -/
def isSpace (c : Char) : Bool :=
  c == ' ' || (9 ≤ c.toNat && c.toNat ≤ 13) || (28 ≤ c.toNat && c.toNat ≤ 31)

/-- a character that is neither an operator/parenthesis/separator of the unit solver nor blank -/
def isPlainChar (c : Char) : Bool :=
  !(c == '(' || c == ')' || c == '*' || c == '/' || c == ',' || isSpace c)

/-- F7: prefix, unit and system-unit symbols contain no operator, parenthesis, separator or blank;
    system-unit symbols start with the system-unit mark and do not end in an exponent character -/
def factF7 (T : Tables) : Bool :=
  T.prefixKeys.all (fun p => p.all isPlainChar) &&
  T.units.all (fun u => u.sym.all isPlainChar) &&
  T.sys.all (fun u => u.sym.all isPlainChar && u.sym.head? == some '#' &&
    (match u.sym.getLast? with | some c => !isExpChar c | none => false))

end SciVerif.C03
