import SciVerif.Model.C08
/-
Model of quantity arithmetic (property C06), statement by statement:
  * `fraction.py`    Fraction (`__add__/__sub__/__mul__/__neg__/__eq__/rebase/__str__`)
  * `dimensions.py`  Dimensions as a list of 8 Fractions (`+`, `*`, `-x`, `==`, `nodim`)
  * `base_units.py`  `get_unit_base`, `BaseUnits.__init__/__add__/__sub__/__mul__`
  * `unit_types.py`  `StandardUnitType._istype`, `UnitType.convert/add/sub`
  * `quantity.py`    `Quantity.__init__` (folding of units when all dimensions vanish),
                     `_add/_sub/_mul/_truediv/__pow__/__neg__`, reflected variants, `to`
The value part is `SciVerif.C08.Mag` (model of `magnitude.py`).

Unit symbols are keys of an arbitrary type `ι`; what the unit tables say about a key is an
environment `env : ι → UnitInfo V` (in the driver it is re-read from the live tables for every
request). No Mathlib imports: compiled into `drv_c06`.
-/
namespace SciVerif.C06
open SciVerif.C08

/-! ### Fraction -/

/-- `Fraction(num, den)` : two Python ints, not normalised. -/
structure Frac where
  num : Int
  den : Int
deriving DecidableEq, Repr, Inhabited

namespace Frac
/-- `Fraction()` -/
def zero : Frac := ⟨0, 1⟩
def add (a b : Frac) : Frac := ⟨a.num * b.den + b.num * a.den, a.den * b.den⟩
def sub (a b : Frac) : Frac := ⟨a.num * b.den - b.num * a.den, a.den * b.den⟩
/-- `__mul__` with a Fraction, a tuple, an int `k` (= `⟨k,1⟩`) or — since the fix — a float
    (first turned into the Fraction `from_float` returns). -/
def mul (a b : Frac) : Frac := ⟨a.num * b.num, a.den * b.den⟩
def neg (a : Frac) : Frac := ⟨-a.num, a.den⟩
/-- `__eq__` : `isclose(num*other.den, other.num*den)` on ints -/
def beq (a b : Frac) : Bool := a.num * b.den == b.num * a.den
/-- `value(dtype=float)` : `num/den` -/
def toRat (a : Frac) : Rat := (a.num : Rat) / (a.den : Rat)

/-- `rebase()` : zero → 0/1; sign on top; divide by the gcd. -/
def rebase (a : Frac) : Frac :=
  let a1 : Frac := if a.num = 0 then ⟨0, 1⟩ else a
  let a2 : Frac := if a1.den < 0 then ⟨-a1.num, -a1.den⟩ else a1
  let g : Int := Int.gcd a2.num a2.den
  if g > 1 then ⟨a2.num / g, a2.den / g⟩ else a2

/-- `str(exp)` -/
def str (a : Frac) : String :=
  let r := a.rebase
  if r.num = 0 ∨ r.den = 1 then toString r.num else toString r.num ++ ":" ++ toString r.den
end Frac

/-! ### Dimensions (list of the 8 base exponents) -/

abbrev Dims := List Frac

def Dims.zero : Dims := List.replicate 8 Frac.zero
def Dims.add (a b : Dims) : Dims := List.zipWith Frac.add a b
def Dims.scale (a : Dims) (e : Frac) : Dims := a.map (fun d => d.mul e)
/-- `-dims` : every exponent `* -1` -/
def Dims.neg (a : Dims) : Dims := a.map (fun d => d.mul ⟨-1, 1⟩)
/-- `==` : component-wise `Fraction.__eq__` -/
def Dims.beq (a b : Dims) : Bool := (List.zipWith Frac.beq a b).all id
/-- `nodim` : every numerator is 0 -/
def Dims.nodim (a : Dims) : Bool := a.all (fun d => d.num == 0)

/-! ### Units and BaseUnits -/

/-- What the tables say about a unit id (`prefix:base`). -/
structure UnitInfo (V : Type) where
  /-- `f"{prefix}{base}"` -/
  sym : String
  /-- table symbol (entry of `BaseUnits.units`) -/
  base : String
  /-- `UNIT_PREFIXES[prefix].magnitude*UNIT_STANDARD[base].magnitude` -/
  factor : V
  /-- `UNIT_STANDARD[base].dimensions` -/
  dims : Dims

/-- the `baseunits` dict of a `BaseUnits`: insertion-ordered, keys unique -/
abbrev BU (ι : Type) := List (ι × Frac)

variable {ι V : Type} [DecidableEq ι]
variable [Add V] [Sub V] [Mul V] [Div V] [Neg V] [OfNat V 1] [OfNat V 100] [ValOps V]

/-- `get_unit_base(unitid, exp).magnitude` -/
def unitFactor (env : ι → UnitInfo V) (u : ι) (e : Frac) : V := rpow (env u).factor e.toRat
/-- `get_unit_base(unitid, exp).dimensions` -/
def unitDims (env : ι → UnitInfo V) (u : ι) (e : Frac) : Dims := (env u).dims.scale e
/-- `get_unit_base(unitid, exp).expression` -/
def unitExpr (env : ι → UnitInfo V) (u : ι) (e : Frac) : String :=
  let r := e.rebase
  if r.num = 1 ∧ r.den = 1 then (env u).sym else (env u).sym ++ e.str

/-- `BaseUnits(dict)` : entries with numerator 0 are deleted. -/
def BU.new (d : BU ι) : BU ι := d.filter (fun p => p.2.num != 0)
/-- `BaseUnits(list)` : a dimension list becomes `Dimensions.from_list(list).value(dtype=dict)`, i.e.
    the base symbols `names = DIMENSION_LIST` in *that* order, entries with numerator 0 left out. -/
def BU.ofDimList (names : List ι) (d : Dims) : BU ι :=
  (names.zip d).filter (fun p => p.2.num != 0)

/-- `.magnitude` : `1`, then `*= ubase.magnitude` in dict order -/
def BU.magnitude (env : ι → UnitInfo V) (b : BU ι) : V :=
  b.foldl (fun acc p => acc * unitFactor env p.1 p.2) 1
/-- `.dimensions` -/
def BU.dims (env : ι → UnitInfo V) (b : BU ι) : Dims :=
  b.foldl (fun acc p => acc.add (unitDims env p.1 p.2)) Dims.zero
/-- `.units` -/
def BU.unitNames (env : ι → UnitInfo V) (b : BU ι) : List String := b.map (fun p => (env p.1).base)
/-- `.expression` (`None` if there is no unit) -/
def BU.expression (env : ι → UnitInfo V) (b : BU ι) : Option String :=
  if b.isEmpty then none else some ("*".intercalate (b.map (fun p => unitExpr env p.1 p.2)))

/-- `baseunits[unit] = f(baseunits[unit]) if unit in baseunits else g` -/
def BU.upd (b : BU ι) (u : ι) (f : Frac → Frac) (g : Frac) : BU ι :=
  match b with
  | [] => [(u, g)]
  | (k, e) :: t => if k = u then (k, f e) :: t else (k, e) :: BU.upd t u f g

/-- `BaseUnits.__add__` -/
def BU.addU (a b : BU ι) : BU ι :=
  BU.new (b.foldl (fun acc p => acc.upd p.1 (fun e => e.add p.2) p.2) a)
/-- `BaseUnits.__sub__` -/
def BU.subU (a b : BU ι) : BU ι :=
  BU.new (b.foldl (fun acc p => acc.upd p.1 (fun e => e.sub p.2) p.2.neg) a)
/-- `BaseUnits.__mul__` (power given as the Fraction / tuple / int / float-as-Fraction `p`) -/
def BU.scale (a : BU ι) (p : Frac) : BU ι := BU.new (a.map (fun q => (q.1, q.2.mul p)))

/-! ### Quantity -/

structure Qty (ι V : Type) where
  mag : Mag V
  units : BU ι

/-- `Quantity(magnitude: Magnitude, baseunits: BaseUnits)` : if all dimensions vanish, every
    unit that has a dimension is dropped and its factor multiplied into the magnitude. -/
def Qty.new (env : ι → UnitInfo V) (m : Mag V) (b : BU ι) : Qty ι V :=
  if (b.dims env).nodim then
    let m' := b.foldl (fun m p =>
      if (unitDims env p.1 p.2).nodim then m else m.mul (Mag.exact (unitFactor env p.1 p.2))) m
    ⟨m', BU.new (b.filter (fun p => (unitDims env p.1 p.2).nodim))⟩
  else ⟨m, b⟩

/-- `Quantity(value, ref, abse)` with the unit given as a *quantity* `ref`:
    `self.magnitude *= ref.magnitude; self.baseunits = ref.baseunits`, then the folding step —
    the product of the two (possibly uncertain) numbers, in the units of `ref`. -/
def Qty.newQ (env : ι → UnitInfo V) (m : Mag V) (ref : Qty ι V) : Qty ι V :=
  Qty.new env (m.mul ref.mag) ref.units

/-- `Quantity(number)` -/
def Qty.ofNumber (x : V) : Qty ι V := ⟨Mag.exact x, []⟩

inductive Conv where
  | linear
  | inversed
deriving DecidableEq, Repr

/-- `StandardUnitType._istype` (the temperature and logarithmic rule classes decline for the
    units in the domain of C06/C08). -/
def stdType (env : ι → UnitInfo V) (b1 b2 : BU ι) : Option Conv :=
  if (b1.dims env).beq (b2.dims env) then some .linear
  else if (b1.dims env).neg.beq (b2.dims env) then some .inversed
  else if b1.isEmpty ∧ b2.unitNames env = ["rad"] ∧
      (((b2.dims env)[7]?).map (fun d => d.num == d.den)).getD false = true then
    -- a bare number is an angle in radians (first power only: `dimensions.rad.num == .den`)
    some .linear
  else none

/-- `Quantity._convert` → `UnitType.convert` -/
def convert (env : ι → UnitInfo V) (m : Mag V) (b1 b2 : BU ι) : Except String (Mag V) :=
  match stdType env b1 b2 with
  | some .linear => pure (m.convertLinear (b1.magnitude env) (b2.magnitude env))
  | some .inversed => pure (m.convertInversed (b1.magnitude env) (b2.magnitude env))
  | none => throw "Unsupported conversion between units"

/-- `q.to(units)` (units already parsed into a `BaseUnits`) -/
def Qty.to (env : ι → UnitInfo V) (q : Qty ι V) (b : BU ι) : Except String (Qty ι V) := do
  let m ← convert env q.mag q.units b
  pure ⟨m, b⟩

/-- `q.to(target)` with a `Quantity` target (also `Unit().x`, a quantity of magnitude 1):
    `self._convert(self.magnitude, self.baseunits, target.baseunits) / target.magnitude`,
    i.e. the value in multiples of the reference quantity. -/
def Qty.toQ (env : ι → UnitInfo V) (q t : Qty ι V) : Except String (Qty ι V) := do
  let m ← convert env q.mag q.units t.units
  pure ⟨m.div t.mag, t.units⟩

/-- `Quantity._add` / `_sub` with `UnitType.add` / `sub` -/
def Qty.addsub (env : ι → UnitInfo V) (op : Mag V → Mag V → Mag V) (l r : Qty ι V) :
    Except String (Qty ι V) :=
  match stdType env l.units r.units with
  | none => throw "Unsupported addition/subtraction between units"
  | some _ =>
    if !(l.units.dims env).beq (r.units.dims env) then
      throw "Only units with the same dimension can added together"
    else do
      let m2 ← convert env r.mag r.units l.units
      pure (Qty.new env (op l.mag m2) l.units)

def Qty.add (env : ι → UnitInfo V) (l r : Qty ι V) := Qty.addsub env Mag.add l r
def Qty.sub (env : ι → UnitInfo V) (l r : Qty ι V) := Qty.addsub env Mag.sub l r

/-- `Quantity._mul` -/
def Qty.mul (env : ι → UnitInfo V) (l r : Qty ι V) : Qty ι V :=
  Qty.new env (l.mag.mul r.mag) (l.units.addU r.units)
/-- `Quantity._truediv` -/
def Qty.div (env : ι → UnitInfo V) (l r : Qty ι V) : Qty ι V :=
  Qty.new env (l.mag.div r.mag) (l.units.subU r.units)
/-- `Quantity.__neg__` -/
def Qty.neg (env : ι → UnitInfo V) (q : Qty ι V) : Qty ι V := Qty.new env q.mag.neg q.units

/-- `Quantity.__pow__(power)` : `power` an int `k` (`⟨k,1⟩`), a tuple `(n,d)` (`⟨n,d⟩`; `n/d`
    raises for `d = 0`) or a float (the Fraction `Fraction.from_float(power)`). -/
def Qty.pow (env : ι → UnitInfo V) (q : Qty ι V) (p : Frac) : Except String (Qty ι V) :=
  if p.den = 0 then throw "ZeroDivisionError"
  else pure (Qty.new env (q.mag.pow p.toRat) (q.units.scale p))

/-- `str(base.dimensions.value(dtype=tuple))` : the *names* of the dimensions with a non-zero
    exponent (the exponents themselves are not part of the key, as written). -/
def dimKey (d : Dims) : List Bool := d.map (fun f => f.num != 0)

/-- one pass of the loop of `Quantity.rebase`: `tbl` is the dict `dim-key ↦ [unitid, exp]`,
    `factor` the accumulated conversion factor -/
def rebaseStep (env : ι → UnitInfo V) (acc : List (List Bool × ι × Frac) × V) (p : ι × Frac) :
    List (List Bool × ι × Frac) × V :=
  let key := dimKey ((env p.1).dims.scale ⟨1, 1⟩)
  match acc.1.find? (fun t => t.1 = key) with
  | some t0 =>
    (acc.1.map (fun t => if t.1 = key then (t.1, t.2.1, t.2.2.add p.2) else t),
     acc.2 * rpow ((env p.1).factor / (env t0.2.1).factor) p.2.toRat)
  | none => (acc.1 ++ [(key, p.1, p.2)], acc.2)

/-- `Quantity.rebase()` : units whose dimension keys coincide are merged into the first of them;
    `self.magnitude *= factor`; no folding step (the constructor is not called). -/
def Qty.rebase (env : ι → UnitInfo V) (q : Qty ι V) : Qty ι V :=
  let r := q.units.foldl (rebaseStep env) ([], 1)
  ⟨q.mag.mul (Mag.exact r.2), BU.new (r.1.map (fun t => (t.2.1, t.2.2)))⟩

/-! ### Specification: the value in base dimensions -/

/-- the number the quantity stands for when every unit is replaced by its factor -/
def Qty.base (env : ι → UnitInfo V) (q : Qty ι V) : V := q.mag.value * q.units.magnitude env

/-- the uncertain number the quantity stands for in base dimensions: value and absolute error
    both multiplied by the (exact, positive) factor of its units -/
def Qty.baseMag (env : ι → UnitInfo V) (q : Qty ι V) : Mag V :=
  ⟨q.mag.value * q.units.magnitude env, q.mag.error.map (fun e => e * q.units.magnitude env)⟩

/-- exponent of unit `u` in a unit map, as a rational (0 if absent) -/
def BU.expOf (b : BU ι) (u : ι) : Rat :=
  match b.find? (fun p => p.1 = u) with
  | some p => p.2.toRat
  | none => 0

/-- dimension vector of an exponent assignment: `Σ_u e(u)·dims(u)` -/
def specDimVec (env : ι → UnitInfo V) (l : List (ι × Rat)) : List Rat :=
  l.foldl (fun acc p => List.zipWith (· + ·) acc ((env p.1).dims.map (fun d => d.toRat * p.2)))
    (List.replicate 8 0)

/-- the unit map the property prescribes for a result with exponents `e` over the candidate
    keys: zero exponents are absent; if the dimensions of the result vanish, every unit that
    has a dimension is dropped. -/
def specUnits (env : ι → UnitInfo V) (keys : List ι) (e : ι → Rat) : List (ι × Rat) :=
  let l := (keys.eraseDups.map (fun u => (u, e u))).filter (fun p => p.2 ≠ 0)
  if (specDimVec env l).all (· = 0) then l.filter (fun p => (env p.1).dims.all (fun d => d.num = 0))
  else l

end SciVerif.C06
