/-!
# C11 — model of `Composite._norm` and of the `x` / `X` columns of `Composite._data`

Mirrors `/repo/src/scinumtools/materials/composite.py`:

```
def _norm(self):
    components = self.components.values()
    if self.norm_type==Norm.MASS_FRACTION:
        self.proportion_norm = np.sum([i.proportion/i.component_mass for i in components])
        self.composite_mass  = np.sum([i.proportion for i in components])
    else:
        self.proportion_norm = np.sum([i.proportion for i in components])
        self.composite_mass  = np.sum([i.proportion*i.component_mass for i in components])
...
    if self.norm_type in [Norm.NUMBER_FRACTION, Norm.NUMBER]:
        values['x'] = Quantity(m.proportion/self.proportion_norm)
        values['X'] = m.proportion*m.component_mass/self.composite_mass
    elif self.norm_type==Norm.MASS_FRACTION:
        values['x'] = m.proportion/m.component_mass/self.proportion_norm
        values['X'] = Quantity(m.proportion/self.composite_mass)
...
    pt['sum'] = [np.sum(rc[p]) for p in column_names]
```

Numbers are elements of an arbitrary type with `+ * /`, `0` and `100`; the driver instantiates it
with core `Rat` (exact arithmetic), the theorems with an arbitrary ordered field.  Masses are
numbers of Dalton; both columns are dimensionless quantities reported in the unit `%`, i.e.
multiplied by 100.  No Mathlib import (this file is compiled into `drv_c11` / `drv_c12`).
-/
namespace SciVerif.C11

/-- `materials/__init__.py` `Norm` -/
inductive Mode where
  | number | numberFraction | massFraction
  deriving DecidableEq, Repr

/-- A component as `_norm` / `_data` see it: `proportion` and `component_mass` (in Da). -/
structure Comp (α : Type) where
  p : α
  m : α
  deriving Repr

section
variable {α : Type} [Add α] [Mul α] [Div α] [Zero α] [OfNat α 100]

/-- `self.proportion_norm` -/
def propNorm : Mode → List (Comp α) → α
  | .massFraction, cs => (cs.map fun i => i.p / i.m).sum
  | _, cs => (cs.map fun i => i.p).sum

/-- `self.composite_mass` -/
def compositeMass : Mode → List (Comp α) → α
  | .massFraction, cs => (cs.map fun i => i.p).sum
  | _, cs => (cs.map fun i => i.p * i.m).sum

/-- `values['x']` (dimensionless, before the conversion to `%`) -/
def xRaw : Mode → List (Comp α) → Comp α → α
  | .massFraction, cs, c => c.p / c.m / propNorm .massFraction cs
  | mode, cs, c => c.p / propNorm mode cs

/-- `values['X']` (dimensionless, before the conversion to `%`) -/
def XRaw : Mode → List (Comp α) → Comp α → α
  | .massFraction, cs, c => c.p / compositeMass .massFraction cs
  | mode, cs, c => c.p * c.m / compositeMass mode cs

/-- `value.value('%')` / `value.to('%')` of a dimensionless quantity. -/
def pct (v : α) : α := v * 100

/-- the reported `x` of a component -/
def x (mode : Mode) (cs : List (Comp α)) (c : Comp α) : α := pct (xRaw mode cs c)
/-- the reported `X` of a component -/
def X (mode : Mode) (cs : List (Comp α)) (c : Comp α) : α := pct (XRaw mode cs c)

/-- the `x` column, the `X` column (component rows in dict order) -/
def xs (mode : Mode) (cs : List (Comp α)) : List α := cs.map (x mode cs)
def Xs (mode : Mode) (cs : List (Comp α)) : List α := cs.map (X mode cs)

/-- the `sum` row: `np.sum` of each column -/
def sumRow (mode : Mode) (cs : List (Comp α)) : α × α := ((xs mode cs).sum, (Xs mode cs).sum)

/-- `components=[…]`: only the selected component rows are listed (their values still refer to
    the whole composite); `keep` marks the selected components in dict order -/
def select {β : Type} : List Bool → List β → List β
  | b :: bs, x :: xs => if b then x :: select bs xs else select bs xs
  | _, _ => []

/-- the `avg` row without weights: `np.average(column)` -/
def avgPlain [NatCast α] (col : List α) : α := col.sum / (col.length : α)

/-- the `avg` row of a NUMBER composite with `weight=True`:
    `np.average(np.divide(column, weights), weights=weights)` -/
def avgWeighted (col ws : List α) : α :=
  (List.zipWith (fun c w => c / w * w) col ws).sum / ws.sum

/-- the weights `_data` collects: the amounts of the listed components -/
def weightsOf : Mode → List (Comp α) → List α
  | .massFraction, cs => cs.map fun c => c.p / c.m
  | _, cs => cs.map fun c => c.p

/-- the `avg` row of `data_composite`: weighted only for `weight=True` and `Norm.NUMBER` -/
def avgRow [NatCast α] (weighted : Bool) (mode : Mode) (cs : List (Comp α)) (keep : List Bool) : α × α :=
  let cx := select keep (xs mode cs)
  let cX := select keep (Xs mode cs)
  if weighted && mode == .number then
    let ws := select keep (weightsOf mode cs)
    (avgWeighted cx ws, avgWeighted cX ws)
  else (avgPlain cx, avgPlain cX)

/-- the `sum` row over the listed components -/
def sumRowSel (mode : Mode) (cs : List (Comp α)) (keep : List Bool) : α × α :=
  ((select keep (xs mode cs)).sum, (select keep (Xs mode cs)).sum)

/-! ## Specification -/

/-- the amount `n_i` of a component: the proportion itself in the two number modes,
    proportion (a mass) divided by the component mass in mass-fraction mode -/
def amount : Mode → Comp α → α
  | .massFraction, c => c.p / c.m
  | _, c => c.p

/-- number fraction in percent: `100 · n_i / Σ n_j` -/
def specx (mode : Mode) (cs : List (Comp α)) (c : Comp α) : α :=
  100 * amount mode c / (cs.map (amount mode)).sum

/-- mass fraction in percent: `100 · n_i m_i / Σ n_j m_j` -/
def specX (mode : Mode) (cs : List (Comp α)) (c : Comp α) : α :=
  100 * (amount mode c * c.m) / (cs.map fun i => amount mode i * i.m).sum

/-- the same material with all proportions multiplied by `k` -/
def scale (k : α) (cs : List (Comp α)) : List (Comp α) := cs.map fun c => ⟨k * c.p, c.m⟩

/-- the same components, now *specified by* the mass fractions reported for `cs` -/
def byMassFractions (mode : Mode) (cs : List (Comp α)) : List (Comp α) :=
  cs.map fun c => ⟨X mode cs c, c.m⟩

/-- the same components, now *specified by* the number fractions reported for `cs` -/
def byNumberFractions (mode : Mode) (cs : List (Comp α)) : List (Comp α) :=
  cs.map fun c => ⟨x mode cs c, c.m⟩

end

/-- domain guard used by the driver: Python would divide by zero / the property presupposes
    positive proportions and masses -/
def positive (cs : List (Comp Rat)) : Bool := cs.all fun c => decide (0 < c.p) && decide (0 < c.m)

end SciVerif.C11
