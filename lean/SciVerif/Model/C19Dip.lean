import SciVerif.Model.C19Read
/-!
# C19 — reader model for the DIP text the exporter writes (`dip/nodes/parser.py`, `node_base.cast_value`)

One line `NAME TYPE[DIMS] = VALUE [UNIT]` as `ExportConfig.parse` writes it, read the way the DIP node
parser does: `part_name` (`[a-zA-Z0-9_.-]+` followed by a blank), `part_type` (a type keyword the parser
accepts), `part_dimension` (`[n,m,…]`), `part_equal`, `part_value` (the unquoted alternative `[^# ]+`),
`part_units` (`\s+[^\s#=]+`, not starting with `/ * + -`), then `cast_value`: a scalar token by kind, an array
token as JSON nested lists (`json.loads`) whose shape must be the declared one.

Scalar string nodes: `"…"` up to the end of the line, where `\\"` and `\\'` stand for quote characters
(`DIP._determine_node` replaces them by place-holders before the node parser runs and puts the quote characters back
afterwards; every other `"` closes the value).  Arrays of strings: `'[…]'`, JSON nested lists of strings with
`\\uXXXX` escapes (`dipStrArr`).  NOT modelled (the reader answers `none`): string values whose text contains `$`
(the place-holders are `$@00`, `$@01`, `$@02`: a value that contains such a text itself is decoded as well).
-/
namespace SciVerif.C19

/-- `[a-zA-Z0-9_.-]` -/
def dipNameChar (c : Char) : Bool :=
  (48 ≤ c.toNat ∧ c.toNat ≤ 57) ∨ (65 ≤ c.toNat ∧ c.toNat ≤ 90) ∨ (97 ≤ c.toNat ∧ c.toNat ≤ 122) ∨
    c = '_' ∨ c = '.' ∨ c = '-'

/-- the (kind, precision) a type keyword denotes: the row of the regenerated DIP table with that keyword,
    among the types the live parser accepts (`Gen.dipTypes`) -/
def dipKind (decl : Str) : Option (Kind × Nat) :=
  match Gen.typeRows.find? (fun r => r.1 = bDip ∧ r.2.2.2 = some decl ∧ (r.2.1, r.2.2.1) ∈ Gen.dipTypes) with
  | some r => some (r.2.1, r.2.2.1)
  | none => none

/-- `[^\s#=]` (ASCII white space) -/
def dipUnitChar (c : Char) : Bool := c ≠ ' ' ∧ c ≠ '\t' ∧ c ≠ '\n' ∧ c ≠ '#' ∧ c ≠ '='

/-- what follows the value: nothing, or one blank and a unit up to the end of the line -/
def dipUnit : Str → Option (Option Str)
  | [] => some none
  | ' ' :: u =>
    match u with
    | [] => none
    | x :: _ =>
      if x = '/' ∨ x = '*' ∨ x = '+' ∨ x = '-' then none
      else if u.all dipUnitChar then some (some u) else none
  | _ => none

/-- `part_dimension` : `[2,3]` directly after the type keyword, or nothing -/
def dipDims : Str → Option (Option (List Nat) × Str)
  | '[' :: r =>
    let (ds, r2) := r.span (fun c => c ≠ ']')
    match parseCommaNats ds, r2 with
    | some d, ']' :: r3 => some (some d, r3)
    | _, _ => none
  | r => some (none, r)

/-- `cast_value` : a scalar token by kind; with dimensions the token is a JSON nested list of exactly the
    declared shape, every leaf read by kind -/
def dipValue (k : Kind) (dims : Option (List Nat)) (tok : Str) : Option Val :=
  match dims with
  | none => (readScalar .backslash k (cs!"true") (cs!"false") tok).map .leaf
  | some d => do
    let tree ← parseInit .backslash '[' ']' tok
    let sh ← rectShape tree
    if sh ≠ d then none else interp .backslash k (cs!"true") (cs!"false") tree

/-- a quoted value after its opening quote: the value and what follows the closing quote.  The flag says that
    the previous character was a backslash whose meaning is still open: `\\"` and `\\'` are the quote characters,
    any other backslash is an ordinary character; the first `"` not preceded by such a backslash closes. -/
def dipStrGo : Bool → Str → Option (Str × Str)
  | false, [] => none
  | false, ch :: r =>
    if ch = '"' then some ([], r)
    else if ch = '\\' then dipStrGo true r
    else (dipStrGo false r).map (fun vt => (ch :: vt.1, vt.2))
  | true, [] => none
  | true, d :: r =>
    if d = '"' ∨ d = '\'' then (dipStrGo false r).map (fun vt => (d :: vt.1, vt.2))
    else if d = '\\' then (dipStrGo true r).map (fun vt => ('\\' :: vt.1, vt.2))
    else (dipStrGo false r).map (fun vt => ('\\' :: d :: vt.1, vt.2))

/-! ### arrays of strings: `'[["a","b"],["c\\u0022","d"]]'`

The value is one single-quoted text up to the end of the line (`part_value`, alternative `'(.*?)'`); `cast_value`
reads it with `json.loads` as nested lists of JSON strings and the shape must be the declared one.  The exporter
writes every `"`, backslash and `'` of an element and every character outside ASCII as `\\uXXXX` (beyond the BMP as
a surrogate pair), so inside the single quotes there is no `'`, and a `"` only as a string delimiter.  The bracket
machine is run with `Quoting.doubled` (a backslash is an ordinary character for it, which is what finding the end
of such a string needs), and `jsonGo` then refuses every body that contains a `"`: texts with `\\"` or `""` are
not covered (`none`), never misread. -/

def hexVal (c : Char) : Option Nat :=
  if 48 ≤ c.toNat ∧ c.toNat ≤ 57 then some (c.toNat - 48)
  else if 97 ≤ c.toNat ∧ c.toNat ≤ 102 then some (c.toNat - 87)
  else if 65 ≤ c.toNat ∧ c.toNat ≤ 70 then some (c.toNat - 55)
  else none

/-- where the JSON string decoder is: between characters, after a backslash, inside `\\uXXXX` with `k` more digits
    to come after the next one and the digits read so far worth `acc` -/
inductive JMode | plain | bs | hex (k acc : Nat)

/-- the characters of a JSON string (between its quotes) as `json.loads` decodes them, for the escapes the exporter
    writes: `\\uXXXX` is the character with that code, a high surrogate must be followed directly by a `\\uXXXX`
    low surrogate and the two make one character.  The second argument is a pending high surrogate.  Not covered
    (`none`): the two-character escapes (`\\n`, `\\"`, …), a raw `"` or control character, a lone surrogate. -/
def jsonGo : JMode → Option Nat → Str → Option Str
  | .plain, hi, [] => if hi = none then some [] else none
  | .bs, _, [] => none
  | .hex _ _, _, [] => none
  | .plain, hi, ch :: r =>
    if ch = '\\' then jsonGo .bs hi r
    else if hi ≠ none ∨ ch = '"' ∨ ch.toNat < 32 then none
    else (jsonGo .plain none r).map (ch :: ·)
  | .bs, hi, ch :: r => if ch = 'u' then jsonGo (.hex 3 0) hi r else none
  | .hex k acc, hi, ch :: r =>
    match hexVal ch with
    | none => none
    | some d =>
      if k ≠ 0 then jsonGo (.hex (k - 1) (acc * 16 + d)) hi r
      else match hi with
        | none =>
          if acc * 16 + d < 55296 ∨ 57343 < acc * 16 + d then
            (jsonGo .plain none r).map (Char.ofNat (acc * 16 + d) :: ·)
          else if acc * 16 + d < 56320 then jsonGo .plain (some (acc * 16 + d)) r
          else none
        | some h =>
          if 56320 ≤ acc * 16 + d ∧ acc * 16 + d ≤ 57343 then
            (jsonGo .plain none r).map (Char.ofNat (65536 + (h - 55296) * 1024 + (acc * 16 + d - 56320)) :: ·)
          else none

/-- one JSON string token `"…"` -/
def jsonTok (tok : Str) : Option Scalar :=
  ((unquote .doubled tok).bind (jsonGo .plain none)).map .s

mutual
def interpJ : TokTree → Option Val
  | .leaf t => (jsonTok t).map .leaf
  | .arr ts => (interpJList ts).map .arr
def interpJList : List TokTree → Option (List Val)
  | [] => some []
  | t :: ts => do
    let v ← interpJ t
    let vs ← interpJList ts
    some (v :: vs)
end

/-- an array of strings: `'[…]'` up to the end of the line, no `'` and no `$` inside -/
def dipStrArr (name : Str) (bits : Nat) (d : List Nat) (rest : Str) : Option Param := do
  let body ← dropLastChar? '\'' rest
  if body.all (fun c => c ≠ '$' ∧ c ≠ '\'') then
    let tree ← parseInit .doubled '[' ']' body
    let sh ← rectShape tree
    if sh ≠ d then none else
    let v ← interpJ tree
    some ⟨name, .str, bits, v, none, []⟩
  else none

/-- a string node: scalar `"…"` up to the end of the line, or an array `'[…]'` (string nodes carry no unit) -/
def dipStrLine (name : Str) (bits : Nat) (dims : Option (List Nat)) (r : Str) : Option Param :=
  match dims, r with
  | none, '"' :: body =>
    if body.all (fun c => c ≠ '$') then
      match dipStrGo false body with
      | some (v, []) => some ⟨name, .str, bits, .leaf (.s v), none, []⟩
      | _ => none
    else none
  | some d, '\'' :: rest => dipStrArr name bits d rest
  | _, _ => none

/-- one exported line read back as a parameter: name, kind, precision, value, unit (no tags) -/
def readDipLine (l : Str) : Option Param := do
  let (name, r) := l.span dipNameChar
  if name = [] then none else
  let r ← dropPrefix? [' '] r
  let (decl, r) := r.span (fun c => c ≠ '[' ∧ c ≠ ' ')
  let (k, bits) ← dipKind decl
  let (dims, r) ← dipDims r
  let r ← dropPrefix? (cs!" = ") r
  if k = Kind.str then dipStrLine name bits dims r else
  let (tok, r) := r.span (fun c => c ≠ ' ' ∧ c ≠ '#')
  if tok = [] then none else
  let unit ← dipUnit r
  let v ← dipValue k dims tok
  some ⟨name, k, bits, v, unit, []⟩

def readDip (text : Str) : Option (List Param) :=
  if text = [] then some [] else (lines text).mapM readDipLine

/-- what the property demands of the re-read text: the same parameters (tags are not exported) -/
def expectedDip (data : List Param) : List Param := data.map (fun p => { p with tags := [] })

end SciVerif.C19
