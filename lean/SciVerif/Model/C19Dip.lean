import SciVerif.Model.C19Read
/-!
# C19 — reader model for the DIP text the exporter writes (`dip/nodes/parser.py`, `node_base.cast_value`)

One line `NAME TYPE[DIMS] = VALUE [UNIT]` as `ExportConfig.parse` writes it, read the way the DIP node
parser does: `part_name` (`[a-zA-Z0-9_.-]+` followed by a blank), `part_type` (a type keyword the parser
accepts), `part_dimension` (`[n,m,…]`), `part_equal`, `part_value` (the unquoted alternative `[^# ]+`),
`part_units` (`\s+[^\s#=]+`, not starting with `/ * + -`), then `cast_value`: a scalar token by kind, an array
token as JSON nested lists (`json.loads`) whose shape must be the declared one.

Scalar string nodes: `"…"` up to the end of the line, where `\\"` and `\\'` stand for quote characters
(`DIP._determine_node` replaces them by place-holders before the node parser runs and puts the quote characters back
afterwards; every other `"` closes the value).  NOT modelled (the reader answers `none`): arrays of strings
(`'[…]'`, JSON with `\\uXXXX` escapes) and string values whose text contains `$` (the place-holders are `$@00`,
`$@01`, `$@02`: a value that contains such a text itself is decoded as well).
-/
namespace SciVerif.C19

/-- `[a-zA-Z0-9_.-]` -/
def dipNameChar (c : Char) : Bool :=
  (48 ≤ c.toNat ∧ c.toNat ≤ 57) ∨ (65 ≤ c.toNat ∧ c.toNat ≤ 90) ∨ (97 ≤ c.toNat ∧ c.toNat ≤ 122) ∨
    c = '_' ∨ c = '.' ∨ c = '-'

/-- the (kind, precision) a type keyword denotes: the row of the regenerated DIP table with that keyword,
    among the types the live parser accepts (`Gen.dipTypes`) -/
def dipKind (decl : Str) : Option (Kind × Nat) :=
  match Gen.typeRows.find? (fun r => r.1 = bDip ∧ r.2.2.2 = some decl ∧ (r.2.1, r.2.2.1) ∈ Gen.dipTypes) with
  | some r => some (r.2.1, r.2.2.1)
  | none => none

/-- `[^\s#=]` (ASCII white space) -/
def dipUnitChar (c : Char) : Bool := c ≠ ' ' ∧ c ≠ '\t' ∧ c ≠ '\n' ∧ c ≠ '#' ∧ c ≠ '='

/-- what follows the value: nothing, or one blank and a unit up to the end of the line -/
def dipUnit : Str → Option (Option Str)
  | [] => some none
  | ' ' :: u =>
    match u with
    | [] => none
    | x :: _ =>
      if x = '/' ∨ x = '*' ∨ x = '+' ∨ x = '-' then none
      else if u.all dipUnitChar then some (some u) else none
  | _ => none

/-- `part_dimension` : `[2,3]` directly after the type keyword, or nothing -/
def dipDims : Str → Option (Option (List Nat) × Str)
  | '[' :: r =>
    let (ds, r2) := r.span (fun c => c ≠ ']')
    match parseCommaNats ds, r2 with
    | some d, ']' :: r3 => some (some d, r3)
    | _, _ => none
  | r => some (none, r)

/-- `cast_value` : a scalar token by kind; with dimensions the token is a JSON nested list of exactly the
    declared shape, every leaf read by kind -/
def dipValue (k : Kind) (dims : Option (List Nat)) (tok : Str) : Option Val :=
  match dims with
  | none => (readScalar .backslash k (cs!"true") (cs!"false") tok).map .leaf
  | some d => do
    let tree ← parseInit .backslash '[' ']' tok
    let sh ← rectShape tree
    if sh ≠ d then none else interp .backslash k (cs!"true") (cs!"false") tree

/-- a quoted value after its opening quote: the value and what follows the closing quote.  The flag says that
    the previous character was a backslash whose meaning is still open: `\\"` and `\\'` are the quote characters,
    any other backslash is an ordinary character; the first `"` not preceded by such a backslash closes. -/
def dipStrGo : Bool → Str → Option (Str × Str)
  | false, [] => none
  | false, ch :: r =>
    if ch = '"' then some ([], r)
    else if ch = '\\' then dipStrGo true r
    else (dipStrGo false r).map (fun vt => (ch :: vt.1, vt.2))
  | true, [] => none
  | true, d :: r =>
    if d = '"' ∨ d = '\'' then (dipStrGo false r).map (fun vt => (d :: vt.1, vt.2))
    else if d = '\\' then (dipStrGo true r).map (fun vt => ('\\' :: vt.1, vt.2))
    else (dipStrGo false r).map (fun vt => ('\\' :: d :: vt.1, vt.2))

/-- a scalar string node: `"…"` up to the end of the line (string nodes carry no unit) -/
def dipStrLine (name : Str) (bits : Nat) (dims : Option (List Nat)) (r : Str) : Option Param :=
  match dims, r with
  | none, '"' :: body =>
    if body.all (fun c => c ≠ '$') then
      match dipStrGo false body with
      | some (v, []) => some ⟨name, .str, bits, .leaf (.s v), none, []⟩
      | _ => none
    else none
  | _, _ => none

/-- one exported line read back as a parameter: name, kind, precision, value, unit (no tags) -/
def readDipLine (l : Str) : Option Param := do
  let (name, r) := l.span dipNameChar
  if name = [] then none else
  let r ← dropPrefix? [' '] r
  let (decl, r) := r.span (fun c => c ≠ '[' ∧ c ≠ ' ')
  let (k, bits) ← dipKind decl
  let (dims, r) ← dipDims r
  let r ← dropPrefix? (cs!" = ") r
  if k = Kind.str then dipStrLine name bits dims r else
  let (tok, r) := r.span (fun c => c ≠ ' ' ∧ c ≠ '#')
  if tok = [] then none else
  let unit ← dipUnit r
  let v ← dipValue k dims tok
  some ⟨name, k, bits, v, unit, []⟩

def readDip (text : Str) : Option (List Param) :=
  if text = [] then some [] else (lines text).mapM readDipLine

/-- what the property demands of the re-read text: the same parameters (tags are not exported) -/
def expectedDip (data : List Param) : List Param := data.map (fun p => { p with tags := [] })

end SciVerif.C19
