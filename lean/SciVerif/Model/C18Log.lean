import SciVerif.Model.C18
import SciVerif.Model.C18Str

/-
Logical side of the DIP expression solvers (property C18; reused by C16).

Mirrors:
  * `dip/solvers/logical_solver.py`  `_eval_node` results, CustomEq/CustomNe/CustomNot/CustomAnd/CustomOr
  * `dip/datatypes/type_number.py`   NumberType._prepare (all branches) and __eq__/__lt__/__gt__/__le__/__ge__
  * `dip/datatypes/type_boolean.py`, `type_string.py`  __eq__, logical_and/or/not

The number type `F` and its primitives (`np.isclose`, `<`, unit conversion through the unit table,
`float(str)`) are parameters.  Domain of the model: scalar values; comparisons between numbers
(nodes / literals), between strings (str node with a literal or str node) and between booleans;
anything else is `outside` (never judged).
-/
namespace SciVerif.C18

structure CmpOps (F : Type) where
  /-- `np.isclose(a, b, rtol=1e-6)` -/
  isclose : F → F → Bool
  lt : F → F → Bool
  /-- `Quantity(v, u1).value(u2)`; `none`: unknown unit / other dimension (raises) -/
  conv : String → String → F → Option F
  /-- `float(raw)`; `none`: raises -/
  ofRaw : List Char → Option F

/-- a value on the logical token stack -/
inductive LV (F : Type) where
  | bool (b : Bool)                                   -- BooleanType
  | num (dt : Nat) (val : F) (unit : Option String)   -- Integer (1) / Float (2) node value
  | lit (raw : List Char) (unit : Option String)      -- NumberType(raw, unit), dtype None
  | str (s : List Char)                               -- StringType node value
  | err                                               -- a Python exception
  | outside                                           -- outside the modelled domain
deriving Repr

variable {F : Type}

/-- `NumberType.convert(unit)`: only when both units are given and differ -/
def lconv (C : CmpOps F) (v : F) (u : Option String) (target : Option String) : Option (F × Option String) :=
  match target, u with
  | some t, some s => if s = t then some (v, u) else (C.conv s t v).map fun w => (w, some t)
  | _, _ => some (v, u)

/-- `NumberType._prepare` on two numbers: the pair of floats that is finally compared. -/
def prepare (C : CmpOps F) : LV F → LV F → Option (Option (F × F))
  -- result: none = outside, some none = raises, some (some (l, r))
  | .lit rl ul, .lit rr ur =>
    match C.ofRaw rl, C.ofRaw rr with
    | some l, some r => some ((lconv C l ul ur).map fun p => (p.1, r))
    | _, _ => some none
  | .lit rl ul, .num _ r ur =>
    match C.ofRaw rl with
    | some l => some ((lconv C l ul ur).map fun p => (p.1, r))
    | none => some none
  | .num _ l ul, .lit rr ur =>
    match C.ofRaw rr with
    | some r => some ((lconv C r ur ul).map fun p => (l, p.1))
    | none => some none
  | .num d1 l ul, .num d2 r ur =>
    if d1 = d2 then some ((lconv C l ul ur).map fun p => (p.1, r)) else some none
  | _, _ => none

def ofB (b : Bool) : LV F := .bool b

/-- comparison operators by key (CustomEq, CustomNe, OperatorLe/Ge/Lt/Gt on the datatypes) -/
def cmpOp (C : CmpOps F) (o : String) (l r : LV F) : LV F :=
  match l, r with
  | .err, _ => .err
  | _, .err => .err
  | .outside, _ => .outside
  | _, .outside => .outside
  | .bool a, .bool b =>
    if o = "eq" then .bool (a == b) else if o = "ne" then .bool (a != b) else .err
  | .str a, .str b =>
    if o = "eq" then .bool (a == b) else if o = "ne" then .bool (a != b) else .outside
  | .str a, .lit b none =>
    if o = "eq" then .bool (a == b) else if o = "ne" then .bool (a != b) else .outside
  | .lit a none, .str b =>
    if o = "eq" then .bool (a == b) else if o = "ne" then .bool (a != b) else .outside
  | l, r =>
    match prepare C l r with
    | none => .outside
    | some none => .err
    | some (some (x, y)) =>
      if o = "eq" then .bool (C.isclose x y)
      else if o = "ne" then .bool (!C.isclose x y)
      else if o = "lt" then .bool (C.lt x y)
      else if o = "gt" then .bool (C.lt y x)
      else if o = "le" then .bool (C.lt x y || C.isclose x y)
      else if o = "ge" then .bool (C.lt y x || C.isclose x y)
      else .err

def lAnd : LV F → LV F → LV F
  | .err, _ => .err
  | _, .err => .err
  | .outside, _ => .outside
  | _, .outside => .outside
  | .bool a, .bool b => .bool (a && b)
  | .bool _, _ => .outside
  | _, _ => .err                       -- no logical_and on numbers / strings

def lOr : LV F → LV F → LV F
  | .err, _ => .err
  | _, .err => .err
  | .outside, _ => .outside
  | _, .outside => .outside
  | .bool a, .bool b => .bool (a || b)
  | .bool _, _ => .outside
  | _, _ => .err

def lNot : LV F → LV F
  | .err => .err
  | .outside => .outside
  | .bool a => .bool (!a)
  | _ => .err                          -- no logical_not on numbers / strings

def isCmp (o : String) : Bool := o = "eq" || o = "ne" || o = "le" || o = "ge" || o = "lt" || o = "gt"

def logBin (C : CmpOps F) (o : String) : Option (LV F → LV F → LV F) :=
  if isCmp o then some (cmpOp C o)
  else if o = "and" then some lAnd
  else if o = "or" then some lOr
  else none

def logBinSem (C : CmpOps F) (o : String) : LV F → LV F → LV F :=
  match logBin C o with
  | some g => g
  | none => fun _ _ => .err

def logFn : String → List (LV F) → LV F
  | "par", [v] => v
  | _, _ => .err

def logPre (u : String) : Option (LV F → LV F) := if u = "not" then some lNot else none
def logPreSem (u : String) : LV F → LV F := if u = "not" then lNot else fun _ => .err

def logSem (C : CmpOps F) : Sem (LV F) where
  fn := logFn
  neg := id
  bin := logBin C
  pre := logPre

/-- The logical grammar: comparisons (1) bind tighter than `~` (2), then `&&` (3), then `||` (4). -/
def logGrammar : Grammar where
  lvl := fun o => if isCmp o then 1 else if o = "not" then 2 else if o = "and" then 3
    else if o = "or" then 4 else 0
  lvlPre := fun u => if u = "not" then 2 else 0
  okBin := fun o => isCmp o || o = "and" || o = "or"
  okPre := fun u => u = "not"
  okFn1 := fun _ => false
  okFn2 := fun _ => false

/-! ### Specification: comparisons in a common unit with tolerance, robust verdicts only -/

structure SpecOps (F : Type) where
  /-- `|x − y| ≤ 0.9·(1e-8 + 1e-6·|y|)` -/
  sureEq : F → F → Bool
  /-- `|x − y| ≥ 1.1·(1e-8 + 1e-6·|y|)` -/
  sureNe : F → F → Bool
  /-- `x < y` by more than rounding noise -/
  sureLt : F → F → Bool
  /-- the same number -/
  same : F → F → Bool

/-- a typed scalar of the specification -/
inductive SV (F : Type) where
  | bool (b : Bool)
  | num (val : F) (unit : Option String)
  | str (s : List Char)
deriving Repr

/-- three-valued verdict: `none` = too close to the tolerance boundary to judge -/
def specCmpNum (C : CmpOps F) (P : SpecOps F) (o : String) (x : F) (ux : Option String) (y : F)
    (uy : Option String) : Option (Option Bool) :=
  -- values in the unit of the right operand and in the unit of the left operand
  let inR : Option (F × F) := match ux, uy with
    | some a, some b => if a = b then some (x, y) else (C.conv a b x).map fun x' => (x', y)
    | _, _ => some (x, y)
  let inL : Option (F × F) := match ux, uy with
    | some a, some b => if a = b then some (x, y) else (C.conv b a y).map fun y' => (x, y')
    | _, _ => some (x, y)
  -- identical unit (or none on both sides) and identical numbers: no conversion, no rounding
  let exact : Bool := (ux == uy) && P.sureEq x y && !P.sureLt x y && !P.sureLt y x && P.same x y
  match inR, inL with
  | some (x1, y1), some (x2, y2) =>
    let eq : Option Bool :=
      if P.sureEq x1 y1 && P.sureEq x2 y2 then some true
      else if P.sureNe x1 y1 && P.sureNe x2 y2 then some false else none
    let lt : Option Bool :=
      if exact then some false
      else if P.sureLt x1 y1 && P.sureLt x2 y2 then some true
      else if (P.sureLt y1 x1 && P.sureLt y2 x2) then some false else none
    some (
      if o = "eq" then eq
      else if o = "ne" then eq.map (!·)
      else if o = "lt" then (if exact then some false else match eq with | some false => lt | _ => none)
      else if o = "gt" then (if exact then some false else match eq with | some false => lt.map (!·) | _ => none)
      else if o = "le" then (match eq with | some true => some true | some false => lt | none => none)
      else if o = "ge" then (match eq with | some true => some true | some false => lt.map (!·) | none => none)
      else none)
  | _, _ => none      -- not comparable: refused

/-- result of the specification: `err` refused, `unknown` not judged -/
inductive SR where
  | val (b : Bool)
  | err
  | unknown
deriving Repr, DecidableEq

/-- atoms of the specification tree -/
inductive SAtom (F : Type) where
  | val (v : SV F)
  | defined (b : Bool)          -- `!{ref}`
  | missing                     -- reference to an undefined node

def evalB (C : CmpOps F) (P : SpecOps F) : E (SAtom F) → SR
  | .lit (.val (.bool b)) => .val b
  | .lit (.defined b) => .val b
  | .lit .missing => .err
  | .lit _ => .err                                   -- a number / string is not a truth value
  | .par e => evalB C P e
  | .fn1 _ _ => .err
  | .fn2 _ _ _ => .err
  | .pre u e =>
    if u = "not" then
      match evalB C P e with
      | .val b => .val (!b)
      | r => r
    else .err
  | .bin o l r =>
    if o = "and" ∨ o = "or" then
      match evalB C P l, evalB C P r with
      | .err, _ => .err
      | _, .err => .err
      | .val a, .val b => .val (if o = "and" then a && b else a || b)
      | _, _ => .unknown
    else if isCmp o then
      match operand l, operand r with
      | some (.bool a), some (.bool b) =>
        if o = "eq" then .val (a == b) else if o = "ne" then .val (a != b) else .err
      | some (.str a), some (.str b) =>
        if o = "eq" then .val (a == b) else if o = "ne" then .val (a != b) else .unknown
      | some (.num x ux), some (.num y uy) =>
        match specCmpNum C P o x ux y uy with
        | none => .err
        | some none => .unknown
        | some (some b) => .val b
      | none, _ => .err
      | _, none => .err
      | _, _ => .unknown
    else .err
where
  /-- comparison operands: atoms, parenthesised atoms, or boolean sub-results -/
  operand : E (SAtom F) → Option (SV F)
    | .lit (.val v) => some v
    | .lit (.defined b) => some (.bool b)
    | .lit .missing => none
    | .par e => operand e
    | _ => none

end SciVerif.C18
