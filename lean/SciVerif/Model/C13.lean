/-
Model of the DIP front end for the definition / modification grammar (properties C13, C14).

Mirrors, statement by statement (code as repaired by the `fix:` commits of this package):
  * `dip.py`            add_string (blank-line stripping), _get_queue (triple-quote grouping),
                        _determine_node (escape marks, ordered recognisers restricted to
                        empty/comment, $unit, !constant, group, modification, typed definition),
                        parse (main loop: node.parse, hierarchy.register, set_value,
                        lookup by path, constant test, modify_value, append, final validation)
  * `nodes/parser.py`   part_indent/name/type/dimension/equal/value/units/comment, kwd_unit,
                        kwd_constant as hand-written scanners over `List Char`
  * `lists/list_hierarchy.py`  HierarchyList.register
  * `nodes/node_base.py`       cast_value, modify_value; `node_*.py` set_value
  * `nodes/node_table.py`      TableNode.parse (header lines, csv rows, column nodes)
  * `datatypes/type_number.py` NumberType.convert with the unit table as a parameter
  * `environment.py`           data(Format.TUPLE / Format.TYPE)

Anything the grammar does not reach (references, functions, expressions, @case, options …)
is reported as `Err.unsupported`, never guessed.  No Mathlib imports: compiled into the driver.
-/
namespace SciVerif.C13

abbrev Str := List Char

inductive Err where
  | fail          -- the Python code raises
  | unsupported   -- outside the modelled grammar
deriving Repr, DecidableEq

abbrev R := Except Err

/-! ### characters -/

/-- `\s` of `re` / `str.strip()` on the ASCII subset. -/
def isWs (c : Char) : Bool :=
  c == ' ' || c == '\t' || c == '\n' || c == '\r' || c == '\x0b' || c == '\x0c'

/-- `[a-zA-Z0-9_.-]` -/
def isNameCh (c : Char) : Bool := c.isAlphanum || c == '_' || c == '.' || c == '-'

/-- `[^\s#=]` -/
def isUnitCh (c : Char) : Bool := !isWs c && c != '#' && c != '='

def dropWs (s : Str) : Str := s.dropWhile isWs

/-- `s.strip() == ''` -/
def isBlank (s : Str) : Bool := s.all isWs

/-- `str.replace(pat, rep)` : non-overlapping, left to right (`pat` non-empty). -/
def replaceAll (pat rep : Str) : Str → Str
  | [] => []
  | c :: t =>
    if pat.isPrefixOf (c :: t) && !pat.isEmpty then
      rep ++ replaceAll pat rep ((c :: t).drop pat.length)
    else c :: replaceAll pat rep t
termination_by s => s.length
decreasing_by
  · rename_i h
    have : 0 < pat.length := by
      cases pat with
      | nil => simp at h
      | cons _ _ => simp
    simp only [List.length_drop, List.length_cons]
    omega
  · simp

/-- `'"""' in s` -/
def hasTriple : Str → Bool
  | [] => false
  | c :: t => ['"', '"', '"'].isPrefixOf (c :: t) || hasTriple t

/-- `s.split('\n')` -/
def splitOn (sep : Char) : Str → List Str
  | [] => [[]]
  | c :: t =>
    if c == sep then [] :: splitOn sep t
    else match splitOn sep t with
      | [] => [[c]]
      | h :: r => (c :: h) :: r

def joinWith (sep : Str) : List Str → Str
  | [] => []
  | [a] => a
  | a :: b :: t => a ++ sep ++ joinWith sep (b :: t)

/-! ### `Parser.part_*` scanners -/

/-- `^(\s*#\s*(.*))$` matches -/
def startsComment (s : Str) : Bool :=
  match dropWs s with
  | c :: _ => c == '#'
  | [] => false

/-- only blanks and an optional comment remain -/
def endOrComment (s : Str) : Bool :=
  match dropWs s with
  | [] => true
  | c :: _ => c == '#'

/-- look-ahead of the quoted-value pattern: `(?=(?:\s+[^\s#=]+)?\s*(?:#.*)?$)` -/
def tailOk (t : Str) : Bool :=
  endOrComment t ||
  (match t with
   | c :: _ =>
      isWs c &&
        (let t1 := dropWs t
         !(t1.takeWhile isUnitCh).isEmpty && endOrComment (t1.dropWhile isUnitCh))
   | [] => false)

/-- shortest `inner` with `inner ++ q ++ tail`, `tailOk tail` (lazy `(.*?)` + look-ahead). -/
def findClose (q : Str) (acc : Str) : Str → Option (Str × Str)
  | [] => if q.isPrefixOf [] && tailOk [] then some (acc.reverse, []) else none
  | c :: r =>
    if q.isPrefixOf (c :: r) && tailOk ((c :: r).drop q.length) then
      some (acc.reverse, (c :: r).drop q.length)
    else findClose q (c :: acc) r

def quoted (q : Str) (v : Str) : Option (Str × Str) :=
  if q.isPrefixOf v then findClose q [] (v.drop q.length) else none

def q3 : Str := ['"', '"', '"']
def q2 : Str := ['"']
def q1 : Str := ['\'']

/-- `part_value` on text that starts right after `=`: `(value_raw, rest)`. -/
def partValue (v : Str) : R (Str × Str) :=
  match v with
  | '{' :: _ => if v.contains '}' then .error .unsupported else bare v
  | '(' :: _ => .error .unsupported
  | _ => bare v
where
  bare (v : Str) : R (Str × Str) :=
    match quoted q3 v with
    | some r => .ok r
    | none => match quoted q2 v with
      | some r => .ok r
      | none => match quoted q1 v with
        | some r => .ok r
        | none =>
          let tok := v.takeWhile (fun c => c != '#' && c != ' ')
          if tok.isEmpty then .error .fail     -- "Value cannot start with an empty string"
          else .ok (tok, v.dropWhile (fun c => c != '#' && c != ' '))

/-- `part_units` : `(units_raw?, rest)` -/
def partUnits (r : Str) : Option Str × Str :=
  match r with
  | c :: _ =>
    if isWs c then
      let t := dropWs r
      match t with
      | d :: _ =>
        if d == '/' || d == '*' || d == '+' || d == '-' then (none, r)
        else
          let tok := t.takeWhile isUnitCh
          if tok.isEmpty then (none, r) else (some tok, t.dropWhile isUnitCh)
      | [] => (none, r)
    else (none, r)
  | [] => (none, r)

/-- `part_equal` : rest after `\s*=\s*` -/
def partEqual (r : Str) : Option Str :=
  match dropWs r with
  | '=' :: t => some (dropWs t)
  | _ => none

def digitsToNat (s : Str) : Nat := s.foldl (fun n c => 10 * n + (c.toNat - '0'.toNat)) 0

def allDigits (s : Str) : Bool := !s.isEmpty && s.all Char.isDigit

abbrev Dim := Option Nat × Option Nat

/-- one entry of `[…]`: `int(dim)` / `dmin:dmax` -/
def parseDim (d : Str) : R Dim :=
  match splitOn ':' d with
  | [a] => if allDigits a then .ok (some (digitsToNat a), some (digitsToNat a)) else .error .fail
  | [a, b] =>
      if (a.isEmpty || allDigits a) && (b.isEmpty || allDigits b) then
        .ok (if a.isEmpty then none else some (digitsToNat a),
             if b.isEmpty then none else some (digitsToNat b))
      else .error .fail
  | _ => .error .fail

/-- `_part_dimension` : `^(\[([0-9:,]+)\])` -/
def partDimension (r : Str) : R (Option (List Dim) × Str) :=
  match r with
  | '[' :: t =>
    let body := t.takeWhile (fun c => c.isDigit || c == ':' || c == ',')
    match t.dropWhile (fun c => c.isDigit || c == ':' || c == ',') with
    | ']' :: rest =>
      if body.isEmpty then .ok (none, r)
      else do
        let ds ← (splitOn ',' body).mapM parseDim
        .ok (some ds, rest)
    | _ => .ok (none, r)
  | _ => .ok (none, r)

inductive Ty where
  | bool | int | float | str
deriving Repr, DecidableEq

inductive Kind where
  | empty | unit | constant | group | mod | table
  | typed (t : Ty)
deriving Repr, DecidableEq

/-- data type with width/sign suffix as stored in the type object -/
structure TyInfo where
  precision : Option Nat := none
  unsigned : Option Bool := none
deriving Repr, DecidableEq

def stripPrefix? (p s : Str) : Option Str := if p.isPrefixOf s then some (s.drop p.length) else none

def firstSuffix (opts : List Str) (s : Str) : Str × Str :=
  match opts.find? (fun o => o.isPrefixOf s) with
  | some o => (o, s.drop o.length)
  | none => ([], s)

/-- the ordered type patterns of `part_type`, on the text after the leading blanks -/
def partTypeCore (t : Str) : R (Kind × TyInfo × Str) :=
  match stripPrefix? "bool".toList t with
  | some t' => .ok (.typed .bool, {}, t')
  | none => match stripPrefix? "str".toList t with
    | some t' => .ok (.typed .str, {}, t')
    | none => match stripPrefix? "table".toList t with
      | some t' => .ok (.table, {}, t')
      | none =>
        let intCase (uns : Bool) (t' : Str) : R (Kind × TyInfo × Str) :=
          let (sfx, t'') := firstSuffix ["16".toList, "32".toList, "64".toList] t'
          .ok (.typed .int, { precision := some (if sfx.isEmpty then 32 else digitsToNat sfx),
                              unsigned := some uns }, t'')
        match stripPrefix? "uint".toList t with
        | some t' => intCase true t'
        | none => match stripPrefix? "int".toList t with
          | some t' => intCase false t'
          | none => match stripPrefix? "float".toList t with
            | some t' =>
              let (sfx, t'') := firstSuffix ["32".toList, "64".toList, "128".toList] t'
              .ok (.typed .float, { precision := some (if sfx.isEmpty then 64 else digitsToNat sfx) }, t'')
            | none => .error .fail     -- "Type not recognized"

/-- `part_type` on the text after the name: `\s+` then one of the type patterns -/
def partType (r : Str) : R (Kind × TyInfo × Str) :=
  match r with
  | c :: _ => if !isWs c then .error .fail else partTypeCore (dropWs r)
  | [] => .error .fail

/-! ### line record (`Node` after `_determine_node`) -/

inductive Raw where
  | text (s : Str)
  | cells (json : Bool) (l : List Str)   -- a table column: one text per row (`json`: read by json.loads)
deriving Repr, DecidableEq

structure Node where
  kind : Kind
  indent : Nat := 0
  name : Option Str := none
  info : TyInfo := {}
  dims : Option (List Dim) := none
  raw : Option Raw := none
  units : Option Str := none
  declared : Bool := false
deriving Repr, DecidableEq

def enc0 : Str := "$@00".toList
def enc1 : Str := "$@01".toList
def enc2 : Str := "$@02".toList

def encode (s : Str) : Str :=
  replaceAll ['\n'] enc2 (replaceAll ['\\', '"'] enc1 (replaceAll ['\\', '\''] enc0 s))

def decode (s : Str) : Str :=
  replaceAll enc2 ['\n'] (replaceAll enc1 ['"'] (replaceAll enc0 ['\''] s))

/-- the part shared by `ModNode.is_node` and the typed `is_node`s after `=`:
    value, units, comment, then the parser must be empty -/
def valueUnitsTail (nm : Str) (kind : Kind) (info : TyInfo) (dims : Option (List Dim))
    (afterEq : Str) : R Node := do
  let (v, r1) ← partValue afterEq
  let (u, r2) := partUnits r1
  if endOrComment r2 then
    .ok { kind, name := some nm, info, dims, raw := some (.text (decode v)), units := u }
  else .error .fail                       -- "Code cannot be parsed"

/-- `ModNode.is_node` on the text after `=`.  When text is left over the real recogniser loop goes
    on with `part_type` on the rest: if a type keyword follows, the line is re-read as a typed
    definition that keeps leftovers of the modification (`a = 7 a  uint32=235 mg` becomes
    `a uint32 = 235 mg`).  That re-reading is outside the grammar and not modelled. -/
def modTail (nm : Str) (afterEq : Str) : R Node := do
  let (v, r1) ← partValue afterEq
  let (u, r2) := partUnits r1
  if endOrComment r2 then
    .ok { kind := .mod, name := some nm, info := {}, dims := none, raw := some (.text (decode v)), units := u }
  else match partType r2 with
    | .ok _ => .error .unsupported
    | .error _ => .error .fail                -- "Type not recognized"

/-- the recognisers after `part_name`; `rest` is the text behind the name -/
def afterName (nm : Str) (rest : Str) : R Node :=
  if endOrComment rest then .ok { kind := .group, name := some nm }
  else
    match dropWs rest with
    | '{' :: _ => if rest.contains '}' then .error .unsupported else .error .fail
    | _ =>
    match partEqual rest with
    | some v => modTail nm v
    | none => do
      let (kind, info, r0) ← partType rest
      let (dims, r1) ← partDimension r0
      match partEqual r1 with
      | some v => valueUnitsTail nm kind info dims v
      | none =>
        let (u, r2) := partUnits r1
        if endOrComment r2 then
          .ok { kind, name := some nm, info, dims, units := u, declared := true }
        else .error .fail

/-- everything after `part_indent` (the recorded indentation is attached by `determine`);
    `b` does not start with white space and is not empty -/
def determineBody (b : Str) : R Node :=
  match b with
  | '{' :: _ => if b.contains '}' then .error .unsupported else .error .fail
  | '=' :: _ => .error .unsupported            -- option line
  | '!' :: _ =>
    match stripPrefix? "!constant".toList b with
    | some r => if endOrComment r then .ok { kind := .constant } else .error .unsupported
    | none => .error .unsupported
  | _ =>
    let nm := b.takeWhile isNameCh
    let rest := b.dropWhile isNameCh
    match rest with
    | '$' :: _ =>
      match stripPrefix? "$unit".toList rest with
      | some (c :: _) => if isWs c then .ok { kind := .unit } else .error .unsupported
      | _ => .error .unsupported
    | '@' :: _ => .error .unsupported
    | c :: _ =>
      if nm.isEmpty then .error .fail          -- "Name has an invalid format"
      else if c != ' ' && !isBlank rest then .error .fail
      else afterName nm rest
    | [] => if nm.isEmpty then .error .fail else afterName nm rest

/-- `DIP._determine_node` -/
def determine (line : Str) : R Node :=
  let code := encode line
  if isBlank code then .ok { kind := .empty }
  else if startsComment code then .ok { kind := .empty }
  else (determineBody (code.dropWhile isWs)).map
    (fun nd => { nd with indent := (code.takeWhile isWs).length })

/-! ### `add_string` and `_get_queue` -/

def stripBlankLines (ls : List Str) : List Str :=
  ((ls.dropWhile isBlank).reverse.dropWhile isBlank).reverse

/-- Python `str.lstrip()` -/
def lstrip (s : Str) : Str := dropWs s

/-- collect block lines up to the first line containing `"""` -/
def takeBlock (acc : List Str) : List Str → Option (List Str × Str × List Str)
  | [] => none
  | l :: t => if hasTriple l then some (acc.reverse, l, t) else takeBlock (l :: acc) t

theorem takeBlock_length {acc ls blk cl rest} (h : takeBlock acc ls = some (blk, cl, rest)) :
    rest.length < ls.length := by
  induction ls generalizing acc with
  | nil => simp [takeBlock] at h
  | cons l t ih =>
    simp only [takeBlock] at h
    split at h
    · simp only [Option.some.injEq, Prod.mk.injEq] at h
      obtain ⟨_, _, rfl⟩ := h
      simp
    · have := ih h
      simp only [List.length_cons]
      omega

/-- `_get_queue` (grouping only) -/
def getQueue : List Str → R (List Str)
  | [] => .ok []
  | l :: t =>
    if hasTriple l then
      match h : takeBlock [] t with
      | none => .error .fail               -- "Block structure is not properly terminated."
      | some (blk, cl, rest) =>
        have : rest.length < t.length := takeBlock_length h
        do
          let q ← getQueue rest
          .ok ((l ++ joinWith ['\n'] blk ++ lstrip cl) :: q)
    else do
      let q ← getQueue t
      .ok (l :: q)
termination_by ls => ls.length
decreasing_by all_goals simp_wf <;> omega

end SciVerif.C13
