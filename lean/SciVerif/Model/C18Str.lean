import SciVerif.Model.C18

/-
String level of the DIP expression solvers (property C18).

Mirrors:
  * `solver/expression.py`   Expression.shift / remove / pop_left
  * `solver/solver.py`       ExpressionSolver.solve, tokenisation loop (first operator *in dict order*
                             whose symbol prefixes the rest wins, otherwise shift one character)
  * `solver/operators.py`    OperatorPar.__init__ (argument scanning with depth / separator)
  * `dip/nodes/parser.py`    part_value / part_reference / part_units as used for solver atoms
  * `dip/solvers/template_solver.py`  TemplateSolver.solve with part_reference / part_slice / part_format

Strings are `List Char`.  Only ASCII white space is modelled.
-/
namespace SciVerif.C18

def isWs (c : Char) : Bool := c = ' ' || c = '\t' || c = '\n' || c = '\r' || c = '\x0b' || c = '\x0c'

def lstrip (s : List Char) : List Char := s.dropWhile isWs
def rstrip (s : List Char) : List Char := (s.reverse.dropWhile isWs).reverse
def strip (s : List Char) : List Char := rstrip (lstrip s)

/-- One entry of the operator dict: key, symbol, parenthesis-type (with its `narg`). -/
structure OpDef where
  key : String
  sym : List Char
  isPar : Bool
  narg : Nat
deriving Repr, DecidableEq

/-- `OperatorPar.__init__` after `expr.remove(symbol)`: returns the argument strings and the rest.
    `left` is `expr.left` reversed. -/
def scanArgs : Nat → Nat → List Char → List Char → List (List Char) → Option (List (List Char) × List Char)
  | 0, _, _, _, _ => none
  | fuel + 1, depth, left, right, args =>
    match right with
    | [] => none                                           -- "Unclosed parenthesis"
    | c :: rest =>
      if c = '(' then scanArgs fuel (depth + 1) (c :: left) rest args
      else if c = ',' ∧ depth = 1 then
        -- expr.remove(','); args.append(pop_left()); continue
        scanArgs fuel depth [] rest (args ++ [strip left.reverse])
      else if c = ')' then
        if depth = 1 then some (args ++ [strip left.reverse], rest)
        else scanArgs fuel (depth - 1) (c :: left) rest args
      else scanArgs fuel depth (c :: left) rest args

variable {Q : Type}

/-- Tokenisation loop of `ExpressionSolver.solve` followed by the machine; parenthesis arguments
    are solved recursively (fuel = length of the string). `atom` is the atom constructor
    (`none` = it raises). Result: the returned object (`Tok.nil` for `None`). -/
def solveStr (S : Sem Q) (table : List OpDef) (steps : List Step) (atom : List Char → Option Q) :
    Nat → List Char → Option (Tok Q)
  | 0, _ => none
  | fuel + 1, s =>
    let keys := table.map (·.key)
    let rec loop : Nat → List Char → List Char → Toks Q → Option (Toks Q)
      | 0, _, _, _ => none
      | n + 1, left, right, toks =>
        match right with
        | [] =>
          let l := strip left.reverse
          if l.isEmpty then some toks else (atom l).map fun q => toks ++ [.atom q]
        | c :: rest =>
          match table.find? (fun d => d.sym.isPrefixOf right) with
          | none => loop n (c :: left) rest toks
          | some d =>
            let l := strip left.reverse
            let toks1 := if l.isEmpty then some toks else (atom l).map fun q => toks ++ [.atom q]
            match toks1 with
            | none => none
            | some toks1 =>
              let right1 := right.drop d.sym.length
              if d.isPar then
                match scanArgs (right1.length + 1) 1 [] right1 [] with
                | none => none
                | some (args, right2) =>
                  if args.length ≠ d.narg then none
                  else
                    match args.mapM (fun a => match solveStr S table steps atom fuel a with
                        | some (.atom q) => some q
                        | _ => none) with
                    | none => none
                    | some vals => loop n [] right2 (toks1 ++ [.par d.key vals])
              else loop n [] right1 (toks1 ++ [.op d.key])
    match loop (s.length + 1) [] s [] with
    | none => none
    | some toks => machine S keys steps toks

/-! ### atoms: `Parser.part_value` + `part_units` on a solver atom -/

/-- decimal literal `[+-]digits[.digits][e[+-]digits]` as `(negative, mantissa, exponent)`:
    value = ± mantissa · 10^exponent -/
structure Dec where
  neg : Bool
  mant : Nat
  exp10 : Int
deriving Repr, DecidableEq

def digitsVal (ds : List Char) : Nat := ds.foldl (fun n c => 10 * n + (c.toNat - '0'.toNat)) 0

/-- Python `float(str)` restricted to plain decimal literals; `none` outside that syntax. -/
def parseDec (s : List Char) : Option Dec :=
  let (neg, s) := match s with
    | '-' :: t => (true, t)
    | '+' :: t => (false, t)
    | _ => (false, s)
  let ip := s.takeWhile Char.isDigit
  let s1 := s.dropWhile Char.isDigit
  let (fp, s2, hasDot) := match s1 with
    | '.' :: t => (t.takeWhile Char.isDigit, t.dropWhile Char.isDigit, true)
    | _ => ([], s1, false)
  if ip.isEmpty ∧ fp.isEmpty then none
  else
    let mant := digitsVal (ip ++ fp)
    let e0 : Int := - (fp.length : Int)
    match s2 with
    | [] => some ⟨neg, mant, e0⟩
    | c :: t =>
      if (c = 'e' ∨ c = 'E') ∧ (hasDot ∨ !ip.isEmpty) then
        let (eneg, t) := match t with
          | '-' :: u => (true, u)
          | '+' :: u => (false, u)
          | _ => (false, t)
        if t.isEmpty ∨ !t.all Char.isDigit then none
        else
          let ev : Int := digitsVal t
          some ⟨neg, mant, e0 + (if eneg then -ev else ev)⟩
      else none

/-- What the parser extracted from an atom. -/
inductive AtomSrc where
  | ref (path : List Char)                       -- `{path}`
  | raw (value : List Char) (units : Option (List Char))
deriving Repr, DecidableEq

/-- `Parser.part_value` then `part_units` on an atom string (after `lstrip`), for atoms that are
    a reference or an unquoted value; `none`: the parser raises or the atom uses syntax outside
    the model (quotes, function / expression values, slices). -/
def parseAtomSrc (s : List Char) : Option AtomSrc :=
  let s := lstrip s
  match s with
  | '{' :: t =>
    let path := t.takeWhile (· ≠ '}')
    match t.dropWhile (· ≠ '}') with
    | '}' :: rest => if rest.head? = some '[' then none else some (.ref path)
    | _ => none
  | '"' :: _ => none
  | '\'' :: _ => none
  | '(' :: _ => none
  | _ =>
    let v := s.takeWhile (fun c => c ≠ '#' ∧ c ≠ ' ')
    let rest := s.dropWhile (fun c => c ≠ '#' ∧ c ≠ ' ')
    if v.isEmpty then none
    else
      -- part_units: n = ^\s+[\/*+-]+ , m = ^(\s+([^\s#=]+))
      let ws := rest.takeWhile isWs
      let r2 := rest.dropWhile isWs
      if ws.isEmpty then some (.raw v none)
      else
        match r2 with
        | [] => some (.raw v none)
        | c :: _ =>
          if c = '/' ∨ c = '*' ∨ c = '+' ∨ c = '-' then some (.raw v none)
          else
            let u := r2.takeWhile (fun c => !isWs c ∧ c ≠ '#' ∧ c ≠ '=')
            if u.isEmpty then some (.raw v none) else some (.raw v (some u))

/-! ### templates -/

/-- one slice entry as `slice_value` receives it (`_part_dimension(slicing=True)`): the index `n`
    or the range `a:b` with optional bounds — `[2:2]` is an empty range, `[2]` an index -/
inductive SliceEntry where
  | idx (n : Nat)
  | range (a b : Option Nat)
deriving Repr, DecidableEq

/-- one entry of a slice: `a:b`, `a:`, `:b`, `:` (ranges) or `n` (index); anything else is refused -/
def sliceEntry (cs : List Char) : Option SliceEntry :=
  if cs.contains ':' then
    let a := cs.takeWhile (· ≠ ':')
    let b := (cs.dropWhile (· ≠ ':')).drop 1
    if b.contains ':' then none
    else some (.range (if a.isEmpty then none else some (digitsVal a)) (if b.isEmpty then none else some (digitsVal b)))
  else if cs.isEmpty then none else some (.idx (digitsVal cs))

/-- `[a:b,c]` directly after a reference (`Parser._part_dimension`): one `SliceEntry` per
    entry. `none` = no slice there.  The body is split at the commas
    with the list splitter `List.splitOn` (same pieces as `str.split(",")`, empty ones included). -/
def parseSlice (s : List Char) : Option (List SliceEntry × List Char) :=
  match s with
  | '[' :: t =>
    let body := t.takeWhile (fun c => c.isDigit ∨ c = ':' ∨ c = ',')
    match t.dropWhile (fun c => c.isDigit ∨ c = ':' ∨ c = ',') with
    | ']' :: rest =>
      if body.isEmpty then none
      else
        match (body.splitOn ',').mapM sliceEntry with
        | some l => some (l, rest)
        | none => none
    | _ => none
  | _ => none

/-- `_part_dimension` raises `ValueError`: the text starts with `[` + digits/colons/commas + `]`
    (the regex matches) but an entry is not `n`, `a:b`, `a:`, `:b`, `:` — two colons
    (`dmin,dmax = dim.split(':')`) or an empty entry (`int('')`). -/
def sliceRaises (s : List Char) : Bool :=
  match s with
  | '[' :: t =>
    let body := t.takeWhile (fun c => c.isDigit ∨ c = ':' ∨ c = ',')
    match t.dropWhile (fun c => c.isDigit ∨ c = ':' ∨ c = ',') with
    | ']' :: _ => if body.isEmpty then false else ((body.splitOn ',').mapM sliceEntry).isNone
    | _ => false
  | _ => false

/-- `:[0-9.]*[sdfeb]+` (`Parser.part_format`) -/
def parseFormat (s : List Char) : Option (List Char × List Char) :=
  match s with
  | ':' :: t =>
    let a := t.takeWhile (fun c => c.isDigit ∨ c = '.')
    let t1 := t.dropWhile (fun c => c.isDigit ∨ c = '.')
    let isF (c : Char) : Bool := c = 's' || c = 'd' || c = 'f' || c = 'e' || c = 'b'
    let b := t1.takeWhile isF
    if b.isEmpty then none else some (':' :: a ++ b, t1.dropWhile isF)
  | _ => none

/-- One piece of a template result. -/
inductive Piece where
  | text (c : Char)
  | hole (path : List Char) (slice : Option (List SliceEntry)) (fmt : Option (List Char))
  | raise                                        -- `p.ccode[0]` on an empty rest: IndexError
deriving Repr, DecidableEq

/-- `TemplateSolver.solve` scanning: a `{` followed by `{ref}`, optional slice, optional format and
    a closing `}` is a hole (`format`/`str` of the referenced value are applied by the caller);
    any other character is copied. -/
def scanTemplate : Nat → List Char → List Piece
  | 0, _ => []
  | _ + 1, [] => []
  | fuel + 1, c :: rest =>
    if c = '{' then
      -- Parser(code=rest): part_reference `^(\s*({([^}]*)}))`, part_slice (inside part_reference
      -- and once more), part_format.  A malformed slice raises (`sliceRaises`), also when no
      -- reference was found: `p.part_slice()` is called on the unchanged code then.
      let noRef : List Piece := if sliceRaises rest then [.raise] else .text c :: scanTemplate fuel rest
      let r0 := rest.dropWhile isWs
      match r0 with
      | '{' :: t =>
        let path := t.takeWhile (· ≠ '}')
        match t.dropWhile (· ≠ '}') with
        | '}' :: r1 =>
          if sliceRaises r1 then [.raise] else
          let (sl, r2) := match parseSlice r1 with
            | some (l, r) => (some l, r)
            | none => (none, r1)
          -- second part_slice call (overwrites when it matches again)
          if sliceRaises r2 then [.raise] else
          let (sl, r2) := match parseSlice r2 with
            | some (l, r) => (some l, r)
            | none => (sl, r2)
          let (fm, r3) := match parseFormat r2 with
            | some (f, r) => (some f, r)
            | none => (none, r2)
          -- `if p.value_ref and p.ccode[0]=='}'`
          if path.isEmpty then .text c :: scanTemplate fuel rest
          else
            match r3 with
            | '}' :: r4 => .hole path sl fm :: scanTemplate fuel r4
            | [] => [.raise]
            | _ => .text c :: scanTemplate fuel rest
        | _ => noRef
      | _ => noRef
    else .text c :: scanTemplate fuel rest

/-- The slice entries as the solver passes them to `slice_value`, the format as it is put into
    `"{0" + fmt + "}"`. -/
abbrev HoleFn := List Char → Option (List SliceEntry) → Option (List Char) → Option (List Char)

/-- `TemplateSolver.solve`, output side: copied characters and, for every hole, the characters of
    `("{0"+fmt+"}").format(v)` / `str(v)` where `v` is the requested node's (sliced) value — the
    parameter `hole` (`none` = the request, the slicing or the formatting raises, which ends the
    solve with that exception, as does the `IndexError` piece). -/
def assemble (hole : HoleFn) : List Piece → Option (List Char)
  | [] => some []
  | .text c :: r => (assemble hole r).map (c :: ·)
  | .hole p sl fm :: r =>
    match hole p sl fm with
    | some s => (assemble hole r).map (s ++ ·)
    | none => none
  | .raise :: _ => none

/-- The whole `TemplateSolver.solve(text)`: scan, then assemble. -/
def solveTemplate (hole : HoleFn) (text : List Char) : Option (List Char) :=
  assemble hole (scanTemplate (text.length + 1) text)

/-! ### renderers (specification side): blanks around binary operators mandatory, extra optional -/

def blanks (n : Nat) : List Char := List.replicate n ' '

/-- next optional-blank count from the supply -/
def nextB : List Nat → Nat × List Nat
  | [] => (0, [])
  | n :: r => (n, r)

/-- Flat rendering of a tree over atom texts. `sym` gives an operator's symbol by key
    (regenerated operator table), `pad = true` surrounds binary symbols with one mandatory blank
    (logical symbols; the numerical symbols ` + ` … carry their blanks). Blanks around an argument
    separator are optional. -/
def render (sym : String → List Char) (pad : Bool) : E (List Char) → List Nat → List Char × List Nat
  | .lit t, b => (t, b)
  | .par e, b =>
    let (n1, b) := nextB b
    let (s, b) := render sym pad e b
    let (n2, b) := nextB b
    (sym "par" ++ blanks n1 ++ s ++ blanks n2 ++ [')'], b)
  | .fn1 f a, b =>
    let (n1, b) := nextB b
    let (s, b) := render sym pad a b
    let (n2, b) := nextB b
    (sym f ++ blanks n1 ++ s ++ blanks n2 ++ [')'], b)
  | .fn2 f x y, b =>
    let (n1, b) := nextB b
    let (s1, b) := render sym pad x b
    let (n2, b) := nextB b
    let (s2, b) := render sym pad y b
    let (n3, b) := nextB b
    (sym f ++ blanks n1 ++ s1 ++ blanks n2 ++ [','] ++ blanks n3 ++ s2 ++ [')'], b)
  | .pre u e, b =>
    let (n1, b) := nextB b
    let (s, b) := render sym pad e b
    (sym u ++ blanks n1 ++ s, b)
  | .bin o l r, b =>
    let (s1, b) := render sym pad l b
    let (n1, b) := nextB b
    let (n2, b) := nextB b
    let (s2, b) := render sym pad r b
    let m := if pad then 1 else 0
    (s1 ++ blanks (n1 + m) ++ sym o ++ blanks (n2 + m) ++ s2, b)

end SciVerif.C18
