import SciVerif.Model.C01
/-
Specification side of C01: the stratified expression language, its evaluator (plain structural
recursion: "functions and parentheses first, then unary signs, power, multiplicative, additive,
comparison, negation, conjunction, disjunction; operators of one step left to right"), its
rendering to text with arbitrary blanks, and the free term algebra used by the driver.
No Mathlib imports.
-/
namespace SciVerif.C01

/-- one-argument call forms (`par` = plain parentheses) -/
inductive F1 | par | exp | log | log10 | sqrt | sin | cos | tan
deriving DecidableEq, Repr
inductive F2 | logb | powb
deriving DecidableEq, Repr
inductive B2 | pow | mul | div | add | sub | eq | ne | le | ge | lt | gt | and | or
deriving DecidableEq, Repr

inductive E
  | num (text : List Char)
  | fn1 (f : F1) (e : E)
  | fn2 (g : F2) (a b : E)
  | sign (neg : Bool) (e : E)
  | bin (o : B2) (l r : E)
  | not (e : E)
deriving Repr

/-- precedence level of an operator = number of the step that applies it (docs step table) -/
def B2.level : B2 → Nat
  | .pow => 2
  | .mul | .div => 3
  | .add | .sub => 4
  | .eq | .ne | .le | .ge | .lt | .gt => 5
  | .and => 7
  | .or => 8

def E.level : E → Nat
  | .num _ | .fn1 _ _ | .fn2 _ _ _ => 0
  | .sign _ _ => 1
  | .bin o _ _ => o.level
  | .not _ => 6

/-- The stratified grammar: binary nodes are left-associative chains of one level over tighter
    operands, a sign applies to a sign or a primary, `!` to a comparison-level term. -/
def E.WF : E → Prop
  | .num _ => True
  | .fn1 _ e => e.WF
  | .fn2 _ a b => a.WF ∧ b.WF
  | .sign _ e => e.WF ∧ e.level ≤ 1
  | .bin o l r => l.WF ∧ r.WF ∧ l.level ≤ o.level ∧ r.level < o.level
  | .not e => e.WF ∧ e.level ≤ 5

def E.wf : E → Bool
  | .num _ => true
  | .fn1 _ e => e.wf
  | .fn2 _ a b => a.wf && b.wf
  | .sign _ e => e.wf && decide (e.level ≤ 1)
  | .bin o l r => l.wf && r.wf && decide (l.level ≤ o.level) && decide (r.level < o.level)
  | .not e => e.wf && decide (e.level ≤ 5)

/-- the atom method a binary operator stands for -/
def B2.fn : B2 → Fn2
  | .pow => .pow | .mul => .mul | .div => .div | .add => .add | .sub => .sub
  | .eq => .eq | .ne => .ne | .le => .le | .ge => .ge | .lt => .lt | .gt => .gt
  | .and => .land | .or => .lor

variable {A : Type}

def evalF1 (alg : AtomAlg A) : F1 → A → A
  | .par, a => a
  | .exp, a => alg.bin .pow alg.constE a
  | .log, a => alg.un .log a
  | .log10, a => alg.un .log10 a
  | .sqrt, a => alg.un .sqrt a
  | .sin, a => alg.un .sin a
  | .cos, a => alg.un .cos a
  | .tan, a => alg.un .tan a

def evalF2 (alg : AtomAlg A) : F2 → A → A → A
  | .logb, a, b => alg.bin .div (alg.un .log a) (alg.un .log b)
  | .powb, a, b => alg.bin .pow a b

def negIf (alg : AtomAlg A) (neg : Bool) (a : A) : A := if neg then alg.un .neg a else a

/-- Value of an expression; `lit` interprets the number literals. -/
def eval (alg : AtomAlg A) (lit : List Char → A) : E → A
  | .num t => lit t
  | .fn1 f e => evalF1 alg f (eval alg lit e)
  | .fn2 g a b => evalF2 alg g (eval alg lit a) (eval alg lit b)
  | .sign s e => negIf alg s (eval alg lit e)
  | .bin o l r => alg.bin o.fn (eval alg lit l) (eval alg lit r)
  | .not e => alg.un .lnot (eval alg lit e)

/-! ### Concrete syntax -/

def F1.sym : F1 → List Char
  | .par => ['('] | .exp => "exp(".toList | .log => "log(".toList | .log10 => "log10(".toList
  | .sqrt => "sqrt(".toList | .sin => "sin(".toList | .cos => "cos(".toList | .tan => "tan(".toList
def F2.sym : F2 → List Char
  | .logb => "logb(".toList | .powb => "pow(".toList
def B2.sym : B2 → List Char
  | .pow => "**".toList | .mul => ['*'] | .div => ['/'] | .add => ['+'] | .sub => ['-']
  | .eq => "==".toList | .ne => "!=".toList | .le => "<=".toList | .ge => ">=".toList
  | .lt => ['<'] | .gt => ['>'] | .and => "&&".toList | .or => "||".toList

/-- names of the operators in the solver's `operators` dict -/
def F1.name : F1 → String
  | .par => "par" | .exp => "exp" | .log => "log" | .log10 => "log10"
  | .sqrt => "sqrt" | .sin => "sin" | .cos => "cos" | .tan => "tan"
def F2.name : F2 → String
  | .logb => "logb" | .powb => "powb"
def B2.name : B2 → String
  | .pow => "pow" | .mul => "mul" | .div => "truediv" | .add => "add" | .sub => "sub"
  | .eq => "eq" | .ne => "ne" | .le => "le" | .ge => "ge" | .lt => "lt" | .gt => "gt"
  | .and => "and" | .or => "or"

/-- lexemes in order; blanks may be put between any two of them -/
def lexemes : E → List (List Char)
  | .num t => [t]
  | .fn1 f e => [f.sym] ++ lexemes e ++ [[')']]
  | .fn2 g a b => [g.sym] ++ lexemes a ++ [[',']] ++ lexemes b ++ [[')']]
  | .sign s e => [if s then ['-'] else ['+']] ++ lexemes e
  | .bin o l r => lexemes l ++ [o.sym] ++ lexemes r
  | .not e => [['!']] ++ lexemes e

/-- `bl` is the blank oracle: number of blanks before the i-th lexeme (and after the last). -/
def joinBlanks : List Nat → List (List Char) → List Char
  | bl, [] => List.replicate (bl.headD 0) ' '
  | bl, x :: xs => List.replicate (bl.headD 0) ' ' ++ x ++ joinBlanks bl.tail xs

def render (bl : List Nat) (e : E) : List Char := joinBlanks bl (lexemes e)

/-! ### The free term algebra (what the recording atom of the harness builds) -/

inductive Term
  | num (s : List Char)
  | e
  | un (f : Fn1) (t : Term)
  | bin (f : Fn2) (a b : Term)
deriving DecidableEq, Repr

def isDigit (c : Char) : Bool := '0' ≤ c && c ≤ '9'

/-- `digit (_? digit)*`, returns the rest -/
def digitPart : List Char → Option (List Char)
  | c :: cs =>
      if isDigit c then
        let rec go : List Char → List Char
          | '_' :: d :: r => if isDigit d then go r else '_' :: d :: r
          | d :: r => if isDigit d then go r else d :: r
          | [] => []
        some (go cs)
      else none
  | [] => none

def lower (c : Char) : Char := if 'A' ≤ c && c ≤ 'Z' then Char.ofNat (c.toNat + 32) else c

def optSign : List Char → List Char
  | '+' :: r => r
  | '-' :: r => r
  | r => r

def expPart (s : List Char) : Bool :=
  match s with
  | [] => true
  | c :: r =>
    if c == 'e' || c == 'E' then
      match digitPart (optSign r) with
      | some [] => true
      | _ => false
    else false

/-- acceptance of CPython's `float(text)` for stripped ASCII text -/
def isFloatLit (s : List Char) : Bool :=
  let body := optSign s
  let low := body.map lower
  if low == "inf".toList || low == "infinity".toList || low == "nan".toList then true
  else match body with
    | '.' :: r =>
      match digitPart r with
      | some rest => expPart rest
      | none => false
    | _ =>
      match digitPart body with
      | none => false
      | some ('.' :: r) =>
        match digitPart r with
        | some rest => expPart rest
        | none => expPart r
      | some rest => expPart rest

def hasSub (pat : List Char) : List Char → Bool
  | [] => pat.isEmpty
  | c :: cs => pat.isPrefixOf (c :: cs) || hasSub pat cs

def marker : List Char := "BOOM".toList

/-- recording atom over floats: accepts what `float()` accepts, raises on the marker -/
def termAlg : AtomAlg Term :=
  { parse := fun s => if hasSub marker s then none else if isFloatLit s then some (.num s) else none,
    constE := .e, un := .un, bin := .bin }

/-- recording atom for a string-valued atom class: accepts any text, raises on the marker -/
def termAlgAny : AtomAlg Term :=
  { parse := fun s => if hasSub marker s then none else some (.num s),
    constE := .e, un := .un, bin := .bin }

end SciVerif.C01

namespace SciVerif.C01
variable {A : Type}

/-- index of a named operator (out of range when absent: such a token has no table row) -/
def idxOf (tbl : Table) (n : String) : Nat := (nameIdx tbl n).getD tbl.rows.length

/-- The token list of an expression as the tokeniser delivers it: one token per lexeme, call
    forms as one operator token carrying the values of its (recursively solved) arguments. -/
def toks (tbl : Table) (alg : AtomAlg A) (lit : List Char → A) : E → List (Tok A)
  | .num t => [.atom (lit t)]
  | .fn1 f e => [.op (idxOf tbl f.name) [some (eval alg lit e)]]
  | .fn2 g a b => [.op (idxOf tbl g.name) [some (eval alg lit a), some (eval alg lit b)]]
  | .sign s e => .op (idxOf tbl (if s then "sub" else "add")) [] :: toks tbl alg lit e
  | .bin o l r => toks tbl alg lit l ++ [.op (idxOf tbl o.name) []] ++ toks tbl alg lit r
  | .not e => .op (idxOf tbl "not") [] :: toks tbl alg lit e

/-- the tokeniser alone (fresh buffers) -/
def tokenize (tbl : Table) (alg : AtomAlg A) (steps : List (List String × Otype)) (s : List Char) :
    Except String (List (Tok A)) :=
  match tokLoop tbl alg (fun st a => solveI tbl alg steps st a) (s.length + 1) ⟨[], s⟩ ⟨[], []⟩ with
  | .ok b => .ok b.right
  | .error (_, m) => .error m

end SciVerif.C01

namespace SciVerif.C01
variable {A : Type}

/-- optional exponent: nothing, or `e` followed by at least one digit and digits only -/
def expOK : List Char → Bool
  | [] => true
  | c :: r => c == 'e' && !r.isEmpty && r.all isDigit

/-- number literals of the grammar: `digits[.digits*][e digits]` or `.digits[e digits]` -/
def isGrammarLit (s : List Char) : Bool :=
  let ds := s.takeWhile isDigit
  match s.dropWhile isDigit with
  | [] => !ds.isEmpty
  | c :: r =>
      if c = '.' then (!ds.isEmpty || !(r.takeWhile isDigit).isEmpty) && expOK (r.dropWhile isDigit)
      else !ds.isEmpty && expOK (c :: r)

/-- What the tokenizer needs of a literal: not empty, made of digits, `.` and `e`, every `e`
    directly followed by a digit.  Every grammar literal is such a text. -/
def litScan : List Char → Bool
  | [] => true
  | c :: r =>
      if c = 'e' then (match r with | d :: _ => isDigit d | [] => false) && litScan r
      else (isDigit c || c == '.') && litScan r

def litSafe (t : List Char) : Bool := !t.isEmpty && litScan t

/-- all literals of an expression are tokenizer-safe texts which the atom class reads as `lit` says -/
def LitOK (alg : AtomAlg A) (lit : List Char → A) : E → Prop
  | .num t => litSafe t = true ∧ alg.parse t = some (lit t)
  | .fn1 _ e => LitOK alg lit e
  | .fn2 _ a b => LitOK alg lit a ∧ LitOK alg lit b
  | .sign _ e => LitOK alg lit e
  | .bin _ l r => LitOK alg lit l ∧ LitOK alg lit r
  | .not e => LitOK alg lit e

end SciVerif.C01

namespace SciVerif.C01
variable {A : Type}

/-- parenthesis depth after a text, started at depth `k`; `none` when it would become negative -/
def bal : List Char → Nat → Option Nat
  | [], k => some k
  | c :: cs, k =>
      if c = '(' then bal cs (k + 1)
      else if c = ')' then (if k = 0 then none else bal cs (k - 1))
      else bal cs k

/-- the parenthesis depth never goes negative and returns to 0 -/
def Balanced (s : List Char) : Prop := bal s 0 = some 0

def isParen (c : Char) : Bool := c == '(' || c == ')'

/-- the atom class rejects every text that contains a parenthesis (true of `float()`) -/
def ParenFree (alg : AtomAlg A) : Prop := ∀ t : List Char, t.any isParen = true → alg.parse t = none

end SciVerif.C01
