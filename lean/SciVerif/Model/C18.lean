/-
Model of the generic two-stack token machine as the DIP solvers use it (property C18).

Mirrors, statement by statement:
  * `solver/tokens.py`      Tokens.operate (ARGS / UNARY / BINARY passes over `right`, results on `left`)
  * `solver/solver.py`      ExpressionSolver.solve: the step loop and the final "unprocessed tokens" test
  * `solver/operators.py`   OperatorPar.operate_args, Operator*.operate_binary, OperatorNot.operate_unary
  * `dip/solvers/numerical_solver.py`  CustomOperatorAdd/Sub.operate_unary (sign folding)

The atom algebra `Q` is a parameter.  A Python exception raised inside an operator is modelled
by an absorbing error *value* of `Q` (all instantiations use strict operations), an exception
raised because a token has the wrong shape (operator where a value is expected, `None`) by
`none` of the pass.

No Mathlib imports: this file is also compiled into the line-protocol driver.
-/
namespace SciVerif.C18

/-- A token of `Tokens.left/right`: a value, an operator object (identified by its key in the
    operator dict), a parenthesis-type operator holding its already solved arguments, or `None`. -/
inductive Tok (Q : Type) where
  | atom (q : Q)
  | op (name : String)
  | par (name : String) (args : List Q)
  | nil
deriving Repr

abbrev Toks (Q : Type) := List (Tok Q)

variable {Q : Type}

def Tok.isAtom : Tok Q → Bool
  | .atom _ => true
  | _ => false

def Tok.isOp (n : String) : Tok Q → Bool
  | .op m => m == n
  | _ => false

/-- `Tokens.operate(ops, Otype.ARGS)`: every parenthesis-type token whose operator is in the step
    is replaced by `operate_args` (one value put on `left`); everything else is moved to `left`. -/
def argsPass (fn : String → List Q → Q) (ops : List String) : Toks Q → Toks Q
  | [] => []
  | .par n a :: r => (if n ∈ ops then .atom (fn n a) else .par n a) :: argsPass fn ops r
  | t :: r => t :: argsPass fn ops r

/-- `Tokens.operate(ops, Otype.BINARY)`.  `left` is kept reversed (top of the Python list first).
    `f o = some g` iff the operator `o` belongs to this step, `g` being its `left ∘ right`. -/
def binPass (f : String → Option (Q → Q → Q)) : Toks Q → Toks Q → Option (Toks Q)
  | left, [] => some left.reverse
  | left, .atom q :: r => binPass f (.atom q :: left) r
  | left, .par n a :: r => binPass f (.par n a :: left) r
  | left, .nil :: r => binPass f (.nil :: left) r
  | left, .op o :: r =>
    match f o with
    | none => binPass f (.op o :: left) r
    | some g =>
      match left, r with
      | .atom a :: l', .atom b :: r' => binPass f (.atom (g a b) :: l') r'
      | _, _ => none          -- operand missing / not a value: Python raises
termination_by _ right => right.length

/-- `Tokens.operate(ops, Otype.UNARY)` for `OperatorNot.operate_unary`
    (`right = get_right(); put_right(right.logical_not())`, the re-inserted value is then moved
    to `left` by the next loop iteration — both iterations are merged here). -/
def prePass (f : String → Option (Q → Q)) : Toks Q → Toks Q → Option (Toks Q)
  | left, [] => some left.reverse
  | left, .atom q :: r => prePass f (.atom q :: left) r
  | left, .par n a :: r => prePass f (.par n a :: left) r
  | left, .nil :: r => prePass f (.nil :: left) r
  | left, .op o :: r =>
    match f o with
    | none => prePass f (.op o :: left) r
    | some g =>
      match r with
      | .atom b :: r' => prePass f (.atom (g b) :: left) r'
      | _ => none
termination_by _ right => right.length

/-- `get_left()` : pop the top of `left`, `None` when empty. -/
def popLeft : Toks Q → Tok Q × Toks Q
  | [] => (.nil, [])
  | t :: l => (t, l)

/-- `Tokens.operate((Add, Sub), Otype.UNARY)` with `CustomOperatorAdd/Sub.operate_unary`
    (the five branches as written: a sign is folded only in prefix position).  `ops ⊆ ["add", "sub"]`. -/
def signPass (neg : Q → Q) (ops : List String) : Toks Q → Toks Q → Option (Toks Q)
  | left, [] => some left.reverse
  | left, .atom q :: r => signPass neg ops (.atom q :: left) r
  | left, .par n a :: r => signPass neg ops (.par n a :: left) r
  | left, .nil :: r => signPass neg ops (.nil :: left) r
  | left, .op o :: r =>
    if o ∈ ops then
      let isSub := o == "sub"
      let (lt, l') := popLeft left
      match r with
      | [] =>
        -- right is None: last branch; `put_right(None)` is moved to `left` by the next iteration
        signPass neg ops (.nil :: .op o :: lt :: l') []
      | rt :: r' =>
        if lt matches .nil ∧ rt.isAtom then
          match rt with
          | .atom q => signPass neg ops (.atom (if isSub then neg q else q) :: l') r'
          | _ => none
        else if !lt.isAtom ∧ rt.isOp "add" then
          signPass neg ops (lt :: l') ((if isSub then .op "sub" else rt) :: r')
        else if !lt.isAtom ∧ rt.isOp "sub" then
          signPass neg ops (lt :: l') ((if isSub then .op "add" else rt) :: r')
        else if !lt.isAtom ∧ rt.isAtom then
          match rt with
          | .atom q => signPass neg ops (lt :: l') (.atom (if isSub then neg q else q) :: r')
          | _ => none
        else
          signPass neg ops (.op o :: lt :: l') (rt :: r')
    else signPass neg ops (.op o :: left) r
termination_by _ right => right.length
decreasing_by all_goals simp_all <;> omega

/-- Semantics of the operator classes of one solver instance. -/
structure Sem (Q : Type) where
  /-- `operate_args` of the parenthesis-type operator with that key -/
  fn : String → List Q → Q
  /-- unary minus of a value (sign folding) -/
  neg : Q → Q
  /-- `operate_binary` of the operator with that key (`none`: the class has none) -/
  bin : String → Option (Q → Q → Q)
  /-- `operate_unary` of a prefix operator (`CustomNot`) -/
  pre : String → Option (Q → Q)

/-- One entry of `ExpressionSolver.steps`: operator keys and `Otype` (0 ARGS, 1 UNARY, 2 BINARY). -/
structure Step where
  ops : List String
  otype : Nat
deriving Repr, DecidableEq

/-- One iteration of the step loop: `operators = [self.operators[o] for o in ostep if o in keys]`,
    skipped when empty. -/
def runStep (S : Sem Q) (keys : List String) (st : Step) (t : Toks Q) : Option (Toks Q) :=
  let ops := st.ops.filter (fun o => o ∈ keys)
  if ops.isEmpty then some t
  else if st.otype = 0 then some (argsPass S.fn ops t)
  else if st.otype = 1 then
    if ops.all (fun o => o == "add" || o == "sub") then signPass S.neg ops [] t
    else prePass (fun o => if o ∈ ops then S.pre o else none) [] t
  else binPass (fun o => if o ∈ ops then S.bin o else none) [] t

def runSteps (S : Sem Q) (keys : List String) : List Step → Toks Q → Option (Toks Q)
  | [], t => some t
  | st :: rest, t => (runStep S keys st t).bind (runSteps S keys rest)

/-- The tail of `ExpressionSolver.solve`: all steps, then the "unprocessed tokens" test and
    `get_right()` (`None` for an empty list). -/
def machine (S : Sem Q) (keys : List String) (steps : List Step) (t : Toks Q) : Option (Tok Q) :=
  match runSteps S keys steps t with
  | none => none
  | some [] => some .nil
  | some [x] => some x
  | some _ => none

/-! ### Expression trees (the specification side) -/

/-- Expression tree over atoms `A`.  `bin`/`pre` carry the operator key. -/
inductive E (A : Type) where
  | lit (a : A)
  | par (e : E A)
  | fn1 (f : String) (a : E A)
  | fn2 (f : String) (a b : E A)
  | pre (u : String) (e : E A)
  | bin (o : String) (l r : E A)
deriving Repr

variable {A : Type}

/-- Tree evaluation: each operator applied to the values of its sub-trees. -/
def E.eval (S : Sem Q) (binSem : String → Q → Q → Q) (preSem : String → Q → Q) (av : A → Q) : E A → Q
  | .lit a => av a
  | .par e => S.fn "par" [e.eval S binSem preSem av]
  | .fn1 f a => S.fn f [a.eval S binSem preSem av]
  | .fn2 f a b => S.fn f [a.eval S binSem preSem av, b.eval S binSem preSem av]
  | .pre u e => preSem u (e.eval S binSem preSem av)
  | .bin o l r => binSem o (l.eval S binSem preSem av) (r.eval S binSem preSem av)

/-- A grammar: binding level of every binary / prefix operator key (pass number in the step
    table, 1 = first binary pass) and the admitted operator / function keys. -/
structure Grammar where
  lvl : String → Nat
  /-- level of a key used as *prefix* operator (the sign ` - ` is also a binary key) -/
  lvlPre : String → Nat
  okBin : String → Bool
  okPre : String → Bool
  okFn1 : String → Bool
  okFn2 : String → Bool

/-- Binding level of the top operator (0 for atoms, parentheses and functions). -/
def E.top (G : Grammar) : E A → Nat
  | .pre u _ => G.lvlPre u
  | .bin o _ _ => G.lvl o
  | _ => 0

/-- The tree is the one the documented priorities assign to its flat rendering:
    a binary operator's left operand binds at least as tightly (left-to-right grouping), its right
    operand strictly tighter; a prefix operator's operand strictly tighter. -/
def E.WF (G : Grammar) : E A → Prop
  | .lit _ => True
  | .par e => e.WF G
  | .fn1 f a => G.okFn1 f = true ∧ a.WF G
  | .fn2 f a b => G.okFn2 f = true ∧ a.WF G ∧ b.WF G
  | .pre u e => G.okPre u = true ∧ 0 < G.lvlPre u ∧ e.top G < G.lvlPre u ∧ e.WF G
  | .bin o l r => G.okBin o = true ∧ 0 < G.lvl o ∧ l.top G ≤ G.lvl o ∧ r.top G < G.lvl o ∧
      l.WF G ∧ r.WF G

/-- Executable version of `WF` for the driver. -/
def E.wf (G : Grammar) : E A → Bool
  | .lit _ => true
  | .par e => e.wf G
  | .fn1 f a => G.okFn1 f && a.wf G
  | .fn2 f a b => G.okFn2 f && a.wf G && b.wf G
  | .pre u e => G.okPre u && decide (0 < G.lvlPre u) && decide (e.top G < G.lvlPre u) && e.wf G
  | .bin o l r => G.okBin o && decide (0 < G.lvl o) && decide (l.top G ≤ G.lvl o) &&
      decide (r.top G < G.lvl o) && l.wf G && r.wf G

/-- Tokens of a tree after the ARGS pass and the binary / prefix passes `1 … k`: every sub-tree
    whose top operator binds at level `≤ k` has been reduced to its value. -/
def E.collapse (S : Sem Q) (binSem : String → Q → Q → Q) (preSem : String → Q → Q) (av : A → Q)
    (G : Grammar) (k : Nat) : E A → Toks Q
  | .pre u e => if G.lvlPre u ≤ k then [.atom ((E.pre u e).eval S binSem preSem av)]
      else .op u :: e.collapse S binSem preSem av G k
  | .bin o l r => if G.lvl o ≤ k then [.atom ((E.bin o l r).eval S binSem preSem av)]
      else l.collapse S binSem preSem av G k ++ .op o :: r.collapse S binSem preSem av G k
  | e => [.atom (e.eval S binSem preSem av)]

/-- Token list the tokeniser produces for a tree *given* the values of the parenthesised
    sub-expressions (these are solved recursively while tokenising). -/
def E.toks (solveSub : E A → Q) (av : A → Q) : E A → Toks Q
  | .lit a => [.atom (av a)]
  | .par e => [.par "par" [solveSub e]]
  | .fn1 f a => [.par f [solveSub a]]
  | .fn2 f a b => [.par f [solveSub a, solveSub b]]
  | .pre u e => .op u :: e.toks solveSub av
  | .bin o l r => l.toks solveSub av ++ .op o :: r.toks solveSub av

/-- Result of one (sub-)solve: the machine must end with exactly one value. -/
def finish (S : Sem Q) (keys : List String) (steps : List Step) (t : Toks Q) : Option Q :=
  match machine S keys steps t with
  | some (.atom q) => some q
  | _ => none

/-- Token list of a tree as the tokeniser builds it: sub-expressions in parentheses are solved
    recursively by the same machine while tokenising (`op.args[a] = es.solve(op.args[a])`).
    `none`: an exception / a non-value result in a sub-solve. -/
def E.tk (S : Sem Q) (keys : List String) (steps : List Step) (av : A → Q) : E A → Option (Toks Q)
  | .lit a => some [.atom (av a)]
  | .par e => (e.tk S keys steps av).bind fun t => (finish S keys steps t).map fun v => [.par "par" [v]]
  | .fn1 f a => (a.tk S keys steps av).bind fun t => (finish S keys steps t).map fun v => [.par f [v]]
  | .fn2 f a b => (a.tk S keys steps av).bind fun t => (finish S keys steps t).bind fun v =>
      (b.tk S keys steps av).bind fun t2 => (finish S keys steps t2).map fun w => [.par f [v, w]]
  | .pre u e => (e.tk S keys steps av).map fun t => .op u :: t
  | .bin o l r => (l.tk S keys steps av).bind fun tl => (r.tk S keys steps av).map fun tr =>
      tl ++ .op o :: tr

/-- The whole recursive solve at token level. -/
def E.solve (S : Sem Q) (keys : List String) (steps : List Step) (av : A → Q) (e : E A) : Option Q :=
  (e.tk S keys steps av).bind (finish S keys steps)

end SciVerif.C18
