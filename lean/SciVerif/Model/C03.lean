import SciVerif.Model.C03Base

/-!
# C03 — executable model of the unit-expression front end (no Mathlib)

Mirrors, statement by statement, the code of `/repo/src/scinumtools/units`:
`fraction.py` (`Fraction`), `dimensions.py` (`Dimensions`), `unit_solver.py`
(`Atom`, `AtomParser`, `UnitSolver` = `ExpressionSolver` with the operators
`( * /`), `base_units.py` (`get_unit_base`, `BaseUnits.__init__`) and the part of
`quantity.py` (`Quantity.__init__`) that turns a unit string into a number and units.

Strings are `List Char`; Python `int` is `Int`; table magnitudes are exact rationals
(`Rat`), a float power `x ** (n/d)` is kept symbolic as the pair `(x, n/d)`.
-/
namespace SciVerif.C03

/-! ## text of Python ints -/

def digitsVal (s : Str) : Nat := s.foldl (fun a c => 10 * a + (c.toNat - 48)) 0

def parseNat (s : Str) : Option Nat :=
  if s ≠ [] ∧ s.all Char.isDigit = true then some (digitsVal s) else none

/-- Python `int(text)` on texts over `[0-9:+-]`: optional sign, then digits. -/
def parseInt : Str → Option Int
  | '+' :: r => (parseNat r).map Int.ofNat
  | '-' :: r => (parseNat r).map (fun n => - Int.ofNat n)
  | s => (parseNat s).map Int.ofNat

def digitChar (d : Nat) : Char := Char.ofNat (48 + d)

/-- decimal digits of `n`, most significant first (`fuel > n` suffices) -/
def renderNatAux : Nat → Nat → Str
  | 0, _ => []
  | f + 1, n => if n < 10 then [digitChar n] else renderNatAux f (n / 10) ++ [digitChar (n % 10)]

def renderNat (n : Nat) : Str := renderNatAux (n + 1) n

/-- Python `str(int)` -/
def renderInt (i : Int) : Str :=
  if i < 0 then '-' :: renderNat i.natAbs else renderNat i.natAbs

/-- `Fraction.from_string`: `num:den` or `num`. -/
def Frac.fromString (s : Str) : Option Frac :=
  match s.dropWhile (· != ':') with
  | [] => (parseInt s).map (fun n => ⟨n, 1⟩)
  | _ :: b =>
    match parseInt (s.takeWhile (· != ':')), parseInt b with
    | some n, some d => some ⟨n, d⟩
    | _, _ => none

/-- `Fraction.__str__`: rebase, then `num` or `num:den`. -/
def Frac.str (a : Frac) : Str :=
  let r := a.rebase
  if r.num = 0 ∨ r.den = 1 then renderInt r.num else renderInt r.num ++ ':' :: renderInt r.den

/-! ## unit_solver.py: Atom -/

/-- the dict key `unitid`: `#NAME`, `base`, or `prefix:base` (`pre = []`: no prefix) -/
inductive UnitId
  | sys (name : Str)
  | std (pre base : Str)
deriving DecidableEq, Repr

/-- the Python key text -/
def UnitId.text : UnitId → Str
  | .sys n => n
  | .std [] b => b
  | .std p b => p ++ ':' :: b

/-- insertion-ordered `dict` unitid ↦ Fraction -/
abbrev ExpMap := List (UnitId × Frac)

def ExpMap.get (m : ExpMap) (u : UnitId) : Option Frac :=
  match m with
  | [] => none
  | (k, v) :: t => if k = u then some v else ExpMap.get t u

def ExpMap.set (m : ExpMap) (u : UnitId) (e : Frac) : ExpMap :=
  match m with
  | [] => [(u, e)]
  | (k, v) :: t => if k = u then (k, e) :: t else (k, v) :: ExpMap.set t u e

/-- loop body of `Atom.__mul__`: `baseunits[unit] = baseunits[unit]+exp if unit in baseunits else exp` -/
def ExpMap.addEntry (m : ExpMap) (ue : UnitId × Frac) : ExpMap :=
  match m.get ue.1 with
  | some v => m.set ue.1 (v.add ue.2)
  | none => m.set ue.1 ue.2

/-- loop body of `Atom.__truediv__` -/
def ExpMap.subEntry (m : ExpMap) (ue : UnitId × Frac) : ExpMap :=
  match m.get ue.1 with
  | some v => m.set ue.1 (v.sub ue.2)
  | none => m.set ue.1 ue.2.neg

def ExpMap.mergeAdd (a b : ExpMap) : ExpMap := b.foldl ExpMap.addEntry a
def ExpMap.mergeSub (a b : ExpMap) : ExpMap := b.foldl ExpMap.subEntry a

structure Atom where
  mag : Rat
  units : ExpMap
deriving DecidableEq, Repr

def Atom.mul (a b : Atom) : Atom := ⟨a.mag * b.mag, a.units.mergeAdd b.units⟩

/-- `__truediv__`: float division by zero raises -/
def Atom.div (a b : Atom) : Option Atom :=
  if b.mag = 0 then none else some ⟨a.mag / b.mag, a.units.mergeSub b.units⟩

/-! ## unit_solver.py: AtomParser -/

def isMantChar (c : Char) : Bool := c.isDigit || c == '.'
def isExpoChar (c : Char) : Bool := c.isDigit || c == '+' || c == '-'

/-- the part of `s` in front of its maximal trailing run of `p`-characters -/
def dropTrail (p : Char → Bool) (s : Str) : Str := (s.reverse.dropWhile p).reverse
/-- the maximal trailing run of `p`-characters (what `re.search("[…]+$")` returns) -/
def trailRun (p : Char → Bool) (s : Str) : Str := (s.reverse.takeWhile p).reverse

/-- the regular expression `^[-]?([0-9.]+)(e([0-9+-]+)|)$`: sign, mantissa text, exponent text -/
def numberParts (s : Str) : Option (Bool × Str × Option Str) :=
  let neg := s.head? == some '-'
  let r := if neg then s.drop 1 else s
  let m := r.takeWhile isMantChar
  if m = [] then none else
  match r.dropWhile isMantChar with
  | [] => some (neg, m, none)
  | 'e' :: x => if x ≠ [] ∧ x.all isExpoChar = true then some (neg, m, some x) else none
  | _ => none

def pow10 (k : Int) : Rat := if k ≥ 0 then ((10 : Rat) ^ k.toNat) else 1 / ((10 : Rat) ^ (-k).toNat)

/-- Python `float(text)` on a text matched by the regular expression, as the exact decimal value;
    `none` = `ValueError` (two dots, no digit, malformed exponent) -/
def floatOfParts (p : Bool × Str × Option Str) : Option Rat :=
  let (neg, m, x) := p
  let ip := m.takeWhile Char.isDigit
  match m.dropWhile Char.isDigit with
  | [] => fin neg ip [] x
  | _ :: fp => if fp.all Char.isDigit = true then fin neg ip fp x else none
where
  fin (neg : Bool) (ip fp : Str) (x : Option Str) : Option Rat :=
    if ip = [] ∧ fp = [] then none else
    let mant : Rat := (digitsVal (ip ++ fp) : Rat) / ((10 : Rat) ^ fp.length)
    let sgn : Rat := if neg then -1 else 1
    match x with
    | none => some (sgn * mant)
    | some xs => (parseInt xs).map (fun k => sgn * mant * pow10 k)

inductive Err
  | unknownUnit | badPrefix | badExponent | badNumber | paren | tokens | operand | zeroDiv | fuel
  | unknownSys | empty
deriving DecidableEq, Repr

/-- what `AtomParser` returns for a unit text: the key and the exponent -/
def unitParse (T : Tables) (s : Str) : Except Err (UnitId × Frac) :=
  let string := ' ' :: s
  let expTxt := trailRun isExpChar string
  let body := dropTrail isExpChar string
  match (if expTxt = [] then some Frac.one else Frac.fromString expTxt) with
  | none => .error .badExponent
  | some exp =>
    if [' ', '#'].isPrefixOf body then
      -- unitid = string[1:]; if unitid not in QUANTITY_UNITS: raise
      if (T.findSys (body.drop 1)).isSome then .ok (.sys (body.drop 1), exp) else .error .unknownSys
    else
    match findBase T body with
    | none => .error .unknownUnit
    | some base =>
      -- string = string[1:-len(base)]
      let pre := (body.take (body.length - base.sym.length)).drop 1
      if T.prefixKeys.contains pre then
        if admits T base pre then .ok (.std pre base.sym, exp) else .error .badPrefix
      else if pre ≠ [] then .error .badPrefix
      else .ok (.std [] base.sym, exp)

/-- `AtomParser(string)` -/
def atomParse (T : Tables) (s : Str) : Except Err Atom :=
  match numberParts s with
  | some parts =>
    match floatOfParts parts with
    | some q => .ok ⟨q, []⟩
    | none => .error .badNumber
  | none =>
    match unitParse T s with
    | .ok (u, e) => .ok ⟨1, [(u, e)]⟩
    | .error e => .error e

/-! ## solver: ExpressionSolver with operators `par`, `mul`, `truediv` -/

/-- `str.strip()` -/
def strip (s : Str) : Str := dropTrail isSpace (s.dropWhile isSpace)

inductive Tok
  | val (a : Option Atom)     -- an Atom, or Python `None`
  | par (a : Option Atom)     -- OperatorPar with its solved argument
  | mul
  | div
deriving DecidableEq, Repr

/-- `OperatorPar.__init__` after the opening symbol was removed: consume up to the matching
    `)`; `left` is `expr.left` reversed; returns the argument texts and the remaining text -/
def scanPar : (right : Str) → (depth : Nat) → (left : Str) → (args : List Str) →
    Except Err (List Str × Str)
  | [], _, _, _ => .error .paren
  | c :: rest, depth, left, args =>
    if c = '(' then scanPar rest (depth + 1) (c :: left) args
    else if c = ',' ∧ depth = 1 then scanPar rest depth [] (args ++ [strip left.reverse])
    else if c = ')' then
      if depth = 1 then .ok (args ++ [strip left.reverse], rest)
      else scanPar rest (depth - 1) (c :: left) args
    else scanPar rest depth (c :: left) args

theorem scanPar_rest_length : ∀ (right : Str) (depth : Nat) (left : Str) (args : List Str)
    (r : List Str × Str), scanPar right depth left args = .ok r → r.2.length < right.length
  | [], _, _, _, _, h => by simp [scanPar] at h
  | c :: rest, depth, left, args, r, h => by
    unfold scanPar at h
    split at h
    · have := scanPar_rest_length rest _ _ _ r h; simp; omega
    · split at h
      · have := scanPar_rest_length rest _ _ _ r h; simp; omega
      · split at h
        · split at h
          · cases h; simp
          · have := scanPar_rest_length rest _ _ _ r h; simp; omega
        · have := scanPar_rest_length rest _ _ _ r h; simp; omega

/-- `if left := self.expr.pop_left(): self.tokens.append(self.tokens.atom(left))` -/
def flushLeft (T : Tables) (left : Str) (toks : List Tok) : Except Err (List Tok) :=
  let l := strip left.reverse
  if l = [] then .ok toks else
  match atomParse T l with
  | .ok a => .ok (toks ++ [.val (some a)])
  | .error e => .error e

/-- `Tokens.operate((OperatorPar,), ARGS)` -/
def argsPass (toks : List Tok) : List Tok :=
  toks.map (fun t => match t with | .par a => .val a | t => t)

/-- `Tokens.operate((OperatorMul, OperatorTruediv), BINARY)`; `left` is the left stack (top first) -/
def binPass : (left : List Tok) → (right : List Tok) → Except Err (List Tok)
  | left, [] => .ok left.reverse
  | left, .mul :: right =>
    match left, right with
    | .val (some a) :: left', .val (some b) :: right' => binPass (.val (some (a.mul b)) :: left') right'
    | _, _ => .error .operand
  | left, .div :: right =>
    match left, right with
    | .val (some a) :: left', .val (some b) :: right' =>
      match a.div b with
      | some c => binPass (.val (some c) :: left') right'
      | none => .error .zeroDiv
    | _, _ => .error .operand
  | left, t :: right => binPass (t :: left) right

/-- end of `solve`: unprocessed tokens raise; an empty token list yields `None` -/
def finish : List Tok → Except Err (Option Atom)
  | [] => .ok none
  | [.val a] => .ok a
  | _ => .error .tokens

mutual
/-- tokenising loop of `ExpressionSolver.solve`; `left` is `expr.left` reversed -/
def tokenize (T : Tables) : (fuel : Nat) → (right : Str) → (left : Str) → (toks : List Tok) →
    Except Err (List Tok)
  | 0, _, _, _ => .error .fuel
  | fuel + 1, right, left, toks =>
    match right with
    | [] => flushLeft T left toks
    | c :: rest =>
      if c = '(' then
        match flushLeft T left toks with
        | .error e => .error e
        | .ok toks1 =>
          match scanPar rest 1 [] [] with
          | .error e => .error e
          | .ok (args, rest') =>
            match args with
            | [arg] =>
              match solve T fuel arg with
              | .error e => .error e
              | .ok v => tokenize T fuel rest' [] (toks1 ++ [.par v])
            | _ => .error .paren
      else if c = '*' then
        match flushLeft T left toks with
        | .error e => .error e
        | .ok toks1 => tokenize T fuel rest [] (toks1 ++ [.mul])
      else if c = '/' then
        match flushLeft T left toks with
        | .error e => .error e
        | .ok toks1 => tokenize T fuel rest [] (toks1 ++ [.div])
      else tokenize T fuel rest (c :: left) toks
/-- `ExpressionSolver.solve(text)` for the unit solver -/
def solve (T : Tables) : (fuel : Nat) → Str → Except Err (Option Atom)
  | 0, _ => .error .fuel
  | fuel + 1, s =>
    match tokenize T fuel s [] [] with
    | .error e => .error e
    | .ok toks =>
      match binPass [] (argsPass toks) with
      | .error e => .error e
      | .ok out => finish out
end

/-- `UnitSolver(text)`; `None` has no `.baseunits`: error -/
def unitSolver (T : Tables) (s : Str) : Except Err Atom :=
  match solve T (2 * s.length + 2) s with
  | .ok (some a) => .ok a
  | .ok none => .error .empty
  | .error e => .error e

/-! ## base_units.py -/

/-- one factor `x ** (num/den)` of a magnitude, kept symbolic -/
structure Factor where
  base : Rat
  exp : Frac
deriving DecidableEq, Repr

structure Base where
  factor : Factor
  dims : List Frac
  expression : Str
deriving Repr

/-- `get_unit_base(unitid, exp)`; `none` = KeyError / ZeroDivisionError -/
def getUnitBase (T : Tables) (u : UnitId) (e : Frac) : Option Base :=
  -- exp.value(dtype=float) divides unless num==0 or den==1
  if e.den = 0 ∧ e.num ≠ 0 then none else
  let r := e.rebase
  let etxt : Str := if r.num = 1 ∧ r.den = 1 then [] else e.str
  match u with
  | .sys name =>
    match T.findSys name with
    | none => none
    | some row => some ⟨⟨row.mag, e⟩, row.dims.map (·.mul e), name ++ etxt⟩
  | .std pre base =>
    match T.findUnit base with
    | none => none
    | some row =>
      if pre = [] then some ⟨⟨row.mag, e⟩, row.dims.map (·.mul e), base ++ etxt⟩
      else match T.findPrefix pre with
        | none => none
        | some p => some ⟨⟨p.mag * row.mag, e⟩, row.dims.map (·.mul e), pre ++ base ++ etxt⟩

def zeroDims : List Frac := List.replicate 8 Frac.zero
def addDims (a b : List Frac) : List Frac := List.zipWith Frac.add a b
def nodim (d : List Frac) : Bool := d.all (fun f => f.num == 0)

/-- the state accumulated by `BaseUnits.__init__` -/
structure BaseUnits where
  /-- the dict after the loop: zero exponents deleted, the others rebased in place -/
  entries : ExpMap
  factors : List Factor
  dims : List Frac
  expression : List Str
deriving Repr

def BaseUnits.empty : BaseUnits := ⟨[], [], zeroDims, []⟩

/-- the loop of `BaseUnits.__init__` over the dict entries -/
def baseUnitsLoop (T : Tables) : ExpMap → BaseUnits → Option BaseUnits
  | [], acc => some acc
  | (u, e) :: rest, acc =>
    if e.num = 0 then baseUnitsLoop T rest acc else
    match getUnitBase T u e with
    | none => none
    | some b => baseUnitsLoop T rest
        ⟨acc.entries ++ [(u, e.rebase)], acc.factors ++ [b.factor], addDims acc.dims b.dims,
         acc.expression ++ [b.expression]⟩

def baseUnitsOfMap (T : Tables) (m : ExpMap) : Option BaseUnits := baseUnitsLoop T m BaseUnits.empty

/-- `SYMBOL_MULTIPLY.join(expression)`, `None` when empty -/
def joinMul : List Str → Option Str
  | [] => none
  | [x] => some x
  | x :: rest => match joinMul rest with
    | some r => some (x ++ '*' :: r)
    | none => some x

def BaseUnits.expr (b : BaseUnits) : Option Str := joinMul b.expression

/-- `BaseUnits(text)` -/
def baseUnitsOfText (T : Tables) (s : Str) : Except Err BaseUnits :=
  match unitSolver T s with
  | .error e => .error e
  | .ok a => match baseUnitsOfMap T a.units with
    | some b => .ok b
    | none => .error .unknownSys

/-- `Quantity(1, text)`: numeric coefficient, factors moved into the magnitude by the
    "rebase if dimensions are zero" block, and the final base units -/
structure QuantityOut where
  coef : Rat
  factors : List Factor
  base : BaseUnits
deriving Repr

/-- the nodim block of `Quantity.__init__` -/
def nodimLoop (T : Tables) : ExpMap → (keep : ExpMap) → (fs : List Factor) → Option (ExpMap × List Factor)
  | [], keep, fs => some (keep, fs)
  | (u, e) :: rest, keep, fs =>
    match getUnitBase T u e with
    | none => none
    | some b => if nodim b.dims then nodimLoop T rest (keep ++ [(u, e)]) fs
                else nodimLoop T rest keep (fs ++ [b.factor])

def quantityOfText (T : Tables) (s : Str) : Except Err QuantityOut :=
  match unitSolver T s with
  | .error e => .error e
  | .ok a =>
    match baseUnitsOfMap T a.units with
    | none => .error .unknownSys
    | some b =>
      if nodim b.dims then
        match nodimLoop T b.entries [] [] with
        | none => .error .unknownSys
        | some (keep, fs) =>
          match baseUnitsOfMap T keep with
          | none => .error .unknownSys
          | some b2 => .ok ⟨a.mag, fs, b2⟩
      else .ok ⟨a.mag, [], b⟩

end SciVerif.C03
