import SciVerif.Model.C18

/-
Numerical side of the DIP expression solvers (property C18).

Mirrors `dip/solvers/numerical_solver.py`:
  * `CustomOperatorAdd/Sub.operate_binary` (`if not left.baseunits.nodim: right.to(left.baseunits)`,
    then `left ± right` in the unit of the left operand),
  * `CustomOperatorMul/Truediv` (inherited `left * right`, `left / right`),
  * the `operate_args` of the nine function operators,
  * `result.value(in_units)`.

A quantity is a magnitude `val` in a unit given by its linear factor `k` to SI and its dimension
exponents `dims`.  The number type `F` and its operations are a parameter (`NumOps`): the driver
instantiates it with `Float`, `Props/C18.lean` with an arbitrary field.  Only linear units are in
the domain (no temperature / logarithmic units, no dimensionless base units such as rad, %).
-/
namespace SciVerif.C18

structure NumOps (F : Type) where
  add : F → F → F
  sub : F → F → F
  mul : F → F → F
  div : F → F → F
  neg : F → F
  one : F
  exp : F → F
  log : F → F
  log10 : F → F
  sqrt : F → F
  sin : F → F
  cos : F → F
  tan : F → F
  /-- `x ** n` for an integral exponent given as a number -/
  pow : F → F → F
  /-- the integer a number is, if it is one (`pow` exponents multiply dimension exponents) -/
  toInt : F → Option Int

abbrev Dims := List Rat

def Dims.nodim (d : Dims) : Bool := d.all (· == 0)
def Dims.add (a b : Dims) : Dims := List.zipWith (· + ·) a b
def Dims.sub (a b : Dims) : Dims := List.zipWith (· - ·) a b
def Dims.scale (a : Dims) (c : Rat) : Dims := a.map (· * c)
def Dims.zero : Dims := List.replicate 8 0

/-- magnitude `val` in a unit with factor `k` and dimensions `dims` -/
structure Quant (F : Type) where
  val : F
  k : F
  dims : Dims

variable {F : Type}

/-- `Quantity.__init__`: "rebase if dimensions are zero" — the factor of a dimensionless unit
    combination (e.g. `m*cm-1`) is folded into the magnitude. -/
def Quant.mk' (N : NumOps F) (val k : F) (dims : Dims) : Quant F :=
  if dims.nodim then ⟨N.mul val k, N.one, dims⟩ else ⟨val, k, dims⟩

/-- a value of the solver: `none` = a Python exception was raised while computing it -/
abbrev QV (F : Type) := Option (Quant F)

/-- `right.to(left.baseunits)` / `Quantity._add`: only between equal dimensions. -/
def convTo (N : NumOps F) (r : Quant F) (k : F) (dims : Dims) : Option F :=
  if r.dims = dims then some (N.div (N.mul r.val r.k) k) else none

/-- `CustomOperatorAdd.operate_binary` / `CustomOperatorSub.operate_binary` -/
def qaddsub (N : NumOps F) (isSub : Bool) (l r : Quant F) : QV F :=
  if !l.dims.nodim then
    -- right.to(left.baseunits); left ± right
    (convTo N r l.k l.dims).map fun rv => ⟨if isSub then N.sub l.val rv else N.add l.val rv, l.k, l.dims⟩
  else
    -- left ± right directly: Quantity._add finds a conversion only for equal dimensions
    (convTo N r l.k l.dims).map fun rv => ⟨if isSub then N.sub l.val rv else N.add l.val rv, l.k, l.dims⟩

def qmul (N : NumOps F) (l r : Quant F) : QV F :=
  some (Quant.mk' N (N.mul l.val r.val) (N.mul l.k r.k) (l.dims.add r.dims))

def qdiv (N : NumOps F) (l r : Quant F) : QV F :=
  some (Quant.mk' N (N.div l.val r.val) (N.div l.k r.k) (l.dims.sub r.dims))

/-- `CustomOperatorPow.operate_binary`: `np.power(left, right.value())` (integral exponents) -/
def qpow (N : NumOps F) (l r : Quant F) : QV F :=
  match N.toInt r.val with
  | some n => some (Quant.mk' N (N.pow l.val r.val) (N.pow l.k r.val) (l.dims.scale n))
  | none => none

def lift2 (f : Quant F → Quant F → QV F) : QV F → QV F → QV F
  | some a, some b => f a b
  | _, _ => none

/-- `operate_binary` by operator key -/
def numBin (N : NumOps F) : String → Option (QV F → QV F → QV F)
  | "pow" => some (lift2 (qpow N))
  | "mul" => some (lift2 (qmul N))
  | "truediv" => some (lift2 (qdiv N))
  | "add" => some (lift2 (qaddsub N false))
  | "sub" => some (lift2 (qaddsub N true))
  | _ => none

/-- total version used by tree evaluation -/
def numBinSem (N : NumOps F) (o : String) : QV F → QV F → QV F :=
  match numBin N o with
  | some g => g
  | none => fun _ _ => none

/-- dimension vector of a plane angle (8th base dimension of the unit tables; `rad` has factor 1) -/
def Dims.angle : Dims := [0, 0, 0, 0, 0, 0, 0, 1]

/-- `np.sin(q)` etc.: `q.to('rad')` — a plain number or an angle, in radians; anything else raises -/
def toRad (N : NumOps F) (a : Quant F) : Option F :=
  if a.dims.nodim then some a.val
  else if a.dims = Dims.angle then some (N.mul a.val a.k)
  else none

/-- `operate_args` by operator key -/
def numFn (N : NumOps F) : String → List (QV F) → QV F
  | "par", [some a] => some a
  | "exp", [some a] => some ⟨N.exp a.val, N.one, Dims.zero⟩      -- Quantity(e)**args[0].value()
  | "log", [some a] => some ⟨N.log a.val, a.k, a.dims⟩             -- np.log keeps the base units
  | "log10", [some a] => some ⟨N.log10 a.val, a.k, a.dims⟩
  | "sqrt", [some a] => some ⟨N.sqrt a.val, N.sqrt a.k, a.dims.scale (1/2)⟩
  | "sin", [some a] => (toRad N a).map fun x => ⟨N.sin x, N.one, Dims.zero⟩
  | "cos", [some a] => (toRad N a).map fun x => ⟨N.cos x, N.one, Dims.zero⟩
  | "tan", [some a] => (toRad N a).map fun x => ⟨N.tan x, N.one, Dims.zero⟩
  | "logb", [some a, some b] =>
      qdiv N ⟨N.log a.val, a.k, a.dims⟩ ⟨N.log b.val, b.k, b.dims⟩
  | "powb", [some a, some b] =>
      match N.toInt b.val with
      | some n => some (Quant.mk' N (N.pow a.val b.val) (N.pow a.k b.val) (a.dims.scale n))
      | none => none
  | _, _ => none

def numSem (N : NumOps F) : Sem (QV F) where
  fn := numFn N
  neg := fun q => q.map fun a => ⟨N.neg a.val, a.k, a.dims⟩
  bin := numBin N
  pre := fun _ => none

/-- `result.value(in_units)` : magnitude in the requested unit (factor `k`, dimensions `dims`). -/
def valueIn (N : NumOps F) (q : Quant F) (k : F) (dims : Dims) : Option F := convTo N q k dims

/-- prefix sign: `CustomOperatorSub.operate_unary` negates, `CustomOperatorAdd.operate_unary` keeps -/
def numPreSem (N : NumOps F) (u : String) (q : QV F) : QV F :=
  if u = "sub" then (numSem N).neg q else q

/-- The numerical grammar: a prefix sign binds tightest (level 1, the sign-folding step), then
    `**` (2), `* /` (3), `+ -` (4) — the order of the step table. -/
def numGrammar : Grammar where
  lvl := fun o => if o = "pow" then 2 else if o = "mul" ∨ o = "truediv" then 3
    else if o = "add" ∨ o = "sub" then 4 else 0
  lvlPre := fun _ => 1
  okBin := fun o => o = "pow" || o = "mul" || o = "truediv" || o = "add" || o = "sub"
  okPre := fun u => u = "add" || u = "sub"
  okFn1 := fun f => f = "exp" || f = "log" || f = "log10" || f = "sqrt" || f = "sin" || f = "cos" || f = "tan"
  okFn2 := fun f => f = "logb" || f = "powb"

/-! ### Specification: arithmetic on SI values -/

/-- value in SI base units with its dimensions -/
structure SQ (F : Type) where
  si : F
  dims : Dims

def Quant.toSI (N : NumOps F) (q : Quant F) : SQ F := ⟨N.mul q.val q.k, q.dims⟩

def siBin (N : NumOps F) (o : String) (a b : Option (SQ F)) : Option (SQ F) :=
  match a, b with
  | some a, some b =>
    if o = "add" then (if a.dims = b.dims then some ⟨N.add a.si b.si, a.dims⟩ else none)
    else if o = "sub" then (if a.dims = b.dims then some ⟨N.sub a.si b.si, a.dims⟩ else none)
    else if o = "mul" then some ⟨N.mul a.si b.si, a.dims.add b.dims⟩
    else if o = "truediv" then some ⟨N.div a.si b.si, a.dims.sub b.dims⟩
    else if o = "pow" then
      (if b.dims.nodim then
        match N.toInt b.si with
        | some n => some ⟨N.pow a.si b.si, a.dims.scale n⟩
        | none => none
      else none)
    else none
  | _, _ => none

/-- documented functions on SI values: dimensionless arguments except `sqrt` and the base of `pow`;
    trigonometric functions take a plain number or an angle (SI value = radians) -/
def siFn (N : NumOps F) : String → List (Option (SQ F)) → Option (SQ F)
  | "par", [some a] => some a
  | "exp", [some a] => if a.dims.nodim then some ⟨N.exp a.si, Dims.zero⟩ else none
  | "log", [some a] => if a.dims.nodim then some ⟨N.log a.si, Dims.zero⟩ else none
  | "log10", [some a] => if a.dims.nodim then some ⟨N.log10 a.si, Dims.zero⟩ else none
  | "sqrt", [some a] => some ⟨N.sqrt a.si, a.dims.scale (1/2)⟩
  | "sin", [some a] => if a.dims.nodim ∨ a.dims = Dims.angle then some ⟨N.sin a.si, Dims.zero⟩ else none
  | "cos", [some a] => if a.dims.nodim ∨ a.dims = Dims.angle then some ⟨N.cos a.si, Dims.zero⟩ else none
  | "tan", [some a] => if a.dims.nodim ∨ a.dims = Dims.angle then some ⟨N.tan a.si, Dims.zero⟩ else none
  | "logb", [some a, some b] =>
      if a.dims.nodim ∧ b.dims.nodim then some ⟨N.div (N.log a.si) (N.log b.si), Dims.zero⟩ else none
  | "powb", [some a, some b] =>
      if b.dims.nodim then
        match N.toInt b.si with
        | some n => some ⟨N.pow a.si b.si, a.dims.scale n⟩
        | none => none
      else none
  | _, _ => none

/-- Specification evaluator: the tree evaluated on SI values (`× ÷` before `+ −` and left to
    right is the *shape* of the tree, see `E.WF`). -/
def evalSI (N : NumOps F) (av : A → Option (SQ F)) : E A → Option (SQ F)
  | .lit a => av a
  | .par e => siFn N "par" [evalSI N av e]
  | .fn1 f a => siFn N f [evalSI N av a]
  | .fn2 f a b => siFn N f [evalSI N av a, evalSI N av b]
  | .pre u e => if u = "sub" then (evalSI N av e).map fun a => ⟨N.neg a.si, a.dims⟩
      else if u = "add" then evalSI N av e else none
  | .bin o l r => siBin N o (evalSI N av l) (evalSI N av r)

/-- the result expressed in the requested unit -/
def siValueIn (N : NumOps F) (q : SQ F) (k : F) (dims : Dims) : Option F :=
  if q.dims = dims then some (N.div q.si k) else none

end SciVerif.C18
