/-!
# C15 — model of DIP branching (`@case` / `@else` / `@end`)

Mirrors, statement by statement, the code of `/repo/src/scinumtools/dip`
(after the `fix:` commits bc26006, d6c5e92, 62d4beb):

* `lists/list_hierarchy.py`  `HierarchyList.register`        → `popGE`, `register`, `fullName`
* `nodes/node_case.py`       `CaseNode.parse`                → the `@N` numbering in `step`
* `nodes/node_base.py`       `BaseNode.clean_name`           → `cleanName`
* `lists/list_branching.py`  `false_case`                    → `falseBranch`, `falseCase`
                             `close_cases`                   → `closeGE`
                             `solve_case` (closing loop)     → `closeFor`
                             `solve_case` (rest), `_open_branch`, `_switch_case`, `_close_branch`
                                                             → `solveCase`
                             `prepare_node`                  → second `closeGE` in `step`
* `dip.py` `DIP.parse` loop, in its order of tests           → `step`, `run`

Representation choices (the only places where the model is not literal):
* a hierarchical name `"g.@3.a"` is the list of its dot-separated components
  `[nm "g", cs 3, nm "a"]`; written names are single plain identifiers (no dots,
  no compact `plant.@case` form) — the generators only produce those;
* Python lists used as stacks (`parents`, `state`, `Branch.cases`) are Lean lists
  with the *top at the head*;
* `state` holds branch ids and `branches`/`cases` are dicts keyed by id; an id on
  `state` is unique and only the branch on top is ever mutated, closed branches
  are never read again by `parse`, so the model stores the `Branch` record (with
  its `Case` records) directly on the stack.  `Branch.cases` is never empty:
  `cur` is `cases[-1]`, `earlier` the rest, most recent first;
* the docs-only bookkeeping of `prepare_node` (`Branch.nodes`, `node.branch_id`)
  is not observable through `env.data()` and is left out.

No Mathlib import: this file is compiled into `drv_c15`.
-/
namespace SciVerif.C15

/-- One dot-separated component of a hierarchical node name. -/
inductive Comp where
  | nm (s : String)   -- a written name
  | cs (n : Nat)      -- `@N`, the name `CaseNode.parse` gives to the N-th clause line
  deriving DecidableEq, Repr, Inhabited

/-- `Case.case_type` of the clauses that get stored (`@end` never is). -/
inductive CType where
  | case | els
  deriving DecidableEq, Repr, Inhabited

/-- `list_branching.Case` (fields read by `parse`). -/
structure Case where
  path : List Comp     -- components in front of the clause's own `@N`
  indent : Nat
  value : Bool
  ctype : CType
  id : Nat
  deriving DecidableEq, Repr, Inhabited

/-- `list_branching.Branch` (`cases`, never empty). -/
structure Branch where
  id : Nat
  cur : Case
  earlier : List Case
  deriving DecidableEq, Repr, Inhabited

/-- What a source line is, after the lexer. -/
inductive Kw where
  | node (isMod : Bool) (v : Int)   -- `name int = v`  /  `name = v`
  | group                            -- `name`
  | case (c : Bool)                  -- `@case true` / `@case false`
  | els                              -- `@else`
  | fin                              -- `@end`
  deriving DecidableEq, Repr, Inhabited

structure Line where
  indent : Nat
  name : String      -- written name (unused for clause lines)
  kw : Kw
  deriving DecidableEq, Repr, Inhabited

/-- A node line that took effect: cleaned hierarchical name, kind, value. -/
structure Eff where
  name : List String
  isMod : Bool
  v : Int
  deriving DecidableEq, Repr, Inhabited

/-- Parser state: `HierarchyList.parents` and `BranchingList`. -/
structure St where
  parents : List (Nat × Comp)
  state : List Branch
  numCases : Nat
  numBranches : Nat
  deriving Repr, Inhabited

def St.init : St := ⟨[], [], 0, 0⟩

/-! ## list_hierarchy.py -/

/-- `while self.parents and node.indent<=self.parents[-1].indent: self.parents.pop()` -/
def popGE (k : Nat) : List (Nat × Comp) → List (Nat × Comp)
  | [] => []
  | p :: ps => if k ≤ p.1 then popGE k ps else p :: ps

/-- `HierarchyList.register` -/
def register (ps : List (Nat × Comp)) (indent : Nat) (c : Comp) : List (Nat × Comp) :=
  (indent, c) :: popGE indent ps

/-- `Sign.SEPARATOR.join([parent.name for parent in self.parents])` as a component list. -/
def fullName (ps : List (Nat × Comp)) : List Comp := (ps.map Prod.snd).reverse

/-- `BaseNode.clean_name`: `re.sub("@[0-9]+\.", "", name)`. -/
def cleanName (cs : List Comp) : List String :=
  cs.filterMap (fun c => match c with | .nm s => some s | .cs _ => none)

/-! ## list_branching.py -/

/-- One iteration of the loop in `false_case`:
    `num_true!=1 or self.cases[case].value == False`. -/
def falseBranch (b : Branch) : Bool :=
  ((b.cur :: b.earlier).countP (fun c => c.value) != 1) || (b.cur.value == false)

/-- `BranchingList.false_case` -/
def falseCase (st : List Branch) : Bool := st.any falseBranch

/-- `BranchingList.close_cases`:
    `while self.state and node.indent<=self.cases[self._get_case_id()].indent: self._close_branch()` -/
def closeGE (k : Nat) : List Branch → List Branch
  | [] => []
  | b :: bs => if k ≤ b.cur.indent then closeGE k bs else b :: bs

/-- The closing loop of `solve_case`; returns the remaining stack and `same_branch`. -/
def closeFor (k : Nat) (path : List Comp) : List Branch → List Branch × Bool
  | [] => ([], false)
  | b :: bs =>
    if b.cur.indent < k then (b :: bs, false)
    else if b.cur.indent = k ∧ b.cur.path = path then (b :: bs, true)
    else closeFor k path bs

/-- `case_old.case_type==Keyword.ELSE` for the branch on top. -/
def topIsElse : List Branch → Bool
  | b :: _ => b.cur.ctype == .els
  | [] => false

/-- `_switch_case` followed by the `Case(...)` assignment (raises on an empty state). -/
def switchCase (st : List Branch) (c : Case) : Except Unit (List Branch) :=
  match st with
  | b :: bs => .ok ({ b with cur := c, earlier := b.cur :: b.earlier } :: bs)
  | [] => .error ()

/-- `solve_case` for a clause line already renamed to `…@n` and registered in the
    hierarchy (`ps`); `s.numCases = n`. -/
def solveCase (s : St) (ps : List (Nat × Comp)) (indent : Nat) (kw : Kw) : Except Unit St :=
  let pathNew := (fullName ps).dropLast
  let r := closeFor indent pathNew s.state
  let st1 := r.1
  let same := r.2
  let afterElse := same && topIsElse st1
  match kw with
  | .case c =>
    if afterElse then .error ()
    else
      let cs : Case := ⟨pathNew, indent, c, .case, s.numCases⟩
      if same then
        match switchCase st1 cs with
        | .ok st2 => .ok { s with parents := ps, state := st2 }
        | .error e => .error e
      else
        .ok { s with parents := ps, numBranches := s.numBranches + 1,
                     state := ⟨s.numBranches + 1, cs, []⟩ :: st1 }
  | .els =>
    if same && !afterElse then
      let cs : Case := ⟨pathNew, indent, true, .els, s.numCases⟩
      match switchCase st1 cs with
      | .ok st2 => .ok { s with parents := ps, state := st2 }
      | .error e => .error e
    else .error ()
  | .fin =>
    if same then .ok { s with parents := ps, state := st1.tail }
    else .error ()
  | _ => .error ()

/-! ## dip.py — one iteration of the loop of `DIP.parse` -/

def step (s : St) (l : Line) : Except Unit (St × List Eff) :=
  match l.kw with
  | .group =>
    -- close_cases; skip test / parse (nothing to do); hierarchy.register; `continue`
    let st1 := closeGE l.indent s.state
    let ps := register s.parents l.indent (.nm l.name)
    .ok ({ s with parents := ps, state := st1 }, [])
  | .node m v =>
    -- close_cases; skip test / parse (nothing to do); hierarchy.register
    let st1 := closeGE l.indent s.state
    let ps := register s.parents l.indent (.nm l.name)
    -- second skip test
    if falseCase st1 then .ok ({ s with parents := ps, state := st1 }, [])
    else
      -- prepare_node (closes again), clean_name, define-or-modify
      let st2 := closeGE l.indent st1
      .ok ({ s with parents := ps, state := st2 }, [⟨cleanName (fullName ps), m, v⟩])
  | kw =>
    -- clause lines are parsed whatever the skip test says: CaseNode.parse numbers them
    let n := s.numCases + 1
    let ps := register s.parents l.indent (.cs n)
    match solveCase { s with numCases := n } ps l.indent kw with
    | .ok s' => .ok (s', [])
    | .error e => .error e

def run (s : St) : List Line → Except Unit (St × List Eff)
  | [] => .ok (s, [])
  | l :: ls =>
    match step s l with
    | .error e => .error e
    | .ok (s1, o1) =>
      match run s1 ls with
      | .error e => .error e
      | .ok (s2, o2) => .ok (s2, o1 ++ o2)

/-- The node lines that take effect, in order, or an error. -/
def parse (ls : List Line) : Except Unit (List Eff) :=
  match run St.init ls with
  | .ok (_, o) => .ok o
  | .error e => .error e

/-- Define-or-modify of `DIP.parse` on the effective lines (ints only): a definition of
    an existing name and a modification both replace the value in place; modifying an
    undefined node raises.  Used identically on the model's and the specification's
    effect list; result in definition order like `env.data()`. -/
def applyEffs (acc : List (List String × Int)) : List Eff → Except Unit (List (List String × Int))
  | [] => .ok acc
  | e :: es =>
    if acc.any (fun p => p.1 == e.name) then
      applyEffs (acc.map (fun p => if p.1 == e.name then (p.1, e.v) else p)) es
    else if e.isMod then .error ()
    else applyEffs (acc ++ [(e.name, e.v)]) es

/-! ## Specification: programs as trees -/

mutual
  /-- `extra` = how much deeper than the minimum (keyword indent + 1) the children are
      written: the indentation oracle. -/
  inductive Item where
    | node (name : String) (isMod : Bool) (v : Int)
    | group (name : String) (extra : Nat) (body : Items)
    | block (c : Bool) (extra : Nat) (body : Items) (more : Chain)
  inductive Items where
    | nil
    | cons (i : Item) (rest : Items)
  /-- The rest of a block after a clause. -/
  inductive Chain where
    | case (c : Bool) (extra : Nat) (body : Items) (more : Chain)
    | els (extra : Nat) (body : Items) (explicitEnd : Bool)
    | fin (explicitEnd : Bool)
end

/-- Does the item sequence start with a clause line? -/
def Items.startsCase : Items → Bool
  | .cons (.block ..) _ => true
  | _ => false

def endLine (k : Nat) (b : Bool) : List Line := if b then [⟨k, "", .fin⟩] else []

mutual
  /-- Rendering at indent `k`. `forceEnd`: the block is directly followed by a sibling
      block, so (as the documentation requires) it gets an `@end` even if not asked for. -/
  def Item.render (k : Nat) (forceEnd : Bool) : Item → List Line
    | .node n m v => [⟨k, n, .node m v⟩]
    | .group n e body => ⟨k, n, .group⟩ :: body.render (k + 1 + e)
    | .block c e body more => ⟨k, "", .case c⟩ :: (body.render (k + 1 + e) ++ more.render k forceEnd)
  def Items.render (k : Nat) : Items → List Line
    | .nil => []
    | .cons i rest => i.render k rest.startsCase ++ rest.render k
  def Chain.render (k : Nat) (forceEnd : Bool) : Chain → List Line
    | .case c e body more => ⟨k, "", .case c⟩ :: (body.render (k + 1 + e) ++ more.render k forceEnd)
    | .els e body ee => ⟨k, "", .els⟩ :: (body.render (k + 1 + e) ++ endLine k (ee || forceEnd))
    | .fin ee => endLine k (ee || forceEnd)
end

mutual
  /-- The effective node lines of a program: a block contributes the items of its first
      true clause, else of `@else`, else nothing. `pre` = names of the enclosing groups. -/
  def Item.sem (pre : List String) : Item → List Eff
    | .node n m v => [⟨pre ++ [n], m, v⟩]
    | .group n _ body => body.sem (pre ++ [n])
    | .block c _ body more => if c then body.sem pre else more.sem pre
  def Items.sem (pre : List String) : Items → List Eff
    | .nil => []
    | .cons i rest => i.sem pre ++ rest.sem pre
  def Chain.sem (pre : List String) : Chain → List Eff
    | .case c _ body more => if c then body.sem pre else more.sem pre
    | .els _ body _ => body.sem pre
    | .fin _ => []
end

mutual
  /-- Every node occurrence of a program (selected or not) together with, for each enclosing
      clause (innermost first), whether that clause is the selected one of its block: the first
      true `@case`, or `@else` when no `@case` is true.  `done` = an earlier clause of the block
      is true. -/
  def Item.occ (pre : List String) (sel : List Bool) : Item → List (List Bool × Eff)
    | .node n m v => [(sel, ⟨pre ++ [n], m, v⟩)]
    | .group n _ body => body.occ (pre ++ [n]) sel
    | .block c _ body more => body.occ pre (c :: sel) ++ more.occ pre sel c
  def Items.occ (pre : List String) (sel : List Bool) : Items → List (List Bool × Eff)
    | .nil => []
    | .cons i rest => i.occ pre sel ++ rest.occ pre sel
  def Chain.occ (pre : List String) (sel : List Bool) (done : Bool) : Chain → List (List Bool × Eff)
    | .case c _ body more => body.occ pre ((c && !done) :: sel) ++ more.occ pre sel (done || c)
    | .els _ body _ => body.occ pre ((!done) :: sel)
    | .fin _ => []
end

/-- The occurrences all of whose enclosing clauses are selected. -/
def selectedOnly (l : List (List Bool × Eff)) : List Eff :=
  (l.filter (fun x => x.1.all id)).map (fun x => x.2)

def Items.append : Items → Items → Items
  | .nil, b => b
  | .cons i r, b => .cons i (r.append b)

/-! ## Specification of "misplaced" on raw line sequences -/

/-- The latest of the lines `before` (given in source order) indented no deeper than `k`. -/
def lastAtMost (k : Nat) (before : List Line) : Option Line :=
  before.reverse.find? (fun l => l.indent ≤ k)

/-- The clause (if any) that is open at indent `k` after the lines `before`: the latest
    line indented no deeper than `k` is a `@case`/`@else` written at exactly `k`. -/
def specOpenAt (k : Nat) (before : List Line) : Option CType :=
  match lastAtMost k before with
  | some j =>
    if j.indent = k then
      match j.kw with
      | .case _ => some .case
      | .els => some .els
      | _ => none
    else none
  | none => none

/-- `@else` needs an open `@case` clause at its indent, `@end` an open `@case`/`@else`;
    a `@case` must not continue an `@else` (nothing but `@end` can follow `@else`). -/
def misplacedAt (before : List Line) (l : Line) : Bool :=
  match l.kw with
  | .els => specOpenAt l.indent before != some .case
  | .fin => specOpenAt l.indent before == none
  | .case _ => specOpenAt l.indent before == some .els
  | _ => false

/-- Some clause line of the sequence is misplaced. -/
def misplacedFrom (before : List Line) : List Line → Bool
  | [] => false
  | l :: ls => misplacedAt before l || misplacedFrom (before ++ [l]) ls

def misplaced (ls : List Line) : Bool := misplacedFrom [] ls

end SciVerif.C15
