/-!
# C15 — model of DIP branching (`@case` / `@else` / `@end`)

Mirrors, statement by statement, the code of `/repo/src/scinumtools/dip`
(after the `fix:` commits bc26006, d6c5e92, 62d4beb, f476bb7, 790a797, c1e6ecd, 445f434):

* `lists/list_hierarchy.py`  `HierarchyList.register`        → `popGE`, `register`, `fullName`
* `nodes/node_case.py`       `CaseNode.parse`                → the `@N` numbering in `step`
* `nodes/node_base.py`       `BaseNode.clean_name`           → `cleanName`
* `nodes/node_constant.py`, `node_tags.py` `parse`           → `Eff.prop`, applied in `applyEffs`
* `lists/list_branching.py`  `false_case`                    → `falseBranch`, `falseCase`
                             `false_case(indent)`            → `falseCase (closeGE indent ·)`
                             `close_cases`                   → `closeGE`
                             `solve_case` (closing loop)     → `closeFor`
                             `solve_case` (rest), `_open_branch`, `_switch_case`, `_close_branch`
                                                             → `solveCase`
                             `prepare_node`                  → second `closeGE` in `step`
* `dip.py` `DIP.parse` loop, in its order of tests           → `step`, `run`

Representation choices (the only places where the model is not literal):
* a hierarchical name `"g.@3.a"` is the list of its dot-separated components
  `[nm "g", cs 3, nm "a"]`; a written name is the list of its dot-separated parts
  (`engine.@case` has the parts `["engine"]` in front of its `@`), each part a plain
  identifier; a `Parent` of the hierarchy holds the components of one written name;
* Python lists used as stacks (`parents`, `state`, `Branch.cases`) are Lean lists
  with the *top at the head*;
* `state` holds branch ids and `branches`/`cases` are dicts keyed by id; an id on
  `state` is unique and only the branch on top is ever mutated, closed branches
  are never read again by `parse`, so the model stores the `Branch` record (with
  its `Case` records) directly on the stack.  `Branch.cases` is never empty:
  `cur` is `cases[-1]`, `earlier` the rest, most recent first;
* the docs-only bookkeeping of `prepare_node` (`Branch.nodes`, `node.branch_id`)
  is not observable through `env.data()` and is left out.

No Mathlib import: this file is compiled into `drv_c15`.
-/
namespace SciVerif.C15

/-- One dot-separated component of a hierarchical node name. -/
inductive Comp where
  | nm (s : String)   -- a written name
  | cs (n : Nat)      -- `@N`, the name `CaseNode.parse` gives to the N-th clause line
  deriving DecidableEq, Repr, Inhabited

/-- `Case.case_type` of the clauses that get stored (`@end` never is). -/
inductive CType where
  | case | els
  deriving DecidableEq, Repr, Inhabited

/-- `list_branching.Case` (fields read by `parse`). -/
structure Case where
  path : List Comp     -- components in front of the clause's own `@N`
  indent : Nat
  value : Bool
  ctype : CType
  id : Nat
  deriving DecidableEq, Repr, Inhabited

/-- `list_branching.Branch` (`cases`, never empty). -/
structure Branch where
  id : Nat
  cur : Case
  earlier : List Case
  deriving DecidableEq, Repr, Inhabited

/-- Property lines used here: `!constant` and `!tags ["t"]`. -/
inductive PKind where
  | constant
  | tags (t : String)
  deriving DecidableEq, Repr, Inhabited

/-- What a source line is, after the lexer. -/
inductive Kw where
  | node (isMod : Bool) (v : Int)   -- `name int = v`  /  `name = v`
  | group                            -- `name`
  | prop (p : PKind)                 -- `!constant` / `!tags ["t"]`
  | imp (nd : Option String)         -- `{?src.*}` (none) / `{?src.n}` (some n); `name` = parts of src
  | unit (broken : Bool)             -- `$unit name = 2 m` / `$unit name = 2 zzz` (cannot be defined)
  | case (c : Bool)                  -- `[parts.]@case true` / `[parts.]@case false`
  | els                              -- `[parts.]@else`
  | fin                              -- `[parts.]@end`
  deriving DecidableEq, Repr, Inhabited

structure Line where
  indent : Nat
  name : List String   -- dot-separated parts of the written name (clause lines: the parts
                       -- in front of `@`; property lines: unused)
  kw : Kw
  deriving DecidableEq, Repr, Inhabited

/-- A line that took effect: a node line (cleaned hierarchical name, kind, value) or a
    property line (which `parse` applies to `env.nodes[-1]`). -/
inductive Eff where
  | node (name : List String) (isMod : Bool) (v : Int)
  | prop (p : PKind)
  | imp (pre src : List String) (nd : Option String)   -- import of `src.*` / `src.nd` below `pre`
  | fail                                               -- a directive that cannot be carried out
  deriving DecidableEq, Repr, Inhabited

/-- Parser state: `HierarchyList.parents` and `BranchingList`. -/
structure St where
  parents : List (Nat × List Comp)
  state : List Branch
  numCases : Nat
  numBranches : Nat
  deriving Repr, Inhabited

def St.init : St := ⟨[], [], 0, 0⟩

/-! ## list_hierarchy.py -/

/-- `while self.parents and node.indent<=self.parents[-1].indent: self.parents.pop()` -/
def popGE (k : Nat) : List (Nat × List Comp) → List (Nat × List Comp)
  | [] => []
  | p :: ps => if k ≤ p.1 then popGE k ps else p :: ps

/-- `HierarchyList.register` -/
def register (ps : List (Nat × List Comp)) (indent : Nat) (c : List Comp) : List (Nat × List Comp) :=
  (indent, c) :: popGE indent ps

/-- `Sign.SEPARATOR.join([parent.name for parent in self.parents])` as a component list. -/
def fullName (ps : List (Nat × List Comp)) : List Comp := ((ps.map Prod.snd).reverse).flatten

/-- The components of a written name. -/
def nms (parts : List String) : List Comp := parts.map Comp.nm

/-- `BaseNode.clean_name`: `re.sub("@[0-9]+\.", "", name)`. -/
def cleanName (cs : List Comp) : List String :=
  cs.filterMap (fun c => match c with | .nm s => some s | .cs _ => none)

/-! ## list_branching.py -/

/-- One iteration of the loop in `false_case`:
    `num_true!=1 or self.cases[case].value == False`. -/
def falseBranch (b : Branch) : Bool :=
  ((b.cur :: b.earlier).countP (fun c => c.value) != 1) || (b.cur.value == false)

/-- `BranchingList.false_case` -/
def falseCase (st : List Branch) : Bool := st.any falseBranch

/-- `BranchingList.close_cases`:
    `while self.state and node.indent<=self.cases[self._get_case_id()].indent: self._close_branch()` -/
def closeGE (k : Nat) : List Branch → List Branch
  | [] => []
  | b :: bs => if k ≤ b.cur.indent then closeGE k bs else b :: bs

/-- The closing loop of `solve_case`; returns the remaining stack and `same_branch`. -/
def closeFor (k : Nat) (path : List Comp) : List Branch → List Branch × Bool
  | [] => ([], false)
  | b :: bs =>
    if b.cur.indent < k then (b :: bs, false)
    else if b.cur.indent = k ∧ b.cur.path = path then (b :: bs, true)
    else closeFor k path bs

/-- `case_old.case_type==Keyword.ELSE` for the branch on top. -/
def topIsElse : List Branch → Bool
  | b :: _ => b.cur.ctype == .els
  | [] => false

/-- `_switch_case` followed by the `Case(...)` assignment (raises on an empty state). -/
def switchCase (st : List Branch) (c : Case) : Except Unit (List Branch) :=
  match st with
  | b :: bs => .ok ({ b with cur := c, earlier := b.cur :: b.earlier } :: bs)
  | [] => .error ()

/-- `solve_case` for a clause line already renamed to `…@n` and registered in the
    hierarchy (`ps`); `s.numCases = n`. -/
def solveCase (s : St) (ps : List (Nat × List Comp)) (indent : Nat) (kw : Kw) : Except Unit St :=
  let pathNew := (fullName ps).dropLast
  let r := closeFor indent pathNew s.state
  let st1 := r.1
  let same := r.2
  let afterElse := same && topIsElse st1
  match kw with
  | .case c =>
    if afterElse then .error ()
    else
      let cs : Case := ⟨pathNew, indent, c, .case, s.numCases⟩
      if same then
        match switchCase st1 cs with
        | .ok st2 => .ok { s with parents := ps, state := st2 }
        | .error e => .error e
      else
        .ok { s with parents := ps, numBranches := s.numBranches + 1,
                     state := ⟨s.numBranches + 1, cs, []⟩ :: st1 }
  | .els =>
    if same && !afterElse then
      let cs : Case := ⟨pathNew, indent, true, .els, s.numCases⟩
      match switchCase st1 cs with
      | .ok st2 => .ok { s with parents := ps, state := st2 }
      | .error e => .error e
    else .error ()
  | .fin =>
    if same then .ok { s with parents := ps, state := st1.tail }
    else .error ()
  | _ => .error ()

/-! ## dip.py — one iteration of the loop of `DIP.parse` -/

def step (s : St) (l : Line) : Except Unit (St × List Eff) :=
  match l.kw with
  | .prop p =>
    -- close_cases (properties are not in the hierarchy but end cases at their indent);
    -- skip test; `parse` applies the property to `env.nodes[-1]`; `continue`
    let st1 := closeGE l.indent s.state
    .ok ({ s with state := st1 }, if falseCase st1 then [] else [.prop p])
  | .unit broken =>
    -- close_cases (directives end cases at their indent); skip test; `UnitNode.parse` defines the
    -- unit (raises if it cannot); not in the hierarchy; `continue`
    let st1 := closeGE l.indent s.state
    .ok ({ s with state := st1 }, if falseCase st1 || !broken then [] else [.fail])
  | .imp nd =>
    -- close_cases; skip test: an unselected import line is not parsed, it is registered in the
    -- hierarchy and skipped.  Otherwise `ImportNode.parse` requests the nodes and puts copies with
    -- the indent of the import line back into the queue; each passes the loop like a node line
    -- (nothing left to close, hierarchy.register, prepare_node, define-or-modify).  The entry the
    -- import line resp. the last imported node leaves in the hierarchy is represented by a
    -- placeholder: only lines deeper than the import line could observe it.
    let st1 := closeGE l.indent s.state
    let ps := register s.parents l.indent [.nm "{import}"]
    .ok ({ s with parents := ps, state := st1 },
      if falseCase st1 then [] else [.imp (cleanName (fullName (popGE l.indent s.parents))) l.name nd])
  | .group =>
    -- close_cases; skip test / parse (nothing to do); hierarchy.register; `continue`
    let st1 := closeGE l.indent s.state
    let ps := register s.parents l.indent (nms l.name)
    .ok ({ s with parents := ps, state := st1 }, [])
  | .node m v =>
    -- close_cases; skip test / parse (nothing to do); hierarchy.register
    let st1 := closeGE l.indent s.state
    let ps := register s.parents l.indent (nms l.name)
    -- second skip test
    if falseCase st1 then .ok ({ s with parents := ps, state := st1 }, [])
    else
      -- prepare_node (closes again), clean_name, define-or-modify
      let st2 := closeGE l.indent st1
      .ok ({ s with parents := ps, state := st2 }, [.node (cleanName (fullName ps)) m v])
  | kw =>
    -- clause lines are parsed whatever the skip test says: CaseNode.parse numbers them and
    -- evaluates a `@case` condition unless an enclosing case is unselected (false_case(indent))
    let n := s.numCases + 1
    let kw' := match kw with
      | .case c => Kw.case (c && !falseCase (closeGE l.indent s.state))
      | k => k
    let ps := register s.parents l.indent (nms l.name ++ [.cs n])
    match solveCase { s with numCases := n } ps l.indent kw' with
    | .ok s' => .ok (s', [])
    | .error e => .error e

def run (s : St) : List Line → Except Unit (St × List Eff)
  | [] => .ok (s, [])
  | l :: ls =>
    match step s l with
    | .error e => .error e
    | .ok (s1, o1) =>
      match run s1 ls with
      | .error e => .error e
      | .ok (s2, o2) => .ok (s2, o1 ++ o2)

/-- The node lines that take effect, in order, or an error. -/
def parse (ls : List Line) : Except Unit (List Eff) :=
  match run St.init ls with
  | .ok (_, o) => .ok o
  | .error e => .error e

/-- The end of the code closes all open cases (fix 445f434); hierarchy and counters stay in the
    returned environment. -/
def St.finish (s : St) : St := { s with state := [] }

/-- `DIP(env).parse()`: the parse works on a copy of the environment's state. -/
def parseFrom (s : St) (ls : List Line) : Except Unit (St × List Eff) :=
  match run s ls with
  | .ok (s', o) => .ok (s'.finish, o)
  | .error e => .error e

/-- Several codes parsed one after the other, each on the environment the previous returned. -/
def parseChain (s : St) : List (List Line) → Except Unit (List (List Eff))
  | [] => .ok []
  | t :: ts =>
    match parseFrom s t with
    | .error e => .error e
    | .ok (s', o) =>
      match parseChain s' ts with
      | .ok os => .ok (o :: os)
      | .error e => .error e

/-- One entry of `env.nodes`: name, value, `constant`, `tags`. -/
structure NodeRec where
  name : List String
  v : Int
  constant : Bool
  tags : List String
  deriving DecidableEq, Repr, Inhabited

def applyProp (p : PKind) (r : NodeRec) : NodeRec :=
  match p with
  | .constant => { r with constant := true }
  | .tags t => { r with tags := r.tags ++ [t] }

/-- Define-or-modify: a node line whose name exists replaces the value in place unless the
    node is constant (raises); otherwise a modification raises and a definition is appended
    (`constant`/`tags` given for imported copies). -/
def defineRec (acc : List NodeRec) (name : List String) (m : Bool) (v : Int) (cst : Bool)
    (tags : List String) : Except Unit (List NodeRec) :=
  if acc.any (fun r => r.name == name) then
    if acc.any (fun r => r.name == name && r.constant) then .error ()
    else .ok (acc.map (fun r => if r.name == name then { r with v := v } else r))
  else if m then .error ()
  else .ok (acc ++ [⟨name, v, cst, tags⟩])

/-- The nodes an import line requests (`env.request`), with the part of the name that is kept. -/
def importMatches (acc : List NodeRec) (src : List String) (nd : Option String) : List (List String × NodeRec) :=
  match nd with
  | none => (acc.filter (fun r => src.isPrefixOf r.name && src.length < r.name.length)).map
      (fun r => (r.name.drop src.length, r))
  | some n => (acc.filter (fun r => r.name == src ++ [n])).map (fun r => ([n], r))

def defineAll (acc : List NodeRec) (pre : List String) : List (List String × NodeRec) → Except Unit (List NodeRec)
  | [] => .ok acc
  | (rest, r) :: ms =>
    match defineRec acc (pre ++ rest) false r.v r.constant r.tags with
    | .ok acc' => defineAll acc' pre ms
    | .error e => .error e

/-- What `DIP.parse` does with the effective lines (ints only).  Node lines: define-or-modify.
    A property line is applied to the last entry (`env.nodes[-1]`, raises on an empty list).  An
    import defines copies of the requested nodes (raises if there are none).  Used identically on
    the model's and the specification's effect list; result in `env.nodes` order. -/
def applyEffs (acc : List NodeRec) : List Eff → Except Unit (List NodeRec)
  | [] => .ok acc
  | .node name m v :: es =>
    match defineRec acc name m v false [] with
    | .ok acc' => applyEffs acc' es
    | .error e => .error e
  | .prop p :: es =>
    match acc.reverse with
    | [] => .error ()
    | last :: rest => applyEffs ((applyProp p last :: rest).reverse) es
  | .imp pre src nd :: es =>
    match importMatches acc src nd with
    | [] => .error ()
    | ms =>
      match defineAll acc pre ms with
      | .ok acc' => applyEffs acc' es
      | .error e => .error e
  | .fail :: _ => .error ()

/-! ## Specification: programs as trees -/

mutual
  /-- `extra` = how much deeper than the minimum (keyword indent + 1) the children are
      written: the indentation oracle.  A node carries the property lines written below it
      (each with its own extra indent); `prop` is a property line written at the level of the
      sequence (e.g. directly after a block); `imp` an import line `{?src.*}` / `{?src.n}`;
      `unit` a `$unit` directive (`broken`: one that cannot be carried out).  `pfx` = the dotted parent written in front of
      every clause keyword of the block (`engine.@case …`, compact form; `[]` = plain form).
      `trailer`: lines written after an explicit `@end` but indented deeper than it (`te` = how
      much deeper than the minimum): they are outside the block; in the hierarchy they hang below
      the `@end` line, whose `@N` is cleaned from their names. -/
  inductive Item where
    | node (name : String) (isMod : Bool) (v : Int) (props : List (Nat × PKind))
    | prop (p : PKind)
    | imp (src : List String) (nd : Option String)
    | unit (name : String) (broken : Bool)
    | group (name : String) (extra : Nat) (body : Items)
    | block (pfx : List String) (c : Bool) (extra : Nat) (body : Items) (more : Chain)
  inductive Items where
    | nil
    | cons (i : Item) (rest : Items)
  /-- The rest of a block after a clause. -/
  inductive Chain where
    | case (c : Bool) (extra : Nat) (body : Items) (more : Chain)
    | els (extra : Nat) (body : Items) (explicitEnd : Bool) (te : Nat) (trailer : Items)
    | fin (explicitEnd : Bool) (te : Nat) (trailer : Items)
end

/-- The prefix of the block an item is (if it is one). -/
def Item.blockPfx : Item → Option (List String)
  | .block pfx .. => some pfx
  | _ => none

/-- The prefix of the block an item sequence starts with (if it starts with one). -/
def Items.firstPfx : Items → Option (List String)
  | .cons i _ => i.blockPfx
  | .nil => none

/-- A block directly followed by a block with the same parent needs `@end`. -/
def needsEnd (a b : Option (List String)) : Bool :=
  match a, b with
  | some x, some y => x == y
  | _, _ => false

def endLine (k : Nat) (pfx : List String) (b : Bool) : List Line := if b then [⟨k, pfx, .fin⟩] else []

def propLines (k : Nat) (props : List (Nat × PKind)) : List Line :=
  props.map (fun ep => ⟨k + 1 + ep.1, [], .prop ep.2⟩)

mutual
  /-- Rendering at indent `k`. `forceEnd`: the block is directly followed by a sibling block
      with the same parent, so (as the documentation requires) it gets an `@end` even if not
      asked for. -/
  def Item.render (k : Nat) (forceEnd : Bool) : Item → List Line
    | .node n m v props => ⟨k, [n], .node m v⟩ :: propLines k props
    | .prop p => [⟨k, [], .prop p⟩]
    | .imp src nd => [⟨k, src, .imp nd⟩]
    | .unit n b => [⟨k, [n], .unit b⟩]
    | .group n e body => ⟨k, [n], .group⟩ :: body.render (k + 1 + e)
    | .block pfx c e body more =>
      ⟨k, pfx, .case c⟩ :: (body.render (k + 1 + e) ++ more.render k pfx forceEnd)
  def Items.render (k : Nat) : Items → List Line
    | .nil => []
    | .cons i rest => i.render k (needsEnd i.blockPfx rest.firstPfx) ++ rest.render k
  def Chain.render (k : Nat) (pfx : List String) (forceEnd : Bool) : Chain → List Line
    | .case c e body more => ⟨k, pfx, .case c⟩ :: (body.render (k + 1 + e) ++ more.render k pfx forceEnd)
    | .els e body ee te tr => ⟨k, pfx, .els⟩ :: (body.render (k + 1 + e) ++
        (endLine k pfx (ee || forceEnd) ++ if ee then tr.render (k + 1 + te) else []))
    | .fin ee te tr => endLine k pfx (ee || forceEnd) ++ if ee then tr.render (k + 1 + te) else []
end

mutual
  /-- The effective lines of a program: a block contributes the items of its first true
      clause, else of `@else`, else nothing. `pre` = names of the enclosing groups (and of the
      parents written in compact form). -/
  def Item.sem (pre : List String) : Item → List Eff
    | .node n m v props => .node (pre ++ [n]) m v :: props.map (fun ep => Eff.prop ep.2)
    | .prop p => [.prop p]
    | .imp src nd => [.imp pre src nd]
    | .unit _ b => if b then [.fail] else []
    | .group n _ body => body.sem (pre ++ [n])
    | .block pfx c _ body more =>
      (if c then body.sem (pre ++ pfx) else more.sem (pre ++ pfx)) ++ more.tail (pre ++ pfx)
  def Items.sem (pre : List String) : Items → List Eff
    | .nil => []
    | .cons i rest => i.sem pre ++ rest.sem pre
  def Chain.sem (pre : List String) : Chain → List Eff
    | .case c _ body more => if c then body.sem pre else more.sem pre
    | .els _ body _ _ _ => body.sem pre
    | .fin _ _ _ => []
  /-- The lines written below an explicit `@end`: outside the block, always effective. -/
  def Chain.tail (pre : List String) : Chain → List Eff
    | .case _ _ _ more => more.tail pre
    | .els _ _ ee _ tr => if ee then tr.sem pre else []
    | .fin ee _ tr => if ee then tr.sem pre else []
end

mutual
  /-- Every node occurrence of a program (selected or not) together with, for each enclosing
      clause (innermost first), whether that clause is the selected one of its block: the first
      true `@case`, or `@else` when no `@case` is true.  `done` = an earlier clause of the block
      is true. -/
  def Item.occ (pre : List String) (sel : List Bool) : Item → List (List Bool × Eff)
    | .node n m v props => (sel, .node (pre ++ [n]) m v) :: props.map (fun ep => (sel, Eff.prop ep.2))
    | .prop p => [(sel, .prop p)]
    | .imp src nd => [(sel, .imp pre src nd)]
    | .unit _ b => if b then [(sel, .fail)] else []
    | .group n _ body => body.occ (pre ++ [n]) sel
    | .block pfx c _ body more => body.occ (pre ++ pfx) (c :: sel) ++ more.occ (pre ++ pfx) sel c
  def Items.occ (pre : List String) (sel : List Bool) : Items → List (List Bool × Eff)
    | .nil => []
    | .cons i rest => i.occ pre sel ++ rest.occ pre sel
  def Chain.occ (pre : List String) (sel : List Bool) (done : Bool) : Chain → List (List Bool × Eff)
    | .case c _ body more => body.occ pre ((c && !done) :: sel) ++ more.occ pre sel (done || c)
    | .els _ body ee _ tr => body.occ pre ((!done) :: sel) ++ (if ee then tr.occ pre sel else [])
    | .fin ee _ tr => if ee then tr.occ pre sel else []
end

/-- The occurrences all of whose enclosing clauses are selected. -/
def selectedOnly (l : List (List Bool × Eff)) : List Eff :=
  (l.filter (fun x => x.1.all id)).map (fun x => x.2)

def Items.append : Items → Items → Items
  | .nil, b => b
  | .cons i r, b => .cons i (r.append b)

/-! ## Specification of "misplaced" on raw line sequences -/

/-- The latest of the lines `before` (given in source order) indented no deeper than `k`. -/
def lastAtMost (k : Nat) (before : List Line) : Option Line :=
  before.reverse.find? (fun l => l.indent ≤ k)

/-- The clause (if any) that is open at indent `k` after the lines `before`: the latest
    line indented no deeper than `k` is a `@case`/`@else` written at exactly `k`; with the
    parent written in front of its keyword. -/
def specOpenAt (k : Nat) (before : List Line) : Option (CType × List String) :=
  match lastAtMost k before with
  | some j =>
    if j.indent = k then
      match j.kw with
      | .case _ => some (.case, j.name)
      | .els => some (.els, j.name)
      | _ => none
    else none
  | none => none

/-- `@else` needs an open `@case` clause at its indent with the same written parent, `@end` an
    open `@case`/`@else`; a `@case` must not continue an `@else` (nothing but `@end` can
    follow `@else`). -/
def misplacedAt (before : List Line) (l : Line) : Bool :=
  match l.kw with
  | .els => specOpenAt l.indent before != some (.case, l.name)
  | .fin => specOpenAt l.indent before != some (.case, l.name) &&
            specOpenAt l.indent before != some (.els, l.name)
  | .case _ => specOpenAt l.indent before == some (.els, l.name)
  | _ => false

/-- Some clause line of the sequence is misplaced. -/
def misplacedFrom (before : List Line) : List Line → Bool
  | [] => false
  | l :: ls => misplacedAt before l || misplacedFrom (before ++ [l]) ls

def misplaced (ls : List Line) : Bool := misplacedFrom [] ls

end SciVerif.C15
