import SciVerif.Generated.C10Tables

/-!
# C10 — model of the substance pipeline

Mirrors, statement by statement,

* `materials/element.py`  `Element.__init__` (the two `re.match` patterns), `get_isotope`,
  `get_natural`, `get_abundant`;
* `materials/composite.py` `Composite.add / _add / _multiply` on the insertion-ordered dict
  `components` (an association list);
* `materials/substance.py` `Substance.atom`, `__mul__`, `__add__`;
* `materials/substance_solver.py` `SubstanceSolver.preprocess` (four regex passes as four
  scanners) and `solve`;
* `solver/solver.py`, `tokens.py`, `operators.py` restricted to the operator table
  `{par: '(', mul: ' * ', add: ' + '}` and the steps `par(ARGS), mul(BINARY), add(BINARY)`.

Strings are `List Char`.  Numbers are generic (`Rat` in the driver).  No Mathlib.
-/
namespace SciVerif.C10

abbrev Str := List Char

/-! ## Characters -/
def isUp (c : Char) : Bool := 'A' ≤ c && c ≤ 'Z'
def isLow (c : Char) : Bool := 'a' ≤ c && c ≤ 'z'
def isDig (c : Char) : Bool := '0' ≤ c && c ≤ '9'
def isLetter (c : Char) : Bool := isUp c || isLow c
/-- `\s` / `str.strip()` for the ASCII subset -/
def isWs (c : Char) : Bool := c == ' ' || c == '\t' || c == '\n' || c == '\r' || c == '\x0b' || c == '\x0c'

def strip (s : Str) : Str := ((s.dropWhile isWs).reverse.dropWhile isWs).reverse

/-- value of a digit string (`int("012") = 12`) -/
def natOfDigits (s : Str) : Nat := s.foldl (fun a c => 10 * a + (c.toNat - '0'.toNat)) 0

/-! ## Periodic table access -/

structure Iso where
  A : Nat
  M : Rat
  NA : Rat
  deriving Repr

structure Elem where
  sym : Str
  Z : Nat
  isos : List Iso
  deriving Repr

def rawRat (r : Int × Nat) : Rat := mkRat r.1 r.2

/-- the regenerated table as model data -/
def liveTable : List Elem :=
  Gen.table.map fun (s, z, is) => ⟨s, z, is.map fun (a, m, na) => ⟨a, rawRat m, rawRat na⟩⟩

def liveMe : Rat := rawRat Gen.electronMass
def liveNucleon (c : Char) : Option Rat := (Gen.nucleonMass.find? (·.1 == c)).map (rawRat ·.2)

/-- `PERIODIC_TABLE[element]` -/
def lookupElem : List Elem → Str → Option Elem
  | [], _ => none
  | e :: t, s => if e.sym = s then some e else lookupElem t s

/-- `isotopes.A[str(iso)]` -/
def lookupIso : List Iso → Nat → Option Iso
  | [], _ => none
  | i :: t, a => if i.A = a then some i else lookupIso t a

/-- what `get_isotope` returns: `NA, A, Z, N, e, iso, ion` -/
structure Data where
  NA : Rat
  mass : Rat
  Z : Rat
  N : Rat
  e : Rat
  iso : Rat
  ion : Int
  deriving Repr, DecidableEq

/-- `Element.get_isotope` -/
def getIsotope (tbl : List Elem) (me : Rat) (sym : Str) (isotope : Nat) (ion : Int) : Option Data :=
  match lookupElem tbl sym with
  | none => none
  | some el =>
    let iso := if isotope ≠ 0 then isotope else el.Z * 2
    match lookupIso el.isos iso with
    | none => none
    | some i => some
      { NA := i.NA, mass := i.M + (ion : Rat) * me, Z := el.Z, N := ((iso : Int) - (el.Z : Int) : Int),
        e := ((el.Z : Int) + ion : Int), iso := iso, ion := ion }

/-- index of the first maximum (`np.argmax`) of a non-empty list -/
def argmaxFrom : Rat → Nat → Nat → List Rat → Nat
  | _, bi, _, [] => bi
  | b, bi, i, x :: t => if b < x then argmaxFrom x i (i + 1) t else argmaxFrom b bi (i + 1) t

def argmax : List Rat → Option Nat
  | [] => none
  | x :: t => some (argmaxFrom x 0 1 t)

/-- `Element.get_abundant` -/
def getAbundant (tbl : List Elem) (me : Rat) (sym : Str) (ion : Int) : Option Data :=
  match lookupElem tbl sym with
  | none => none
  | some el =>
    match argmax (el.isos.map (·.NA)) with
    | none => none
    | some idx =>
      match el.isos[idx]? with
      | none => none
      | some i => getIsotope tbl me sym i.A ion

def sumR (l : List Rat) : Rat := l.foldl (· + ·) 0

/-- `np.average(v, weights=w)`; raises when the weights sum to zero -/
def wavg (vs ws : List Rat) : Option Rat :=
  let sw := sumR ws
  if sw = 0 then none else some (sumR (List.zipWith (· * ·) vs ws) / sw)

/-- `Element.get_natural` -/
def getNatural (tbl : List Elem) (me : Rat) (sym : Str) (ion : Int) : Option Data :=
  match lookupElem tbl sym with
  | none => none
  | some el =>
    match el.isos.mapM (fun i => getIsotope tbl me sym i.A ion) with
    | none => none
    | some rows =>
      let ws := rows.map (·.NA)
      match wavg (rows.map (·.mass)) ws, wavg (rows.map (·.Z)) ws, wavg (rows.map (·.N)) ws,
            wavg (rows.map (·.e)) ws, wavg (rows.map (·.iso)) ws, rows.head? with
      | some m, some z, some n, some e, some iso, some r0 =>
        some { NA := sumR ws, mass := m, Z := z, N := n, e := e, iso := iso, ion := r0.ion }
      | _, _, _, _, _, _ => none

/-! ## `Element.__init__`: parsing the species expression -/

/-- `int(ion)` of `[+-][0-9]*` with the special cases `"+" → 1`, `"-" → -1` -/
def ionOf (sign : Char) (digits : Str) : Int :=
  let v : Int := if digits.isEmpty then 1 else (natOfDigits digits : Int)
  if sign == '-' then -v else v

/-- the suffix alternatives `\{([0-9]+)([+-]{1}[0-9]*)\}|\{([0-9]+)\}|\{([+-]{1}[0-9]*)\}|`
    as `(iso1?, ion1?, iso2?, ion3?)` collapsed to `(isotope digits, ion)` -/
inductive Suffix where
  | isoIon (iso : Str) (sign : Char) (digits : Str)
  | iso (iso : Str)
  | ion (sign : Char) (digits : Str)
  | none
  deriving Repr, DecidableEq

def parseSuffix (s : Str) : Suffix :=
  match s with
  | '{' :: r =>
    let (d1, r1) := r.span isDig
    if !d1.isEmpty then
      match r1 with
      | '}' :: _ => .iso d1
      | c :: r2 =>
        if c == '+' || c == '-' then
          let (d2, r3) := r2.span isDig
          match r3 with
          | '}' :: _ => .isoIon d1 c d2
          | _ => .none
        else .none
      | [] => .none
    else
      match r with
      | c :: r2 =>
        if c == '+' || c == '-' then
          let (d2, r3) := r2.span isDig
          match r3 with
          | '}' :: _ => .ion c d2
          | _ => .none
        else .none
      | [] => .none
  | _ => .none

/-- a parsed species: the nucleon symbols or element + isotope (`none` = unspecified / 0) + ion -/
inductive Species where
  | nucleon (c : Char)
  | elem (sym : Str) (isotope : Option Nat) (ion : Int)
  deriving Repr, DecidableEq

/-- the two `re.match` calls of `Element.__init__` (prefix matches, trailing text ignored) -/
def parseSpecies (s : Str) : Option Species :=
  match s with
  | '[' :: c :: ']' :: _ =>
    if c == 'p' || c == 'n' || c == 'e' then some (.nucleon c) else none
  | c1 :: r =>
    if !isLetter c1 then none else
    let (sym, rest) : Str × Str :=
      match r with
      | c2 :: r' => if isLetter c2 then ([c1, c2], r') else ([c1], r)
      | [] => ([c1], [])
    let suf := parseSuffix rest
    if sym = ['D'] || sym = ['T'] then
      let a : Nat := if sym = ['D'] then 2 else 3
      match suf with
      | .isoIon _ sg d => some (.elem ['H'] (some a) (ionOf sg d))
      | _ => some (.elem ['H'] (some a) 0)
    else
      match suf with
      | .isoIon i sg d => some (.elem sym (some (natOfDigits i)) (ionOf sg d))
      | .iso i => some (.elem sym (some (natOfDigits i)) 0)
      | .ion sg d => some (.elem sym none (ionOf sg d))
      | .none => some (.elem sym none 0)
  | [] => none

/-- the attributes of an `Element` object the property observes -/
structure EData where
  element : Str
  mass : Rat
  Z : Rat
  N : Rat
  e : Rat
  isotope : Rat
  ionisation : Int
  deriving Repr, DecidableEq

/-- `Element(expr, natural=…)`; `none` = the constructor raises -/
def elementOf (tbl : List Elem) (me : Rat) (nuc : Char → Option Rat) (natural : Bool) (s : Str) :
    Option EData :=
  match parseSpecies s with
  | none => none
  | some (.nucleon c) =>
    match nuc c with
    | none => none
    | some m =>
      let (z, n, e) : Rat × Rat × Rat :=
        if c == 'p' then (1, 0, 0) else if c == 'n' then (0, 1, 0) else (0, 0, 1)
      some ⟨s, m, z, n, e, 0, 0⟩
  | some (.elem sym iso ion) =>
    let d : Option Data :=
      match iso with
      | some (a + 1) => getIsotope tbl me sym (a + 1) ion
      | _ => if natural then getNatural tbl me sym ion else getAbundant tbl me sym ion
    d.map fun d => ⟨sym, d.mass, d.Z, d.N, d.e, d.iso, d.ion⟩

/-! ## `Composite`: the insertion-ordered dict of components -/

section composite
variable {α : Type} [Add α] [Mul α]

abbrev Comps (α : Type) := List (Str × α)

/-- `Composite.add`: `+=` on an existing key, otherwise a new entry at the end -/
def cadd : Comps α → Str → α → Comps α
  | [], k, p => [(k, p)]
  | (k', p') :: t, k, p => if k' = k then (k', p' + p) :: t else (k', p') :: cadd t k p

/-- `for expr, component in src.items(): composite.add(expr, component.proportion)` -/
def caddAll (acc src : Comps α) : Comps α := src.foldl (fun a kp => cadd a kp.1 kp.2) acc

/-- `Composite._multiply(Substance(), other)` -/
def cmul (cs : Comps α) (x : α) : Comps α := cs.foldl (fun a kp => cadd a kp.1 (kp.2 * x)) []

/-- `Composite._add(Substance(), other)` with `other` a substance -/
def cplus (a b : Comps α) : Comps α := caddAll (caddAll [] a) b

def cget [Zero α] : Comps α → Str → α
  | [], _ => 0
  | (k', p') :: t, k => if k' = k then p' else cget t k

end composite

/-! ## Solver values and tokens -/

/-- what `Substance.atom` returns: a float or a substance -/
inductive Val where
  | num (x : Rat)
  | sub (cs : Comps Rat)
  deriving Repr, DecidableEq

/-- `left * right` as Python dispatches it -/
def mulVal : Val → Val → Option Val
  | .sub cs, .num x => some (.sub (cmul cs x))
  | .num x, .num y => some (.num (x * y))
  | _, _ => none

/-- `left + right` -/
def addVal : Val → Val → Option Val
  | .sub a, .sub b => some (.sub (cplus a b))
  | .num x, .num y => some (.num (x + y))
  | _, _ => none

inductive Tok where
  | atom (v : Val)
  | par (v : Val)
  | mul
  | add
  deriving Repr, DecidableEq

/-- the float literals `float()` accepts that also pass the `re.match` prefix test of
    `Substance.atom`: digits, optional `.digits*`, optional exponent -/
def parseFloat (s : Str) : Option Rat :=
  let (ip, r) := s.span isDig
  if ip.isEmpty then none else
  let (fp, r) : Str × Str :=
    match r with
    | '.' :: r' => let (f, r'') := r'.span isDig; (f, r'')
    | _ => ([], r)
  let mant : Rat := (natOfDigits (ip ++ fp) : Rat) / ((10 : Rat) ^ fp.length)
  match r with
  | [] => some mant
  | c :: r' =>
    if c == 'e' || c == 'E' then
      let (neg, r'') : Bool × Str :=
        match r' with
        | '+' :: t => (false, t)
        | '-' :: t => (true, t)
        | t => (false, t)
      let (ep, rest) := r''.span isDig
      if ep.isEmpty || !rest.isEmpty then none
      else
        let p : Rat := (10 : Rat) ^ (natOfDigits ep)
        some (if neg then mant / p else mant * p)
    else none

/-- `Substance.atom`: a leading digit means `float(expr)`, anything else `Substance({expr: 1})`
    (which constructs `Element(expr)` and raises when that raises) -/
def atomOf (valid : Str → Bool) (s : Str) : Option Val :=
  match s with
  | c :: _ =>
    if isDig c then (parseFloat s).map .num
    else if valid s then some (.sub [(s, 1)]) else none
  | [] => none

/-! ## Tokenizer (`ExpressionSolver.solve`, first loop) and `OperatorPar.__init__` -/

def symMul : Str := [' ', '*', ' ']
def symAdd : Str := [' ', '+', ' ']

/-- `OperatorPar.__init__` after the opening symbol was removed: scans to the matching `)`;
    returns (argument text = `left.strip()`, rest).  `none`: unclosed, or a separator at
    depth 1 (wrong number of arguments). -/
def scanPar : Nat → Str → Str → Option (Str × Str)
  | _, _, [] => none
  | depth, acc, c :: r =>
    if c == '(' then scanPar (depth + 1) (c :: acc) r
    else if c == ',' && depth == 1 then none
    else if c == ')' then
      if depth == 1 then some (strip acc.reverse, r)
      else scanPar (depth - 1) (c :: acc) r
    else scanPar depth (c :: acc) r

/-- the binary pass of `Tokens.operate` for one operator -/
def binPass (isOp : Tok → Bool) (f : Val → Val → Option Val) : List Tok → List Tok → Option (List Tok)
  | left, [] => some left.reverse
  | left, t :: rest =>
    if isOp t then
      match left, rest with
      | .atom l :: left', .atom r :: rest' =>
        match f l r with
        | some v => binPass isOp f (.atom v :: left') rest'
        | none => none
      | _, _ => none
    else binPass isOp f (t :: left) rest
termination_by _ r => r.length

/-- the ARGS pass: `par` tokens become their solved argument -/
def parPass (ts : List Tok) : List Tok := ts.map fun t => match t with | .par v => .atom v | t => t

/-- the three steps and the final test of `solve` -/
def reduce (ts : List Tok) : Option Val :=
  match binPass (· == .mul) mulVal [] (parPass ts) with
  | none => none
  | some ts1 =>
    match binPass (· == .add) addVal [] ts1 with
    | some [.atom v] => some v
    | _ => none

/-- `ExpressionSolver.solve`: tokenizer + steps.  `fuel` bounds the nesting recursion,
    `left` is `expr.left` (reversed). -/
def solveAux (valid : Str → Bool) : Nat → Str → Str → List Tok → Option Val
  | 0, _, _, _ => none
  | fuel + 1, left, right, toks =>
    let flush : Option (List Tok) :=
      let l := strip left.reverse
      if l.isEmpty then some toks else (atomOf valid l).map fun v => toks ++ [.atom v]
    match right with
    | [] =>
      match flush with
      | none => none
      | some toks => reduce toks
    | c :: r =>
      if c == '(' then
        match flush with
        | none => none
        | some toks =>
          match scanPar 1 [] r with
          | none => none
          | some (arg, rest) =>
            match solveAux valid fuel [] arg [] with
            | none => none
            | some v => solveAux valid fuel [] rest (toks ++ [.par v])
      else if symMul.isPrefixOf right then
        match flush with
        | none => none
        | some toks => solveAux valid fuel [] (right.drop 3) (toks ++ [.mul])
      else if symAdd.isPrefixOf right then
        match flush with
        | none => none
        | some toks => solveAux valid fuel [] (right.drop 3) (toks ++ [.add])
      else solveAux valid fuel (c :: left) r toks

/-! ## `SubstanceSolver.preprocess`: four scanners for the four regex passes -/

/-- `(\{[0-9+-]+\}|)` at the head of `s`: (matched text, rest) -/
def matchBrace (s : Str) : Str × Str :=
  match s with
  | '{' :: r =>
    let (body, r1) := r.span fun c => isDig c || c == '+' || c == '-'
    match r1 with
    | '}' :: r2 => if body.isEmpty then ([], s) else ('{' :: body ++ ['}'], r2)
    | _ => ([], s)
  | _ => ([], s)

/-- one greedy match of the species pattern
    `(([A-Z]+[a-z]?|\[p\]|\[n\]|\[e\])(\{[0-9+-]+\}|)([0-9]*))` at the head of `s`:
    (length of the upper-case run, symbol, brace group, digits, rest) -/
def matchP (s : Str) : Option (Nat × Str × Str × Str × Str) :=
  let tail (k : Nat) (sym r : Str) : Option (Nat × Str × Str × Str × Str) :=
    let (br, r1) := matchBrace r
    let (dg, r2) := r1.span isDig
    some (k, sym, br, dg, r2)
  match s with
  | [] => none
  | c :: _ =>
    if isUp c then
      let (run, r) := s.span isUp
      match r with
      | l :: r' => if isLow l then tail run.length (run ++ [l]) r' else tail run.length run r
      | [] => tail run.length run []
    else
      match s with
      | '[' :: x :: ']' :: r => if x == 'p' || x == 'n' || x == 'e' then tail 0 ['[', x, ']'] r else none
      | _ => none

def startsP (s : Str) : Bool := (matchP s).isSome

/-- pass 1, one substitution of `P\s*P → \g<1> + \g<5>` attempted at the head of `s` -/
def pass1At (s : Str) : Option Str :=
  match matchP s with
  | none => none
  | some (k, sym, br, dg, rest) =>
    let rest' := rest.dropWhile isWs
    if startsP rest' then some (sym ++ br ++ dg ++ symAdd ++ rest')
    else if k ≥ 2 then some (s.take (k - 1) ++ symAdd ++ s.drop (k - 1))   -- `[A-Z]+` backtracks
    else none

/-- pass 1, `re.sub(…, count=1)`: the leftmost position where the pattern matches -/
def pass1Step : Str → Option Str
  | [] => none
  | c :: r =>
    match pass1At (c :: r) with
    | some s' => some s'
    | none => (pass1Step r).map (c :: ·)

/-- pass 1: repeat until nothing changes -/
def pass1 : Nat → Str → Str
  | 0, s => s
  | n + 1, s => match pass1Step s with | none => s | some s' => pass1 n s'

/-- pass 2: `re.sub(P, repl1)` — counts become ` * n` -/
def pass2 : Nat → Str → Str
  | 0, s => s
  | _, [] => []
  | n + 1, c :: r =>
    match matchP (c :: r) with
    | some (_, sym, br, dg, rest) =>
      sym ++ br ++ (if dg.isEmpty then [] else symMul ++ dg) ++ pass2 n rest
    | none => c :: pass2 n r

def notSpec3 (c : Char) : Bool := !(c == '*' || c == '+' || c == '(' || isWs c)
def notSpec4 (c : Char) : Bool := !(c == '+' || c == '*' || c == ')' || isWs c)

/-- pass 3: `re.sub("([^*+(\s]*)(\s*)\(", repl2)` -/
def pass3 : Nat → Str → Str
  | 0, s => s
  | _, [] => []
  | n + 1, c :: r =>
    let (g1, r1) := (c :: r).span notSpec3
    let (g2, r2) := r1.span isWs
    match r2 with
    | '(' :: r3 => (if g1.isEmpty then g2 else g1 ++ symAdd) ++ '(' :: pass3 n r3
    | _ => c :: pass3 n r

/-- pass 4: `re.sub("\)([0-9]*)(\s*)([^+*)\s]*)", repl3)` -/
def pass4 : Nat → Str → Str
  | 0, s => s
  | _, [] => []
  | n + 1, c :: r =>
    if c == ')' then
      let (g1, r1) := r.span isDig
      let (g2, r2) := r1.span isWs
      let (g3, r3) := r2.span notSpec4
      let out : Str :=
        if !g1.isEmpty && !g3.isEmpty then ')' :: symMul ++ g1 ++ symAdd ++ g3
        else if !g1.isEmpty then ')' :: symMul ++ g1 ++ g2
        else if !g3.isEmpty then ')' :: symAdd ++ g3
        else ')' :: g2
      out ++ pass4 n r3
    else c :: pass4 n r

/-- `SubstanceSolver.preprocess` -/
def preprocess (s : Str) : Str :=
  let s1 := pass1 (2 * s.length + 2) s
  let s2 := pass2 (s1.length + 1) s1
  let s3 := pass3 (s2.length + 1) s2
  pass4 (s3.length + 1) s3

/-- `SubstanceSolver.solve` -/
def solveStr (valid : Str → Bool) (s : Str) : Option Val :=
  let p := preprocess s
  solveAux valid (p.length + 2) [] p []

/-- `Substance(expr).components` as (key, proportion); `none` = raises.  The empty string
    gives the empty substance. -/
def substanceOf (valid : Str → Bool) (s : Str) : Option (Comps Rat) :=
  if s.isEmpty then some [] else
  match solveStr valid s with
  | some (.sub cs) => some cs
  | _ => none

/-! ## Specification: formula AST and its expansion -/

inductive F where
  | sp (s : Str)                 -- a species expression, e.g. `O{17-1}`
  | count (f : F) (n : Nat)      -- `f` followed by a count
  | mulx (f : F) (n : Nat)       -- explicit `f * n`
  | group (f : F)                -- `( f )`
  | seq (ws : Nat) (a b : F)     -- juxtaposition with `ws` blanks in between
  | plus (a b : F)               -- explicit `a + b`
  deriving Repr

def digitChar (d : Nat) : Char := Char.ofNat (48 + d)

/-- decimal digits of `n`, most significant first (own definition: same text as `toString n`,
    with an easy induction principle) -/
def digitsAux : Nat → Nat → Str → Str
  | 0, _, acc => acc
  | fuel + 1, n, acc =>
    if n < 10 then digitChar n :: acc else digitsAux fuel (n / 10) (digitChar (n % 10) :: acc)

def digitsOf (n : Nat) : Str := digitsAux (n + 1) n []

def render : F → Str
  | .sp s => s
  | .count f n => render f ++ digitsOf n
  | .mulx f n => render f ++ symMul ++ digitsOf n
  | .group f => '(' :: render f ++ [')']
  | .seq ws a b => render a ++ List.replicate ws ' ' ++ render b
  | .plus a b => render a ++ symAdd ++ render b

/-- the same formula in the explicit solver notation: every juxtaposition written ` + `, every
    count written ` * n`, no optional blanks — what `preprocess` is meant to produce -/
def renderExplicit : F → Str
  | .sp s => s
  | .count f n => renderExplicit f ++ symMul ++ digitsOf n
  | .mulx f n => renderExplicit f ++ symMul ++ digitsOf n
  | .group f => '(' :: renderExplicit f ++ [')']
  | .seq _ a b => renderExplicit a ++ symAdd ++ renderExplicit b
  | .plus a b => renderExplicit a ++ symAdd ++ renderExplicit b

/-- the number of times species `k` occurs in the expanded formula -/
def expandCount (k : Str) : F → Nat
  | .sp s => if s = k then 1 else 0
  | .count f n => expandCount k f * n
  | .mulx f n => expandCount k f * n
  | .group f => expandCount k f
  | .seq _ a b => expandCount k a + expandCount k b
  | .plus a b => expandCount k a + expandCount k b

/-- the distinct species in order of first occurrence -/
def speciesOf : F → List Str
  | .sp s => [s]
  | .count f _ => speciesOf f
  | .mulx f _ => speciesOf f
  | .group f => speciesOf f
  | .seq _ a b => speciesOf a ++ (speciesOf b).filter (fun k => !(speciesOf a).contains k)
  | .plus a b => speciesOf a ++ (speciesOf b).filter (fun k => !(speciesOf a).contains k)

/-- the expansion as an ordered association list -/
def expand (f : F) : List (Str × Nat) := (speciesOf f).map fun k => (k, expandCount k f)

/-- what the solver computes on the AST with the `Composite` operations (the semantic
    counterpart of the token stream) -/
def evalF {α : Type} [Add α] [Mul α] [NatCast α] : F → Comps α
  | .sp s => [(s, ((1 : Nat) : α))]
  | .count f n => cmul (evalF f) (n : α)
  | .mulx f n => cmul (evalF f) (n : α)
  | .group f => evalF f
  | .seq _ a b => cplus (evalF a) (evalF b)
  | .plus a b => cplus (evalF a) (evalF b)

/-! ## Well-formed formulas of the documented notation -/

/-- a count applies to a species or a parenthesised group; an explicit ` * n` ends its term -/
def F.endsOpen : F → Bool
  | .mulx _ _ => true
  | .seq _ _ b => b.endsOpen
  | .plus _ b => b.endsOpen
  | _ => false

def F.wf : F → Bool
  | .sp s => !s.isEmpty
  | .count (.sp s) n => !s.isEmpty && decide (1 ≤ n)
  | .count (.group f) n => f.wf && decide (1 ≤ n)
  | .count _ _ => false
  | .mulx (.sp s) n => !s.isEmpty && decide (1 ≤ n)
  | .mulx (.group f) n => f.wf && decide (1 ≤ n)
  | .mulx _ _ => false
  | .group f => f.wf
  | .seq _ a b => a.wf && b.wf && !a.endsOpen
  | .plus a b => a.wf && b.wf

/-- a species text is one match of the species pattern with a single capital, no count -/
def isSpeciesText (k : Str) : Bool :=
  match matchP k with
  | some (run, _, _, dg, rest) => decide (run ≤ 1) && dg.isEmpty && rest.isEmpty
  | none => false

/-! ## Totals -/

/-- a row of `data_composite`: `proportion * (mass, Z, N, e)`; the `sum` row adds them up -/
def totals (rows : List (Rat × EData)) : Rat × Rat × Rat × Rat :=
  (sumR (rows.map fun r => r.1 * r.2.mass), sumR (rows.map fun r => r.1 * r.2.Z),
   sumR (rows.map fun r => r.1 * r.2.N), sumR (rows.map fun r => r.1 * r.2.e))

end SciVerif.C10
