import SciVerif.Model.C11

/-!
# C12 — model of `Matter._norm` and `Matter.data_matter`

Mirrors `/repo/src/scinumtools/materials/matter.py` (after the fix that remembers that only the
number density was attached):

```
def __init__(self, number_density=None, mass_density=None, volume=None):
    ...
    self._number_density_given = bool(number_density) and not bool(mass_density)

def _norm(self):
    if self.mass_density and not self._number_density_given:
        self.mass_density.to(Units.MASS_DENSITY)
        self.number_density = (self.mass_density/self.composite_mass).to(Units.NUMBER_DENSITY)
    elif self.number_density:
        self.mass_density = (self.number_density*self.composite_mass).to(Units.MASS_DENSITY)
        self.number_density.to(Units.NUMBER_DENSITY)
    if self.volume:
        self.mass = (self.mass_density * self.volume).to(Units.MATERIAL_MASS)
```

`_norm` is called by `Composite._norm`, i.e. once after *every* `add()` of a dict-constructed
composite and once at the end of the constructor: the model is a state transformer `normStep`
and a construction is a *history* of composite masses.

Quantities.  A user quantity is a pair `(value, factor)`, `factor` being the magnitude of its unit
in the standard unit of this sub-module (`g/cm3`, `cm-3`, `cm3`); `.to(standard)` multiplies.
Stored densities/masses are numbers in the standard units; `da` is the magnitude of `Da` in `g`.
`composite_mass` is a quantity in `Da` in the two number modes, but a bare number in
`MASS_FRACTION` mode (`np.sum` of the proportions): there the unit conversion raises — modelled
by `compositeMassQ = none`.
-/
namespace SciVerif.C12
open SciVerif.C11

/-- a quantity as the user gave it: value and magnitude of its unit in the standard unit -/
structure Q (α : Type) where
  v : α
  f : α
  deriving Repr

/-- densities, volume, mass of a `Matter` object, in standard units -/
structure MState (α : Type) where
  rho : Option α
  n : Option α
  vol : Option α
  mass : Option α
  numberGiven : Bool
  deriving Repr, DecidableEq

section
variable {α : Type} [Add α] [Mul α] [Div α] [Zero α] [OfNat α 100]

/-- value in the standard unit -/
def Q.std (q : Q α) : α := q.v * q.f

/-- `Matter.__init__`.  The in-place conversions `.to(standard)` of the given quantities are
    applied here (they do not change what the quantity denotes). -/
def MState.init (rho n vol : Option (Q α)) : MState α :=
  { rho := rho.map Q.std, n := n.map Q.std, vol := vol.map Q.std, mass := none,
    numberGiven := n.isSome && !rho.isSome }

/-- `self.composite_mass` as a quantity in Da, `none` when it is a bare number -/
def compositeMassQ (mode : Mode) (cs : List (Comp α)) : Option α :=
  match mode with
  | .massFraction => none
  | _ => some (compositeMass mode cs)

/-- `Matter._norm`; `M` = composite mass in Da (`none`: not a mass), `da` = g per Da.
    `none` result = the Python code raises. -/
def normStep (da : α) (M : Option α) (s : MState α) : Option (MState α) :=
  let s1 : Option (MState α) :=
    match (if s.numberGiven then none else s.rho), s.n with
    | some rho, _ =>
      match M with
      | some M => some { s with n := some (rho / M / da) }
      | none => none                       -- g/cm3 cannot be converted to cm-3
    | none, some n =>
      match M with
      | some M => some { s with rho := some (n * M * da) }
      | none => none                       -- cm-3 cannot be converted to g/cm3
    | none, none => some s
  match s1 with
  | none => none
  | some s1 =>
    match s1.vol with
    | none => some s1
    | some V =>
      match s1.rho with
      | some rho => some { s1 with mass := some (rho * V) }
      | none => none                       -- None * Quantity

/-- a construction: `_norm` after every step of the history of composite masses -/
def runHistory (da : α) : List (Option α) → MState α → Option (MState α)
  | [], s => some s
  | M :: rest, s =>
    match normStep da M s with
    | none => none
    | some s' => runHistory da rest s'

/-- dict construction: `add()` → `_norm()` per component (growing prefixes), then the final
    `_norm()` of `Composite.__init__` -/
def dictHistory (mode : Mode) (cs : List (Comp α)) : List (Option α) :=
  ((List.range cs.length).map fun i => compositeMassQ mode (cs.take (i + 1))) ++
    [compositeMassQ mode cs]

/-- string construction: the components are filled in, then one `_norm()` -/
def stringHistory (mode : Mode) (cs : List (Comp α)) : List (Option α) := [compositeMassQ mode cs]

/-- `fn_row` of `data_matter`, column `n`: `m.proportion*self.number_density` -/
def nCol (cs : List (Comp α)) (n : α) : List α := cs.map fun c => c.p * n

/-- column `rho`: `m.proportion*m.component_mass*self.number_density`, Da·cm-3 → g/cm3 -/
def rhoCol (da : α) (cs : List (Comp α)) (n : α) : List α := cs.map fun c => c.p * c.m * n * da

/-- column `N`: `values['n']*self.volume` -/
def NCol (cs : List (Comp α)) (n V : α) : List α := (nCol cs n).map (· * V)

/-- column `M`: `values['rho']*self.volume` (→ g) -/
def MCol (da : α) (cs : List (Comp α)) (n V : α) : List α := (rhoCol da cs n).map (· * V)

/-- the component rows of `data_matter` by column; `N`, `M` only when a volume is set -/
structure Table (α : Type) where
  n : List α
  rho : List α
  N : Option (List α)
  M : Option (List α)
  deriving Repr

/-- `data_matter`; `none` when no number density is set (the columns are dropped / `values['n']`
    is missing) -/
def dataMatter (da : α) (cs : List (Comp α)) (s : MState α) : Option (Table α) :=
  match s.n with
  | none => none
  | some n => some { n := nCol cs n, rho := rhoCol da cs n,
                     N := s.vol.map (NCol cs n), M := s.vol.map (MCol da cs n) }

/-- `data_matter(components=[…])`: only the selected component rows are listed, with the values
    they have in the full table (reading a table never changes the object) -/
def Table.select (t : Table α) (keep : List Bool) : Table α :=
  { n := C11.select keep t.n, rho := C11.select keep t.rho,
    N := t.N.map (C11.select keep), M := t.M.map (C11.select keep) }

/-- the `sum` row: `np.sum` of every column -/
def Table.sums (t : Table α) : α × α × Option α × Option α :=
  (t.n.sum, t.rho.sum, t.N.map List.sum, t.M.map List.sum)

end
end SciVerif.C12
