import SciVerif.Model.C20
