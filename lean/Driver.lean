import SciVerif.Drive.C20
open Lean

def dispatch (j : Json) : Except String Json := do
  let p ← (← j.getObjVal? "p").getStr?
  match p with
  | "C20" => SciVerif.C20.Drive.handle j
  | _ => throw s!"unknown property {p}"

partial def loop (hin : IO.FS.Stream) (hout : IO.FS.Stream) : IO Unit := do
  let line ← hin.getLine
  if line.isEmpty then return ()
  let out := match Json.parse line with
    | .error e => Json.mkObj [("error", Json.str s!"parse: {e}")]
    | .ok j => match dispatch j with
      | .ok r => Json.mkObj [("ok", r)]
      | .error e => Json.mkObj [("error", Json.str e)]
  hout.putStrLn out.compress
  hout.flush
  loop hin hout

def main : IO Unit := do
  loop (← IO.getStdin) (← IO.getStdout)
