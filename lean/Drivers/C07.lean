import SciVerif.Drive.Util
open Lean SciVerif.Drive

/-- C07 model driver: not built yet. -/
def main : IO Unit := serve (fun _ => throw "C07: no model yet")
