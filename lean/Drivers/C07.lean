import SciVerif.Drive.C07
open Lean SciVerif.Drive

def main : IO Unit := serve SciVerif.C07.Drive.handle
