import SciVerif.Drive.C01
open Lean SciVerif.Drive

/-- C02 shares the generic solver model and its protocol handler with C01 (kind "history"). -/
def main : IO Unit := serve SciVerif.C01.Drive.handle
