import SciVerif.Drive.Util
open Lean SciVerif.Drive

/-- C02 model driver: not built yet. -/
def main : IO Unit := serve (fun _ => throw "C02: no model yet")
