import SciVerif.Drive.C02
open Lean SciVerif.Drive

def main : IO Unit := serve SciVerif.C02.Drive.handle
