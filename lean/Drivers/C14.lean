import SciVerif.Drive.Util
open Lean SciVerif.Drive

/-- C14 model driver: not built yet. -/
def main : IO Unit := serve (fun _ => throw "C14: no model yet")
