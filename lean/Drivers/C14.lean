import SciVerif.Drive.C14
open Lean SciVerif.Drive

def main : IO Unit := serve SciVerif.C14.Drive.handle
