import SciVerif.Drive.C01
open Lean SciVerif.Drive

def main : IO Unit := serve SciVerif.C01.Drive.handle
