import SciVerif.Drive.Util
open Lean SciVerif.Drive

/-- C01 model driver: not built yet. -/
def main : IO Unit := serve (fun _ => throw "C01: no model yet")
