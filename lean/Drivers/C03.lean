import SciVerif.Drive.Util
open Lean SciVerif.Drive

/-- C03 model driver: not built yet. -/
def main : IO Unit := serve (fun _ => throw "C03: no model yet")
