import SciVerif.Drive.C03
open Lean SciVerif.Drive

def main : IO Unit := serve SciVerif.C03.Drive.handle
