import SciVerif.Drive.C18
open SciVerif.Drive

def main : IO Unit := serve SciVerif.C18.Drive.handle
