import SciVerif.Drive.Util
open Lean SciVerif.Drive

/-- C18 model driver: not built yet. -/
def main : IO Unit := serve (fun _ => throw "C18: no model yet")
