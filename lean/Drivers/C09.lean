import SciVerif.Drive.C09
open Lean SciVerif.Drive

def main : IO Unit := serve SciVerif.C09.Drive.handle
