import SciVerif.Drive.Util
open Lean SciVerif.Drive

/-- C09 model driver: not built yet. -/
def main : IO Unit := serve (fun _ => throw "C09: no model yet")
