import SciVerif.Drive.C13
open Lean SciVerif.Drive

def main : IO Unit := serve SciVerif.C13.Drive.handle
