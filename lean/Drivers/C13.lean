import SciVerif.Drive.Util
open Lean SciVerif.Drive

/-- C13 model driver: not built yet. -/
def main : IO Unit := serve (fun _ => throw "C13: no model yet")
