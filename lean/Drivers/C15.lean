import SciVerif.Drive.Util
open Lean SciVerif.Drive

/-- C15 model driver: not built yet. -/
def main : IO Unit := serve (fun _ => throw "C15: no model yet")
