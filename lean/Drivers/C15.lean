import SciVerif.Drive.C15
open Lean SciVerif.Drive

def main : IO Unit := serve SciVerif.C15.Drive.handle
