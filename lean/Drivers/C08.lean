import SciVerif.Drive.C06
open Lean SciVerif.Drive

/-- C08 model driver: magnitudes (`k = "mag"`) and quantities / conversions (`k = "qty"`). -/
def main : IO Unit := serve SciVerif.C06.Drive.handle
