import SciVerif.Drive.Util
open Lean SciVerif.Drive

/-- C08 model driver: not built yet. -/
def main : IO Unit := serve (fun _ => throw "C08: no model yet")
