import SciVerif.Drive.C05
open Lean SciVerif.Drive

def main : IO Unit := serve SciVerif.C05.Drive.handle
