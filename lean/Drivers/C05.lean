import SciVerif.Drive.Util
open Lean SciVerif.Drive

/-- C05 model driver: not built yet. -/
def main : IO Unit := serve (fun _ => throw "C05: no model yet")
