import SciVerif.Drive.Util
open Lean SciVerif.Drive

/-- C17 model driver: not built yet. -/
def main : IO Unit := serve (fun _ => throw "C17: no model yet")
