import SciVerif.Drive.C17
open Lean SciVerif.Drive

def main : IO Unit := serve SciVerif.C17.Drive.handle
