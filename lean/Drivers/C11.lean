import SciVerif.Drive.C11
open Lean SciVerif.Drive

def main : IO Unit := serve SciVerif.C11.Drive.handle
