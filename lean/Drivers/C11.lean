import SciVerif.Drive.Util
open Lean SciVerif.Drive

/-- C11 model driver: not built yet. -/
def main : IO Unit := serve (fun _ => throw "C11: no model yet")
