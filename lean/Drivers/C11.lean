import SciVerif.Drive.C11b
open Lean SciVerif.Drive

def main : IO Unit := serve SciVerif.C11.Drive.handleAll
