import SciVerif.Drive.C10
open Lean SciVerif.Drive

def main : IO Unit := serve SciVerif.C10.Drive.handle
