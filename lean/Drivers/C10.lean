import SciVerif.Drive.Util
open Lean SciVerif.Drive

/-- C10 model driver: not built yet. -/
def main : IO Unit := serve (fun _ => throw "C10: no model yet")
