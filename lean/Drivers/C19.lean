import SciVerif.Drive.C19
open Lean SciVerif.Drive

def main : IO Unit := serve SciVerif.C19.Drive.handle
