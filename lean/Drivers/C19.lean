import SciVerif.Drive.Util
open Lean SciVerif.Drive

/-- C19 model driver: not built yet. -/
def main : IO Unit := serve (fun _ => throw "C19: no model yet")
