import SciVerif.Drive.Util
open Lean SciVerif.Drive

/-- C12 model driver: not built yet. -/
def main : IO Unit := serve (fun _ => throw "C12: no model yet")
