import SciVerif.Drive.C12
open Lean SciVerif.Drive

def main : IO Unit := serve SciVerif.C12.Drive.handle
