import SciVerif.Drive.C04
open Lean SciVerif.Drive

def main : IO Unit := serve SciVerif.C04.Drive.handle
