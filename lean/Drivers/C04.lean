import SciVerif.Drive.Util
open Lean SciVerif.Drive

/-- C04 model driver: not built yet. -/
def main : IO Unit := serve (fun _ => throw "C04: no model yet")
