import SciVerif.Drive.C16
open SciVerif.Drive

def main : IO Unit := serve SciVerif.C16.Drive.handle
