import SciVerif.Drive.Util
open Lean SciVerif.Drive

/-- C16 model driver: not built yet. -/
def main : IO Unit := serve (fun _ => throw "C16: no model yet")
