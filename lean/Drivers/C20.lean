import SciVerif.Drive.C20
open Lean SciVerif.Drive

def main : IO Unit := serve SciVerif.C20.Drive.handle
