import SciVerif.Drive.C06
open Lean SciVerif.Drive

/-- C06 model driver: quantity arithmetic (`k = "qty"`) and magnitudes (`k = "mag"`). -/
def main : IO Unit := serve SciVerif.C06.Drive.handle
