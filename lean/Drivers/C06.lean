import SciVerif.Drive.Util
open Lean SciVerif.Drive

/-- C06 model driver: not built yet. -/
def main : IO Unit := serve (fun _ => throw "C06: no model yet")
