#!/usr/bin/env python3
"""Prints the prompt for an independent breaking-change sub-agent for property Cxx (property text only)."""
import json, sys
pid = sys.argv[1]; n = sys.argv[2] if len(sys.argv) > 2 else "4"
for l in open('/verif/properties.jsonl'):
    p = json.loads(l)
    if p['id'] == pid:
        break
wt = "/tmp/mut/%s" % pid
print(f"""You are testing how well a semantic property of a Python library is protected. You have your own scratch git worktree of the library vrtulka23/scinumtools at {wt} (sources in {wt}/src/scinumtools, tests in {wt}/tests, docs in {wt}/docs). Work ONLY inside {wt} and {wt}_out (create it). Do not read or touch /verif or /repo.

The property ("{pid} — {p['title']}"):
"{p['statement']}"
Quantified over: {p['quantifier']['text']}
Relevant code: {', '.join(p['anchors']['files'])}

Task: produce {n} different, realistic changes to the library source (the kind of slip, refactoring or "optimisation" a maintainer could plausibly commit), each of which BREAKS the property while the code still imports and the ENTIRE existing test-suite still passes. Prefer changes that need something specific to manifest — a multi-step sequence of operations, an unusual but legitimate input, a particular combination of options, a fault at a particular point, or two cooperating sites that each look fine alone — NOT ones that any ordinary use would expose at once. Spread them over different clauses of the property and different functions/files.

For each change k = 1..{n} create {wt}_out/k/ containing:
  patch.diff  — `git diff` of the change against the pristine worktree (source files only, never tests);
  demo.py     — a small standalone program that exits 0 on the pristine code and exits non-zero (failed assertion) with the change applied; it must import the library from the directory given by the env var MUT_SRC (default "{wt}/src"): start with `import os, sys; sys.path.insert(0, os.environ.get("MUT_SRC", "{wt}/src"))`;
  notes.md    — which clause of the property it breaks, what it needs in order to manifest, why the tests do not see it.
Procedure per change: edit; run the full suite `cd {wt} && PYTHONPATH={wt}/src /venv/bin/python -m pytest -q -p no:cacheprovider -x` (every test must pass — first confirm the tests really import from the worktree: `PYTHONPATH={wt}/src /venv/bin/python -c "import scinumtools; print(scinumtools.__file__)"`); run demo.py (must fail); save the diff; then `git -C {wt} checkout -- .` and confirm demo.py passes on the pristine code. Leave the worktree pristine at the end. Final message: one line per change (file touched, what breaks, what it needs to manifest).""")
