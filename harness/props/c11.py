"""C11 — number / mass fractions: correspondence (impl vs Lean model) and oracle (impl vs Lean spec,
plus the normalisation, scaling and duality statements checked directly on the real classes)."""
import json
import warnings
warnings.filterwarnings("ignore", category=SyntaxWarning)
import math
import os
from fractions import Fraction
from pathlib import Path

from harness.core import Ctx, VERIF
from harness.util import rel_close

RULE = ("mixtures of 1..6 distinct substances (pool of real formulas + random 1..3-element formulas over the live "
        "periodic table) with positive proportions over many orders of magnitude (mostly [1e-3,1e3], traces down to 1e-12, bulk up to 1e6; scale factors 1e-9 … 1e9), every norm_type (NUMBER, "
        "NUMBER_FRACTION, MASS_FRACTION), natural / most-abundant, built from a dict or from the '<..>' string (proportions written as plain decimals, integers, 'd.' and e/E notation); components include bare nucleons and fully ionised species; "
        "plus Substance composites (elements with counts, NUMBER mode); the avg row always and the components= selection on 40 % of the cases (impl vs model; selected rows must keep their values); scaling and both dualities on 30 % (quick) / all (thorough) of the cases; plus the same mixture as expression string and as dict in both isotope modes alternately; number/mass densities attached to 30 % of the number-mode materials; a table of selected components and str() before the full table on half of the selections; histories (k * material with k sometimes exactly 1 / 1.0, add() on the product, source re-read; material + bare Substance with its own proportion, new or already present; component masses converted in place by the caller, then add(); failing add() calls: if the call raises the material must read as before; a + b, add() on the sum, k * sum, add() on an operand; every live material re-read after every step); corpus first. non-trivial = at least two "
        "components with different masses; distinct = canonical JSON of (kind, mode, natural, components)")
ASSUMPTIONS = [
    "proportions and component masses are positive finite floats (the property's quantifier); empty composites return None and are skipped",
    "component masses m_i are read from data_components() of the same object (their correctness is property C10)",
    "floats are compared with relative tolerance 1e-9 to the exact rational value computed by the Lean model; every compared quantity is a quotient of sums of positive terms (no cancellation), so the wide range of proportions (1e-12 … 1e6) only rescales it; the sum rows are compared with 100",
    "the string form of a material goes through MaterialSolver; the proportions actually stored in the object are the ones judged",
    "the conversion of a dimensionless quantity to '%' is a multiplication by 100 (unit conversion itself is property C04)",
]
EXPLANATION = ("theorems over any ordered field, any non-empty component list, all three modes: sum x = 100, sum X = 100, "
               "x = 100 n_i/sum n, X = 100 n_i m_i/sum n m, proportionality, invariance under common scaling, duality in "
               "both directions; the model is the literal arithmetic of Composite._norm/_data evaluated in exact rationals")

MODES = ["NUMBER", "NUMBER_FRACTION", "MASS_FRACTION"]
POOL = ["H2O", "NaCl", "N2", "O2", "Ar", "CO2", "CH4", "C2H5OH", "Ca(OH)2", "SiO2", "Fe2O3", "U{238}O2", "D2O",
        "NH3", "H2SO4", "C6H12O6", "He", "Al2(SO4)3", "KMnO4", "HCl", "O{16}", "C{13}O2", "Na{+}", "Cl{-}",
        "CaCO3", "MgSO4", "TiO2", "ZnO", "PbS", "Au", "W", "LiF", "BN", "C", "Fe", "Cu", "UF6", "CsI",
        # bare nucleons, fully ionised species, plasma components
        "[p]", "[n]", "[e]", "He{4-2}", "H{1-1}", "[p]B{11}", "[e]2", "D{2-1}", "[n]2[p]", "C{12-6}"]
RTOL = 1e-9


def frac(v):
    f = Fraction(float(v))
    return [f.numerator, f.denominator]


def unfrac(p):
    return Fraction(int(p[0]), int(p[1]))


def close(a, b, rtol=RTOL):
    return rel_close(float(a), float(b), rtol=rtol)


def natural_symbols():
    """element symbols of the live table: (with a natural abundance, all)"""
    from scinumtools.materials.element import PERIODIC_TABLE
    nat, allsym = [], []
    for sym, row in PERIODIC_TABLE.items():
        allsym.append(sym)
        if sum(v[1] for v in row.A.values()) > 0:
            nat.append(sym)
    return nat, allsym


def rand_formula(rng, syms):
    n = rng.choice([1, 1, 2, 2, 3])
    out = []
    for s in rng.sample(syms, n):
        k = rng.choice([1, 1, 2, 3, 4, 6, 12])
        out.append(s + (str(k) if k > 1 else ""))
    return "".join(out)


def rand_prop(rng):
    r = rng.random()
    if r > 0.94:
        return math.exp(rng.uniform(math.log(1e-12), math.log(1e-6)))     # trace component
    if r > 0.90:
        return math.exp(rng.uniform(math.log(1e3), math.log(1e6)))        # bulk given in large numbers
    if r < 0.15:
        return float(rng.randint(1, 9))
    if r < 0.3:
        return round(rng.uniform(0.01, 1.0), 3)
    return math.exp(rng.uniform(math.log(1e-3), math.log(1e3)))


def gen_case(rng, nat, allsym):
    natural = rng.random() < 0.6
    syms = nat if natural else allsym
    if rng.random() < 0.25:
        # a substance as composite: elements with counts
        if rng.random() < 0.5:
            f = rng.choice(POOL)
        else:
            f = rand_formula(rng, syms)
        return {"kind": "substance", "formula": f, "natural": natural, "proportion": rng.choice([1, 1, 2, 3, 0.5, 10, 1e-3])}
    k = rng.choice([1, 2, 2, 3, 3, 4, 5, 6])
    subs = []
    while len(subs) < k:
        f = rng.choice(POOL) if rng.random() < 0.6 else rand_formula(rng, syms)
        if f not in subs:
            subs.append(f)
    via = "string" if rng.random() < 0.25 else "dict"
    props = [rand_prop(rng) for _ in subs]
    case = {"kind": "material", "mode": rng.choice(MODES), "natural": natural, "via": via}
    if via == "string":
        tokens = [number_token(rng, p) for p in props]
        props = [float(t) for t in tokens]          # the proportion that was written
        case["tokens"] = tokens
    case["comps"] = [[f, p] for f, p in zip(subs, props)]
    if case["mode"] != "MASS_FRACTION" and rng.random() < 0.3:
        # matter attached: the fractions must not care (MASS_FRACTION + density raises: known finding of C12)
        case["density"] = rng.choice([["number_density", 2.5e19, "cm-3"], ["number_density", 1e25, "m-3"],
                                      ["mass_density", 1.2, "kg/m3"], ["mass_density", 0.3, "g/cm3"]])
        if rng.random() < 0.5:
            case["volume"] = [rng.choice([1.0, 2.5]), rng.choice(["l", "m3", "cm3"])]
    return case


def number_token(rng, p):
    """the proportion written in one of the float notations the '<..>' expression accepts"""
    forms = ["%.6e", "%.3E", "%r", "%.2e", "%.9E"]
    if 1e-3 <= p < 1e5:
        forms += ["%.4f", "%.4f", "%.6f", "%.1f"]
    if p >= 1 and rng.random() < 0.3:
        return rng.choice(["%d", "%d.", "%d.0e0"]) % int(round(p))
    t = rng.choice(forms) % p
    return t if float(t) > 0 else "%.6e" % p


# ------------------------------------------------------------------ real code
def build(case, comps=None, mode=None):
    from scinumtools.materials import Material, Substance, Norm
    if case["kind"] == "substance":
        return Substance(case["formula"], proportion=case.get("proportion", 1.0), natural=case["natural"])
    comps = case["comps"] if comps is None else comps
    mode = case["mode"] if mode is None else mode
    if case.get("via") == "string" and comps is case["comps"]:
        toks = case.get("tokens") or ["%.4f" % p for f, p in comps]
        expr = " ".join("%s <%s>" % (t, f) for t, (f, p) in zip(toks, comps))
    else:
        expr = {f: p for f, p in comps}
    kw = {}
    if case.get("density") and mode != "MASS_FRACTION":
        from scinumtools.units import Quantity
        kw[case["density"][0]] = Quantity(case["density"][1], case["density"][2])
        if case.get("volume"):
            kw["volume"] = Quantity(case["volume"][0], case["volume"][1])
    return Material(expr, natural=case["natural"], norm_type=getattr(Norm, mode), **kw)


def observe(obj, quantity=False):
    """(keys, p_i, m_i, x_i, X_i, sum_x, sum_X) read from the public tables of a composite"""
    dd = obj.data_composite(quantity=quantity)        # first: on the object as it was built
    dc = obj.data_components(quantity=False)
    keys = list(obj.components.keys())

    def num(v):
        return float(v.value('%')) if quantity else float(v)
    ps = [float(obj.components[k].proportion) for k in keys]
    ms = [float(dc[k].mass) for k in keys]
    xs = [num(dd[k].x) for k in keys]
    Xs = [num(dd[k].X) for k in keys]
    return keys, ps, ms, xs, Xs, num(dd['sum'].x), num(dd['sum'].X)


def run_impl(case):
    try:
        obj = build(case)
        quantity = case.get("quantity", False)
        if case.get("sel_first") and case.get("keep"):
            # reads are pure: a table of selected components (and str()) BEFORE the full table
            ks = list(obj.components.keys())
            kp = (case["keep"] + [True] * len(ks))[:len(ks)]
            obj.data_composite(components=[k for k, b in zip(ks, kp) if b] or ks[:1], quantity=quantity)
            str(obj)
        keys, ps, ms, xs, Xs, sx, sX = observe(obj, quantity)
    except Exception as e:  # noqa
        return {"err": repr(e)[:200]}
    mode = "NUMBER" if case["kind"] == "substance" else case["mode"]
    out = {"keys": keys, "p": ps, "m": ms, "x": xs, "X": Xs, "sum": [sx, sX], "mode": mode,
           "weighted": case["kind"] == "substance"}
    # the `avg` row and the `components=` selection (modelled; not part of the property's text)
    try:
        keep = case.get("keep")
        keep = (keep + [True] * len(keys))[:len(keys)] if keep else [True] * len(keys)
        if not any(keep):
            keep[0] = True
        sel = [k for k, b in zip(keys, keep) if b]
        dd = obj.data_composite(components=sel if len(sel) < len(keys) else None, quantity=False)
        out["keep"] = keep
        out["sel"] = {"x": [float(dd[k].x) for k in sel], "X": [float(dd[k].X) for k in sel],
                      "sum": [float(dd['sum'].x), float(dd['sum'].X)], "avg": [float(dd['avg'].x), float(dd['avg'].X)]}
    except Exception as e:  # noqa
        out["sel"] = {"err": repr(e)[:200]}
    return out


def second(case, comps, mode):
    """x, X columns of a second material made of the same substances (dict form)"""
    c2 = dict(case, via="dict")
    obj = build(c2, comps=comps, mode=mode)
    keys, ps, ms, xs, Xs, sx, sX = observe(obj)
    if keys != [f for f, _ in comps]:
        raise ValueError("components %s became %s" % ([f for f, _ in comps], keys))
    return xs, Xs


def judge(ctx, case, imp, res, report=True):
    """Compares one case; returns (violations, disagreements) as lists of (signature, what)."""
    viol, dis = [], []
    if "err" in imp:
        if case["kind"] == "material" and case.get("via") == "dict":
            viol.append(("fractions:error", "constructing/reporting a valid material raises: %s" % imp["err"]))
        return viol, dis
    mode = imp["mode"]
    if case["kind"] == "material":
        given = case["comps"]
        if imp["keys"] != [f for f, _ in given]:
            viol.append(("fractions:%s:components" % mode, "the material was given components %s but holds %s" %
                         ([f for f, _ in given], imp["keys"])))
            return viol, dis
        tol = 1e-9 if (case.get("via") == "dict" or case.get("tokens")) else 1e-3   # legacy corpus strings: 4 decimals
        for (f, p), q in zip(given, imp["p"]):
            if not close(p, q, rtol=tol):
                viol.append(("fractions:%s:proportion" % mode, "component %s was given proportion %r, the material holds %r" % (f, p, q)))
                return viol, dis
    if "ok" not in res:
        dis.append(("driver", "driver error %s" % res))
        return viol, dis
    r = res["ok"]
    if r["model"] == "out-of-domain":
        return viol, dis
    n = len(imp["p"])
    mx = [unfrac(v) for v in r["model"]["x"]]
    mX = [unfrac(v) for v in r["model"]["X"]]
    sx = [unfrac(v) for v in r["spec"]["x"]]
    sX = [unfrac(v) for v in r["spec"]["X"]]
    for i in range(n):
        if not close(imp["x"][i], sx[i]):
            viol.append(("fractions:%s:x" % mode, "x of %s is %r, specification 100*n_i/sum(n) = %r" %
                         (imp["keys"][i], imp["x"][i], float(sx[i]))))
            break
        if not close(imp["X"][i], sX[i]):
            viol.append(("fractions:%s:X" % mode, "X of %s is %r, specification 100*n_i*m_i/sum(n*m) = %r" %
                         (imp["keys"][i], imp["X"][i], float(sX[i]))))
            break
    if not viol:
        if not close(imp["sum"][0], 100.0):
            viol.append(("fractions:%s:sum_x" % mode, "sum row of x is %r, not 100" % imp["sum"][0]))
        elif not close(imp["sum"][1], 100.0):
            viol.append(("fractions:%s:sum_X" % mode, "sum row of X is %r, not 100" % imp["sum"][1]))
    ok_model = all(close(imp["x"][i], mx[i]) and close(imp["X"][i], mX[i]) for i in range(n)) and \
        close(imp["sum"][0], unfrac(r["model"]["sum"][0])) and close(imp["sum"][1], unfrac(r["model"]["sum"][1]))
    # selection / avg row
    sel, msel = imp.get("sel"), r.get("sel")
    if sel is not None and msel is not None and not viol:
        if "err" in sel:
            viol.append(("fractions:%s:filter" % mode, "data_composite(components=…) raises: %s" % sel["err"]))
        else:
            want_x = [v for v, b in zip(sx, imp["keep"]) if b]
            want_X = [v for v, b in zip(sX, imp["keep"]) if b]
            if not (all(close(a, b) for a, b in zip(sel["x"], want_x)) and all(close(a, b) for a, b in zip(sel["X"], want_X))
                    and close(sel["sum"][0], sum(want_x)) and close(sel["sum"][1], sum(want_X))):
                viol.append(("fractions:%s:filter" % mode, "listing only components %s changes their fractions or the sum row: x %s X %s sum %s, full table x %s X %s" %
                             (imp["keep"], sel["x"], sel["X"], sel["sum"], imp["x"], imp["X"])))
            ok_sel = all(close(a, unfrac(b)) for a, b in zip(sel["x"], msel["x"])) and all(close(a, unfrac(b)) for a, b in zip(sel["X"], msel["X"])) \
                and all(close(a, unfrac(b)) for a, b in zip(sel["sum"], msel["sum"])) and all(close(a, unfrac(b)) for a, b in zip(sel["avg"], msel["avg"]))
            if not ok_sel:
                dis.append(("fractions-avg", "impl selection %s ; model %s" % (sel, {k: [float(unfrac(v)) for v in msel[k]] for k in msel})))
    if not ok_model:
        dis.append(("fractions", "impl x=%s X=%s sum=%s ; model x=%s X=%s" %
                    (imp["x"], imp["X"], imp["sum"], [float(v) for v in mx], [float(v) for v in mX])))
    return viol, dis


def relational(ctx, case, imp):
    """scaling invariance and duality on the real classes (materials only)"""
    viol = []
    if "err" in imp or case["kind"] != "material":
        return viol
    subs = [f for f, _ in case["comps"]]
    if imp["keys"] != subs:
        return viol
    mode = case["mode"]
    try:
        k = case.get("k", 7.25)
        xs, Xs = second(case, [[f, p * k] for f, p in zip(subs, imp["p"])], mode)
        if not (all(close(a, b) for a, b in zip(xs, imp["x"])) and all(close(a, b) for a, b in zip(Xs, imp["X"]))):
            viol.append(("fractions:%s:scale" % mode, "multiplying all proportions by %r changes the fractions: x %s -> %s, X %s -> %s" %
                         (k, imp["x"], xs, imp["X"], Xs)))
        # the same scaling with the operator `k * material`, and material + material
        obj = build(dict(case, via="dict"), comps=[[f, p] for f, p in zip(subs, imp["p"])], mode=mode)
        for name, other in (("k * material", k * obj), ("material + material", obj + obj)):
            keys, ps, ms, xs, Xs, sx, sX = observe(other)
            if keys != subs or not (all(close(a, b) for a, b in zip(xs, imp["x"])) and all(close(a, b) for a, b in zip(Xs, imp["X"]))):
                viol.append(("fractions:%s:scale_operator" % mode, "%s (k=%r) changes the fractions: components %s x %s -> %s, X %s -> %s" %
                             (name, k, keys, imp["x"], xs, imp["X"], Xs)))
                break
        # duality: same material specified by the reported mass fractions / number fractions
        xs, Xs = second(case, [[f, v] for f, v in zip(subs, imp["X"])], "MASS_FRACTION")
        if not (all(close(a, b) for a, b in zip(xs, imp["x"])) and all(close(a, b) for a, b in zip(Xs, imp["X"]))):
            viol.append(("fractions:%s:duality_mass" % mode, "material re-specified by its mass fractions reports x %s (was %s), X %s (was %s)" %
                         (xs, imp["x"], Xs, imp["X"])))
        xs, Xs = second(case, [[f, v] for f, v in zip(subs, imp["x"])], "NUMBER_FRACTION")
        if not (all(close(a, b) for a, b in zip(xs, imp["x"])) and all(close(a, b) for a, b in zip(Xs, imp["X"]))):
            viol.append(("fractions:%s:duality_number" % mode, "material re-specified by its number fractions reports x %s (was %s), X %s (was %s)" %
                         (xs, imp["x"], Xs, imp["X"])))
    except Exception as e:  # noqa
        viol.append(("fractions:%s:error" % mode, "re-specifying a valid material raises %r" % (e,)))
    return viol


def request(imp):
    if "err" in imp:
        return {"k": "fractions", "mode": "NUMBER", "comps": []}
    return {"k": "fractions", "mode": imp["mode"], "keep": imp.get("keep", [True] * len(imp["p"])),
            "weighted": bool(imp.get("weighted")),
            "comps": [[frac(p), frac(m)] for p, m in zip(imp["p"], imp["m"])]}


def corpus_cases():
    out = []
    d = VERIF / "corpus" / "C11"
    for f in sorted(d.glob("*.json")):
        out += json.loads(f.read_text())
    return out


def nontrivial(imp):
    return "err" not in imp and len(imp["m"]) >= 2 and len({round(m, 6) for m in imp["m"]}) >= 2


def inner_substances(ctx, case):
    """the substances INSIDE a material (they carry the material's proportions) are composites themselves"""
    out = []
    try:
        obj = build(case)
        for key in list(obj.components.keys())[:2]:
            sub = obj.components[key]
            if len(sub.components) >= 1:
                out.append(({"kind": "substance", "formula": key, "natural": case["natural"], "inside": case["comps"]},
                            snapshot(sub, "NUMBER")))
    except Exception:  # noqa
        pass
    return out


def process(ctx, cases):
    extra = []
    for c in cases:
        if c["kind"] == "material" and c.get("inner"):
            extra += inner_substances(ctx, c)
    if extra:
        res = ctx.driver.ask_many([request(i) for _, i in extra])
        for (c, imp), r in zip(extra, res):
            ctx.case(["inner", c], len(imp.get("p", [])) >= 2)
            ctx.count("kind.substance-inside-material")
            viol, dis = judge(ctx, c, imp, r)
            for sig, what in viol[:1]:
                ctx.violation(sig, "substance %s inside a material: %s  [%s]" % (c["formula"], what, json.dumps(c)[:300]),
                              {"stream": "fractions", "case": c, "impl": imp})
            for stream, detail in dis[:1]:
                ctx.disagreement(stream, c, detail)
    imps = [run_impl(c) for c in cases]
    res = ctx.driver.ask_many([request(i) for i in imps])
    for case, imp, r in zip(cases, imps, res):
        ctx.case(case, nontrivial(imp), case)
        ctx.count("kind.%s" % case["kind"])
        if "err" in imp:
            ctx.count("impl.error")
        else:
            ctx.count("mode.%s" % imp["mode"])
            ctx.count("ncomp.%d" % len(imp["p"]))
        viol, dis = judge(ctx, case, imp, r)
        if case.get("relational", True):
            ctx.count("relational")
            viol += relational(ctx, case, imp)
        for sig, what in viol[:1]:
            ctx.violation(sig, "%s  [%s]" % (what, json.dumps(case)[:300]), {"stream": "fractions", "case": case, "impl": imp})
        for stream, detail in dis[:1]:
            ctx.disagreement(stream, case, detail)


def snapshot(obj, mode):
    try:
        keys, ps, ms, xs, Xs, sx, sX = observe(obj)
        return {"keys": keys, "p": ps, "m": ms, "x": xs, "X": Xs, "sum": [sx, sX], "mode": mode}
    except Exception as e:  # noqa
        return {"err": repr(e)[:200]}


def history_stream(ctx, nat, allsym, n):
    """materials are combined and modified step by step; after every step every live material is re-read:
    it must hold the proportions that value semantics gives it (operands untouched) and report the fractions
    of those proportions"""
    from scinumtools.materials import Material, Substance, Norm
    entries = []        # (label, replay, expected comps, mode, snapshot)
    for i in range(n):
        natural = ctx.rng.random() < 0.6
        mode = ctx.rng.choice(MODES)
        pool = [f for f in POOL if natural or True]
        subs = ctx.rng.sample(pool, 5)
        A = [[subs[0], rand_prop(ctx.rng)], [subs[1], rand_prop(ctx.rng)]]
        B = [[subs[1], rand_prop(ctx.rng)], [subs[2], rand_prop(ctx.rng)], [subs[3], rand_prop(ctx.rng)]] \
            if ctx.rng.random() < 0.5 else [[subs[2], rand_prop(ctx.rng)], [subs[3], rand_prop(ctx.rng)]]
        padd, k = rand_prop(ctx.rng), ctx.rng.choice([2.0, 0.5, 100.0, 7.25])
        replay = {"stream": "history", "mode": mode, "natural": natural, "A": A, "B": B, "add": [subs[3], padd], "k": k}
        ctx.case(["history", replay], True)
        ctx.count("history")

        # the proportions every live material must hold come from the Lean object-store model
        fr = lambda l: [[f, frac(p)] for f, p in l]
        ops = [["new", fr(A)], ["new", fr(B)], ["plus", 0, 1], ["add", 2, subs[3], frac(padd)],
               ["mul", 2, frac(k)], ["add", 1, subs[4], frac(padd)], ["plus", 0, 1], ["pluselem", 0, subs[4], frac(padd)],
               ["pluselem", 0, subs[0], frac(padd)]]
        k1 = ctx.rng.choice([1, 1.0, 1, 1.0, 3, 0.25])          # the neutral factor matters: the product is still a NEW material
        ops += [["mul", 0, frac(k1)], ["add", 7, subs[2], frac(padd)], ["add", 7, subs[0], frac(padd)]]
        replay["k1"] = k1
        r = ctx.driver.ask({"k": "ops", "ops": ops})
        if "ok" not in r:
            ctx.disagreement("history", replay, "driver error %s" % r)
            continue
        snaps = [[[[f, float(unfrac(v))] for f, v in obj] for obj in snap] for snap in r["ok"]]
        try:
            nt = getattr(Norm, mode)
            a = Material({f: p for f, p in A}, natural=natural, norm_type=nt)
            b = Material({f: p for f, p in B}, natural=natural, norm_type=nt)
            live = [a, b]
            live.append(a + b)
            for idx, obj in enumerate(live):
                entries.append(("sum:#%d" % idx, replay, snaps[2][idx], mode, snapshot(obj, mode)))
            live[2].add(subs[3], padd)                  # only the mixture is enriched
            for idx, obj in enumerate(live):
                entries.append(("add:#%d" % idx, replay, snaps[3][idx], mode, snapshot(obj, mode)))
            live.append(k * live[2])
            live[1].add(subs[4], padd)                  # an operand is modified afterwards
            for idx, obj in enumerate(live):
                entries.append(("scale:#%d" % idx, replay, snaps[5][idx], mode, snapshot(obj, mode)))
            acc = live[0]
            acc += live[1]                              # augmented assignment = addition, a is untouched
            live.append(acc)
            for idx, obj in enumerate(live):
                entries.append(("iadd:#%d" % idx, replay, snaps[6][idx], mode, snapshot(obj, mode)))
            # material + a bare substance carrying its own proportion (in the material's norm)
            live.append(live[0] + Substance(subs[4], proportion=padd, natural=natural))
            for idx, obj in enumerate(live):
                entries.append(("plus-substance:#%d" % idx, replay, snaps[7][idx], mode, snapshot(obj, mode)))
            # ... and a bare substance that is ALREADY a component of the left operand: proportions add up
            live.append(live[0] + Substance(subs[0], proportion=padd, natural=natural))
            for idx, obj in enumerate(live):
                entries.append(("plus-present-substance:#%d" % idx, replay, snaps[8][idx], mode, snapshot(obj, mode)))
            # a product (also with the neutral factor 1 / 1.0) shares no state with its operand: both are used afterwards
            live.append(k1 * live[0])
            live[7].add(subs[2], padd)
            live[7].add(subs[0], padd)
            for idx, obj in enumerate(live):
                entries.append(("add-on-product(k=%r):#%d" % (k1, idx), replay, snaps[11][idx], mode, snapshot(obj, mode)))
            # the caller converts handed-out mass quantities in place, then the material is re-normalised by add()
            d = Material({f: p for f, p in A}, natural=natural, norm_type=nt)
            cells = d.data_components(quantity=True)
            for j, key in enumerate(list(d.components.keys())):
                try:
                    (cells[key].mass if j % 2 == 0 else d.components[key].component_mass).to('g' if j % 2 == 0 else 'kg')
                except Exception:  # noqa
                    pass
            d.add(A[0][0], padd)
            entries.append(("masses-converted-in-place-then-add", replay, [[A[0][0], A[0][1] + padd]] + [list(e) for e in A[1:]],
                            mode, snapshot(d, mode)))
            # operations that FAIL: whenever the call raises, the object must read as before
            c = Material({f: p for f, p in A}, natural=natural, norm_type=nt)
            before = snapshot(c, mode)
            for what, args in (("add() of an unknown substance", ("Qq7", 1.0)), ("add() taking a component below zero", (A[0][0], -2.0 * A[0][1]))):
                try:
                    c.add(*args)
                    break                    # accepted: the object is a different composite now (not judged here)
                except Exception:  # noqa
                    after = snapshot(c, mode)
                    same = "err" not in after and "err" not in before and after["keys"] == before["keys"] and \
                        all(close(a, b) for col in ("p", "x", "X", "sum") for a, b in zip(after[col], before[col]))
                    if not same:
                        ctx.violation("history:%s:failed-operation" % mode, "%s raised, but the material reads %s afterwards, before it read %s  [%s]" %
                                      (what, {k: after.get(k) for k in ("keys", "p", "x", "X", "sum")}, {k: before.get(k) for k in ("keys", "p", "x", "X", "sum")}, json.dumps(replay)[:200]),
                                      dict(replay, step="failed-operation"))
                        break
        except Exception as e:  # noqa
            ctx.violation("history:%s:error" % mode, "combining valid materials raises %r  [%s]" % (e, json.dumps(replay)[:300]), replay)
    # the same mixture given as an expression string and as a dict, in both isotope modes alternately within
    # one process: the two inputs must report the same fractions (nothing parsed earlier may leak into a later one)
    for i in range(max(4, n // 2)):
        mode = ctx.rng.choice(MODES)
        subs = ctx.rng.sample([f for f in POOL if "[" not in f], 3)
        toks = [number_token(ctx.rng, rand_prop(ctx.rng)) for _ in subs]
        comps = [[f, float(t)] for f, t in zip(subs, toks)]
        for natural in (True, False, True):
            replay = {"stream": "string-vs-dict", "mode": mode, "natural": natural, "comps": comps, "tokens": toks}
            ctx.case(["string-vs-dict", replay], True)
            ctx.count("history.string_vs_dict")
            try:
                nt = getattr(Norm, mode)
                ms = Material(" ".join("%s <%s>" % (t, f) for t, f in zip(toks, subs)), natural=natural, norm_type=nt)
                md = Material({f: p for f, p in comps}, natural=natural, norm_type=nt)
                a, b = snapshot(ms, mode), snapshot(md, mode)
                if "err" in a or "err" in b or a["keys"] != b["keys"] or \
                        not all(close(u, v) for col in ("p", "m", "x", "X") for u, v in zip(a[col], b[col])):
                    ctx.violation("history:%s:string-vs-dict" % mode, "the expression string and the dict of the same mixture (natural=%s) differ: string %s, dict %s" %
                                  (natural, {k: a.get(k) for k in ("p", "m", "x", "X")}, {k: b.get(k) for k in ("p", "m", "x", "X")}), replay)
                    break
                entries.append(("string", replay, comps, mode, a))
            except Exception as e:  # noqa
                ctx.violation("history:%s:error" % mode, "building a valid mixture raises %r  [%s]" % (e, json.dumps(replay)[:300]), replay)
                break
    # products and sums of substances used as they are: they are composites too
    from scinumtools.materials import Substance
    for i in range(n):
        natural = ctx.rng.random() < 0.6
        f1, f2 = ctx.rng.sample([f for f in POOL if "[" not in f], 2)
        k = ctx.rng.choice([2, 3, 5, 0.5, 2.5, 10])
        replay = {"stream": "history-substance", "natural": natural, "f1": f1, "f2": f2, "k": k}
        ctx.case(["history-substance", replay], True)
        ctx.count("history.substance")
        try:
            s1, s2 = Substance(f1, natural=natural), Substance(f2, natural=natural)
            s3 = Substance(f1, natural=natural)
            s3 += s2
            s4 = Substance(f1, natural=natural)
            s4 *= k
            for label, obj in (("product", s1 * k), ("sum", s1 + s2), ("product-of-sum", (s1 + s2) * k), ("operand", s1),
                               ("iadd", s3), ("imul", s4)):
                entries.append((label, replay, None, "NUMBER", snapshot(obj, "NUMBER")))
        except Exception as e:  # noqa
            ctx.violation("history:NUMBER:error", "combining valid substances raises %r  [%s]" % (e, json.dumps(replay)), replay)
    res = ctx.driver.ask_many([request(e[4]) for e in entries])
    for (label, replay, want, mode, imp), r in zip(entries, res):
        case = {"kind": "material", "mode": mode, "natural": replay["natural"], "via": "dict", "comps": want} if want is not None \
            else {"kind": "substance", "formula": label, "natural": replay["natural"]}
        viol, dis = judge(ctx, case, imp, r)
        for sig, what in viol[:1]:
            ctx.violation(sig.replace("fractions:", "history:"), "step %s: %s  [%s]" % (label, what, json.dumps(replay)[:300]),
                          dict(replay, step=label, impl=imp))
        for stream, detail in dis[:1]:
            ctx.disagreement("history-" + stream, dict(replay, step=label), detail)


def correspond(ctx: Ctx):
    thorough = ctx.tier == "thorough"
    nat, allsym = natural_symbols()
    cases = corpus_cases()
    n = 2500 if thorough else 240
    for i in range(n):
        c = gen_case(ctx.rng, nat, allsym)
        if ctx.rng.random() < 0.15:
            c["quantity"] = True
        c["k"] = ctx.rng.choice([2.0, 0.5, 7.25, 100.0, 0.01, 1e3, 1e-3, 1e6, 1e-6, 1e9, 1e-9, math.exp(ctx.rng.uniform(-5, 5))])
        # scaling + both dualities rebuild the material three times: done on a random 40 % (all in thorough)
        c["relational"] = thorough or ctx.rng.random() < 0.3
        c["inner"] = ctx.rng.random() < 0.3
        if ctx.rng.random() < 0.4:
            c["keep"] = [ctx.rng.random() < 0.6 for _ in range(8)]
            c["sel_first"] = ctx.rng.random() < 0.5
        cases.append(c)
    process(ctx, cases)
    history_stream(ctx, nat, allsym, 150 if thorough else 14)


def replay(ctx, payload):
    case = payload.get("replay", payload).get("case")
    if case is None:
        print(json.dumps(payload, indent=1)[:3000])
        return 2
    imp = run_impl(case)
    r = ctx.driver.ask(request(imp))
    viol, dis = judge(ctx, case, imp, r)
    viol += relational(ctx, case, imp)
    print("case:", json.dumps(case))
    print("impl:", json.dumps(imp))
    for sig, what in viol:
        print("VIOLATION property=C11 [%s] %s" % (sig, what))
    for s, d in dis:
        print("impl!=model [%s] %s" % (s, d))
    return 1 if viol or dis else 0
