"""C02 — a solver instance is unaffected by what it solved before.

translator  : tables of the default solver and of the two customised solvers of the documentation
              -> Generated/C01Tables.lean, Generated/C02Tables.lean
correspond  : random histories of valid and faulty expressions on ONE real instance, three configurations;
              k-th outcome vs a fresh real instance (the property) and vs the Lean state machine (outcome
              and the buffers left behind after every call)
"""
import json

from harness import core
from harness.core import Ctx
from harness.util import shrink_list
from harness.props import c01_lang as L
from harness.props import c01_probe as P
from harness.props import c02_pristine as PR

RULE = ("random histories (length <= 8 quick / <= 40 thorough) of solve() calls on one instance (half of them inside "
        "an entered `with` context; about a third of the calls pass the text as a new Expression object); each call is a generated valid expression or one with a fault injected at a "
        "random token position (unknown atom, deleted operand, unbalanced parenthesis, atom constructor raising on a "
        "marker); a few long histories (150 calls quick / 400 thorough) with 75 % rejected calls, and histories that repeat one "
        "rejected call (with a parenthesis) 35-90 times before valid calls. Configurations: default operators with a recording atom; the documentation's string atom with "
        "{add, gt, par}; the documentation's custom unary operators with custom steps; random operator SUBSETS of "
        "the default table (with/without 'par', dict order kept or shuffled, default steps or a random custom step "
        "order) with strings from the full language, from the subset's own symbols and plain-parenthesis / call "
        "forms; atom classes that are not pure: constructor reading variables changed between the calls, in-place "
        "operators returning self (a string-list atom and a numeric atom over the default operators), constructor-call "
        "counting; callable atoms that hand out long-lived objects from a variable table (objects with in-place "
        "__iadd__/... and non-mutating __add__/...; own class and numpy arrays), every instance on its own pristine "
        "table; the stock AtomBase with expressions whose numpy arithmetic "
        "gives nan / inf / raises, that use a logarithm, or that are comparisons / negated comparisons / their "
        "conjunctions and disjunctions -- there the k-th outcome is also compared with the outcome "
        "of the same expression in a process that solved nothing before (forked from a pristine server). Every instance gets private copies of the operator "
        "dict and step list; the fresh instance is built from the pristine configuration at the moment of the "
        "call. Plus histories in which the buffers and self.expr are overwritten with garbage between the calls, and "
        "histories alternating between two instances that share the operators/steps objects; recon corpus first. "
        "non-trivial = a history in which a call after a failing call that left tokens behind is judged; "
        "distinct = configuration + history")
ASSUMPTIONS = [
    "theorems: the atom class is an algebra of pure functions (it may differ from call to call: "
    "C02_history_independence_changing_atoms); atom classes with in-place operators or counted constructors have "
    "no Lean model, for them the check is the property itself (k-th outcome = outcome of a fresh instance at "
    "that moment) on the real code",
    "the operator table, the steps and the operator classes are not written by solve(), and the instance has no "
    "persistent attribute beyond tokens{atom,left,right}, operators, steps, expr -- both checked on the real "
    "objects after every generated history (snapshot and vars() key sets), they are parameters / state "
    "components of the model",
    "the atom algebra in force at a call is not influenced by earlier calls through process-wide state: numpy error "
    "mode / error callback / print options, recursion limit, decimal context, locale, cwd, environment, module-level "
    "data of the solver modules are compared before/after every history, and stock-atom outcomes with the pristine-process baseline",
    "model comparison (code vs Lean state machine) is a verdict only for the input classes the property names "
    "(generated valid expressions and the injected faults); on random symbol soup ('assembled' strings of the "
    "subset configurations) a difference is only counted (outside.impl_ne_model) -- the fresh-instance comparison, "
    "which is the property itself, applies to every string",
    "the pristine-process baseline is used only when the forked child reported normally and a second, newly "
    "started server reproduces it; if the server cannot be run the run falls back to fresh-instance comparison "
    "(noted). The process-state snapshot holds deterministic items only (numpy error mode / callback / print "
    "options, recursion limit, decimal context, locale, cwd, environment)",
    "solve(expr: Union[str, Expression]): about a third of the calls of every history pass the text as a NEW "
    "Expression object (the model takes the text either way: an Expression object is its text at scan position 0); "
    "an Expression object that was already consumed by an earlier solve() is a different input (its remaining "
    "text) and is not generated",
    "outcomes are compared as terms (recording atom) or as the custom atoms' values; every raised exception is "
    "one outcome 'err'",
    "the behaviour of customised operators must fit the template language of the translator (get_left/get_right "
    "followed by put_* of atom expressions); both documentation examples do. Subset configurations in which a "
    "sign operator would push an OperatorAdd()/OperatorSub() that is not in the table are outside the model "
    "(counted as model.unsupported, the fresh-instance comparison still applies)",
]
EXPLANATION = ("theorems: for every operator table, step table and atom algebra and every history (failing calls "
               "included, atoms changing between calls) the next outcome equals a fresh instance's; a successful "
               "call leaves the buffers empty; the nested instance gives every argument a fresh instance's value; a "
               "failing call leaves tokens and the un-reset body would be history dependent (witness). "
               "correspondence: outcome AND leftover buffers of the real instance vs the model after every call, "
               "outcome vs a fresh real instance, persistent attributes vs the model's state components")

GEN1 = core.LEAN / "SciVerif" / "Generated" / "C01Tables.lean"
GEN2 = core.LEAN / "SciVerif" / "Generated" / "C02Tables.lean"
CORPUS = core.VERIF / "corpus" / "C02"


PROBE_EFFECT = {}


def gen_tables(ctx):
    import numpy as np
    changed = []
    # abstract probing executes the operate_* methods in this process: isolate its effect on numpy's error mode
    # (the histories below must start from a pristine process) and remember that there was one
    before = PR.process_state()
    with np.errstate():
        cfg = P.default_config()
        atom_rows = P.probe_atombase()
        cfgs = [(k, P.extract_config(k, *v)) for k, v in P.custom_configs().items()]
        after = PR.process_state()
    PROBE_EFFECT.clear()
    PROBE_EFFECT.update({k: (before[k], after[k]) for k in before if before[k] != after[k]})
    doc = P.doc_steps((core.REPO / "docs" / "source" / "solver" / "index.rst").read_text())
    if core.write_if_changed(GEN1, P.render_c01(cfg, doc, atom_rows)):
        changed.append(str(GEN1))
    if core.write_if_changed(GEN2, P.render_c02(cfgs)):
        changed.append(str(GEN2))
    return changed


# ---------------------------------------------------------------- configurations (real side)
WORLD = {"foo": 3.0, "bar": 4.0}
MODEL_UNSUPPORTED = ("fuel", "sign-item", "row")
NO_MODEL_VERDICT = ("assembled",)
POLLUTER = {"exprs": None, "what": None}      # the first calls of this run that changed process-wide state


def copy_steps(steps):
    return None if steps is None else [dict(operators=list(st["operators"]), otype=st["otype"]) for st in steps]


def make_configs():
    from scinumtools.solver import ExpressionSolver, AtomBase, Otype

    class AtomStr(AtomBase):
        """the string atom of the documentation / tests (plus a constructor that raises on the marker)"""
        value: str

        def __init__(self, value):
            if isinstance(value, str) and "BOOM" in value:
                raise RuntimeError("marker")
            self.value = str(value)

        def __add__(self, other):
            return AtomStr(self.value + other.value)

        def __gt__(self, other):
            return AtomStr(len(self.value) > len(other.value))

    class AtomWorld(AtomBase):
        """the foo/bar atom of the documentation: the constructor reads variables that change between calls"""

        def __init__(self, value):
            if isinstance(value, str):
                v = value.strip()
                self.value = WORLD[v] if v in WORLD else float(v)
            else:
                self.value = value

    class Parts(AtomBase):
        """an atom whose operators work in place and return self"""

        def __init__(self, value):
            if isinstance(value, str) and "BOOM" in value:
                raise RuntimeError("marker")
            self.value = [value.strip()] if isinstance(value, str) else value

        def __add__(self, other):
            self.value.extend(other.value)
            return self

        def __gt__(self, other):
            self.value[:] = [str(len(self.value) > len(other.value))]
            return self

    import numpy as np

    class MutNum(AtomBase):
        """a numeric atom whose arithmetic recycles the left operand (in place, returns self)"""

        def __init__(self, value):
            self.value = float(value.strip()) if isinstance(value, str) else value

        def _ip(self, v):
            self.value = v
            return self

        def __add__(self, o): return self._ip(self.value + o.value)
        def __sub__(self, o): return self._ip(self.value - o.value)
        def __mul__(self, o): return self._ip(self.value * o.value)
        def __truediv__(self, o): return self._ip(self.value / o.value)
        def __pow__(self, o): return self._ip(self.value ** o.value)
        def __neg__(self): return self._ip(-self.value)
        def log(self): return self._ip(np.log(self.value))
        def log10(self): return self._ip(np.log10(self.value))
        def sqrt(self): return self._ip(np.sqrt(self.value))
        def sin(self): return self._ip(np.sin(self.value))
        def cos(self): return self._ip(np.cos(self.value))
        def tan(self): return self._ip(np.tan(self.value))

    class CountAtom(P.RecAtom):
        """recording atom that counts how often the constructor is called with a text"""
        made = 0

        def __init__(self, value):
            if isinstance(value, str):
                CountAtom.made += 1
            super().__init__(value)

    def observe_count(fn):
        CountAtom.made = 0
        r = fn()
        return {"result": r, "atoms_constructed": CountAtom.made}

    def between_world(rng):
        WORLD[rng.choice(["foo", "bar"])] = rng.choice([1.0, 2.0, 3.0, 5.0, 7.0])

    custom = P.custom_configs()
    dflt = ExpressionSolver(P.RecAtom)
    plain = lambda fn: fn()
    cfgs = {
        "default": dict(atom=P.RecAtom, operators=None, steps=None, alg="float", mcfg="default",
                        classes=list(dflt.operators.values()), value=lambda a: L.listify(a.value),
                        mvalue=lambda t: t),
        "strcfg": dict(atom=AtomStr, operators=custom["strcfg"][0], steps=custom["strcfg"][1], alg="any",
                       mcfg="strcfg", classes=list(custom["strcfg"][0].values()), value=lambda a: a.value,
                       mvalue=L.eval_str),
        "prefixcfg": dict(atom=P.RecAtom, operators=custom["prefixcfg"][0], steps=custom["prefixcfg"][1],
                          alg="float", mcfg="prefixcfg", classes=list(custom["prefixcfg"][0].values()),
                          value=lambda a: L.listify(a.value), mvalue=lambda t: t),
        "unarycfg": dict(atom=P.RecAtom, operators=custom["unarycfg"][0], steps=custom["unarycfg"][1],
                         alg="float", mcfg="unarycfg", classes=list(custom["unarycfg"][0].values()),
                         value=lambda a: L.listify(a.value), mvalue=lambda t: t),
        # atom classes that are NOT pure: no Lean model, the verdict is "k-th outcome = fresh instance's outcome"
        "worldcfg": dict(atom=AtomWorld, operators=None, steps=None, alg=None, classes=list(dflt.operators.values()),
                         value=lambda a: repr(a.value), between=between_world),
        "inplacecfg": dict(atom=Parts, operators=custom["strcfg"][0], steps=custom["strcfg"][1], alg=None,
                           classes=list(custom["strcfg"][0].values()), value=lambda a: list(a.value)),
        "countcfg": dict(atom=CountAtom, operators=None, steps=None, alg=None,
                         classes=list(dflt.operators.values()), value=lambda a: L.listify(a.value),
                         observe=observe_count),
    }
    def quiet(fn):
        import warnings
        with warnings.catch_warnings():
            warnings.simplefilter("ignore")
            return fn()
    # the stock atom: numpy arithmetic with nan / inf / raising results; additionally judged against the outcome
    # of the same expression in a process that solved nothing before (pristine=True)
    cfgs["stockcfg"] = dict(atom=AtomBase, operators=None, steps=None, alg=None,
                            classes=list(dflt.operators.values()), value=lambda a: PR.canon_value(a.value),
                            observe=quiet, pristine=True)
    # atom "constructors" that hand out LONG-LIVED objects from a variable table (the same object for the same
    # name in every call); the objects have in-place operators (__iadd__ ...) AND non-mutating ones (__add__ ...).
    # Every instance (the long-lived one and each fresh one) gets its own pristine table.
    class Vec:
        def __init__(self, data):
            self.value = list(data)

        def _zip(self, o, f):
            a, b = self.value, o.value
            if len(a) == 1:
                a = a * len(b)
            if len(b) == 1:
                b = b * len(a)
            return [f(x, y) for x, y in zip(a, b)]

        def __add__(self, o): return Vec(self._zip(o, lambda x, y: x + y))
        def __sub__(self, o): return Vec(self._zip(o, lambda x, y: x - y))
        def __mul__(self, o): return Vec(self._zip(o, lambda x, y: x * y))
        def __truediv__(self, o): return Vec(self._zip(o, lambda x, y: x / y))
        def __pow__(self, o): return Vec(self._zip(o, lambda x, y: x ** y))

        def _ip(self, v):
            self.value[:] = v
            return self

        def __iadd__(self, o): return self._ip(self._zip(o, lambda x, y: x + y))
        def __isub__(self, o): return self._ip(self._zip(o, lambda x, y: x - y))
        def __imul__(self, o): return self._ip(self._zip(o, lambda x, y: x * y))
        def __itruediv__(self, o): return self._ip(self._zip(o, lambda x, y: x / y))
        def __ipow__(self, o): return self._ip(self._zip(o, lambda x, y: x ** y))

    def vec_factory():
        table = {"a": Vec([1.0, 2.0, 3.0]), "b": Vec([10.0, 20.0, 30.0]), "c": Vec([2.0, 2.0, 2.0])}

        def atom(text):
            t = text.strip()
            return table[t] if t in table else Vec([float(t)])
        return atom

    def array_factory():
        table = {"a": np.array([1.0, 2.0, 3.0]), "b": np.array([10.0, 20.0, 30.0]), "c": np.array([2.0, 2.0, 2.0])}

        def atom(text):
            t = text.strip()
            return table[t] if t in table else np.float64(t)
        return atom

    from scinumtools.solver import OperatorPar, OperatorMul, OperatorTruediv, OperatorAdd, OperatorSub, OperatorPow
    vops = {'par': OperatorPar, 'pow': OperatorPow, 'mul': OperatorMul, 'truediv': OperatorTruediv,
            'add': OperatorAdd, 'sub': OperatorSub}
    vsteps = [dict(operators=['par'], otype=Otype.ARGS), dict(operators=['pow'], otype=Otype.BINARY),
              dict(operators=['mul', 'truediv'], otype=Otype.BINARY), dict(operators=['add', 'sub'], otype=Otype.BINARY)]
    cfgs["varscfg"] = dict(atom=None, atom_factory=vec_factory, atom_types=(Vec,), operators=vops, steps=vsteps,
                           alg=None, classes=list(vops.values()), value=lambda a: [PR.canon_value(x) for x in a.value],
                           observe=quiet)
    cfgs["arrayscfg"] = dict(atom=None, atom_factory=array_factory, atom_types=(np.ndarray, np.floating),
                             operators=vops, steps=vsteps, alg=None, classes=list(vops.values()),
                             value=lambda a: [PR.canon_value(x) for x in np.atleast_1d(a).tolist()], observe=quiet)
    cfgs["inplacenumcfg"] = dict(atom=MutNum, operators=None, steps=None, alg=None,
                                 classes=list(dflt.operators.values()), value=lambda a: PR.canon_value(a.value),
                                 observe=quiet)
    for c in cfgs.values():
        c.setdefault("observe", plain)
        c.setdefault("between", None)
        c.setdefault("pristine", False)
        c["any_atom"] = AtomBase
    return cfgs


def make_subset_config(rng, default_ops):
    """an operator SUBSET of the default table (dict order kept or shuffled), with the default steps or a custom
    step order; the same description is sent to the Lean driver"""
    from scinumtools.solver import Otype
    names = list(default_ops)
    fns = ["log", "log10", "logb", "exp", "sqrt", "powb", "sin", "cos", "tan"]
    k = rng.randint(2, 10)
    chosen = set(rng.sample(names, k))
    if rng.random() < 0.7:
        chosen.add(rng.choice(fns))
    if rng.random() < 0.5:
        chosen.add("par")
    else:
        chosen.discard("par")
    if rng.random() < 0.6:
        chosen.add("add")
    order = [n for n in names if n in chosen]
    if rng.random() < 0.2:
        rng.shuffle(order)
    dsteps = [(['log', 'log10', 'logb', 'exp', 'sqrt', 'powb', 'sin', 'cos', 'tan', 'par'], "ARGS"),
              (['add', 'sub'], "UNARY"), (['pow'], "BINARY"), (['mul', 'truediv'], "BINARY"),
              (['add', 'sub'], "BINARY"), (['eq', 'ne', 'le', 'ge', 'lt', 'gt'], "BINARY"), (['not'], "UNARY"),
              (['and'], "BINARY"), (['or'], "BINARY")]
    drop = []
    if rng.random() < 0.2:
        # a configuration whose operator dict has several operators that NO step mentions
        groups = [['pow'], ['mul', 'truediv'], ['add', 'sub'], ['eq', 'ne', 'le', 'ge', 'lt', 'gt'], ['and'], ['or']]
        drop = rng.sample(groups, rng.randint(2, 3))
        for g in drop:
            chosen.add(rng.choice(g))
        order = [n for n in names if n in chosen]
    if drop:
        st = [x for x in dsteps if x[0] not in drop]
        steps = [dict(operators=list(ops), otype=Otype[ot]) for ops, ot in st]
        msteps = [[list(ops), ot] for ops, ot in st]
    elif rng.random() < 0.6:
        steps, msteps = None, None
    else:
        st = [x for x in dsteps if rng.random() < 0.8]
        if rng.random() < 0.3:
            rng.shuffle(st)
        if rng.random() < 0.3 and st:
            # a step that names only operators of the subset
            st = [([n for n in ops if n in chosen] or ops, ot) for ops, ot in st]
        steps = [dict(operators=list(ops), otype=Otype[ot]) for ops, ot in st]
        msteps = [[list(ops), ot] for ops, ot in st]
    listed = set(n for ops, _ in (dsteps if steps is None else st) for n in ops)
    unlisted = [default_ops[n].symbol for n in order
                if n not in listed and not default_ops[n].symbol.endswith("(")]
    return dict(unlisted=unlisted, atom=P.RecAtom, operators={n: default_ops[n] for n in order}, steps=steps, alg="float",
                mcfg={"ops": order, "steps": msteps}, classes=[default_ops[n] for n in order],
                value=lambda a: L.listify(a.value), mvalue=lambda t: t, observe=lambda fn: fn(), between=None,
                pristine=False, names=order)


def new_solver(cfg, enter=False):
    """a new instance on PRIVATE copies of the operator dict and the step list (so that a call that writes them
    is confined to this instance and seen by the snapshot)"""
    from scinumtools.solver import ExpressionSolver
    ops = None if cfg["operators"] is None else dict(cfg["operators"])
    atom = cfg["atom_factory"]() if cfg.get("atom_factory") else cfg["atom"]     # factory: a pristine variable table
    es = ExpressionSolver(atom, ops, copy_steps(cfg["steps"]))
    if enter:
        es.__enter__()
    return es


def canon_tok(cfg, t):
    if t is None:
        return "none"
    if isinstance(t, cfg.get("atom_types") or (cfg["atom"], cfg["any_atom"])) or isinstance(t, P.RecAtom):
        return {"atom": cfg["value"](t)}
    for i, c in enumerate(cfg["classes"]):
        if type(t) is c:
            args = t.args or []
            return {"op": i, "args": [None if a is None else (cfg["value"](a) if hasattr(a, "value") else "?")
                                      for a in args]}
    return {"unknown": type(t).__name__}


def canon_mtok(cfg, t):
    if t == "none":
        return "none"
    if "atom" in t:
        return {"atom": cfg["mvalue"](t["atom"])}
    if "op" in t:
        return {"op": t["op"], "args": [None if a is None else cfg["mvalue"](a) for a in t["args"]]}
    return t


MODEL_FIELDS = {"tokens", "operators", "steps"}          # + "expr" after the first call
MODEL_TOKEN_FIELDS = {"atom", "left", "right"}


def snapshot(es):
    """everything `solve` must NOT write: the operator dict, the step list, the class attributes, the identity of
    the objects `__init__` created"""
    ops = [(k, id(v)) for k, v in es.operators.items()]
    steps = [(tuple(st["operators"]), st["otype"], tuple(sorted(st.keys()))) for st in es.steps]
    attrs = [(c.__name__, c.symbol, getattr(c, "narg", None), getattr(c, "symbol_open", None),
              getattr(c, "symbol_separator", None), getattr(c, "symbol_close", None), c.__dict__.get("args", "absent"))
             for c in es.operators.values()]
    return ops, steps, attrs, (id(es.tokens), id(es.operators), id(es.steps), id(es.tokens.atom))


def unknown_fields(es):
    """persistent attributes the model's instance state does not have"""
    extra = sorted(set(vars(es)) - MODEL_FIELDS - {"expr"}) + \
        ["tokens." + k for k in sorted(set(vars(es.tokens)) - MODEL_TOKEN_FIELDS)]
    missing = sorted(MODEL_FIELDS - set(vars(es))) + ["tokens." + k for k in sorted(MODEL_TOKEN_FIELDS - set(vars(es.tokens)))]
    return extra, missing


def poison(cfg, es, rng):
    """overwrite everything a call may have left behind with garbage (C02_state_independence: the next
    call must not read it)"""
    from scinumtools.solver.expression import Expression

    def junk():
        r = rng.random()
        if r < 0.3:
            return None
        if r < 0.6:
            try:
                return cfg["atom"]("7")
            except Exception:
                return None
        c = rng.choice(cfg["classes"])
        o = c.__new__(c)
        return o
    es.tokens.left = [junk() for _ in range(rng.randint(0, 3))]
    es.tokens.right = [junk() for _ in range(rng.randint(0, 3))]
    ex = Expression("junk + (")
    ex.shift(rng.randint(0, 4))
    es.expr = ex


def as_object(seed, s):
    """solve(expr: Union[str, Expression]): about a third of the calls hand the text over as a NEW Expression object
    (decided by seed and text only, so that shrinking and replay keep the choice)"""
    import zlib
    return zlib.crc32(("%s|%s" % (seed, s)).encode()) % 100 < 35


def call(cfg, es, s, obj=False):
    from scinumtools.solver.expression import Expression

    def fn():
        try:
            return canon_tok(cfg, es.solve(Expression(s) if obj else s))
        except Exception:
            return "err"
    return cfg["observe"](fn)


def run_fresh(cfg, s, obj=False):
    return call(cfg, new_solver(cfg), s, obj)


def run_history(cfg, exprs, seed=0, poisoned=False, check=None):
    """one real instance -> [(outcome, left, right, outcome of a fresh instance at that moment)]"""
    import random
    rng = random.Random(seed)
    es = new_solver(cfg, enter=rng.random() < 0.5)
    before = snapshot(es)
    pstate = PR.process_state()
    out = []
    for s in exprs:
        if cfg["between"]:
            cfg["between"](rng)
        if poisoned and rng.random() < 0.7:
            poison(cfg, es, rng)
        obj = as_object(seed, s)
        fresh = run_fresh(cfg, s, obj)
        r = call(cfg, es, s, obj)
        out.append((r, [canon_tok(cfg, t) for t in es.tokens.left], [canon_tok(cfg, t) for t in es.tokens.right], fresh))
        if cfg["pristine"] and POLLUTER["exprs"] is None:
            now = PR.process_state()
            if now != pstate:
                POLLUTER["exprs"] = list(exprs[:len(out)])
                POLLUTER["what"] = {k: (pstate[k], now[k]) for k in pstate if pstate[k] != now[k]}
        if check is not None and getattr(es.expr, "expr", None) != s:
            check("expr", "self.expr.expr is %r after solve(%r)" % (getattr(es.expr, "expr", None), s))
    if check is not None:
        if snapshot(es) != before:
            check("config", "operators / steps / operator classes / the objects created by __init__ were "
                            "modified or replaced by solve()")
        pafter = PR.process_state()
        if pafter != pstate:
            check("process-state", "process-wide state changed during the history: %s" %
                  {k: (pstate[k], pafter[k]) for k in pstate if pstate[k] != pafter[k]})
        extra, missing = unknown_fields(es)
        if extra or missing:
            check("fields", "the instance carries state the model does not have: extra %s, missing %s" % (extra, missing))
    return out


def canon_mout(cfg, m):
    if isinstance(m, dict) and "err" in m:
        return "err"
    return canon_mtok(cfg, m)


def model_unsupported(m):
    return isinstance(m, dict) and "err" in m and (m["err"] in MODEL_UNSUPPORTED or str(m["err"]).startswith("unsupported"))


# ---------------------------------------------------------------- expression pools
def inject_fault(rng, lx, allow_paren=True):
    """lexeme list -> faulty text"""
    lx = list(lx)
    lits = [i for i, x in enumerate(lx) if x and (x[0].isdigit() or x[0] == "." or x[0].isalpha() and "(" not in x)]
    kind = rng.choice(["unknown", "delete", "paren", "marker"] if allow_paren else ["unknown", "delete", "marker"])
    if kind == "paren":
        ps = [i for i, x in enumerate(lx) if x == ")"]
        if ps and rng.random() < 0.7:
            del lx[rng.choice(ps)]
        else:
            lx.insert(rng.randrange(len(lx) + 1), rng.choice(["(", ")"]))
    elif lits:
        i = rng.choice(lits)
        if kind == "unknown":
            lx[i] = "x"
        elif kind == "marker":
            lx[i] = "BOOM"
        else:
            del lx[i]
    else:
        lx.append("+")
    return kind, lx


def join(rng, lx):
    return "".join(" " * rng.choice([0, 0, 1, 2]) + x for x in lx) + " " * rng.choice([0, 0, 1])


def gen_default(rng, p_fault=0.45):
    e = L.gen_expr(rng, 8, rng.randint(1, 4))
    lx = L.lexemes(e)
    if rng.random() < p_fault:
        kind, lx = inject_fault(rng, lx)
        return join(rng, lx), kind
    return join(rng, lx), "valid"


def gen_str(rng):
    words = ["limit", "100 km/s", "foo", "bar", "5", "a b", "x"]
    n = rng.randint(1, 4)
    lx = []
    for i in range(n):
        if i:
            lx.append(rng.choice(["+", "+", ">"]))
        if rng.random() < 0.25:
            lx += ["(", rng.choice(words), "+", rng.choice(words), ")"]
        else:
            lx.append(rng.choice(words))
    if rng.random() < 0.45:
        kind, lx = inject_fault(rng, lx)
        if kind == "unknown":
            kind = "valid-any-text"
        return join(rng, lx), kind
    return join(rng, lx), "valid"


def gen_unary(rng):
    n = rng.randint(1, 3)
    lx = []
    for i in range(n):
        if i:
            lx.append("+")
        pre = rng.choice(["", "~", "~", "~~"])
        post = rng.choice(["", "^", "^", "^^"])
        lx += [x for x in (pre[:1], pre[1:], L.gen_lit(rng), post[:1], post[1:]) if x]
    if rng.random() < 0.45:
        kind, lx = inject_fault(rng, lx, allow_paren=False)
        return join(rng, lx), kind
    return join(rng, lx), "valid"


def gen_world(rng):
    names = ["foo", "bar", "foo", "2", "1.5"]
    n = rng.randint(1, 3)
    lx = []
    for i in range(n):
        if i:
            lx.append(rng.choice(["+", "*", "-", "<"]))
        if rng.random() < 0.2:
            lx += ["(", rng.choice(names), "+", rng.choice(names), ")"]
        else:
            lx.append(rng.choice(names))
    if rng.random() < 0.3:
        kind, lx = inject_fault(rng, lx)
        return join(rng, lx), kind
    return join(rng, lx), "valid"


def gen_subset(rng, cfg):
    """strings for an operator subset: the full language, strings assembled from the subset's own symbols,
    plain parentheses and call forms (also of functions outside the subset)"""
    r = rng.random()
    if r < 0.35:
        return gen_default(rng)
    syms = [c.symbol for c in cfg["classes"]]
    unlisted = cfg.get("unlisted") or []
    if len(unlisted) >= 2 and rng.random() < 0.5:
        # expressions that combine operators which no step of this configuration mentions
        lx = [L.gen_lit(rng)]
        for _ in range(rng.randint(1, 3)):
            lx += [rng.choice(unlisted), L.gen_lit(rng)]
        return join(rng, lx), "unlisted-operators"
    if r < 0.7:
        lx = []
        for _ in range(rng.randint(1, 7)):
            q = rng.random()
            if q < 0.4:
                lx.append(L.gen_lit(rng))
            elif q < 0.8:
                lx.append(rng.choice(syms))
            else:
                lx.append(rng.choice(["(", ")", ",", ")"]))
        return join(rng, lx), "assembled"
    fn = rng.choice([sy for sy in syms if sy.endswith("(") and len(sy) > 1] or ["sqrt(", "pow(", "sin("])
    forms = [["(", "1", "+", "2", ")"], ["(", "1", ")"], [fn, "16", ")", "+", "2"], [fn, "(", "1", ")", ")"],
             [fn, "1", ",", "2", ")"], ["(", "1", "+", "2"], ["2", "*", "(", "3", ")"], [fn, "16", ")", "+", "x"]]
    return join(rng, rng.choice(forms)), "paren-form"


def gen_edge(rng):
    """expressions whose numpy arithmetic hits invalid / divide / overflow conditions or that use a logarithm"""
    a, b = rng.choice(["2", "1", "3", "0.5"]), rng.choice(["6", "4", "2", "1"])
    z = rng.choice(["sin(0)", "(%s-%s)" % (a, a), "log(1)", "0*cos(1)"])
    f = rng.choice(["sqrt", "log", "log10", "sin", "cos", "tan", "exp"])
    forms = ["sqrt(%s-%s)" % (a, b), "log(%s-%s)" % (a, b), "log10(%s-%s)" % (a, b), "log(%s)" % z, "log10(0)",
             "%s(%s)/%s" % (f, a, z), "sin(%s)/%s" % (a, z), "%s/%s" % (z, z), "logb(%s-%s, %s)" % (a, b, a),
             "logb(%s, %s)" % (b, a), "log(%s) + %s" % (b, a), "log10(%s) * %s" % (b, a), "exp(1000)", "exp(1000)-exp(1000)",
             "10**400", "(0-%s)**0.5" % a, "sqrt(%s-%s) < 1" % (a, b), "%s(%s - %s)" % (f, a, b), "pow(0, 0-1)",
             "sqrt(%s) + %s(%s)" % (b, f, a), "1/0", "tan(%s)*%s" % (a, z)]
    return rng.choice(forms), "edge"


def gen_num(rng):
    """numerical expressions with functions at the top level (no comparisons / logic)"""
    fs = ["exp", "sqrt", "sin", "cos", "log", "exp", "exp"]
    n = rng.randint(1, 3)
    lx = []
    for i in range(n):
        if i:
            lx.append(rng.choice(["+", "*", "-", "/", "**"]))
        q = rng.random()
        if q < 0.5:
            lx += [rng.choice(fs) + "(", L.gen_lit(rng), ")"]
        elif q < 0.65:
            lx += ["(", L.gen_lit(rng), "+", L.gen_lit(rng), ")"]
        else:
            lx.append(L.gen_lit(rng))
    if rng.random() < 0.3:
        kind, lx = inject_fault(rng, lx)
        return join(rng, lx), kind
    return join(rng, lx), "valid"


def gen_vars(rng):
    """expressions over the variables of a table and numbers: + - * / ** and parentheses"""
    names = ["a", "b", "c", "a", "2", "1.5", "3"]
    n = rng.randint(1, 4)
    lx = []
    for i in range(n):
        if i:
            lx.append(rng.choice(["+", "-", "*", "/", "**", "+"]))
        if rng.random() < 0.25:
            lx += ["(", rng.choice(names), rng.choice(["+", "*", "-"]), rng.choice(names), ")"]
        else:
            lx.append(rng.choice(names))
    if rng.random() < 0.25:
        kind, lx = inject_fault(rng, lx)
        return join(rng, lx), kind
    return join(rng, lx), "valid"


def gen_logic(rng):
    """comparisons, negated comparisons, and their conjunctions / disjunctions (default operators)"""
    def cmp_():
        return "%s %s %s" % (rng.choice(["1", "2", "3", "2", "5"]), rng.choice(["==", "!=", "<", ">", "<=", ">="]),
                             rng.choice(["1", "2", "3", "4"]))

    def term():
        q = rng.random()
        c = cmp_()
        if q < 0.3:
            return c
        if q < 0.55:
            return "!(%s)" % c
        if q < 0.75:
            return "!%s" % c
        if q < 0.85:
            return "!%s" % rng.choice(["0", "1", "2"])
        return "(%s)" % c
    n = rng.choice([1, 1, 1, 2, 2, 3])
    t = term()
    for _ in range(n - 1):
        t += " %s %s" % (rng.choice(["&&", "||"]), term())
    return t, "valid"


def gen_prefix(rng):
    """a custom table whose symbols share leading characters (`>>` / `>>=`, `and` / `andnot`)"""
    n = rng.randint(1, 4)
    lx = [L.gen_lit(rng)]
    for _ in range(n):
        lx += [rng.choice([">>", ">>=", "and", "andnot", "+", ">>", "and"]), L.gen_lit(rng)]
    if rng.random() < 0.2:
        lx = ["("] + lx + [")"]
    if rng.random() < 0.3:
        kind, lx = inject_fault(rng, lx)
        return join(rng, lx), kind
    return join(rng, lx), "valid"


def gen_stock(rng):
    if rng.random() < 0.3:
        return gen_logic(rng)
    return gen_edge(rng) if rng.random() < 0.6 else gen_default(rng)


GENS = {"stockcfg": gen_stock, "prefixcfg": gen_prefix, "varscfg": gen_vars, "arrayscfg": gen_vars, "inplacenumcfg": gen_num, "default": gen_default, "strcfg": gen_str, "unarycfg": gen_unary, "worldcfg": gen_world,
        "inplacecfg": gen_str, "countcfg": gen_default}


# ---------------------------------------------------------------- the check
def judge(ctx, cfgname, cfg, exprs, kinds=None, model=None, seed=0, pristine=None):
    real = run_history(cfg, exprs, seed=seed, check=lambda kind, msg: ctx.disagreement(
        "instance-%s:%s" % (kind, cfgname), {"cfg": cfgname, "config": cfg.get("mcfg"), "exprs": exprs}, msg))
    key = json.dumps([cfgname, cfg.get("mcfg"), exprs])
    nontriv = False
    if model is not None and "ok" not in model:
        ctx.disagreement("history:" + cfgname, {"cfg": cfgname, "config": cfg.get("mcfg"), "exprs": exprs},
                         "driver error %s" % model)
        model = None
    mlist = model["ok"] if model is not None else [None] * len(exprs)
    dirty = False
    model_off = False
    for k, (s, (out, left, right, fresh), m) in enumerate(zip(exprs, real, mlist)):
        if model_off:
            m = None
        ctx.count("%s.calls" % cfgname)
        if kinds:
            ctx.count("%s.call.%s" % (cfgname, kinds[k]))
        if dirty:
            nontriv = True
        if out != fresh:
            def fails(q):
                rr = run_history(cfg, q, seed=seed)
                return rr[-1][0] != rr[-1][3]
            small = shrink_list(exprs[:k], lambda q: fails(q + [s]), max_steps=60) + [s]
            if not fails(small):
                small = exprs[:k + 1]
            rr = run_history(cfg, small, seed=seed)
            ctx.violation("history:" + cfgname,
                          "call %d of a history on one %s instance%s: solve(%s) gives %s, a fresh instance gives %s" %
                          (len(small), cfgname, (" %s" % json.dumps(cfg["mcfg"])) if isinstance(cfg.get("mcfg"), dict) else "",
                           ("Expression(%r)" % s) if as_object(seed, s) else repr(s),
                           json.dumps(rr[-1][0])[:200], json.dumps(rr[-1][3])[:200]),
                          {"cfg": cfgname, "config": cfg.get("mcfg"), "exprs": small, "seed": seed,
                           "outcome": rr[-1][0], "fresh": rr[-1][3]})
            break
        base = pristine.get(s) if pristine else None
        if base is not None and (out == "err" or out == "none" or (isinstance(out, dict) and "atom" in out)) \
                and out != base:
            again = pristine_outcomes([s])
            if not again or again.get(s) != base:
                ctx.count("stockcfg.pristine_baseline_not_reproducible")
                continue
            hist = exprs[:k + 1]
            if POLLUTER["exprs"] is not None and POLLUTER["exprs"] != exprs[:len(POLLUTER["exprs"])]:
                hist = POLLUTER["exprs"] + hist       # the earlier calls of this process that changed the state
            ctx.violation("history:" + cfgname + ":process-state",
                          "call %d of the history %s on one %s instance: solve(%r) gives %s; the same expression in a "
                          "process that solved nothing before gives %s (a fresh instance in this process: %s)%s" %
                          (len(hist), json.dumps(hist)[:300], cfgname, s, json.dumps(out)[:160], json.dumps(base)[:160],
                           json.dumps(fresh)[:160],
                           ("; process-wide state changed by the earlier calls: %s" % POLLUTER["what"]) if POLLUTER["what"] else ""),
                          {"cfg": cfgname, "exprs": hist, "seed": seed, "outcome": out, "pristine": base,
                           "process_state_changed": repr(POLLUTER["what"])})
            break
        dirty = bool(left or right)
        if dirty:
            ctx.count("%s.calls_leaving_tokens" % cfgname)
        if m is None:
            continue
        if model_unsupported(m["out"]):
            ctx.count("model.unsupported")
            model_off = True                 # the model's state is not meaningful any more
            continue
        mo = canon_mout(cfg, m["out"])
        if out != mo and kinds and kinds[k] in NO_MODEL_VERDICT:
            # random symbol soup: the fresh-instance comparison (the property) applies, a difference between code
            # and model on such a string is only counted and ends the model comparison of this history
            ctx.count("outside.impl_ne_model")
            model_off = True
            continue
        if out != mo:
            ctx.disagreement("history-outcome:" + cfgname, {"cfg": cfgname, "config": cfg.get("mcfg"), "exprs": exprs[:k + 1]},
                             "impl %s model %s" % (out, mo))
            break
        ml = [canon_mtok(cfg, t) for t in m["bufs"]["left"]]
        mr = [canon_mtok(cfg, t) for t in m["bufs"]["right"]]
        if (left, right) != (ml, mr):
            ctx.disagreement("history-state:" + cfgname, {"cfg": cfgname, "config": cfg.get("mcfg"), "exprs": exprs[:k + 1]},
                             "buffers after the call: impl %s | %s, model %s | %s" % (left, right, ml, mr))
            break
        if canon_mout(cfg, m["fresh"]) != mo:
            ctx.disagreement("history-model:" + cfgname, {"cfg": cfgname, "exprs": exprs[:k + 1]},
                             "model outcome differs from the model's fresh instance")
        if canon_mout(cfg, m["noreset"]) != mo:
            ctx.count("%s.calls_where_reset_matters" % cfgname)
    ctx.case(key, nontriv, {"cfg": cfgname, "history": exprs[:4]} if not isinstance(cfg.get("mcfg"), dict)
             else {"cfg": cfg["mcfg"], "history": exprs[:3]})


def pristine_outcomes(texts):
    """{text: outcome of ExpressionSolver(AtomBase).solve(text) in a forked child of a process that never ran
    the solver}  (harness/props/c02_pristine.py)"""
    import os
    import subprocess
    import sys
    if not texts:
        return {}
    env = dict(os.environ, VERIF_REPO=str(core.REPO))
    try:
        p = subprocess.run([sys.executable, PR.__file__], env=env, text=True, stdout=subprocess.PIPE,
                           stderr=subprocess.PIPE, input="".join(json.dumps({"s": t}) + "\n" for t in texts), timeout=1800)
    except (OSError, subprocess.SubprocessError):
        return None
    lines = p.stdout.splitlines()
    if p.returncode != 0 or len(lines) != len(texts):
        return None       # no baseline this time (reported as a note); never a verdict
    return {t: json.loads(l) for t, l in zip(texts, lines)}


def poisoned_stream(ctx, cfgname, cfg, histories):
    """between the calls everything an earlier call may have left is overwritten with garbage tokens and a
    half-consumed Expression; every outcome must still be a fresh instance's"""
    for exprs in histories:
        seed = ctx.rng.randrange(1 << 30)
        real = run_history(cfg, exprs, seed=seed, poisoned=True)
        ctx.count("%s.poisoned_calls" % cfgname, len(exprs))
        for k, (s, (out, _, _, fresh)) in enumerate(zip(exprs, real)):
            if out != fresh:
                ctx.violation("history:" + cfgname,
                              "solve(%r) on a %s instance whose buffers/expr held leftovers gives %s, a fresh instance %s"
                              % (s, cfgname, json.dumps(out)[:200], json.dumps(fresh)[:200]),
                              {"cfg": cfgname, "exprs": exprs[:k + 1], "seed": seed, "poisoned": True,
                               "outcome": out, "fresh": fresh})
                return
        ctx.case(json.dumps(["poisoned", cfgname, exprs]), True, None)


def interleaved_stream(ctx, cfgname, cfg, histories):
    """two instances built on the SAME operators / steps objects, called alternately"""
    from scinumtools.solver import ExpressionSolver
    for exprs in histories:
        ops = None if cfg["operators"] is None else dict(cfg["operators"])
        steps = copy_steps(cfg["steps"])
        a = ExpressionSolver(cfg["atom"], ops, steps)
        b = ExpressionSolver(cfg["atom"], ops, steps)
        ctx.count("%s.interleaved_calls" % cfgname, len(exprs))
        for k, s in enumerate(exprs):
            es = a if k % 2 == 0 else b
            obj = as_object(k, s)
            fresh = run_fresh(cfg, s, obj)
            out = call(cfg, es, s, obj)
            if out != fresh:
                ctx.violation("history:" + cfgname,
                              "two %s instances sharing operators/steps, called alternately: solve(%r) gives %s, "
                              "a fresh instance %s" % (cfgname, s, json.dumps(out)[:200], json.dumps(fresh)[:200]),
                              {"cfg": cfgname, "exprs": exprs[:k + 1], "interleaved": True, "outcome": out, "fresh": fresh})
                return
        ctx.case(json.dumps(["interleaved", cfgname, exprs]), True, None)


def correspond(ctx: Ctx):
    thorough = ctx.tier == "thorough"
    rng = ctx.rng
    cfgs = make_configs()
    maxlen = 40 if thorough else 8
    count = 1500 if thorough else 300
    POLLUTER["exprs"], POLLUTER["what"] = None, None
    if PROBE_EFFECT:
        ctx.disagreement("probe-process-state", {"changed": repr(PROBE_EFFECT)},
                         "running the operate_* methods once (abstract probing) changed process-wide state: %s" % PROBE_EFFECT)
    plan = []
    # the stock-atom histories come first: the harness process itself must still be pristine for them
    for _ in range(count // 2):
        n = rng.randint(2, maxlen)
        calls = [gen_stock(rng) for _ in range(n)]
        plan.append(("stockcfg", cfgs["stockcfg"], [c[0] for c in calls], [c[1] for c in calls]))
    for f in sorted(CORPUS.glob("*.json")):
        for h in json.loads(f.read_text()).get("histories", []):
            plan.append((h["cfg"], cfgs[h["cfg"]], h["exprs"], None))
    for cfgname in ("default", "strcfg", "unarycfg", "prefixcfg"):
        for _ in range(count if cfgname != "prefixcfg" else count // 2):
            n = rng.randint(2, maxlen)
            calls = [GENS[cfgname](rng) for _ in range(n)]
            plan.append((cfgname, cfgs[cfgname], [c[0] for c in calls], [c[1] for c in calls]))
    # long histories dominated by rejected calls (an effect that needs dozens of failures to build up)
    longlen = 400 if thorough else 150
    for _ in range(6 if thorough else 2):
        calls = [gen_default(rng, 0.75) for _ in range(longlen)]
        plan.append(("default", cfgs["default"], [c[0] for c in calls], [c[1] for c in calls]))
        calls = [gen_default(rng, 0.75) for _ in range(longlen)]
        plan.append(("stockcfg", cfgs["stockcfg"], [c[0] for c in calls], [c[1] for c in calls]))
    # the same rejected call repeated dozens of times, then valid calls (accumulating effects)
    for cfgname in ("default", "stockcfg", "strcfg", "unarycfg"):
        g = GENS[cfgname]
        for _ in range(8 if thorough else 4):
            bad = None
            for _try in range(200):
                t, kind = g(rng)
                if kind not in ("valid", "valid-any-text", "edge") and (cfgname == "unarycfg" or "(" in t):
                    bad = t
                    break
            if bad is None:
                continue
            good = [x for x in (g(rng) for _ in range(30)) if x[1] in ("valid", "edge")][:4]
            k = rng.randint(35, 90)
            plan.append((cfgname, cfgs[cfgname], [bad] * k + [x[0] for x in good], ["repeat"] * k + [x[1] for x in good]))
    # operator subsets of the default table, with and without 'par', default and custom step orders
    default_ops = dict(new_solver(cfgs["default"]).operators)
    for i in range(count):
        sub = make_subset_config(rng, default_ops)
        sub["any_atom"] = cfgs["default"]["any_atom"]
        n = rng.randint(2, min(maxlen, 12))
        calls = [gen_subset(rng, sub) for _ in range(n)]
        ctx.count("subset.%s_par" % ("with" if "par" in sub["names"] else "without"))
        ctx.count("subset.%s_steps" % ("default" if sub["steps"] is None else "custom"))
        plan.append(("subset", sub, [c[0] for c in calls], [c[1] for c in calls]))
    # atom classes that are not pure (constructor reads changing variables / in-place operators / counted)
    for cfgname in ("worldcfg", "inplacecfg", "countcfg", "inplacenumcfg", "varscfg", "arrayscfg"):
        for _ in range(count // 2):
            n = rng.randint(2, maxlen)
            calls = [GENS[cfgname](rng) for _ in range(n)]
            plan.append((cfgname, cfgs[cfgname], [c[0] for c in calls], [c[1] for c in calls]))
    # the outcome of every stock expression in a process that solved nothing before
    ptexts = sorted({s for p in plan if p[1]["pristine"] for s in p[2]})
    pristine = pristine_outcomes(ptexts)
    if pristine is None:
        ctx.notes.append("pristine-process oracle unavailable in this run: stock outcomes compared with fresh instances only")
        pristine = {}
    ctx.count("stockcfg.pristine_baselines", len([t for t in ptexts if pristine.get(t) is not None]))
    modelled = [i for i, p in enumerate(plan) if p[1]["alg"] is not None]
    answers = ctx.driver.ask_many(
        [{"k": "history", "cfg": plan[i][1]["mcfg"], "alg": plan[i][1]["alg"], "exprs": plan[i][2]} for i in modelled])
    model_of = dict(zip(modelled, answers))
    for i, (cfgname, cfg, exprs, kinds) in enumerate(plan):
        judge(ctx, cfgname, cfg, exprs, kinds, model=model_of.get(i), seed=rng.randrange(1 << 30),
              pristine=pristine if cfg["pristine"] else None)
        if len(ctx.violations) >= 4:
            break
    extra = max(30, count // 5)
    for cfgname in ("default", "strcfg", "unarycfg", "inplacecfg"):
        if len(ctx.violations) >= 4:
            break
        hs = [[GENS[cfgname](rng)[0] for _ in range(rng.randint(2, maxlen))] for _ in range(extra)]
        poisoned_stream(ctx, cfgname, cfgs[cfgname], hs)
        hs = [[GENS[cfgname](rng)[0] for _ in range(rng.randint(2, maxlen))] for _ in range(extra)]
        interleaved_stream(ctx, cfgname, cfgs[cfgname], hs)


def search(ctx: Ctx):
    """aimed search: every faulty call followed by every valid call, all configurations, real code only"""
    cfgs = make_configs()
    pools = {
        "default": (["1 + x", "(1", "2 * BOOM", "3 +", "sin(1,2)", "(1)(2)"], ["2", "1+1", "sin(0)"]),
        "strcfg": (["a + BOOM", "(a", "a + ", "> a"], ["a", "a + b", "(a) > (b)"]),
        "unarycfg": (["~3 + x", "~", "2^ + BOOM", "3 +"], ["2", "~3 + 2^"]),
        "inplacecfg": (["a + b", "a + b +", "(a"], ["a + c", "a"]),
        "countcfg": (["1 + 2", "1 + x"], ["1", "2 + 1"]),
    }
    for cfgname, (bad, good) in pools.items():
        cfg = cfgs[cfgname]
        for b in bad:
            for g in good:
                rr = run_history(cfg, [b, g])
                if rr[-1][0] != rr[-1][3]:
                    ctx.violation("history:" + cfgname,
                                  "after solve(%r) the same %s instance gives %s for solve(%r), a fresh one %s" %
                                  (b, cfgname, json.dumps(rr[-1][0])[:200], g, json.dumps(rr[-1][3])[:200]),
                                  {"cfg": cfgname, "exprs": [b, g], "outcome": rr[-1][0], "fresh": rr[-1][3]})
                    return


def replay(ctx: Ctx, payload):
    rp = payload.get("replay", payload)
    if "exprs" not in rp:
        print(json.dumps(payload, indent=1)[:3000])
        return 0
    cfgs = make_configs()
    if isinstance(rp.get("config"), dict):
        from scinumtools.solver import Otype
        default_ops = dict(new_solver(cfgs["default"]).operators)
        order = rp["config"]["ops"]
        st = rp["config"]["steps"]
        cfg = dict(cfgs["default"], operators={n: default_ops[n] for n in order},
                   steps=None if st is None else [dict(operators=list(o), otype=Otype[t]) for o, t in st],
                   classes=[default_ops[n] for n in order])
        print("configuration: operator subset %s, steps %s" % (order, st))
    else:
        cfg = cfgs[rp["cfg"]]
        print("configuration: %s" % rp["cfg"])
    base = pristine_outcomes(sorted(set(rp["exprs"]))) if cfg.get("pristine") else {}
    for s, (out, left, right, fresh) in zip(rp["exprs"], run_history(cfg, rp["exprs"], seed=rp.get("seed", 0),
                                                                      poisoned=bool(rp.get("poisoned")))):
        print("solve(%s) -> %s   [fresh instance: %s]%s   buffers left behind: %s | %s" %
              (("Expression(%r)" % s) if as_object(rp.get("seed", 0), s) else repr(s), json.dumps(out)[:160], json.dumps(fresh)[:160],
               ("   [process that solved nothing before: %s]" % json.dumps(base[s])[:160]) if s in base else "", left, right))
    return 0
