"""C02 — a solver instance is unaffected by what it solved before.

translator  : tables of the default solver and of the two customised solvers of the documentation
              -> Generated/C01Tables.lean, Generated/C02Tables.lean
correspond  : random histories of valid and faulty expressions on ONE real instance, three configurations;
              k-th outcome vs a fresh real instance (the property) and vs the Lean state machine (outcome
              and the buffers left behind after every call)
"""
import json

from harness import core
from harness.core import Ctx
from harness.util import shrink_list
from harness.props import c01_lang as L
from harness.props import c01_probe as P

RULE = ("random histories (length <= 8 quick / <= 40 thorough) of solve() calls on one instance; each call is a "
        "generated valid expression or one with a fault injected at a random token position (unknown atom, "
        "deleted operand, unbalanced parenthesis, atom constructor raising on a marker); three configurations: "
        "default operators with a recording atom, the documentation's string atom with {add, gt, par}, the "
        "documentation's custom unary operators with custom steps; recon corpus first; plus histories in which the "
        "buffers and self.expr are overwritten with garbage between the calls, and histories alternating between two "
        "instances that share the operators/steps objects. non-trivial = a history "
        "in which a call after a failing call that left tokens behind is judged; distinct = the history")
ASSUMPTIONS = [
    "the atom class is pure (constructor and methods have no state of their own); the operator table, the steps "
    "and the operator classes are not written by solve() -- checked on the real objects after every generated "
    "history (snapshot before/after), they are parameters of the model",
    "solve() is called with strings (an Expression object passed in is consumed by the call)",
    "outcomes are compared as terms (recording atom) or as the documented string atom's values; every raised "
    "exception is one outcome 'err'",
    "the behaviour of customised operators must fit the template language of the translator (get_left/get_right "
    "followed by put_* of atom expressions); both documentation examples do",
]
EXPLANATION = ("theorems: for every operator table, step table and atom algebra and every history (failing calls "
               "included) the next outcome equals a fresh instance's; a successful call leaves the buffers empty; "
               "a failing call leaves tokens and the un-reset body would be history dependent (witness). "
               "correspondence: outcome AND leftover buffers of the real instance vs the model after every call")

GEN1 = core.LEAN / "SciVerif" / "Generated" / "C01Tables.lean"
GEN2 = core.LEAN / "SciVerif" / "Generated" / "C02Tables.lean"
CORPUS = core.VERIF / "corpus" / "C02"


def gen_tables(ctx):
    changed = []
    cfg = P.default_config()
    doc = P.doc_steps((core.REPO / "docs" / "source" / "solver" / "index.rst").read_text())
    if core.write_if_changed(GEN1, P.render_c01(cfg, doc)):
        changed.append(str(GEN1))
    cfgs = [(k, P.extract_config(k, *v)) for k, v in P.custom_configs().items()]
    if core.write_if_changed(GEN2, P.render_c02(cfgs)):
        changed.append(str(GEN2))
    return changed


# ---------------------------------------------------------------- configurations (real side)
def make_configs():
    from scinumtools.solver import ExpressionSolver, AtomBase

    class AtomStr(AtomBase):
        """the string atom of the documentation / tests (plus a constructor that raises on the marker)"""
        value: str

        def __init__(self, value):
            if isinstance(value, str) and "BOOM" in value:
                raise RuntimeError("marker")
            self.value = str(value)

        def __add__(self, other):
            return AtomStr(self.value + other.value)

        def __gt__(self, other):
            return AtomStr(len(self.value) > len(other.value))

    custom = P.custom_configs()
    dflt = ExpressionSolver(P.RecAtom)
    return {
        "default": dict(atom=P.RecAtom, operators=None, steps=None, alg="float",
                        classes=list(dflt.operators.values()), value=lambda a: L.listify(a.value),
                        mvalue=lambda t: t),
        "strcfg": dict(atom=AtomStr, operators=custom["strcfg"][0], steps=custom["strcfg"][1], alg="any",
                       classes=list(custom["strcfg"][0].values()), value=lambda a: a.value,
                       mvalue=L.eval_str),
        "unarycfg": dict(atom=P.RecAtom, operators=custom["unarycfg"][0], steps=custom["unarycfg"][1],
                         alg="float", classes=list(custom["unarycfg"][0].values()),
                         value=lambda a: L.listify(a.value), mvalue=lambda t: t),
    }


def canon_tok(cfg, t):
    if t is None:
        return "none"
    if isinstance(t, cfg["atom"]):
        return {"atom": cfg["value"](t)}
    for i, c in enumerate(cfg["classes"]):
        if type(t) is c:
            args = t.args or []
            return {"op": i, "args": [None if a is None else (cfg["value"](a) if isinstance(a, cfg["atom"]) else "?")
                                      for a in args]}
    return {"unknown": type(t).__name__}


def canon_mtok(cfg, t):
    if t == "none":
        return "none"
    if "atom" in t:
        return {"atom": cfg["mvalue"](t["atom"])}
    if "op" in t:
        return {"op": t["op"], "args": [None if a is None else cfg["mvalue"](a) for a in t["args"]]}
    return t


def snapshot(es):
    """everything `solve` must NOT write: the operator dict, the step list, the class attributes"""
    ops = [(k, id(v)) for k, v in es.operators.items()]
    steps = [(tuple(st["operators"]), st["otype"], tuple(sorted(st.keys()))) for st in es.steps]
    attrs = [(c.__name__, c.symbol, getattr(c, "narg", None), getattr(c, "symbol_open", None),
              getattr(c, "symbol_separator", None), getattr(c, "symbol_close", None), c.__dict__.get("args", "absent"))
             for c in es.operators.values()]
    return ops, steps, attrs, id(es.tokens.atom)


def poison(cfg, es, rng):
    """overwrite everything a call may have left behind with garbage (C02_state_independence: the next
    call must not read it)"""
    from scinumtools.solver.expression import Expression

    def junk():
        r = rng.random()
        if r < 0.3:
            return None
        if r < 0.6:
            try:
                return cfg["atom"]("7")
            except Exception:
                return None
        c = rng.choice(cfg["classes"])
        o = c.__new__(c)
        return o
    es.tokens.left = [junk() for _ in range(rng.randint(0, 3))]
    es.tokens.right = [junk() for _ in range(rng.randint(0, 3))]
    ex = Expression("junk + (")
    ex.shift(rng.randint(0, 4))
    es.expr = ex


def run_history(cfg, exprs, poison_rng=None, check=None):
    """one real instance -> [(outcome, left, right)] after every call"""
    from scinumtools.solver import ExpressionSolver
    es = ExpressionSolver(cfg["atom"], cfg["operators"], cfg["steps"])
    before = snapshot(es)
    out = []
    for s in exprs:
        if poison_rng is not None and poison_rng.random() < 0.7:
            poison(cfg, es, poison_rng)
        try:
            r = canon_tok(cfg, es.solve(s))
        except Exception:
            r = "err"
        out.append((r, [canon_tok(cfg, t) for t in es.tokens.left], [canon_tok(cfg, t) for t in es.tokens.right]))
        if check is not None and getattr(es.expr, "expr", None) != s:
            check("expr", "self.expr.expr is %r after solve(%r)" % (getattr(es.expr, "expr", None), s))
    if check is not None and snapshot(es) != before:
        check("config", "operators / steps / operator classes were modified by solve()")
    return out


def run_fresh(cfg, s):
    from scinumtools.solver import ExpressionSolver
    try:
        with ExpressionSolver(cfg["atom"], cfg["operators"], cfg["steps"]) as es:
            return canon_tok(cfg, es.solve(s))
    except Exception:
        return "err"


def canon_mout(cfg, m):
    if isinstance(m, dict) and "err" in m:
        return "err"
    return canon_mtok(cfg, m)


# ---------------------------------------------------------------- expression pools
def inject_fault(rng, lx, allow_paren=True):
    """lexeme list -> faulty text"""
    lx = list(lx)
    lits = [i for i, x in enumerate(lx) if x and (x[0].isdigit() or x[0] == "." or x[0].isalpha() and "(" not in x)]
    kind = rng.choice(["unknown", "delete", "paren", "marker"] if allow_paren else ["unknown", "delete", "marker"])
    if kind == "paren":
        ps = [i for i, x in enumerate(lx) if x == ")"]
        if ps and rng.random() < 0.7:
            del lx[rng.choice(ps)]
        else:
            lx.insert(rng.randrange(len(lx) + 1), rng.choice(["(", ")"]))
    elif lits:
        i = rng.choice(lits)
        if kind == "unknown":
            lx[i] = "x"
        elif kind == "marker":
            lx[i] = "BOOM"
        else:
            del lx[i]
    else:
        lx.append("+")
    return kind, lx


def join(rng, lx):
    return "".join(" " * rng.choice([0, 0, 1, 2]) + x for x in lx) + " " * rng.choice([0, 0, 1])


def gen_default(rng):
    e = L.gen_expr(rng, 8, rng.randint(1, 4))
    lx = L.lexemes(e)
    if rng.random() < 0.45:
        kind, lx = inject_fault(rng, lx)
        return join(rng, lx), kind
    return join(rng, lx), "valid"


def gen_str(rng):
    words = ["limit", "100 km/s", "foo", "bar", "5", "a b", "x"]
    n = rng.randint(1, 4)
    lx = []
    for i in range(n):
        if i:
            lx.append(rng.choice(["+", "+", ">"]))
        if rng.random() < 0.25:
            lx += ["(", rng.choice(words), "+", rng.choice(words), ")"]
        else:
            lx.append(rng.choice(words))
    if rng.random() < 0.45:
        kind, lx = inject_fault(rng, lx)
        if kind == "unknown":
            kind = "valid-any-text"
        return join(rng, lx), kind
    return join(rng, lx), "valid"


def gen_unary(rng):
    n = rng.randint(1, 3)
    lx = []
    for i in range(n):
        if i:
            lx.append("+")
        pre = rng.choice(["", "~", "~", "~~"])
        post = rng.choice(["", "^", "^", "^^"])
        lx += [x for x in (pre[:1], pre[1:], L.gen_lit(rng), post[:1], post[1:]) if x]
    if rng.random() < 0.45:
        kind, lx = inject_fault(rng, lx, allow_paren=False)
        return join(rng, lx), kind
    return join(rng, lx), "valid"


GENS = {"default": gen_default, "strcfg": gen_str, "unarycfg": gen_unary}


# ---------------------------------------------------------------- the check
def judge(ctx, cfgname, cfg, exprs, kinds=None):
    real = run_history(cfg, exprs, check=lambda kind, msg: ctx.disagreement(
        "instance-%s:%s" % (kind, cfgname), {"cfg": cfgname, "exprs": exprs}, msg))
    model = ctx._c02_models.pop(0)
    key = json.dumps([cfgname, exprs])
    nontriv = False
    if "ok" not in model:
        ctx.disagreement("history:" + cfgname, {"cfg": cfgname, "exprs": exprs}, "driver error %s" % model)
        ctx.case(key, False)
        return
    dirty = False
    for k, (s, (out, left, right), m) in enumerate(zip(exprs, real, model["ok"])):
        ctx.count("%s.calls" % cfgname)
        if kinds:
            ctx.count("%s.call.%s" % (cfgname, kinds[k]))
        if isinstance(m["out"], dict) and m["out"].get("err") in ("fuel",) or \
                (isinstance(m["out"], dict) and str(m["out"].get("err", "")).startswith("unsupported")):
            ctx.count("model.unsupported")
            break
        fresh = run_fresh(cfg, s)
        if dirty:
            nontriv = True
        if out != fresh:
            def fails(q):
                rr = run_history(cfg, q)
                return rr[-1][0] != run_fresh(cfg, q[-1])
            small = shrink_list(exprs[:k], lambda q: fails(q + [s]), max_steps=60) + [s]
            if not fails(small):
                small = exprs[:k + 1]
            rr = run_history(cfg, small)
            ctx.violation("history:" + cfgname,
                          "call %d of a history on one %s instance: solve(%r) gives %s, a fresh instance gives %s" %
                          (len(small), cfgname, s, json.dumps(rr[-1][0])[:200], json.dumps(run_fresh(cfg, s))[:200]),
                          {"cfg": cfgname, "exprs": small, "outcome": rr[-1][0], "fresh": run_fresh(cfg, s)})
            break
        mo = canon_mout(cfg, m["out"])
        if out != mo:
            ctx.disagreement("history-outcome:" + cfgname, {"cfg": cfgname, "exprs": exprs[:k + 1]},
                             "impl %s model %s" % (out, mo))
            break
        ml = [canon_mtok(cfg, t) for t in m["bufs"]["left"]]
        mr = [canon_mtok(cfg, t) for t in m["bufs"]["right"]]
        if (left, right) != (ml, mr):
            ctx.disagreement("history-state:" + cfgname, {"cfg": cfgname, "exprs": exprs[:k + 1]},
                             "buffers after the call: impl %s | %s, model %s | %s" % (left, right, ml, mr))
            break
        if canon_mout(cfg, m["fresh"]) != mo:
            ctx.disagreement("history-model:" + cfgname, {"cfg": cfgname, "exprs": exprs[:k + 1]},
                             "model outcome differs from the model's fresh instance")
        dirty = bool(left or right)
        if dirty:
            ctx.count("%s.calls_leaving_tokens" % cfgname)
        if canon_mout(cfg, m["noreset"]) != mo:
            ctx.count("%s.calls_where_reset_matters" % cfgname)
    ctx.case(key, nontriv, {"cfg": cfgname, "history": exprs[:4]})


def poisoned_stream(ctx, cfgname, cfg, histories):
    """between the calls everything an earlier call may have left is overwritten with garbage tokens and a
    half-consumed Expression; every outcome must still be a fresh instance's"""
    for exprs in histories:
        real = run_history(cfg, exprs, poison_rng=ctx.rng)
        ctx.count("%s.poisoned_calls" % cfgname, len(exprs))
        for k, (s, (out, _, _)) in enumerate(zip(exprs, real)):
            fresh = run_fresh(cfg, s)
            if out != fresh:
                ctx.violation("history:" + cfgname,
                              "solve(%r) on a %s instance whose buffers/expr held leftovers gives %s, a fresh instance %s"
                              % (s, cfgname, json.dumps(out)[:200], json.dumps(fresh)[:200]),
                              {"cfg": cfgname, "exprs": exprs[:k + 1], "poisoned": True, "outcome": out, "fresh": fresh})
                return
        ctx.case(json.dumps(["poisoned", cfgname, exprs]), True, None)


def interleaved_stream(ctx, cfgname, cfg, histories):
    """two instances built on the SAME operators / steps objects, called alternately"""
    from scinumtools.solver import ExpressionSolver
    for exprs in histories:
        a = ExpressionSolver(cfg["atom"], cfg["operators"], cfg["steps"])
        b = ExpressionSolver(cfg["atom"], cfg["operators"], cfg["steps"])
        ctx.count("%s.interleaved_calls" % cfgname, len(exprs))
        for k, s in enumerate(exprs):
            es = a if k % 2 == 0 else b
            try:
                out = canon_tok(cfg, es.solve(s))
            except Exception:
                out = "err"
            fresh = run_fresh(cfg, s)
            if out != fresh:
                ctx.violation("history:" + cfgname,
                              "two %s instances sharing operators/steps, called alternately: solve(%r) gives %s, "
                              "a fresh instance %s" % (cfgname, s, json.dumps(out)[:200], json.dumps(fresh)[:200]),
                              {"cfg": cfgname, "exprs": exprs[:k + 1], "interleaved": True, "outcome": out, "fresh": fresh})
                return
        ctx.case(json.dumps(["interleaved", cfgname, exprs]), True, None)


def correspond(ctx: Ctx):
    thorough = ctx.tier == "thorough"
    rng = ctx.rng
    cfgs = make_configs()
    maxlen = 40 if thorough else 8
    count = 1500 if thorough else 300
    plan = []
    for f in sorted(CORPUS.glob("*.json")):
        for h in json.loads(f.read_text()).get("histories", []):
            plan.append((h["cfg"], h["exprs"], None))
    for cfgname in ("default", "strcfg", "unarycfg"):
        for _ in range(count):
            n = rng.randint(2, maxlen)
            calls = [GENS[cfgname](rng) for _ in range(n)]
            plan.append((cfgname, [c[0] for c in calls], [c[1] for c in calls]))
    ctx._c02_models = ctx.driver.ask_many(
        [{"k": "history", "cfg": c, "alg": cfgs[c]["alg"], "exprs": ex} for c, ex, _ in plan])
    for cfgname, exprs, kinds in plan:
        judge(ctx, cfgname, cfgs[cfgname], exprs, kinds)
        if len(ctx.violations) >= 3:
            break
    extra = max(30, count // 5)
    for cfgname in ("default", "strcfg", "unarycfg"):
        if len(ctx.violations) >= 3:
            break
        hs = [[GENS[cfgname](rng)[0] for _ in range(rng.randint(2, maxlen))] for _ in range(extra)]
        poisoned_stream(ctx, cfgname, cfgs[cfgname], hs)
        hs = [[GENS[cfgname](rng)[0] for _ in range(rng.randint(2, maxlen))] for _ in range(extra)]
        interleaved_stream(ctx, cfgname, cfgs[cfgname], hs)


def search(ctx: Ctx):
    """aimed search: every faulty call followed by every valid call, all configurations, real code only"""
    cfgs = make_configs()
    pools = {
        "default": (["1 + x", "(1", "2 * BOOM", "3 +", "sin(1,2)", "(1)(2)"], ["2", "1+1", "sin(0)"]),
        "strcfg": (["a + BOOM", "(a", "a + ", "> a"], ["a", "a + b", "(a) > (b)"]),
        "unarycfg": (["~3 + x", "~", "2^ + BOOM", "3 +"], ["2", "~3 + 2^"]),
    }
    for cfgname, (bad, good) in pools.items():
        cfg = cfgs[cfgname]
        for b in bad:
            for g in good:
                rr = run_history(cfg, [b, g])
                fr = run_fresh(cfg, g)
                if rr[-1][0] != fr:
                    ctx.violation("history:" + cfgname,
                                  "after solve(%r) the same %s instance gives %s for solve(%r), a fresh one %s" %
                                  (b, cfgname, json.dumps(rr[-1][0])[:200], g, json.dumps(fr)[:200]),
                                  {"cfg": cfgname, "exprs": [b, g], "outcome": rr[-1][0], "fresh": fr})
                    return


def replay(ctx: Ctx, payload):
    rp = payload.get("replay", payload)
    if "exprs" not in rp:
        print(json.dumps(payload, indent=1)[:3000])
        return 0
    cfgs = make_configs()
    cfg = cfgs[rp["cfg"]]
    print("configuration: %s" % rp["cfg"])
    for s, (out, left, right) in zip(rp["exprs"], run_history(cfg, rp["exprs"])):
        print("solve(%r) -> %s   [fresh instance: %s]   buffers left behind: %s | %s" %
              (s, json.dumps(out)[:160], json.dumps(run_fresh(cfg, s))[:160], left, right))
    return 0
