"""C07 — operations on quantities never alter their operands; results share no mutable state.

correspondence (impl vs Lean heap model): the ALIAS RELATION between the ids of every Magnitude, value array,
error array, BaseUnits and exponent dict reachable from every live quantity, over the whole history of a
generated program, must equal the relation between the model's heap locations (relations are compared,
never raw ids).
oracle (impl vs specification = the property itself): after every operator / comparison / NumPy function /
value(unit) query every live quantity reports the identical (value, units, abse); after an in-place method
(to, rebase, abse, rele, a write into the array handed out by value()/abse()) every quantity *other than the
target* does — this is "the result shares no mutable state with an operand, and vice versa".
"""
import json
import warnings
from decimal import Decimal
from pathlib import Path

from harness.core import Ctx, VERIF

RULE = ("programs = 2-4 constructed quantities (float/int/array/Decimal magnitudes, with/without abse; one unit "
        "family: length, time, angle, dimensionless, logarithmic, temperature; sometimes a foreign unit) + random "
        "operators (+ - * / ** neg; number operands on the right and on the LEFT = the reflected operators, numbers "
        "drawn from 0, 1, -1, 0.0, 1.0, 2, 0.5, 3; builtin sum() and math.prod() over 1-3 quantities with/without a "
        "start quantity; the augmented forms `y = x; y op= z` of all five operators), value(unit) and value(unit, dtype) with casts that succeed and casts that refuse AFTER the "
        "conversion (list/tuple on scalars, int/int32 on nan/inf, a non-type), unconvertible and malformed unit strings, "
        "occasional nan/inf magnitudes, a broad list of further unary and binary ufuncs (quantity/quantity, "
        "quantity/number, number/quantity; oracle only), == / !=, NumPy functions (sqrt cbrt power sin cos "
        "tan arcsin arccos arctan absolute floor ceil abs round sum isnan linspace logspace), value(unit), operands "
        "drawn from all live quantities incl. earlier results and x op x, interleaved with and followed by in-place "
        "methods (to text/BaseUnits/Quantity, rebase, abse, rele, in-place array writes) on every live quantity; "
        "corpus of the recon inputs first; a second stream of mixed float/Decimal scalar programs (either side, "
        "results inheriting an operand's BaseUnits, other-unit queries and conversions of the results first, of the "
        "operands afterwards). Observation of every live quantity after every step = value(), units(), abse() AND "
        "value(other unit of the same dimension: SI-base form + the units the program uses), all with their Python "
        "type (float / Decimal / array dtype), asked of a deep copy; cached fields and dict content of every live "
        "BaseUnits object are read before/after every step. non-trivial = at least one binary/NumPy operation on operands of "
        "different units, or on an earlier result, or x op x, followed by at least one in-place method; "
        "distinct = canonical JSON of the program")
ASSUMPTIONS = [
    "abse()/rele() setters are given plain numbers (an array argument would be stored by reference by design)",
    "BaseUnits and exponent dicts are frozen after construction (proved for the model, theorem C07_units_frozen; "
    "checked on the real objects on every step: magnitude incl. its type, dimensions, units, expression, nodim, "
    "nobase and the dict content of every BaseUnits object held by a live quantity must be identical before and "
    "after; a write is an impl-vs-model disagreement, its effect on any quantity's converted value a violation); "
    "sharing them between result and operand is therefore not 'mutable state'. Fraction.rebase() normalises exponents in place inside shared dicts; it is value-preserving "
    "and outside the model",
    "value() without a unit and abse() without an argument are accessors that hand out the internal array; "
    "writing through them is modelled as an in-place method of that quantity (op 'poke')",
    "user code that passes a Magnitude/BaseUnits/dict of one quantity into the constructor of another creates "
    "sharing on purpose and is outside the operation list of the property",
    "numeric payload is abstracted to tokens: the model only says which cells are written and shared",
    "np.sum / np.prod over a Python LIST of quantities is numpy's object-array reduction (no library code runs; for a "
    "one-element list numpy returns the element itself) and is outside the property; np.sum(quantity) is covered",
    "the returned quantity is also judged directly on the real objects: it must not BE another live quantity nor "
    "hold the Magnitude object / value array / error array of one (C07_result_new, C07_result_separate)",
    "operations that raise — before or after a successful internal conversion — are judged by the oracle like any "
    "other step (value/units/abse, converted values and BaseUnits fields of ALL live quantities unchanged); they are "
    "not sent to the model (no quantity is created, no alias changes); which exception is irrelevant",
]
EXPLANATION = ("theorems: heap invariant (every Magnitude owned by one quantity, every array by one Magnitude slot, "
               "error array only with value array) preserved by every operation for all unit-algebra facts; every "
               "pure operation leaves all observations unchanged; in-place methods change only their target; the "
               "result's mutable cells are disjoint from every other quantity's; BaseUnits/dicts never written; "
               "lifted to all finite programs")

FAMILIES = {
    "length": ["m", "cm", "km", "mm", "m", "cm"],
    "time": ["s", "ms", "min", "h"],
    "angle": ["deg", "rad", "deg", "'"],
    "nodim": [None, "%", "ppth", "PR", "AR", "%", "m/cm", "s/ms"],      # ratio units survive only through to()
    "log": ["dBm", "dBm", "dBmW", "dBW", "Bm"],
    "temp": ["K", "Cel", "K", "degF"],
    "area": ["m2", "cm2", "m*cm"],
    "speed": ["m/s", "km/h", "cm*s-1"],
}
UFUNCS = {
    "root": ["sqrt", "cbrt", "power"],
    "angle": ["sin", "cos", "tan"],
    "arc": ["arcsin", "arccos", "arctan"],
    # every ufunc without a branch of its own goes through the default `Quantity(f(value), a.baseunits)`
    "keep": ["absolute", "floor", "ceil", "abs", "round", "negative_ufunc",
             "exp", "exp2", "expm1", "log", "log2", "log10", "log1p", "sinh", "cosh", "tanh", "arcsinh",
             "square", "sign", "fabs", "rint", "trunc", "reciprocal", "positive", "deg2rad", "rad2deg"],
    "sum": ["sum"],
    "test": ["isnan"],
}
UF_KIND = {n: k for k, ns in UFUNCS.items() for n in ns}
INPLACE = ("to", "rebase", "abse", "rele", "poke")
# further ufuncs numpy dispatches through __array_ufunc__ (unary with odd result types, binary with a quantity or a
# number on either side): judged by the oracle only, never sent to the model, their result is not tracked
UFX_UNARY = ["isfinite", "isinf", "signbit", "logical_not", "modf", "frexp", "conj", "spacing", "arccosh", "arctanh",
             "exp", "log", "log10", "tanh", "sinh", "cosh", "expm1", "log1p", "exp2", "log2"]
UFX_BINARY = ["add", "subtract", "multiply", "divide", "maximum", "minimum", "hypot", "arctan2", "fmod", "power",
              "greater", "equal", "copysign", "logaddexp"]
# dtype arguments of value(unit, dtype=…): casts that succeed, casts that refuse scalars (list, tuple), casts that
# refuse nan/inf (int, int32), and something that is no type at all (refuses everything, after the conversion)
DTYPES = ("int", "float", "str", "complex", "list", "tuple", "int32", "nosuchtype")
MALFORMED = ["xyz", "m^2", "(m", "k m", "#foo1", "2m"]


def mk_dtype(name):
    np = _np()
    return {"int": int, "float": float, "str": str, "complex": complex, "list": list, "tuple": tuple,
            "int32": np.int32, "nosuchtype": "nosuchtype"}[name]


# plain-number operands: neutral and absorbing elements of + and * (int and float), and ordinary numbers
NUMBERS = [0, 1, -1, 0.0, 1.0, 2, 0.5, 3]


# ------------------------------------------------------------------ generation
def gen_value(rng, fam):
    kind = rng.choices(["float", "int", "array", "decimal"], [4, 2, 4, 2])[0]
    if fam == "log":
        pool = [20, 30, 10, 3, 0]
    elif fam == "arcdom":
        pool = [0.5, 0.25, -0.5, 0, 1]
    else:
        pool = [1, 2, 3, 0.5, 4, 9, 90, 0, -2, 1000, 0.001]
    special = rng.random() < 0.06        # a missing value / overflow marker among the numbers
    if special and kind in ("float", "array", "int"):
        kind = "array" if kind == "array" else "float"
        pool = list(pool[:3]) + ["nan", "inf", "-inf"]
        if kind == "float":
            pool = ["nan", "inf", "-inf"]
    if kind == "array":
        v = [rng.choice(pool) for _ in range(rng.choice([1, 2, 3]))]
    elif kind == "decimal":
        v = str(rng.choice(pool))
    elif kind == "int":
        v = int(rng.choice([1, 2, 3, 4, 9, 90, 0, 20, 30]))
    else:
        v = rng.choice(pool)
        v = v if isinstance(v, str) else float(v)     # "nan"/"inf" stay strings in the (JSON) program
    abse = rng.choice([None, None, 0.1, 0.5]) if kind != "decimal" else None
    return kind, v, abse


def gen_prog(rng, maxops):
    fam = rng.choice(list(FAMILIES))
    units = FAMILIES[fam]
    prog = []
    nvars = 0
    for _ in range(rng.randint(2, 4)):
        u = rng.choice(units)
        if rng.random() < 0.08:
            u = rng.choice(rng.choice(list(FAMILIES.values())))
        kind, v, abse = gen_value(rng, fam)
        prog.append(["new", kind, v, u, abse])
        nvars += 1

    def var():
        return rng.randrange(nvars)

    def unit():
        r = rng.random()
        if r < 0.05:
            return rng.choice(MALFORMED)       # not a unit expression at all: the query must fail cleanly
        return rng.choice(units) if r < 0.87 else rng.choice(rng.choice(list(FAMILIES.values())))

    def inplace():
        r = rng.random()
        i = var()
        if r < 0.35:
            t = rng.random()
            if t < 0.6:
                return ["to", i, ["text", unit()]]
            if t < 0.8:
                return ["to", i, ["buOf", var()]]
            return ["to", i, ["qty", var()]]
        if r < 0.45:
            return ["rebase", i]
        if r < 0.6:
            return ["abse", i, rng.choice([0.2, 0.3, 1])]
        if r < 0.7:
            return ["rele", i, rng.choice([10, 5])]
        return ["poke", i, rng.random() < 0.35, rng.choice([7.0, 11.0, 13.0])]

    for _ in range(rng.randint(2, maxops)):
        r = rng.random()
        if r < 0.30:
            op = rng.choice(["add", "sub", "mul", "div", "add", "sub"])
            i = var()
            j = i if rng.random() < 0.15 else var()
            prog.append(["bin", op, i, j] + (["aug"] if rng.random() < 0.15 else []))
            nvars += 1
        elif r < 0.40:
            # number operand on the right AND on the left (reflected operators), neutral / absorbing numbers incl.
            op = rng.choice(["mul", "div", "add", "sub", "add", "mul", "pow"])
            refl = rng.random() < 0.5
            # `y = x; y *= number` (augmented form): rebinding on this library, so `x` must stay what it was
            prog.append(["binnum", op, var(), rng.choice(NUMBERS), refl] + (["aug"] if not refl and rng.random() < 0.3 else []))
            nvars += 1
        elif r < 0.44:
            # builtin sum() / math.prod() over 1-3 quantities, with or without a start quantity
            items = [var() for _ in range(rng.choice([1, 1, 2, 3]))]
            prog.append(["fold", rng.choice(["sum", "prod"]), items, var() if rng.random() < 0.3 else None])
            nvars += 1
        elif r < 0.47:
            prog.append(["pow", var(), rng.choice([2, 3, [1, 2], -1, 0, 1])])
            nvars += 1
        elif r < 0.51:
            prog.append(["neg", var()])
            nvars += 1
        elif r < 0.57:
            prog.append(["cmp", rng.choice(["eq", "ne"]), var(), var()])
        elif r < 0.59:
            prog.append(["cmpnum", var(), rng.choice([0, 1, 2.0])])
        elif r < 0.70:
            name = rng.choice([n for ns in UFUNCS.values() for n in ns] + ["sin", "cos", "sqrt"])
            prog.append(["ufunc", name, var()])
            if UF_KIND[name] != "test":
                nvars += 1
        elif r < 0.73:
            if rng.random() < 0.5:
                prog.append(["ufx", rng.choice(UFX_UNARY), var(), None, "unary"])
            else:
                prog.append(["ufx", rng.choice(UFX_BINARY), var(), var(),
                             rng.choice(["qq", "qn", "nq"])])
        elif r < 0.77:
            prog.append(["space", rng.choice(["lin", "log"]), var(), var()])
            nvars += 1
        elif r < 0.80:
            prog.append(["space1", rng.choice(["lin", "log"]), var(), rng.choice([0, 1, 3]), rng.random() < 0.5])
            nvars += 1
        elif r < 0.86:
            # value(unit) and value(unit, dtype=…): the cast runs AFTER the conversion and may refuse
            prog.append(["value", var(), unit()] + ([rng.choice(list(DTYPES))] if rng.random() < 0.5 else []))
        else:
            prog.append(inplace())
    # epilogue: in-place methods on (almost) every live quantity, operands and results alike
    order = list(range(nvars))
    rng.shuffle(order)
    for i in order:
        if rng.random() < 0.85:
            op = inplace()
            op[1] = i
            prog.append(op)
    return prog


def gen_mixed_prog(rng):
    """mixed float/Decimal scalar operands (either side), results inheriting an operand's BaseUnits, then
    other-unit queries / conversions of the RESULTS first and of the OPERANDS afterwards"""
    fam = rng.choice(["length", "time", "area", "speed", "angle", "temp", "nodim", "log"])
    units = FAMILIES[fam]
    kinds = ["float", "decimal"] + [rng.choice(["float", "int", "decimal"]) for _ in range(rng.randint(0, 1))]
    rng.shuffle(kinds)
    pool = [20, 30, 10] if fam == "log" else [2, 1.5, 3, 0.25, 20, 1000]
    prog = []
    for k in kinds:
        v = rng.choice(pool)
        v = str(v) if k == "decimal" else (int(v) if k == "int" else float(v))
        prog.append(["new", k, v, rng.choice(units), None])
    nv = len(kinds)
    nops = rng.randint(1, 3)
    for _ in range(nops):
        r = rng.random()
        i, j = rng.randrange(nv), rng.randrange(nv)
        if r < 0.6:
            prog.append(["bin", rng.choice(["add", "sub", "add", "sub", "mul", "div"]), i, j])
        elif r < 0.7:
            prog.append(["neg", i])
        elif r < 0.8:
            prog.append(["ufunc", rng.choice(["absolute", "negative_ufunc", "floor", "exp", "log10", "tanh"]), i])
        elif r < 0.9:
            prog.append(["binnum", rng.choice(["add", "sub", "mul", "div"]), i, rng.choice(NUMBERS), rng.random() < 0.5])
        else:
            prog.append(["space1", "lin", i, 0, True])
        nv += 1

    def query(i):
        r = rng.random()
        u = rng.choice(units)
        if r < 0.45:
            return ["value", i, u] + ([rng.choice(list(DTYPES))] if rng.random() < 0.4 else [])
        if r < 0.8:
            return ["to", i, ["text", u]]
        if r < 0.9:
            return ["cmp", "eq", i, rng.randrange(nv)]
        return ["rebase", i]
    order = list(range(len(kinds), nv))
    rng.shuffle(order)
    first = list(range(len(kinds)))
    rng.shuffle(first)
    for i in order + first:
        for _ in range(rng.randint(1, 2)):
            prog.append(query(i))
    return prog


# ------------------------------------------------------------------ real code
def _np():
    import numpy as np
    return np


def canon_val(v):
    np = _np()
    if v is None:
        return None
    if isinstance(v, np.ndarray):
        return ["arr", v.dtype.str, list(v.shape), v.tobytes().hex()]
    if isinstance(v, Decimal):
        return ["dec", str(v)]
    if isinstance(v, (bool, np.bool_)):
        return ["b", bool(v)]
    if isinstance(v, (float, np.floating)):
        return ["f", float(v).hex()]
    if isinstance(v, (int, np.integer)):
        return ["i", int(v)]
    return ["?", repr(v)]


def converted(q, alts):
    """value in OTHER units of the same dimension, with its Python type: the SI-base form of the quantity's
    dimension and the units the program itself uses.  Asked of a deep copy, so that the question cannot
    disturb the real objects (a conversion that writes would otherwise be triggered by the observer)."""
    import copy
    from scinumtools.units import BaseUnits
    out = []
    try:
        c = copy.deepcopy(q)
    except Exception:
        return ["nocopy"]
    targets = [None] + list(alts)
    for t in targets:
        try:
            tgt = BaseUnits(c.baseunits.dimensions) if t is None else t
            out.append(canon_val(c.value(tgt)))
        except Exception:
            out.append("err")
    return out


def units_obs(q):
    """units as reported: the expression and, when it says more, the plain dictionary `baseunits.value()`"""
    expr = q.units()
    try:
        d = q.baseunits.value()
        plain = "*".join("%s%s" % (k.replace(":", ""), "" if v == 1 else (v if not isinstance(v, tuple) else "%s:%s" % v))
                         for k, v in d.items())
    except Exception:
        plain = "?"
    return expr if (expr or "") == plain else "%s {%s}" % (expr, plain)


def observe(q, alts=()):
    """what the property observes: value(), units(), abse() — exact, no tolerance, Python type included —
    plus value(other unit) for other units of the same dimension"""
    return [canon_val(q.value()), units_obs(q), canon_val(q.abse()), converted(q, alts)]


def bu_fields(b):
    """the cached fields of a BaseUnits object and the content of its exponent dict (types included)"""
    try:
        d = [[k, str(v)] for k, v in b.baseunits.items()]
    except Exception:
        d = "?"
    return [canon_val(b.magnitude), repr(b.dimensions), list(b.units) if isinstance(b.units, list) else repr(b.units),
            b.expression, bool(b.nodim), bool(b.nobase), d]


def slots(q, keep):
    np = _np()
    m = q.magnitude
    v, e, b = m.value, m.error, q.baseunits
    d = b.baseunits
    keep.extend([m, v, e, b, d])   # keep every object alive so that ids are never reused
    return [id(m), id(v) if isinstance(v, np.ndarray) else None,
            id(e) if isinstance(e, np.ndarray) else None, id(b), id(d)]


def dim_facts(bu):
    from scinumtools.units.base_units import get_unit_base
    nodim = bool(bu.dimensions.nodim)
    k = 0
    if nodim:
        for uid, exp in bu.baseunits.items():
            if not get_unit_base(uid, exp).dimensions.nodim:
                k += 1
    return {"nodim": nodim, "k": k}


def conv_facts(bu1, bu2):
    """which unit type handles bu1 -> bu2, and whether it is the linear conversion"""
    from scinumtools.units.settings import UNIT_TYPES
    from scinumtools.units.unit_types import LogarithmicUnitType
    try:
        for ut in UNIT_TYPES:
            c = ut(bu1, bu2)
            if c:
                return {"linear": c.conversion[0] == "_convert_linear", "log": isinstance(c, LogarithmicUnitType)}
    except Exception:
        pass
    return {"linear": True, "log": False}


def mk_value(kind, v):
    if kind == "decimal":
        return Decimal(v)
    if kind == "array":
        return [float(x) for x in v]
    return float(v) if isinstance(v, str) else v


class Impl:
    """Runs a program on the real classes; records model ops (with the facts of the real run), observations
    and id-snapshots after every step."""

    def __init__(self):
        self.vars = []        # real quantities; None = hidden temporary of the model (number operand)
        self.hvar = []        # harness index -> model index
        self.prov = []        # harness index -> name of the operation that created it
        self.keep = []
        self.mops = []        # model ops (JSON)
        self.step_of_mop = []
        self.trace = []       # per harness step: dict
        self.prog = []        # the program as executed (references normalised)
        self.alts = []
        self.conv_cache = {}

    def mi(self, i):
        return self.hvar[i]

    def normalise(self, op):
        """generated references are reduced modulo the number of quantities that really exist (an operation
        that raised created none); `self.prog` is the program as executed"""
        nv = len(self.hvar)
        op = json.loads(json.dumps(op))
        if nv == 0:
            return op
        for pos, v in refs(op):
            set_ref(op, pos, v % nv)
        return op

    def add_var(self, q, prov):
        self.hvar.append(len(self.vars))
        self.vars.append(q)
        self.prov.append(prov)

    def add_hidden(self):
        self.vars.append(None)

    def snapshot(self):
        return [None if q is None else slots(q, self.keep) for q in self.vars]

    def observations(self):
        """`converted` is a deterministic function of (value, error, cached BaseUnits fields, dict content);
        it is recomputed only when that state differs from any state seen before in this program"""
        out = []
        for q in self.vars:
            if q is None:
                out.append(None)
                continue
            base = [canon_val(q.value()), units_obs(q), canon_val(q.abse())]
            key = json.dumps([base, bu_fields(q.baseunits)], default=str)
            if key not in self.conv_cache:
                self.conv_cache[key] = converted(q, self.alts)
            out.append(base + [self.conv_cache[key]])
        return out

    def bu_watch(self):
        """every BaseUnits object held by a live quantity, with its cached fields"""
        seen, out = set(), []
        for i, q in enumerate(self.vars):
            if q is None:
                continue
            b = q.baseunits
            if id(b) in seen:
                continue
            seen.add(id(b))
            self.keep.append(b)
            out.append((i, b, bu_fields(b)))
        return out

    def run(self, prog):
        np = _np()
        from scinumtools.units import Quantity, BaseUnits
        # other units of the same dimension to ask every quantity for: the units the program itself uses
        alts = []
        for op in prog:
            u = op[3] if op[0] == "new" else (op[2] if op[0] == "value" else
                                              (op[2][1] if op[0] == "to" and op[2][0] == "text" else None))
            if isinstance(u, str) and u not in alts:
                alts.append(u)
        self.alts = alts[:3]
        with warnings.catch_warnings(), np.errstate(all="ignore"):
            warnings.simplefilter("ignore")
            after = self.observations()
            for n, op in enumerate(prog):
                op = self.normalise(op)
                self.prog.append(op)
                before = after           # nothing happens between two steps
                watch = self.bu_watch()
                rec = {"op": op, "ok": True, "allowed": [], "roles": {}}
                nh = len(self.hvar)
                try:
                    self.one(op, rec, np, Quantity, BaseUnits)
                except _Skip:
                    rec["skipped"] = True
                if len(self.hvar) > nh and op[0] != "new":
                    rec["created"] = nh          # harness index of the quantity this step returned
                after = self.observations()
                rec["before"], rec["after"] = before, after
                rec["snap"] = self.snapshot()
                # BaseUnits objects that existed before the step must not have been written (frozen)
                rec["bu_written"] = [[i, f0, bu_fields(b)] for i, b, f0 in watch if bu_fields(b) != f0]
                self.trace.append(rec)
        return self

    # one harness op -> real call + model op(s)
    def one(self, op, rec, np, Quantity, BaseUnits):
        V = lambda i: self.vars[self.hvar[i]]
        kind = op[0]

        def emit(mop):
            self.mops.append(mop)
            self.step_of_mop.append(len(self.trace))

        def call(f):
            try:
                return True, f()
            except Exception as e:      # which exception is irrelevant
                rec["ok"] = False
                rec["exc"] = type(e).__name__
                return False, None

        if kind == "new":
            _, vk, v, u, abse = op
            facts = {"nodim": True, "k": 0}
            try:
                facts = dim_facts(BaseUnits(u))
            except Exception:
                pass
            ok, q = call(lambda: Quantity(mk_value(vk, v), u, abse=abse) if abse is not None else Quantity(mk_value(vk, v), u))
            if not ok:
                raise _Skip()           # an unusable constructor call creates nothing on either side
            emit(["new", vk == "array", abse is not None, facts])
            self.add_var(q, "new")
            return
        import operator
        aug = (kind == "bin" and len(op) > 4) or (kind == "binnum" and len(op) > 5)
        IOP = {"add": operator.iadd, "sub": operator.isub, "mul": operator.imul, "div": operator.itruediv,
               "pow": operator.ipow}
        if kind == "binnum" and op[1] == "pow":
            # `x ** number` is __pow__; `number ** x` has no reflected method in the library (raises)
            x = V(op[2])
            n_ = op[3]
            rec["roles"] = {op[2]: "right" if op[4] else "left"}
            rec["name"] = "rpow" if op[4] else "pow"
            facts = {}
            try:
                facts = dim_facts(x.baseunits * n_)
            except Exception:
                pass
            ok, r = call((lambda: n_ ** x) if op[4] else ((lambda: operator.ipow(x, n_)) if aug else (lambda: x ** n_)))
            if not ok:
                raise _Skip()
            if op[4]:
                # the library has no reflected power today; should one appear, it is outside the model (its
                # operand is still judged by the oracle) — never a reason to fail the check
                rec["unmodelled"] = True
                raise _Skip()
            emit(["pow", self.mi(op[2]), facts])
            self.add_var(r, "pow")
            return
        if kind == "fold":
            # builtin sum(items[, start]) = ((0 + x1) + x2) + …   math.prod(items, start=…) = ((1 * x1) * x2) * …
            # `0 + x` / `1 * x` are the reflected operators: Quantity(number) is built, then _add/_mul(number_q, x)
            import math
            name, items, start = op[1], op[2], op[3]
            xs = [V(i) for i in items]
            rec["roles"] = {i: "item" for i in items}
            if start is not None:
                rec["roles"][start] = "start"
            rec["name"] = name
            if start is None:
                f = (lambda: sum(xs)) if name == "sum" else (lambda: math.prod(xs))
            else:
                st = V(start)
                f = (lambda: sum(xs, st)) if name == "sum" else (lambda: math.prod(xs, start=st))
            # facts of every internal step, computed on BaseUnits only (nothing is executed twice)
            steps = []
            try:
                accbu = BaseUnits() if start is None else V(start).baseunits
                for x in xs:
                    if name == "sum":
                        fc = dim_facts(accbu)
                        fc["log"] = conv_facts(accbu, x.baseunits)["log"]
                        fc["linear"] = conv_facts(x.baseunits, accbu)["linear"]
                    else:
                        accbu = accbu + x.baseunits
                        fc = dim_facts(accbu)
                        if fc["nodim"]:
                            from scinumtools.units.base_units import get_unit_base
                            accbu = BaseUnits({u: e for u, e in accbu.baseunits.items()
                                               if get_unit_base(u, e).dimensions.nodim})
                    steps.append(fc)
            except Exception:
                raise _Skip()
            ok, r = call(f)
            if not ok:
                raise _Skip()
            if start is None:
                emit(["new", False, False, {"nodim": True, "k": 0}])   # Quantity(0) / Quantity(1)
                acc = len(self.vars)
                self.add_hidden()
            else:
                acc = self.mi(start)
            mname = "add" if name == "sum" else "mul"
            for k, (i, fc) in enumerate(zip(items, steps)):
                emit([mname, acc, self.mi(i), fc])
                acc = len(self.vars)
                if k == len(items) - 1:
                    self.add_var(r, name)
                else:
                    self.add_hidden()      # the intermediate result is dropped by sum()/prod()
            return
        if kind in ("bin", "binnum"):
            name = op[1]
            if kind == "bin":
                a, b = V(op[2]), V(op[3])
                ia, ib = self.mi(op[2]), self.mi(op[3])
                rec["roles"] = {op[3]: "right", op[2]: "left"} if op[2] != op[3] else {op[2]: "both"}
            else:
                # `x op number` / `number op x`: the library wraps the number in a new Quantity first
                num = Quantity(op[3])
                emit(["new", False, False, {"nodim": True, "k": 0}])
                hidden = len(self.vars)
                self.add_hidden()
                self.keep.append(num)
                x = V(op[2])
                a, b = (num, x) if op[4] else (x, num)
                ia, ib = (hidden, self.mi(op[2])) if op[4] else (self.mi(op[2]), hidden)
                rec["roles"] = {op[2]: "right" if op[4] else "left"}
            facts = {}
            if name in ("add", "sub"):
                facts.update(dim_facts(a.baseunits))
                c = conv_facts(a.baseunits, b.baseunits)
                facts["log"] = c["log"]
                facts["linear"] = conv_facts(b.baseunits, a.baseunits)["linear"]
            else:
                try:
                    facts.update(dim_facts(a.baseunits + b.baseunits if name == "mul" else a.baseunits - b.baseunits))
                except Exception:
                    pass
            if aug:
                # the augmented statement `y = a; y op= b`: Python falls back to the binary operator and rebinds
                lhs, rhs = (a, b) if kind == "bin" else (V(op[2]), op[3])
                f = lambda: IOP[name](lhs, rhs)
            elif kind == "bin":
                f = {"add": lambda: a + b, "sub": lambda: a - b, "mul": lambda: a * b, "div": lambda: a / b}[name]
            else:
                n_ = op[3]
                x = V(op[2])
                if op[4]:
                    f = {"add": lambda: n_ + x, "sub": lambda: n_ - x, "mul": lambda: n_ * x, "div": lambda: n_ / x}[name]
                else:
                    f = {"add": lambda: x + n_, "sub": lambda: x - n_, "mul": lambda: x * n_, "div": lambda: x / n_}[name]
            rec["name"] = name + ("=" if aug else "")
            ok, r = call(f)
            if not ok:
                raise _Skip()           # raised: nothing is created on either side (operands still judged)
            emit([name, ia, ib, facts])
            self.add_var(r, name)
            return
        if kind == "pow":
            a = V(op[1])
            p = tuple(op[2]) if isinstance(op[2], list) else op[2]
            facts = {}
            try:
                facts = dim_facts(a.baseunits * p)
            except Exception:
                pass
            rec["roles"] = {op[1]: "operand"}
            rec["name"] = "pow"
            ok, r = call(lambda: a ** p)
            if not ok:
                raise _Skip()          # e.g. Decimal ** float: nothing is created on either side
            emit(["pow", self.mi(op[1]), facts])
            self.add_var(r, "pow")
            return
        if kind == "neg":
            a = V(op[1])
            rec["roles"] = {op[1]: "operand"}
            rec["name"] = "neg"
            ok, r = call(lambda: -a)
            if not ok:
                raise _Skip()
            emit(["neg", self.mi(op[1]), dim_facts(a.baseunits)])
            self.add_var(r, "neg")
            return
        if kind in ("cmp", "cmpnum"):
            if kind == "cmp":
                a, b = V(op[2]), V(op[3])
                ia, ib = self.mi(op[2]), self.mi(op[3])
                name = op[1]
                rec["roles"] = {op[3]: "right", op[2]: "left"} if op[2] != op[3] else {op[2]: "both"}
            else:
                a = V(op[1])
                b = Quantity(op[2])
                emit(["new", False, False, {"nodim": True, "k": 0}])
                ib = len(self.vars)
                self.add_hidden()
                self.keep.append(b)
                ia = self.mi(op[1])
                name = "eq"
                rec["roles"] = {op[1]: "left"}
            facts = {"conv": bool(np.all(b.magnitude.value != 0))}
            try:
                facts["linear"] = conv_facts(b.baseunits, BaseUnits(a.units()))["linear"]
            except Exception:
                pass
            rhs = b if kind == "cmp" else op[2]
            rec["name"] = name
            ok, _r = call((lambda: a == rhs) if name == "eq" else (lambda: a != rhs))
            if not ok:
                raise _Skip()
            emit(["eq", ia, ib, facts])
            return
        if kind == "ufx":
            name, mode = op[1], op[4]
            a = V(op[2])
            rec["roles"] = {op[2]: "operand"}
            if mode in ("qq",):
                b = V(op[3])
                rec["roles"] = {op[3]: "right", op[2]: "left"} if op[2] != op[3] else {op[2]: "both"}
            rec["name"] = "ufunc." + name + ("" if mode == "unary" else "." + mode)
            uf = getattr(np, name)
            fn = {"unary": lambda: uf(a), "qq": lambda: uf(a, b), "qn": lambda: uf(a, 2.0), "nq": lambda: uf(2.0, a)}[mode]
            call(fn)
            rec["unmodelled"] = True
            raise _Skip()               # oracle only: whatever it returned or raised, nothing may have changed
        if kind == "ufunc":
            name = op[1]
            a = V(op[2])
            uk = UF_KIND[name]
            facts = {}
            try:
                if uk == "root":
                    facts = dim_facts(a.baseunits / 2 if name == "sqrt" else (a.baseunits / 3 if name == "cbrt" else a.baseunits * 2))
                elif uk == "angle":
                    facts = {"nodim": True, "k": 0, "linear": conv_facts(a.baseunits, BaseUnits("rad"))["linear"]}
                elif uk == "arc":
                    facts = {"linear": conv_facts(a.baseunits, BaseUnits())["linear"]}
                elif uk in ("keep", "sum"):
                    facts = dim_facts(a.baseunits)
            except Exception:
                pass
            fn = {"power": lambda: np.power(a, 2), "negative_ufunc": lambda: np.negative(a)}.get(
                name, lambda: getattr(np, name)(a))
            rec["roles"] = {op[2]: "operand"}
            rec["name"] = "ufunc." + name
            ok, r = call(fn)
            if not ok:
                raise _Skip()
            if uk != "test" and not isinstance(r, Quantity):
                rec["unmodelled"] = True    # not the shape the model describes: oracle only
                raise _Skip()
            emit(["ufunc", uk, self.mi(op[2]), facts])
            if uk != "test":
                self.add_var(r, "ufunc." + name)
            return
        if kind == "space":
            a, b = V(op[2]), V(op[3])
            facts = dim_facts(a.baseunits)
            facts["linear"] = conv_facts(b.baseunits, a.baseunits)["linear"]
            fn = np.linspace if op[1] == "lin" else np.logspace
            rec["roles"] = {op[3]: "right", op[2]: "left"} if op[2] != op[3] else {op[2]: "both"}
            rec["name"] = op[1] + "space"
            ok, r = call(lambda: fn(a, b, 3))
            if not ok:
                raise _Skip()
            emit(["space", self.mi(op[2]), self.mi(op[3]), facts])
            self.add_var(r, rec["name"])
            return
        if kind == "space1":
            b = V(op[2])
            fn = np.linspace if op[1] == "lin" else np.logspace
            rec["roles"] = {op[2]: "operand"}
            rec["name"] = op[1] + "space"
            ok, r = call((lambda: fn(op[3], b, 3)) if op[4] else (lambda: fn(b, op[3], 3)))
            if not ok:
                raise _Skip()
            emit(["space1", self.mi(op[2]), dim_facts(b.baseunits)])
            self.add_var(r, rec["name"])
            return
        if kind == "value":
            a = V(op[1])
            if not op[2]:
                raise _Skip()           # value(None) is the plain accessor
            facts = {}
            try:
                facts["linear"] = conv_facts(a.baseunits, BaseUnits(op[2]))["linear"]
            except Exception:
                pass
            rec["roles"] = {op[1]: "operand"}
            rec["name"] = "value"
            if len(op) > 3:
                dt = mk_dtype(op[3])
                rec["name"] = "value.dtype"
                ok, r = call(lambda: a.value(op[2], dtype=dt))
            else:
                ok, r = call(lambda: a.value(op[2]))
            if not ok:
                raise _Skip()
            rec["result_array"] = isinstance(r, np.ndarray)
            if ok and isinstance(r, np.ndarray):
                # the returned array must not be the operand's own
                r[...] = 12345.0
            emit(["value", self.mi(op[1]), facts])
            return
        # ---- in-place methods
        rec["allowed"] = [op[1]]
        rec["name"] = kind
        a = V(op[1])
        if kind == "to":
            how, arg = op[2]
            facts = {}
            try:
                if how == "text":
                    tgt = BaseUnits(arg)
                    f = lambda: a.to(arg)
                    marg = "text"
                elif how == "buOf":
                    tgt = V(arg).baseunits
                    f = lambda: a.to(tgt)
                    marg = ["buOf", self.mi(arg)]
                    rec["roles"] = {arg: "argument"}
                else:
                    y = V(arg)
                    tgt = y.baseunits
                    f = lambda: a.to(y)
                    marg = ["qty", self.mi(arg)]
                    rec["roles"] = {arg: "argument"}
                facts["linear"] = conv_facts(a.baseunits, tgt)["linear"]
            except Exception:
                raise _Skip()
            ok, _r = call(f)
            if not ok:
                raise _Skip()           # conversion refused before anything is assigned
            emit(["to", self.mi(op[1]), marg, facts])
            return
        if kind == "rebase":
            ok, _r = call(lambda: a.rebase())
            if not ok:
                raise _Skip()
            emit(["rebase", self.mi(op[1])])
            return
        if kind == "abse":
            a.abse(op[2])
            emit(["abse", self.mi(op[1])])
            return
        if kind == "rele":
            ok, _r = call(lambda: a.rele(op[2]))
            if not ok:
                raise _Skip()           # Decimal * float: refused before anything is assigned
            emit(["rele", self.mi(op[1])])
            return
        if kind == "poke":
            arr = a.abse() if op[2] else a.value()
            if isinstance(arr, np.ndarray) and arr.size:
                arr.flat[0] = op[3] + float(arr.flat[0])
            emit(["poke", self.mi(op[1]), bool(op[2])])
            return
        raise ValueError("unknown op %r" % (op,))


class _Skip(Exception):
    pass


class _Broken(Exception):
    pass


# ------------------------------------------------------------------ judging
def relabel(snaps):
    """canonical form of the alias relation: first-occurrence numbering of the objects"""
    m, out = {}, []
    for s in snaps:
        row = []
        for q in s:
            row.append(None if q is None else [None if x is None else m.setdefault(x, len(m)) for x in q])
        out.append(row)
    return out


def oracle(impl):
    """the property on the real run: list of (signature, what, step index)"""
    out = []
    h2m = impl.hvar
    m2h = {m: h for h, m in enumerate(h2m)}
    for n, rec in enumerate(impl.trace):
        if rec.get("skipped") and rec["op"][0] == "new":
            continue
        allowed = {h2m[i] for i in rec["allowed"] if i < len(h2m)}
        name = rec.get("name", rec["op"][0])
        if "created" in rec:
            # the returned quantity must be a NEW object (C07_result_new) that shares no Magnitude object and no
            # value/error array with any other live quantity (C07_result_separate) — judged on the real ids
            rh = rec["created"]
            rm = h2m[rh]
            mine = rec["snap"][rm]
            for mi, other in enumerate(rec["snap"]):
                if mi == rm or other is None or mi >= len(rec["snap"]):
                    continue
                hi = m2h.get(mi)
                role = rec["roles"].get(hi, "bystander")
                if impl.vars[mi] is impl.vars[rm]:
                    out.append(("sameobject:%s:%s" % (name, role),
                                "%s returned its %s operand #%d itself instead of a new quantity (every later "
                                "in-place method on one name changes the other)" % (rec["op"], role, hi), n))
                    continue
                for a_, col in ((0, "Magnitude object"), (1, "value array"), (2, "error array")):
                    if mine[a_] is not None and mine[a_] in (other[0], other[1], other[2]):
                        out.append(("sharedcell:%s:%s:%s" % (name, role, col.split()[0].lower()),
                                    "the result of %s shares its %s with %s quantity #%d" %
                                    (rec["op"], col, role, hi), n))
                        break
        for mi, (b, a) in enumerate(zip(rec["before"], rec["after"])):
            if b is None or a is None or b == a or mi in allowed:
                continue
            hi = m2h.get(mi)
            role = rec["roles"].get(hi, "bystander")
            if rec["op"][0] in INPLACE:
                tgt = rec["op"][1]
                sig = "leak:%s:%s->%s:%s" % (name, impl.prov[tgt], impl.prov[hi], role)
                what = ("in-place %s on quantity #%d (made by %s) changed quantity #%d (made by %s): %s -> %s" %
                        (rec["op"], tgt, impl.prov[tgt], hi, impl.prov[hi], short(b), short(a)))
            else:
                sig = "changed:%s:%s%s" % (name, role, "" if rec["ok"] else ":raised")
                who = "a bystander quantity" if role == "bystander" else "its %s operand" % role
                what = ("%s altered %s #%d: %s -> %s" % (rec["op"], who, hi, short(b), short(a)))
            out.append((sig, what, n))
    return out


def short(o):
    def f(v):
        if v is None:
            return "None"
        if v[0] == "arr":
            np = _np()
            return str(np.frombuffer(bytes.fromhex(v[3]), dtype=np.dtype(v[1])).tolist())
        if v[0] == "f":
            return str(float.fromhex(v[1])) if v[1] not in ("nan", "inf", "-inf") else v[1]
        if v[0] == "dec":
            return "Decimal(%s)" % v[1]
        return str(v[1])
    conv = ""
    if len(o) > 3:
        conv = " | in other units: " + ", ".join(x if isinstance(x, str) else f(x) for x in o[3])
    return "(%s %s ±%s%s)" % (f(o[0]), o[1], f(o[2]), conv)


def run_impl(prog):
    return Impl().run(prog)


def judge(ctx, prog, impl, resp, stream):
    """returns True when everything agreed"""
    good = True
    viol = oracle(impl)
    for sig, what, n in viol[:1]:
        small = shrink(prog, lambda p: any(s == sig for s, _, _ in oracle(run_impl(p))))
        imp2 = run_impl(small)
        w2 = next((w for s, w, _ in oracle(imp2) if s == sig), what)
        ctx.violation(sig, w2, {"stream": stream, "program": small})
        good = False
    if "ok" not in resp:
        ctx.disagreement(stream, {"program": prog}, "driver error %s" % (resp,))
        return False
    model = resp["ok"]
    if len(model) != len(impl.mops):
        ctx.disagreement(stream, {"program": prog}, "model answered %d of %d ops" % (len(model), len(impl.mops)))
        return False
    # theorem instance check on the executable model: changed ⊆ allowed, result separate
    for k, r in enumerate(model):
        if not set(r["changed"]) <= set(r["allowed"]) or r["shared"]:
            ctx.disagreement(stream, {"program": prog}, "model itself violates the specification at model op %d: %s" %
                             (k, impl.mops[k]))
            return False
        if r["res"] == "invalid":
            ctx.disagreement(stream, {"program": prog}, "model op %d invalid: %s" % (k, impl.mops[k]))
            return False
    # alias relation over the whole history: model snapshot after the last model op of each harness step
    last = {}
    for k, st in enumerate(impl.step_of_mop):
        last[st] = k
    msnaps, isnaps, steps = [], [], []
    for n, rec in enumerate(impl.trace):
        if n not in last:
            continue
        ms = model[last[n]]["snap"]
        isn = rec["snap"]
        if len(ms) != len(isn):
            ctx.disagreement(stream, {"program": prog, "step": n},
                             "number of quantities differs after %s: impl %d model %d (impl ok=%s)" %
                             (rec["op"], len(isn), len(ms), rec["ok"]))
            return False
        # hidden temporaries exist only in the model
        ms = [None if i is None else m for m, i in zip(ms, isn)]
        msnaps.append(ms)
        isnaps.append(isn)
        steps.append(n)
    rm, ri = relabel(msnaps), relabel(isnaps)
    if rm != ri:
        k = next(i for i, (x, y) in enumerate(zip(rm, ri)) if x != y)
        rec = impl.trace[steps[k]]
        ctx.disagreement(stream, {"program": prog, "step": steps[k]},
                         "alias relation differs after %s: impl %s model %s (columns: Magnitude, value array, "
                         "error array, BaseUnits, dict)" % (rec["op"], ri[k], rm[k]))
        good = False
    # frozen units: the model never writes an existing BaseUnits object / dict (theorem C07_units_frozen);
    # the real cached fields (magnitude incl. type, dimensions, units, expression, nodim, nobase, dict content)
    # of every BaseUnits object held by a live quantity are read before and after every step
    for k, r in enumerate(model):
        if r.get("bu_written"):
            ctx.disagreement(stream, {"program": prog}, "model writes an existing BaseUnits at model op %d" % k)
            good = False
    for n, rec in enumerate(impl.trace):
        if rec.get("bu_written"):
            i, f0, f1 = rec["bu_written"][0]
            ctx.disagreement(stream, {"program": impl.prog[:n + 1], "step": n},
                             "%s wrote the BaseUnits object held by quantity(model index %d) — the model (and "
                             "C07_units_frozen) say no existing BaseUnits is ever written: %s -> %s" %
                             (rec["op"], i, f0, f1))
            good = False
            break
    # result kind of value(unit)
    for k, mop in enumerate(impl.mops):
        if mop[0] == "value":
            rec = impl.trace[impl.step_of_mop[k]]
            if rec["ok"] and (model[k]["res"] == ["val", "array"]) != rec["result_array"]:
                ctx.disagreement(stream, {"program": prog}, "value(unit) result shape differs at %s" % (rec["op"],))
                good = False
    return good


def creates(op):
    k = op[0]
    if k in ("new", "bin", "binnum", "pow", "neg", "space", "space1", "fold"):
        return 1
    if k == "ufunc":
        return 0 if UF_KIND[op[1]] == "test" else 1
    return 0


def refs(op):
    k = op[0]
    if k == "new":
        return []
    if k == "fold":
        return [(("item", n), v) for n, v in enumerate(op[2])] + ([(3, op[3])] if op[3] is not None else [])
    if k == "ufx":
        return [(2, op[2])] + ([(3, op[3])] if op[3] is not None else [])
    if k in ("bin", "cmp", "space"):
        return [(2, op[2]), (3, op[3])]
    if k in ("binnum", "ufunc", "space1"):
        return [(2, op[2])]
    if k == "to":
        r = [(1, op[1])]
        if op[2][0] != "text":
            r.append(("arg", op[2][1]))
        return r
    return [(1, op[1])]


def set_ref(op, pos, v):
    if pos == "arg":
        op[2][1] = v
    elif isinstance(pos, tuple):
        op[2][pos[1]] = v
    else:
        op[pos] = v


def actual_creates(prog):
    """how many quantities each op really created (depends on the run: raising ops create none)"""
    np = _np()
    from scinumtools.units import Quantity, BaseUnits
    impl = Impl()
    counts = []
    with warnings.catch_warnings(), np.errstate(all="ignore"):
        warnings.simplefilter("ignore")
        for op in prog:
            before = len(impl.hvar)
            op = impl.normalise(op)
            rec = {"op": op, "ok": True, "allowed": [], "roles": {}}
            try:
                impl.one(op, rec, np, Quantity, BaseUnits)
            except _Skip:
                pass
            impl.trace.append(rec)
            counts.append(len(impl.hvar) - before)
    return counts


def drop(prog, k):
    """remove op k, renumbering the quantities; None if a later op needs what op k created"""
    try:
        counts = actual_creates(prog)
    except Exception:
        return None
    first = sum(counts[:k])
    made = counts[k]
    out = []
    for n, op in enumerate(prog):
        if n == k:
            continue
        op2 = json.loads(json.dumps(op))
        if n > k and made:
            for pos, v in refs(op):
                if first <= v < first + made:
                    return None
                if v >= first + made:
                    set_ref(op2, pos, v - made)
        out.append(op2)
    return out


def shrink(prog, fails, max_steps=150):
    prog = list(prog)
    steps = 0
    k = len(prog) - 1
    while k >= 0 and steps < max_steps:
        cand = drop(prog, k)
        steps += 1
        ok = False
        if cand:
            try:
                ok = fails(cand)
            except Exception:
                ok = False
        if ok:
            prog = cand
        k -= 1
    return prog


# ------------------------------------------------------------------ streams
def corpus_programs():
    out = []
    d = VERIF / "corpus" / "C07"
    if d.is_dir():
        for f in sorted(d.glob("*.json")):
            for p in json.loads(f.read_text()):
                out.append(p["program"])
    return out


def nontrivial(prog):
    seen_op = False
    made_by_op = set()
    nv = 0
    for op in prog:
        k = op[0]
        if k in ("bin", "cmp", "space"):
            i, j = op[2], op[3]
            if i == j or i in made_by_op or j in made_by_op:
                seen_op = True
            elif prog[i][0] == "new" and prog[j][0] == "new" and prog[i][3] != prog[j][3]:
                seen_op = True
        elif k == "fold":
            seen_op = True
        elif k in ("ufunc", "neg", "pow", "binnum", "space1", "value"):
            i = op[2] if k in ("ufunc", "binnum", "space1") else op[1]
            if i in made_by_op or k == "ufunc":
                seen_op = True
        if k in INPLACE and seen_op:
            return True
        c = creates(op)
        if c and k != "new":
            made_by_op.add(nv)
        nv += c
    return False


def run_stream(ctx, progs, stream):
    impls = []
    for p in progs:
        try:
            impls.append(run_impl(p))
        except _Broken as e:
            ctx.disagreement(stream, {"program": p}, "real code raised where the model assumes it cannot: %s" % e)
            impls.append(None)
    reqs = [{"p": "C07", "ops": im.mops} for im in impls if im is not None]
    res = ctx.driver.ask_many(reqs)
    it = iter(res)
    for p, im in zip(progs, impls):
        if im is None:
            continue
        r = next(it)
        p = im.prog
        ctx.case(["prog", p], nontrivial(p), {"program": p[:10]})
        for rec in im.trace:
            ctx.count("op." + rec.get("name", rec["op"][0]))
            if not rec["ok"]:
                ctx.count("raised." + rec.get("name", rec["op"][0]))
            if rec["op"][0] == "new" and not rec.get("skipped"):
                ctx.count("operand." + rec["op"][1])
                ctx.count("unit.%s" % rec["op"][3])
        ctx.count("model_ops", len(im.mops))
        judge(ctx, p, im, r, stream)


def correspond(ctx: Ctx):
    thorough = ctx.tier == "thorough"
    run_stream(ctx, corpus_programs(), "corpus")
    progs = [gen_prog(ctx.rng, 12 if thorough else 8) for _ in range(6000 if thorough else 600)]
    run_stream(ctx, progs, "generated")
    progs = [gen_mixed_prog(ctx.rng) for _ in range(1500 if thorough else 200)]
    run_stream(ctx, progs, "mixed-float-decimal")
    ctx.extra["alias_relation"] = ("compared over the whole history of every program: Magnitude, value array, "
                                   "error array, BaseUnits, dict of every live quantity after every step")


def search(ctx: Ctx):
    """The tie broke without an oracle failure: stress every quantity of the disagreeing programs with every
    in-place method and judge the real run by the property alone."""
    seen = 0
    for d in ctx.disagreements[:40]:
        prog = d["replay"].get("program") if isinstance(d["replay"], dict) else None
        if not prog:
            continue
        try:
            nv = sum(actual_creates(prog))
        except Exception:
            continue
        for variant in range(3):
            ext = list(prog)
            order = list(range(nv))
            ctx.rng.shuffle(order)
            for i in order:
                ext += [["poke", i, False, 7.0], ["poke", i, True, 7.0], ["abse", i, 0.25],
                        ["to", i, ["text", prog[0][3] if prog[0][0] == "new" else None]], ["rebase", i]][variant:]
            try:
                im = run_impl(ext)
            except Exception:
                continue
            seen += 1
            for sig, what, n in oracle(im)[:1]:
                small = shrink(ext, lambda p: any(s == sig for s, _, _ in oracle(run_impl(p))))
                ctx.violation(sig, what, {"stream": "search", "program": small})
                return
    ctx.notes.append("search: %d stressed variants of disagreeing programs, no property failure found" % seen)


def replay(ctx: Ctx, payload):
    prog = payload.get("replay", {}).get("program") or payload.get("program")
    if not prog:
        print(json.dumps(payload, indent=1)[:3000])
        return 2
    im = run_impl(prog)
    for n, rec in enumerate(im.trace):
        print("step %d %s ok=%s" % (n, rec["op"], rec["ok"]))
        for i, (b, a) in enumerate(zip(rec["before"], rec["after"])):
            if b is not None and a is not None and b != a:
                print("    quantity(model index %d): %s -> %s" % (i, short(b), short(a)))
    v = oracle(im)
    for sig, what, n in v:
        print("VIOLATION property=C07 signature=%s\n  what: %s" % (sig, what))
    return 1 if v else 0
