"""C20 — helper containers: correspondence (impl vs Lean model) and oracle (impl vs Lean spec)."""
import json
from harness.core import Ctx
from harness.util import shrink_list

RULE = ("random operation sequences on ParameterTable(keys=True) and RowCollector (list mode), all grid "
        "sizes n<=N x ncols<=8 x 4 modes exhaustively, random item lists for DataCombination; non-trivial = "
        "table sequence with a delete or overwrite / collector sequence with a sort or dict row / grid with "
        "n not a multiple of ncols / combination of >=2 lists with >=2 items; distinct = canonical JSON of the input; "
        "plus rows given to the RowCollector constructor / appended with cells of mixed kinds (ints, floats, strings, "
        "None, tuples, lists, dicts as opaque cell objects), table keys that are tuples, floats or None")
ASSUMPTIONS = [
    "keys/column names do not collide with the classes' own attribute names",
    "columns are homogeneous ints; np.argsort is a parameter: the index list it returned is fed to the model "
    "and checked to be a sorting permutation on every call",
    "a row shorter than the column list is outside the model (the real code raises part-way)",
    "grid arithmetic is modelled over Nat (float division int(i/ncols) is exact below 2^53)",
]
EXPLANATION = ("theorems: refinement of ParameterTable to an insertion-ordered map for all op sequences; "
               "RowCollector row preservation and sort = row permutation; grid bijection; Cartesian product laws")

KEYS = ["aa", "bb", "cc", "dd", "k1", "x.y", "Zz", "_off", "__raw", "t:H1", "f:2.5", "n:None"]
# keys written "t:…", "f:…", "n:…" stand for the non-string keys ('H', 1), 2.5 and None: the real table gets
# the object, the model its name (keys are opaque to the model); attribute access is only tried for strings
OBJ_KEYS = {"t:H1": ("H", 1), "f:2.5": 2.5, "n:None": None}
OBJ_NAMES = {repr(v): k for k, v in OBJ_KEYS.items()}


def real_key(k):
    return OBJ_KEYS[k] if k in OBJ_KEYS else "".join(list(k))


def key_name(k):
    return k if isinstance(k, str) else OBJ_NAMES.get(repr(k), repr(k))
SETTINGS = ["p", "q"]


# ---------------------------------------------------------------- table
def gen_table_ops(rng, n):
    ops = []
    recent = []
    for _ in range(n):
        r = rng.random()
        # stay on the keys this sequence already touched most of the time: read / overwrite / delete / read
        # again of ONE key (by item and by attribute) is what separates a real map from a cached view
        k = rng.choice(recent[-3:]) if recent and rng.random() < 0.6 else rng.choice(KEYS)
        recent.append(k)
        if r < 0.35:
            ops.append(["append", k, [rng.randint(-5, 5), rng.randint(0, 3)], rng.choice(["append", "setitem"])])
        elif r < 0.5:
            ops.append(["del", k])
        elif r < 0.6:
            ops.append(["getkey", k, rng.choice(["item", "attr"])])
        elif r < 0.75:
            ops.append(["getpos", rng.randint(-9, 9)])
        elif r < 0.8:
            ops.append(["len"])
        elif r < 0.87:
            ops.append(["keys"])
        elif r < 0.95:
            ops.append(["items"])
        else:
            ops.append(["contains", k])
    return ops


def impl_table(ops):
    from scinumtools import ParameterTable
    t = ParameterTable(SETTINGS, keys=True)
    outs = []

    def rec(v):
        return [int(x) for x in v.data().values()]
    for op in ops:
        # keys are rebuilt for every operation: equal to, but never the same object as, the key
        # that was stored (an implementation comparing keys by identity must not get away with it)
        if len(op) > 1 and isinstance(op[1], str):
            op = [op[0], real_key(op[1])] + list(op[2:])
            if op[0] == "getkey" and not isinstance(op[1], str):
                op[2] = "item"          # attribute access exists for string keys only
        try:
            if op[0] == "append":
                if op[3] == "append":
                    t.append(op[1], op[2])
                else:
                    t[op[1]] = op[2]
                outs.append("unit")
            elif op[0] == "del":
                del t[op[1]]
                outs.append("unit")
            elif op[0] == "getkey":
                v = t[op[1]] if op[2] == "item" else getattr(t, op[1])
                outs.append({"val": rec(v)})
            elif op[0] == "getpos":
                outs.append({"val": rec(t[op[1]])})
            elif op[0] == "len":
                outs.append({"nat": len(t)})
            elif op[0] == "keys":
                outs.append({"keys": [key_name(k) for k in t.keys()]})
            elif op[0] == "items":
                outs.append({"items": [[key_name(k), rec(v)] for k, v in t.items()]})
            elif op[0] == "contains":
                outs.append({"bool": op[1] in t})
        except Exception:
            outs.append("err")
    return outs


def model_ops(ops):
    return [o[:3] if o[0] == "append" else (o[:2] if o[0] == "getkey" else o) for o in ops]


def table_stream(ctx, count, maxlen):
    seqs = [
        [["append", "aa", [1, 2], "append"], ["append", "bb", [3, 4], "setitem"], ["append", "aa", [5, 6], "setitem"],
         ["keys"], ["items"], ["del", "aa"], ["getpos", 0], ["getpos", -1], ["del", "aa"], ["len"], ["keys"]],
        [["del", "aa"], ["getpos", 0], ["getkey", "aa", "attr"], ["len"]],
        [["append", "dd", [1, 1], "append"], ["getkey", "dd", "attr"], ["append", "dd", [2, 3], "setitem"],
         ["getkey", "dd", "attr"], ["getkey", "dd", "item"], ["del", "dd"], ["getkey", "dd", "attr"], ["contains", "dd"]],
    ]
    for _ in range(count):
        seqs.append(gen_table_ops(ctx.rng, ctx.rng.randint(1, maxlen)))
    res = ctx.driver.ask_many([{"p": "C20", "k": "table", "ops": model_ops(s)} for s in seqs])
    for s, r in zip(seqs, res):
        nontriv = any(o[0] == "del" for o in s) or len({o[1] for o in s if o[0] == "append"}) < sum(o[0] == "append" for o in s)
        ctx.case(["table", s], nontriv, {"table_ops": s[:8]})
        ctx.count("table.ops", len(s))
        for o in s:
            ctx.count("table.op." + o[0])
        imp = impl_table(s)
        ctx.count("table.err_outputs", sum(x == "err" for x in imp))
        if "ok" not in r:
            ctx.disagreement("table", s, "driver error %s" % r)
            continue
        if imp != r["ok"]["spec"] and len(ctx.violations) < 3:
            def fails(q):
                rr = ctx.driver.ask({"p": "C20", "k": "table", "ops": model_ops(q)})
                return "ok" in rr and impl_table(q) != rr["ok"]["spec"]
            small = shrink_list(s, fails, max_steps=120)
            rr = ctx.driver.ask({"p": "C20", "k": "table", "ops": model_ops(small)})["ok"]["spec"]
            im = impl_table(small)
            idx = next(i for i, (a, b) in enumerate(zip(im, rr)) if a != b)
            ctx.violation("table:%s" % small[idx][0],
                          "ParameterTable differs from insertion-ordered map at op %d %s: impl %s, spec %s" %
                          (idx, small[idx], im[idx], rr[idx]),
                          {"stream": "table", "ops": small, "impl": im, "spec": rr})
        if imp != r["ok"]["model"]:
            ctx.disagreement("table", s, "impl %s model %s" % (imp, r["ok"]["model"]))


# ---------------------------------------------------------------- table, list mode
def impl_ltable(ops):
    from scinumtools import ParameterTable
    t = ParameterTable(SETTINGS)
    outs = []

    def rec(v):
        return [int(x) for x in v.data().values()]
    for op in ops:
        try:
            if op[0] == "append":
                t.append(op[1])
                outs.append("unit")
            elif op[0] == "del":
                del t[op[1]]
                outs.append("unit")
            elif op[0] == "get":
                outs.append({"val": rec(t[op[1]])})
            elif op[0] == "len":
                outs.append({"nat": len(t)})
            elif op[0] == "items":
                outs.append({"items": [[k, rec(v)] for k, v in t.items()]})
        except Exception:
            outs.append("err")
    return outs


def ltable_stream(ctx, count, maxlen):
    seqs = [[["append", [1, 2]], ["append", [3, 4]], ["get", -1], ["del", 0], ["items"], ["del", 5], ["len"]]]
    for _ in range(count):
        s = []
        for _ in range(ctx.rng.randint(1, maxlen)):
            r = ctx.rng.random()
            if r < 0.4:
                s.append(["append", [ctx.rng.randint(-5, 5), ctx.rng.randint(0, 3)]])
            elif r < 0.55:
                s.append(["del", ctx.rng.randint(-6, 6)])
            elif r < 0.8:
                s.append(["get", ctx.rng.randint(-6, 6)])
            elif r < 0.9:
                s.append(["len"])
            else:
                s.append(["items"])
        seqs.append(s)
    res = ctx.driver.ask_many([{"p": "C20", "k": "ltable", "ops": s} for s in seqs])
    for s, r in zip(seqs, res):
        ctx.case(["ltable", s], any(o[0] == "del" for o in s), None)
        ctx.count("ltable.ops", len(s))
        imp = impl_ltable(s)
        if "ok" not in r or imp != r["ok"]:
            # the Lean list model *is* the specification of list mode
            spec = r.get("ok")
            idx = next((i for i, (a, b) in enumerate(zip(imp, spec or [])) if a != b), 0)
            ctx.violation("ltable:%s" % s[idx][0],
                          "ParameterTable (list mode) differs from a plain list at op %d %s" % (idx, s[idx]),
                          {"stream": "ltable", "ops": s[:idx + 1], "impl": imp[:idx + 1], "spec": (spec or [])[:idx + 1]})


# ---------------------------------------------------------------- row collector
def gen_rc(rng, maxlen):
    ncols = rng.randint(1, 4)
    names = ["c%d" % i for i in range(ncols)]
    ops = []
    # value pool: small ints with ties, or (1 case in 6) 60-bit integers a few units apart, which
    # differ only below the float64 spacing (a sort that goes through floats cannot order them)
    big = rng.random() < 0.17
    base = 2 ** 60 + rng.randint(0, 1000)

    def val():
        return base + rng.randint(0, 6) if big else rng.randint(0, 4)
    for _ in range(rng.randint(1, maxlen)):
        r = rng.random()
        if r < 0.45:
            extra = 1 if rng.random() < 0.1 else 0
            ops.append(["row", [val() for _ in range(ncols + extra)]])
        elif r < 0.7:
            ks = names[:]
            rng.shuffle(ks)
            if rng.random() < 0.1:
                ks = ks[:-1] if rng.random() < 0.5 or not ks else ks + ["zz"]
            ops.append(["dict", [[k, val()] for k in ks]])
        else:
            ops.append(["sort", rng.randrange(ncols), rng.random() < 0.4])
    if rng.random() < 0.05 and ncols > 1:
        ops.append(["row", [1] * (ncols - 1)])   # short row: raises part-way; must be last
    return names, ops


def impl_rc(names, ops):
    """Runs the real RowCollector; returns (outputs, ops completed with the argsort result)."""
    import numpy as np
    from scinumtools import RowCollector
    rc = RowCollector(list(names))
    outs, mops = [], []

    def rows():
        cols = [list(getattr(rc, n)) for n in names]
        return [[int(c[i]) for c in cols] for i in range(rc.size())]
    for op in ops:
        try:
            if op[0] == "row":
                mops.append(op)
                rc.append(list(op[1]))
            elif op[0] == "dict":
                mops.append(op)
                rc.append({k: v for k, v in op[1]})
            else:
                name = names[op[1]]
                ids = np.argsort(getattr(rc, name))
                if op[2]:
                    ids = ids[::-1]
                mops.append(["sort", op[1], op[2], [int(i) for i in ids]])
                rc.sort(name, reverse=op[2])
            outs.append(rows())
        except Exception:
            outs.append("err")
    return outs, mops


CELLS = [1, 2, 3, 2 ** 60 + 1, 2 ** 60 + 2, 1.5, 2.5, 0.1, "neutron", "3", "1.5", True, None,
         (1, 2), (0.0, 0.0, -9.8), (1, 0, 0), [1, 2], [], (), {"k": 1}, ("a", 1.5)]   # vector / container cells


def ctor_stream(ctx, count):
    """Rows handed to the constructor (and appended later) with cells of mixed types: every cell must be
    stored as the object given.  Cells are opaque to the model: each distinct (type, value) gets a number."""
    from scinumtools import RowCollector
    for _ in range(count):
        ncols = ctx.rng.randint(1, 4)
        names = ["c%d" % i for i in range(ncols)]
        pool = ctx.rng.sample(CELLS, ctx.rng.randint(2, len(CELLS)))
        first = [[ctx.rng.choice(pool) for _ in names] for _ in range(ctx.rng.randint(0, 4))]
        later = [[ctx.rng.choice(pool) for _ in names] for _ in range(ctx.rng.randint(0, 3))]
        codes = {}

        def enc(v):
            return codes.setdefault((type(v).__name__, repr(v)), len(codes))
        want = [[enc(v) for v in row] for row in first + later]
        ctx.case(["rc-ctor", names, [[repr(v) for v in r] for r in first + later]], len(first) > 0 and len(pool) > 2,
                 {"rc_ctor_rows": [[repr(v) for v in r] for r in first][:3]} if first else None)
        ctx.count("rc.ctor_cases")
        try:
            rc = RowCollector(list(names), rows=[list(r) for r in first]) if first else RowCollector(list(names))
            for r in later:
                rc.append(list(r))
            cols = [list(getattr(rc, n)) for n in names]
            got = [[enc(c[i]) for c in cols] for i in range(rc.size())]
        except Exception as e:
            got = "err:%r" % (e,)
        r = ctx.driver.ask({"p": "C20", "k": "rc", "names": names, "ops": [["row", w] for w in want]})
        spec = r["ok"][-1]["spec"] if "ok" in r and r["ok"] else ([] if not want else None)
        if got != spec:
            ctx.violation("rc:ctor-rows",
                          "RowCollector(%s, rows=%s) + appended %s stores %s (cells numbered by (type, value)), the "
                          "list-of-rows specification gives %s" % (names, first, later, got, spec),
                          {"stream": "rc-ctor", "names": names, "rows": [[repr(v) for v in x] for x in first],
                           "appended": [[repr(v) for v in x] for x in later], "impl": got, "spec": spec})


def rc_stream(ctx, count, maxlen):
    cases = [(["x", "y"], [["row", [3, 1]], ["row", [1, 2]], ["dict", [["y", 0], ["x", 2]]],
                           ["sort", 0, False], ["sort", 1, True], ["row", [2, 2]], ["sort", 0, True]])]
    for _ in range(count):
        cases.append(gen_rc(ctx.rng, maxlen))
    impls = [impl_rc(n, o) for n, o in cases]
    res = ctx.driver.ask_many([{"p": "C20", "k": "rc", "names": n, "ops": m} for (n, o), (outs, m) in zip(cases, impls)])
    for (names, ops), (outs, mops), r in zip(cases, impls, res):
        nontriv = any(o[0] in ("sort", "dict") for o in ops)
        ctx.case(["rc", names, ops], nontriv, {"rc_names": names, "rc_ops": mops[:6]})
        for o in ops:
            ctx.count("rc.op." + o[0])
        if "ok" not in r:
            ctx.disagreement("rc", [names, mops], "driver error %s" % r)
            continue
        for i, (o, m) in enumerate(zip(outs, r["ok"])):
            if o == "err" and m["model"] == "err" and mops[i][0] == "row":
                break  # short row: half-updated state is outside the model
            if mops[i][0] == "sort" and not (m.get("argsort_perm") and m.get("sorted")):
                ctx.notes.append("np.argsort did not meet its specification on %s" % (mops[i],))
            if o != m["spec"]:
                ctx.violation("rc:%s" % mops[i][0],
                              "RowCollector rows differ from list-of-rows spec after op %d %s: impl %s spec %s" %
                              (i, mops[i], o, m["spec"]),
                              {"stream": "rc", "names": names, "ops": mops[:i + 1], "impl": o, "spec": m["spec"]})
                break
            if o != m["model"]:
                ctx.disagreement("rc", [names, mops[:i + 1]], "impl %s model %s" % (o, m["model"]))
                break


# ---------------------------------------------------------------- grid
def grid_stream(ctx, nmax, cmax):
    from scinumtools import DataPlotGrid
    reqs, meta = [], []
    for n in range(0, nmax + 1):
        for ncols in range(1, cmax + 1):
            for tr in (False, True):
                for missing in (False, True):
                    reqs.append({"p": "C20", "k": "grid", "n": n, "ncols": ncols, "missing": missing, "transpose": tr})
                    meta.append((n, ncols, missing, tr))
    res = ctx.driver.ask_many(reqs)
    for (n, ncols, missing, tr), r in zip(meta, res):
        ctx.case(["grid", n, ncols, missing, tr], n % ncols != 0, {"grid": [n, ncols, missing, tr]} if n == 5 else None)
        ctx.count("grid.cases")
        g = DataPlotGrid(list(range(100, 100 + n)), ncols=ncols)
        try:
            imp = [[int(x) for x in t[:3]] for t in g.items(missing=missing, transpose=tr)]
        except Exception:
            imp = "err"
        replay = {"stream": "grid", "n": n, "ncols": ncols, "missing": missing, "transpose": tr, "impl": imp}
        if "ok" not in r:
            ctx.disagreement("grid", replay, "model %s" % (r,))
        elif int(g.nrows) != r["ok"]["nrows"] or imp != r["ok"]["items"]:
            # the Lean `gridItems` is the specification itself (the C20_grid_* theorems are about it)
            ctx.violation("grid:items:%s%s" % ("missing" if missing else "data", ":transposed" if tr else ""),
                          "DataPlotGrid(n=%d, ncols=%d).items(missing=%s, transpose=%s) yields %s (nrows %s), the grid "
                          "specification gives %s (nrows %s)" % (n, ncols, missing, tr, str(imp)[:120], int(g.nrows),
                                                                 str(r["ok"]["items"])[:120], r["ok"]["nrows"]),
                          dict(replay, spec=r["ok"]))
        if not missing:
            # oracle: the property itself on the real output (data + missing cells cover the grid once)
            try:
                g2 = DataPlotGrid({("k%d" % i): i for i in range(n)}, ncols=ncols)
                cells = [(int(t[1]), int(t[2])) for t in g.items(transpose=tr)]
                cells_d = [(int(t[1]), int(t[2])) for t in g2.items(transpose=tr)]
                payload = [t[3] for t in g.items(transpose=tr)] == list(range(100, 100 + n)) and \
                    [(t[3], t[4]) for t in g2.items(transpose=tr)] == [("k%d" % i, i) for i in range(n)]
                miss = [(int(t[1]), int(t[2])) for t in g.items(missing=True, transpose=tr)]
                idx = [int(t[0]) for t in g.items(transpose=tr)] + [int(t[0]) for t in g.items(missing=True, transpose=tr)]
                full = sorted(cells + miss) == [(a, b) for a in range(int(g.nrows)) for b in range(ncols)]
                ok = full and cells == cells_d and payload and idx == list(range(len(idx))) and \
                    (int(g.nrows) - 1) * ncols < max(n, 1) <= max(int(g.nrows), 1) * ncols
            except Exception as e:
                ok = False
            if not ok:
                ctx.violation("grid:%s" % ("transposed" if tr else "normal"),
                              "DataPlotGrid cells do not cover the grid exactly once for n=%d ncols=%d transpose=%s" % (n, ncols, tr),
                              replay)


# ---------------------------------------------------------------- combination
def combo_stream(ctx, count):
    from scinumtools import DataCombination
    cases = [[[1, 2], [5]], [], [[1, 2, 3], [], [4]], [[1, 2], [3, 4], [5, 6]]]
    for _ in range(count):
        k = ctx.rng.randint(0, 4)
        cases.append([[ctx.rng.randint(0, 9) for _ in range(ctx.rng.choice([0, 1, 2, 2, 3, 3, 4]))] for _ in range(k)])
    res = ctx.driver.ask_many([{"p": "C20", "k": "combo", "items": c} for c in cases])
    for c, r in zip(cases, res):
        ctx.case(["combo", c], sum(len(x) >= 2 for x in c) >= 2, {"combo": c} if len(c) == 3 else None)
        ctx.count("combo.lists", len(c))
        try:
            dc = DataCombination([list(x) for x in c])
            imp = {"keys": [list(k) for k in dc.keys()], "values": [list(v) for v in dc.values()],
                   "items": [[list(k), list(v)] for k, v in dc.items()]}
            # the accessors are pure: a second pass (also after a pass that was left early, and
            # interleaved with the other accessors) must enumerate the same product again
            it = iter(dc.values())
            for _ in range(ctx.rng.randint(0, 2)):
                next(it, None)
            it2 = iter(dc.keys())
            next(it2, None)
            again = {"keys": [list(k) for k in dc.keys()], "values": [list(v) for v in dc.values()],
                     "items": [[list(k), list(v)] for k, v in dc.items()]}
            if again != imp:
                imp = {"first_pass": imp, "second_pass": again}
        except Exception as e:
            imp = "err:%r" % e
        if "ok" not in r or imp != r["ok"]:
            # model == spec here (the Lean product is the specification)
            ctx.violation("combo", "DataCombination differs from the Cartesian product for %s" % c,
                          {"stream": "combo", "items": c, "impl": imp, "spec": r.get("ok")})


def correspond(ctx: Ctx):
    thorough = ctx.tier == "thorough"
    table_stream(ctx, 4000 if thorough else 600, 200 if thorough else 30)
    ltable_stream(ctx, 2000 if thorough else 300, 60 if thorough else 20)
    rc_stream(ctx, 3000 if thorough else 500, 60 if thorough else 15)
    ctor_stream(ctx, 400 if thorough else 60)
    grid_stream(ctx, 120 if thorough else 40, 12 if thorough else 8)
    combo_stream(ctx, 2000 if thorough else 300)
    ctx.extra["exhaustive_part"] = "grid: all n<=%d, ncols<=%d, 4 modes" % ((120, 12) if thorough else (40, 8))
